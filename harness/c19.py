"""C19 — runs in one process are independent of each other.

Every *job* is a sequence of 1-6 runs executed back to back through the embedding API
(`snowfakery.data_generator.generate` with a row-capturing stream, or `snowfakery.generate_data`
writing JSON) inside ONE pristine process: a zygote imports Snowfakery once and forks a child per
job, so each job starts from the state "right after import".  For every run of every sequence the
same run is also executed *first* in its own pristine process (the baseline).

Direct oracle (model-independent), per run at position i > 0:
  * outcome class, exception type and the full ordered row list equal the baseline's
    (PRNGs are re-seeded before every run, so random functions are inputs, not noise;
    fields fed by `unique_id` are masked and checked for *distinctness* across the runs instead);
  * before/after snapshots of every pinned cell (`Gen.GlobalState.cells`: deep fingerprint via
    import + getattr; `cache_info()` for lru caches; `repr(count)` for the counter) and of the
    process-wide state outside the package (cwd, sys.path, os.environ, yaml registries):
    nothing outside the allow-list may change — the executable form of `failed_run_frame`.
Correspondence (model <-> code): the process operations of every run are recorded by wrappers
(`next(context_uniqifier)`, calls of the four lru_cache'd functions with key / hit / result,
`import_module`, `RowHistoryCV.set/get`, `datasets.chdir` enter/leave); the Lean process machine
(`c19.replay`) replays them and has to predict every observation (context numbers, hit or miss,
the value a lookup returns — including the aliased one) and the digest of the cells after every run
(counter, hits/misses/currsize per cache, ContextVar, cwd).  For the deterministic core language the
rows are also compared with the L2 reference interpreter.
"""
import io
import json
import os
import random
import shutil
import signal
import sqlite3
import subprocess
import sys
import tempfile
import time
import traceback

from . import common

SPEC = {
    "lean": ["SnowModel.Props.C19", "SnowModel.Props.C19Bridge"],
    "pins": ["GlobalState"],
    "harness": "harness.c19",
    "technique": "Lean 4 theorems about an executable model of the process (the pinned list of global cells: identity counter, lru caches with CPython's key equality, import cache, ContextVar, cwd) and of a run as an arbitrary interaction tree over the operations on those cells + the global-state scan of snowfakery/** regenerated from the AST on every run with bridging lemmas (every cell classified; writers, readers, import-time effects, mutable defaults, class-attribute writes, external process-wide calls) + run-sequence correspondence in pristine forked processes with recorded cell operations, before/after snapshots of every pinned cell and a fresh-process baseline for every run",
    "level_text": "Machine-checked proof, for every interaction tree (recipe, options, continuation), every process state and every sequence of earlier runs including failing ones, that a run's output is a function of the program and of the cells it reads before overwriting them (frame), that a run changes only the cells its operations write (failed_run_frame), that a deterministic run written against the code's entry points — parse_date / parse_datetimespec with ANY key, since commit 885750c only strings reach the caches — produces in any process exactly its fresh-process output for every behaviour of the libraries behind the caches (runs_independent_full), that generator context numbers never repeat across runs, that the working directory is restored and that generate() leaves the caller's plugin_options alone; what remains false for the code is shown by witnesses replayed on the implementation (D19d import cache; D19 unique ids by design), the repaired defects D19b / D19c survive only as statements about an explicitly parameterised old behaviour.  The model is tied to the source by the global-state scan (38 cells today, each classified) and by replaying the recorded cell operations of real run sequences on the Lean machine.",
    "level_note": "Trusted: Lean kernel; py2lean + tools/pins/global_state.py (AST scan: a cell created through exec/setattr on a foreign module, or state kept inside third-party libraries, is invisible to it — the harness snapshots cwd, sys.path, os.environ and the yaml registries in addition); the harness wrappers that record the cell operations. The interaction-tree model assumes the interpreter reaches process state only through the pinned operations; that assumption is what the pin and the snapshots check. PRNG draws and clock reads are operations of the model but are not recorded one by one (PRNGs are re-seeded before every run instead).",
    "assumptions": [
        "functools.lru_cache: recency list, lookup by ==/hash, hit keeps the stored key object, miss evicts the oldest entry when full (hits/misses/currsize compared with cache_info() after every run)",
        "datetime.__eq__/__hash__ of aware datetimes compare the UTC instant",
        "random.seed / Faker.seed before a run make the PRNG draws of that run a function of the seed",
    ],
    "budget": {"quick": 600, "thorough": 1800},
}

REPO = common.REPO
EPOCH_ORD = 719163  # date(1970,1,1).toordinal()


# =============================================================================================
# child side: runs inside a pristine forked process
# =============================================================================================


class Recorder:
    """Wrappers around the process-wide cells; they only observe."""

    def __init__(self):
        self.ops = []
        self.raising = {}  # cache name -> number of raising calls (counted as misses by CPython)
        self.objs = []  # keeps objects alive so that ids are not reused
        self.tags = {}
        self.hist_ids = {}
        self.run_index = 0
        self.orig = {}
        self.installed = False

    def tag(self, obj):
        k = id(obj)
        if k not in self.tags:
            self.tags[k] = len(self.tags) + 1
            self.objs.append(obj)
        return self.tags[k]

    def enc(self, v):
        import datetime as _dt
        import types

        if isinstance(v, str):
            return ["str", v]
        if isinstance(v, bool):
            return ["obj", self.tag(v)]
        if isinstance(v, int):
            return ["int", v]
        if isinstance(v, _dt.datetime):
            if v.tzinfo is not None and v.utcoffset() is not None:
                off = v.utcoffset()
                inst = v - _dt.datetime(1970, 1, 1, tzinfo=_dt.timezone.utc)
                if inst.microseconds == 0 and inst.seconds % 60 == 0 and off.seconds % 60 == 0 and off.microseconds == 0:
                    return ["aware", inst.days * 1440 + inst.seconds // 60, off.days * 1440 + off.seconds // 60]
                return ["str", "aware:" + v.isoformat()]
            d = v - _dt.datetime(1970, 1, 1)
            if d.microseconds == 0 and d.seconds % 60 == 0:
                return ["naive", d.days * 1440 + d.seconds // 60]
            return ["str", "naive:" + v.isoformat()]
        if isinstance(v, _dt.date):
            return ["date", v.toordinal() - EPOCH_ORD]
        if isinstance(v, tuple) and len(v) == 2 and all(isinstance(x, int) and not isinstance(x, bool) for x in v):
            return ["pair", v[0], v[1]]
        if isinstance(v, types.ModuleType):
            return ["obj", self.tag(v)]
        return ["obj", self.tag(v)]

    def wrap_cache(self, name, orig, nargs):
        rec = self

        def recorder(*args):
            info0 = orig.cache_info()
            try:
                v = orig(*args)
            except BaseException:
                info1 = orig.cache_info()
                if info1.misses > info0.misses:
                    rec.raising[name] = rec.raising.get(name, 0) + 1
                raise
            info1 = orig.cache_info()
            key = args[0] if nargs == 1 else tuple(args)
            rec.ops.append({"op": ["lookup", name, rec.enc(key), rec.enc(v)], "hit": info1.hits > info0.hits,
                            "value": rec.enc(v)})
            return v

        recorder.__name__ = getattr(orig, "__name__", name)
        recorder.cache_info = orig.cache_info
        recorder.cache_clear = orig.cache_clear
        recorder.__wrapped_by_verif__ = orig
        return recorder

    def install(self):
        import importlib

        import snowfakery.data_generator  # noqa
        import snowfakery.api  # noqa
        from snowfakery import template_funcs, object_rows, data_generator_runtime, plugins
        from snowfakery.utils import scrambled_numbers
        from snowfakery.standard_plugins import UniqueId as uid_mod

        for m in ("Counters", "datasets", "Schedule", "_math", "base64", "file"):
            try:
                importlib.import_module("snowfakery.standard_plugins." + m)
            except Exception:  # pragma: no cover
                pass
        from snowfakery.standard_plugins import datasets

        rec = self
        self.caches = {
            # since commit 885750c the caches sit on the string-only helpers (the old shape is still driven,
            # so that a revert is reported with a failing input and not as "cannot drive the code")
            "parse_date": getattr(template_funcs, "_parse_date_str", None) or template_funcs.parse_date,
            "parse_datetimespec": getattr(template_funcs, "_parse_datetime_str", None) or template_funcs.parse_datetimespec,
            "randomizer": scrambled_numbers.randomizer,
            "mask_for_key": scrambled_numbers.mask_for_key,
        }
        for name, orig in list(self.caches.items()):
            if not hasattr(orig, "cache_info"):
                raise RuntimeError(f"{name} is not an lru_cache'd function any more")
        nargs = {"parse_date": 1, "parse_datetimespec": 1, "randomizer": 1, "mask_for_key": 2}
        self.wrapped = {name: self.wrap_cache(name, orig, nargs[name]) for name, orig in self.caches.items()}
        self.rebind()
        # the identity counter
        gen_cls = uid_mod.UniqueNumericIdGenerator
        self.gen_cls = gen_cls
        orig_init = gen_cls.__init__

        def init(self_, *a, **k):
            try:
                return orig_init(self_, *a, **k)
            finally:
                if "unique_identifer" in self_.__dict__:
                    rec.ops.append({"op": ["gen"], "value": self_.unique_identifer})

        gen_cls.__init__ = init
        # the ContextVar
        cv = object_rows.RowHistoryCV
        self.cv = cv

        class CVProxy:
            def set(self_, value):
                rec.hist_ids[id(value)] = rec.run_index
                rec.objs.append(value)
                rec.ops.append({"op": ["setHistory", rec.run_index]})
                return cv.set(value)

            def get(self_, *a):
                v = cv.get(*a)
                rec.ops.append({"op": ["getHistory"], "value": rec.hist_ids.get(id(v))})
                return v

            def reset(self_, token):  # pragma: no cover
                return cv.reset(token)

        proxy = CVProxy()
        for mod in (object_rows, data_generator_runtime):
            if getattr(mod, "RowHistoryCV", None) is cv:
                mod.RowHistoryCV = proxy
        # chdir bracket
        orig_chdir = datasets.chdir
        from contextlib import contextmanager

        @contextmanager
        def chdir(path):
            with orig_chdir(path):
                rec.ops.append({"op": ["enter", os.getcwd()]})
                try:
                    yield
                finally:
                    rec.ops.append({"op": ["leave"]})

        datasets.chdir = chdir
        # the import cache
        orig_import = plugins.import_module

        def import_module(name, *a, **k):
            m = orig_import(name, *a, **k)
            rec.ops.append({"op": ["lookup", "import_module", ["str", name], rec.enc(m)], "hit": None,
                            "value": rec.enc(m)})
            return m

        plugins.import_module = import_module
        self.installed = True

    def rebind(self):
        """every global of a loaded snowfakery module that is one of the cached functions -> its recorder"""
        for mname, mod in list(sys.modules.items()):
            if not mname.startswith("snowfakery") or mod is None:
                continue
            for name, orig in self.caches.items():
                for attr, val in list(mod.__dict__.items()):
                    if val is orig:
                        mod.__dict__[attr] = self.wrapped[name]


def fingerprint(obj, depth=0):
    """Deep, address-free description of a cell's value (never raises)."""
    try:
        return _fingerprint(obj, depth)
    except Exception as e:  # noqa: objects with hostile __getattr__ / __repr__
        return f"<{type(obj).__module__}.{type(obj).__name__}: {type(e).__name__}>"


def _fingerprint(obj, depth=0):
    import enum
    import re
    import types

    if depth > 6:
        return "<deep>"
    if obj is None or isinstance(obj, (bool, int, float, str, bytes)):
        return repr(obj)
    if isinstance(obj, enum.Enum):
        return f"enum:{obj!r}"
    if isinstance(obj, (types.FunctionType, types.BuiltinFunctionType, types.MethodType, type)):
        return f"{getattr(obj, '__module__', '?')}.{getattr(obj, '__qualname__', getattr(obj, '__name__', '?'))}"
    if isinstance(obj, dict):
        return "{" + ",".join(sorted(fingerprint(k, depth + 1) + ":" + fingerprint(v, depth + 1) for k, v in obj.items())) + "}"
    if isinstance(obj, (list, tuple)):
        return "[" + ",".join(fingerprint(x, depth + 1) for x in obj) + "]"
    if isinstance(obj, (set, frozenset)):
        return "set(" + ",".join(sorted(fingerprint(x, depth + 1) for x in obj)) + ")"
    if isinstance(obj, re.Pattern):
        return "re:" + obj.pattern
    if callable(getattr(type(obj), "cache_info", None)):
        ci = obj.cache_info()
        return f"lru(hits={ci.hits},misses={ci.misses},maxsize={ci.maxsize},currsize={ci.currsize})"
    tn = type(obj).__module__ + "." + type(obj).__name__
    if tn == "itertools.count":
        return repr(obj)
    if tn.startswith("faker."):
        return "instance:" + tn  # PRNG holder: identity only
    if tn.endswith("ContextVar"):
        return "contextvar"
    d = getattr(obj, "__dict__", None)
    if isinstance(d, dict) and depth < 3:
        return tn + fingerprint({k: v for k, v in d.items() if not k.startswith("__")}, depth + 1)
    return tn + ":" + repr(obj)[:80]


def resolve_cell(relfile, qual):
    import importlib

    mod = importlib.import_module("snowfakery." + relfile[:-3].replace("/", "."))
    obj = mod
    for part in qual.split("."):
        if isinstance(obj, type) and part in obj.__dict__:
            obj = obj.__dict__[part]
        else:
            obj = getattr(obj, part)
    return getattr(obj, "__wrapped_by_verif__", obj)


def snapshot(cells, rec):
    import yaml
    from snowfakery.utils.yaml_utils import SnowfakeryDumper

    snap = {}
    for relfile, qual, kind in cells:
        key = relfile + ":" + qual
        try:
            obj = resolve_cell(relfile, qual)
        except Exception as e:
            snap[key] = f"<unresolvable {type(e).__name__}>"
            continue
        if kind == "contextvar":
            v = rec.cv.get(None)
            snap[key] = "hist:" + str(rec.hist_ids.get(id(v)) if v is not None else None)
        else:
            snap[key] = fingerprint(obj)
    snap["ext:cwd"] = os.getcwd()
    snap["ext:sys.path"] = json.dumps(sys.path)
    snap["ext:os.environ"] = fingerprint(dict(os.environ))
    snap["ext:yaml.SafeLoader.constructors"] = fingerprint(sorted(str(k) for k in yaml.SafeLoader.yaml_constructors))
    snap["ext:yaml.SafeDumper.representers"] = fingerprint(sorted(str(k) for k in yaml.SafeDumper.yaml_representers))
    snap["ext:SnowfakeryDumper.representers"] = fingerprint(sorted(str(k) for k in SnowfakeryDumper.yaml_representers))
    snap["ext:sys.modules"] = len(sys.modules)
    for k, v in settings_vector().items():
        snap["set:" + k] = v
    return snap


def settings_vector():
    """Process-wide settings of the standard library / third-party modules that code of the package could write
    (the cells `Proc.settings` of the model).  Everything is read without changing it (umask is read by set-and-restore)."""
    import csv
    import decimal
    import gc
    import locale
    import logging
    import signal
    import socket
    import threading
    import time
    import warnings

    v = {}
    v["csv.field_size_limit"] = repr(csv.field_size_limit())
    v["csv.list_dialects"] = repr(sorted(csv.list_dialects()))
    v["sys.getrecursionlimit"] = repr(sys.getrecursionlimit())
    v["sys.getswitchinterval"] = repr(sys.getswitchinterval())
    v["sys.excepthook"] = fingerprint(sys.excepthook)
    v["sys.displayhook"] = fingerprint(sys.displayhook)
    v["sys.gettrace"] = repr(sys.gettrace())
    v["sys.getprofile"] = repr(sys.getprofile())
    v["sys.dont_write_bytecode"] = repr(sys.dont_write_bytecode)
    v["sys.meta_path"] = repr(len(sys.meta_path))
    v["sys.path_hooks"] = repr(len(sys.path_hooks))
    v["threading.excepthook"] = fingerprint(threading.excepthook)
    try:
        v["locale.getlocale"] = repr([locale.setlocale(c) for c in (locale.LC_CTYPE, locale.LC_NUMERIC, locale.LC_TIME, locale.LC_COLLATE,
                                                                     locale.LC_MONETARY)])
    except Exception as e:  # pragma: no cover
        v["locale.getlocale"] = "error " + type(e).__name__
    c = decimal.getcontext()
    v["decimal.getcontext"] = repr((c.prec, c.rounding, c.Emin, c.Emax, c.capitals, c.clamp, sorted(str(t) for t, on in c.traps.items() if on)))
    v["warnings.filters"] = fingerprint([(f[0], str(f[1]), getattr(f[2], "__name__", str(f[2])), str(f[3]), f[4]) for f in warnings.filters])
    v["warnings.showwarning"] = fingerprint(warnings.showwarning)
    v["signal.handlers"] = repr([(n, fingerprint(signal.getsignal(getattr(signal, n)))) for n in ("SIGINT", "SIGTERM", "SIGHUP", "SIGUSR1", "SIGPIPE")
                                 if hasattr(signal, n) and n != "SIGALRM"])
    v["socket.getdefaulttimeout"] = repr(socket.getdefaulttimeout())
    v["gc"] = repr((gc.isenabled(), gc.get_threshold()))
    v["time.tzname"] = repr((time.tzname, time.timezone))
    um = os.umask(0)
    os.umask(um)
    v["os.umask"] = oct(um)
    root = logging.getLogger()
    v["logging.root"] = repr((root.level, len(root.handlers), logging.raiseExceptions, len(logging.Logger.manager.loggerDict) >= 0))
    v["logging.snowfakery"] = repr([(n, lg.level, len(getattr(lg, "handlers", []))) for n, lg in sorted(logging.Logger.manager.loggerDict.items())
                                    if n.startswith("snowfakery") and hasattr(lg, "level")])
    v["io.DEFAULT_BUFFER_SIZE"] = repr(io.DEFAULT_BUFFER_SIZE)
    try:
        import atexit

        v["atexit"] = repr(atexit._ncallbacks())
    except Exception:  # pragma: no cover
        pass
    try:
        import yaml

        v["yaml.resolvers"] = repr(sum(len(x) for x in yaml.SafeLoader.yaml_implicit_resolvers.values()))
    except Exception:  # pragma: no cover
        pass
    return v


def cell_digest(rec):
    import re

    m = re.fullmatch(r"count\((\d+)\)", repr(rec.gen_cls.__dict__["context_uniqifier"]))
    d = {"ctx": int(m.group(1)) if m else None, "cwd": os.getcwd()}
    v = rec.cv.get(None)
    d["history"] = rec.hist_ids.get(id(v)) if v is not None else None
    for name, orig in rec.caches.items():
        ci = orig.cache_info()
        d[name] = {"hits": ci.hits, "misses": ci.misses, "currsize": ci.currsize, "raising": rec.raising.get(name, 0)}
    return d


def json_rows(text):
    try:
        data = json.loads(text)
    except Exception:
        return [["<unparsable json>", [["text", {"t": "str", "v": text[:200]}]]]]
    out = []
    for row in data:
        table = row.get("_table")
        out.append([table, [[k, jv(v)] for k, v in row.items() if k != "_table"]])
    return out


def jv(v):
    if isinstance(v, bool):
        return {"t": "bool", "v": v}
    if isinstance(v, str):
        return {"t": "str", "v": v}
    return v


def sync_state(d, spec):
    """the embedding application's file system at the time of this run: `state` maps relative names to text, to
    {"dir": true} (a directory of that name) or to None (does not exist)"""
    os.makedirs(d, exist_ok=True)
    with open(os.path.join(d, "recipe.yml"), "w") as f:
        f.write(spec["recipe"])
    for rel, content in spec["state"].items():
        p = os.path.join(d, rel)
        if os.path.isdir(p) and not (isinstance(content, dict) and content.get("dir")):
            shutil.rmtree(p)
        elif os.path.isfile(p) and (content is None or isinstance(content, dict)):
            os.remove(p)
        if content is None:
            continue
        if isinstance(content, dict):
            os.makedirs(p, exist_ok=True)
            continue
        os.makedirs(os.path.dirname(p), exist_ok=True)
        with open(p, "w", newline="") as f:
            f.write(content)


def run_one(spec, rec, workroot, shared_dicts):
    """Execute one run; returns the JSON-able result."""
    from faker import Faker
    from snowfakery.data_generator import generate
    from snowfakery.api import SnowfakeryApplication, COUNT_REPS, generate_data
    from snowfakery.data_generator_runtime import StoppingCriteria

    rec.ops = []
    rec.rebind()
    if spec.get("state") is not None and spec.get("dir"):
        sync_state(os.path.join(workroot, spec["dir"]), spec)
    random.seed(spec.get("seed", 0))
    Faker.seed(spec.get("seed", 0))
    res = {"rid": spec["rid"], "outcome": None, "error": None, "rows": [], "exc": None}
    # caller-owned arguments: an embedding application may hand the SAME objects to consecutive calls
    if spec.get("po_key") is not None:
        po = shared_dicts.setdefault(spec["po_key"], dict(spec.get("plugin_options") or {}))
    else:
        po = dict(spec["plugin_options"]) if spec.get("plugin_options") is not None else None
    po_before = dict(po) if po is not None else None
    if spec.get("uo_key") is not None:
        uo = shared_dicts.setdefault("uo:" + spec["uo_key"], dict(spec.get("options") or {}))
    else:
        uo = dict(spec.get("options") or {})
    passthrough = shared_dicts.setdefault("passthrough", []) if not spec.get("passthrough") else list(spec["passthrough"])
    update_input = os.path.join(workroot, spec["dir"], spec["update_input"]) if spec.get("update_input") else None
    dburls = shared_dicts.setdefault("dburls", [])
    out = io.StringIO()
    output_files = [out]
    owned = {"user_options": uo, "update_passthrough_fields": passthrough, "dburls": dburls, "output_files": output_files}

    def arg_fp(v):
        if isinstance(v, dict):
            return json.dumps(v, sort_keys=True, default=repr)
        return json.dumps([x if isinstance(x, (int, str, bool, type(None))) else "obj@%d" % id(x) for x in v])

    owned_before = {k: arg_fp(v) for k, v in owned.items()}
    res["user_options_before"] = json.loads(json.dumps(uo, default=repr))
    path = os.path.join(workroot, spec["dir"], "recipe.yml") if spec.get("dir") else None
    tgt = spec.get("target")
    reps = spec.get("reps")
    cont_in = io.StringIO(spec["continuation"]) if spec.get("continuation") else None
    try:
        if spec.get("api") == "generate_data":
            kw = {}
            if tgt:
                kw["target_number"] = (tgt[1], tgt[0])
            elif reps:
                kw["target_number"] = (reps, COUNT_REPS)
            generate_data(path if path else io.StringIO(spec["recipe"]), user_options=uo, dburls=dburls,
                          output_format="json", output_files=output_files, plugin_options=po, continuation_file=cont_in,
                          update_passthrough_fields=passthrough, update_input_file=update_input, **kw)
            res["rows"] = json_rows(out.getvalue())
            res["outcome"] = "ok"
        else:
            stream = common.make_capture_stream()
            sc = StoppingCriteria(tgt[0], tgt[1]) if tgt else (StoppingCriteria(COUNT_REPS, reps) if reps else None)
            app = SnowfakeryApplication(sc)
            app.echo = lambda *a, **k: None
            src = open(path) if path else io.StringIO(spec["recipe"])
            try:
                try:
                    generate(src, uo, stream, parent_application=app,
                             continuation_file=cont_in, plugin_options=po, update_passthrough_fields=passthrough,
                             update_input_file=update_input)
                    res["outcome"] = "ok"
                finally:
                    res["rows"] = [[t, [[k, v] for k, v in fs]] for t, fs in stream.rows]
            finally:
                src.close()
    except BaseException as e:  # noqa
        if isinstance(e, (KeyboardInterrupt, SystemExit)):
            raise
        res["outcome"] = common.outcome_of_exception(e)
        res["exc"] = type(e).__name__
        res["error"] = f"{type(e).__name__}: {str(e)[:200]}"
    res["ops"] = rec.ops
    owned_after = {k: arg_fp(v) for k, v in owned.items()}
    res["args_changed"] = {k: [owned_before[k], owned_after[k]] for k in owned if owned_before[k] != owned_after[k]}
    if po is not None:
        res["po_before"] = po_before
        res["po_after"] = {k: (v if isinstance(v, (int, str, bool, type(None))) else repr(v)) for k, v in po.items()}
    return res


def run_sequence(job, cells):
    rec = Recorder()
    rec.install()
    out = {"runs": [], "start": None}
    out["start"] = cell_digest(rec)
    shared = {}
    for i, spec in enumerate(job["runs"]):
        rec.run_index = i
        before = snapshot(cells, rec)
        r = run_one(spec, rec, job["workroot"], shared)
        after = snapshot(cells, rec)
        r["changed"] = sorted(k for k in before if before[k] != after.get(k))
        r["changes"] = {k: [before[k][:160] if isinstance(before[k], str) else before[k],
                            after[k][:160] if isinstance(after[k], str) else after[k]] for k in r["changed"]}
        r["after"] = cell_digest(rec)
        out["runs"].append(r)
    return out


def zygote_main(argv):
    """python -m harness.c19 zygote <jobs.json> <outdir> <nproc>"""
    jobs_path, outdir, nproc = argv[0], argv[1], int(argv[2])
    if REPO not in sys.path:
        sys.path.insert(0, REPO)
    import warnings

    warnings.filterwarnings("ignore")
    with open(jobs_path) as f:
        payload = json.load(f)
    jobs, cells = payload["jobs"], payload["cells"]
    # import everything a run needs, but run nothing
    import snowfakery  # noqa
    import snowfakery.data_generator  # noqa
    import snowfakery.api  # noqa
    import faker  # noqa
    import importlib

    for m in ("Counters", "datasets", "Schedule", "_math", "base64", "file", "UniqueId"):
        try:
            importlib.import_module("snowfakery.standard_plugins." + m)
        except Exception:
            pass
    live = {}

    def reap_one():
        try:
            pid, status = os.waitpid(-1, 0)
        except ChildProcessError:
            live.clear()
            return
        idx = live.pop(pid, None)
        if idx is not None and not os.path.exists(os.path.join(outdir, f"{idx}.json")):
            with open(os.path.join(outdir, f"{idx}.json"), "w") as f:
                json.dump({"crash": f"child exit status {status}"}, f)

    for idx, job in enumerate(jobs):
        while len(live) >= nproc:
            reap_one()
        pid = os.fork()
        if pid == 0:
            code = 0
            try:
                signal.signal(signal.SIGALRM, signal.SIG_DFL)
                signal.alarm(120)
                try:
                    res = run_sequence(job, cells)
                except BaseException:  # noqa
                    res = {"crash": traceback.format_exc()[-3000:]}
                tmp = os.path.join(outdir, f"{idx}.json.tmp")
                with open(tmp, "w") as f:
                    json.dump(res, f, default=str)
                os.replace(tmp, os.path.join(outdir, f"{idx}.json"))
            except BaseException:  # noqa
                code = 3
            finally:
                os._exit(code)
        live[pid] = idx
    while live:
        reap_one()
    return 0


# =============================================================================================
# parent side
# =============================================================================================


def pinned_cells():
    from tools.pins import global_state

    return [list(c) for c in sorted(set(global_state.scan()["cells"]))]


def materialise(spec, workroot):
    if not spec.get("dir"):
        return
    d = os.path.join(workroot, spec["dir"])
    if os.path.exists(d):
        return
    os.makedirs(d)
    with open(os.path.join(d, "recipe.yml"), "w") as f:
        f.write(spec["recipe"])
    for rel, content in (spec.get("files") or {}).items():
        p = os.path.join(d, rel)
        os.makedirs(os.path.dirname(p), exist_ok=True)
        if isinstance(content, dict) and "sqlite" in content:
            con = sqlite3.connect(p)
            for table, (cols, rows) in content["sqlite"].items():
                con.execute(f'CREATE TABLE "{table}" (' + ", ".join(f'"{c}" TEXT' for c in cols) + ")")
                con.executemany(f'INSERT INTO "{table}" VALUES (' + ",".join("?" for _ in cols) + ")", rows)
            con.commit()
            con.close()
        else:
            with open(p, "w", newline="") as f:
                f.write(content)


def run_jobs(jobs, cells, nproc=None):
    """jobs: [[spec…]…] -> list of results (same order)."""
    if not jobs:
        return []
    nproc = nproc or max(2, min(12, (os.cpu_count() or 4) - 2))
    work = tempfile.mkdtemp(prefix="verif_c19_")
    try:
        workroot = os.path.join(work, "specs")
        os.makedirs(workroot)
        outdir = os.path.join(work, "out")
        os.makedirs(outdir)
        # specs with a "state" (files that appear / disappear between the runs of one process) get a directory private to the job
        jobs = [[(dict(spec, dir=f"{spec['dir']}_j{ji}") if spec.get("state") is not None and spec.get("dir") else spec) for spec in job]
                for ji, job in enumerate(jobs)]
        for job in jobs:
            for spec in job:
                materialise(spec, workroot)
        with open(os.path.join(work, "jobs.json"), "w") as f:
            json.dump({"jobs": [{"runs": job, "workroot": workroot} for job in jobs], "cells": cells}, f)
        env = dict(os.environ, VERIF_REPO=REPO, PYTHONHASHSEED="0")
        env["PYTHONPATH"] = os.pathsep.join([common.ROOT, REPO] + ([env["PYTHONPATH"]] if env.get("PYTHONPATH") else []))
        p = subprocess.run([sys.executable, "-m", "harness.c19", "zygote", os.path.join(work, "jobs.json"), outdir, str(nproc)],
                           cwd=work, env=env, stdout=subprocess.PIPE, stderr=subprocess.PIPE, timeout=3000)
        if p.returncode != 0:
            raise RuntimeError("zygote failed: " + p.stderr.decode()[-3000:])
        out = []
        for i in range(len(jobs)):
            fp = os.path.join(outdir, f"{i}.json")
            if not os.path.exists(fp):
                out.append({"crash": "no result file"})
                continue
            with open(fp) as f:
                out.append(json.load(f))
        # paths below the work dir are replaced so that results are comparable across check runs
        return json.loads(json.dumps(out).replace(work, "<work>"))
    finally:
        shutil.rmtree(work, ignore_errors=True)


# ---------------------------------------------------------------------------------- recipe pool

SAFE_WORDS = ["alpha", "beta", "gamma", "delta", "omega", "kappa", "sigma", "tau"]


def _rid(spec):
    return common.case_hash({k: v for k, v in spec.items() if k not in ("rid", "dir")})


def finish(spec, needs_dir=False):
    spec.setdefault("seed", 7)
    spec.setdefault("features", [])
    spec.setdefault("mask", [])
    spec["rid"] = _rid(spec)
    if needs_dir or spec.get("files"):
        spec["dir"] = spec.get("dirname") or ("d_" + spec["rid"])
    return spec


def gen_l2(rng):
    from . import recipes

    g = recipes.L2Gen(rng)
    rc = g.recipe()
    k = rng.choice([1, 1, 2, 3])
    return finish({"kind": "l2", "recipe": recipes.recipe_yaml(rc), "reps": k, "l2": rc, "det": True,
                   "options": ({"zz_unused": 1} if rng.random() < 0.5 else {}),
                   "api": rng.choice(["generate", "generate", "generate", "generate_data"])})


def gen_ref(rng):
    from . import recipes

    g = recipes.RefGen(rng, hostile_names=0.05)
    r = g.recipe()
    return finish({"kind": "ref", "recipe": recipes.dump(r), "reps": rng.choice([1, 2, 3]), "det": True})


def gen_vars(rng):
    v = rng.choice([2, 3])
    w = rng.choice(SAFE_WORDS)
    n = rng.randint(2, 4)
    scope = rng.choice(["current-iteration", "prior-and-current-iterations"])
    text = f"""- snowfakery_version: {v}
- var: greeting
  value: {w}
- var: base
  value: ${{{{ {rng.randint(2, 9)} * 3 }}}}
- object: Owner
  nickname: boss
  just_once: true
  fields:
    name: {w}-owner
    lucky:
      random_number:
        min: 1
        max: 1000
- object: Pet
  count: {n}
  nickname: pet
  fields:
    name: ${{{{greeting}}}}-${{{{child_index}}}}
    score: ${{{{base + id}}}}
    owner:
      reference: boss
    kind:
      random_choice:
        - cat
        - dog
        - {w}
    fakename:
      fake: first_name
- object: Visit
  count: {rng.randint(1, 3)}
  fields:
    who:
      random_reference:
        to: Pet
        scope: {scope}
    again:
      random_reference: pet
    petname: ${{{{Pet.name}}}}
"""
    return finish({"kind": "vars", "recipe": text, "reps": rng.choice([1, 2, 3]), "det": True, "seed": rng.randint(1, 5),
                   "features": ["random", "nicknames", "variables", "just_once", "random_reference"],
                   "api": rng.choice(["generate", "generate_data"])})


def gen_counters(rng):
    start = rng.choice([1, 5, 100])
    step = rng.choice([1, 2, 10])
    d0 = rng.choice(["2024-02-27", "2023-12-30", "2000-01-01"])
    datespec = rng.choice([d0, f'"{d0}"'])
    named = rng.random() < 0.5
    text = f"""- snowfakery_version: 3
- plugin: snowfakery.standard_plugins.Counters
- object: Item
  count: {rng.randint(2, 4)}
  fields:
    n:
      Counters.NumberCounter:
        start: {start}
        step: {step}{'''
        name: shared''' if named else ''}
    d:
      Counters.DateCounter:
        start_date: {datespec}
        step: +{rng.randint(1, 40)}d
- object: Other
  count: 2
  fields:
    n:
      Counters.NumberCounter:
        start: {start}
        step: {step}{'''
        name: shared''' if named else ''}
"""
    return finish({"kind": "counters", "recipe": text, "reps": rng.choice([1, 2]), "det": True, "features": ["plugin", "memorable"]})


def gen_uid(rng):
    v = rng.choice([2, 3])
    text = f"""- snowfakery_version: {v}
- plugin: snowfakery.standard_plugins.UniqueId
- var: LocalGen
  value:
    UniqueId.NumericIdGenerator:
      template: index
- var: CtxGen
  value:
    UniqueId.NumericIdGenerator:
      template: context, index
- var: Alpha
  value:
    UniqueId.AlphaCodeGenerator:
      min_chars: {rng.choice([6, 8, 10])}
- object: Thing
  count: {rng.randint(2, 4)}
  fields:
    uid_default: ${{{{unique_id}}}}
    uid_plugin: ${{{{UniqueId.unique_id}}}}
    uid_ctx: ${{{{CtxGen.unique_id}}}}
    uix_local: ${{{{LocalGen.unique_id}}}}
    uix_alpha: ${{{{Alpha.unique_id}}}}
    plain: ${{{{id * 2}}}}
"""
    po = {"pid": rng.randint(1, 99)} if rng.random() < 0.5 else None
    return finish({"kind": "uid", "recipe": text, "reps": rng.choice([1, 2]), "det": False, "mask": ["uid_"],
                   "plugin_options": po, "features": ["unique_id"]})


def _csv(rng, tagword):
    cols = ["name", "qty"]
    rows = [[f"{tagword}{i}", str(rng.randint(1, 50))] for i in range(rng.randint(1, 4))]
    return "name,qty\n" + "".join(",".join(r) + "\n" for r in rows), cols, rows


def gen_dataset(rng):
    """Same relative URL text in different directories, different contents."""
    tagword = rng.choice(SAFE_WORDS) + str(rng.randint(0, 99))
    sql = rng.random() < 0.45
    fn = "iterate" if sql or rng.random() < 0.7 else "shuffle"
    broken = rng.random() < 0.12
    csvtext, cols, rows = _csv(rng, tagword)
    if sql:
        url = "sqlite:///data.db"
        files = {"data.db": {"sqlite": {"stuff": [cols, rows]}}}
    else:
        url = "data.csv"
        files = {"data.csv": csvtext}
    if broken:
        files = {"unrelated.txt": "x"} if not sql else {"data.db": {"sqlite": {}}}
    text = f"""- snowfakery_version: 3
- plugin: snowfakery.standard_plugins.datasets.Dataset
- object: Row
  count: {rng.randint(1, 5)}
  fields:
    __rec:
      Dataset.{fn}:
        dataset: {url}
    name: ${{{{__rec.name}}}}
    qty: ${{{{__rec.qty}}}}
    tag: {tagword}
"""
    return finish({"kind": "dataset", "recipe": text, "files": files, "reps": rng.choice([1, 2]), "det": True,
                   "seed": rng.randint(1, 5), "features": ["dataset", "sql" if sql else "csv"] + (["failing"] if broken else [])},
                  needs_dir=True)


def _fmt_dt(minutes, off):
    import datetime as _dt

    tz = _dt.timezone(_dt.timedelta(minutes=off))
    d = _dt.datetime(1970, 1, 1, tzinfo=_dt.timezone.utc) + _dt.timedelta(minutes=minutes)
    s = d.astimezone(tz).strftime("%Y-%m-%d %H:%M:%S")
    sign = "+" if off >= 0 else "-"
    return f"{s}{sign}{abs(off) // 60:02d}:{abs(off) % 60:02d}"


INSTANTS = [28928160, 28928160 + 1920, 28401120 + 1200, 29000000 - 29000000 % 60, 27000000 + 480]
OFFSETS = [0, 60, -300, 330, -720, 540, 840]


def gen_dates(rng, aware_mix=None):
    """date / datetime through strings, date objects, naive datetimes and aware datetimes.
    aware_mix=True: instants from a small pool under different offsets (the D19b family; since commit 885750c
    repaired D19b this is the default for most date recipes of the main pool); aware_mix=False: offset +00:00."""
    if aware_mix is None:
        aware_mix = rng.random() < 0.7
    inst = rng.choice(INSTANTS)
    off = rng.choice(OFFSETS) if aware_mix else 0
    day = rng.choice(["2024-03-01", "2023-12-31", "2025-01-01"])
    naive = rng.choice(["2024-05-05 10:30:00", "2023-01-01 00:00:00"])
    text = f"""- snowfakery_version: 3
- object: Stamp
  count: 2
  fields:
    dt_aware:
      datetime: {_fmt_dt(inst, off)}
    day_aware:
      date: {_fmt_dt(inst, off)}
    dz_zone:
      datetime:
        datetimespec: {_fmt_dt(inst, off)}
        timezone:
          relativedelta:
            hours: 5
    dz_naive:
      datetime:
        datetimespec: {_fmt_dt(inst, off)}
        timezone: False
    db_aware:
      date_between:
        start_date: {_fmt_dt(inst, off)}
        end_date: {_fmt_dt(inst, off)}
    d_obj:
      date: {day}
    d_str:
      date: "{day}"
    dt_naive:
      datetime: {naive}
    dt_str:
      datetime: "{naive}"
    between:
      date_between:
        start_date: {day}
        end_date: 2026-01-01
    dtb:
      datetime_between:
        start_date: "{naive}"
        end_date: 2026-01-01 00:00:00
"""
    return finish({"kind": "aware" if aware_mix else "dates", "recipe": text, "reps": 1, "det": True, "seed": rng.randint(1, 5),
                   "features": ["dates", "aware"] + (["aware_mix"] if aware_mix else []), "aware": [inst, off]})


def gen_schedule_math(rng):
    text = f"""- snowfakery_version: 3
- plugin: snowfakery.standard_plugins.Schedule
- plugin: snowfakery.standard_plugins.Math
- object: Meeting
  count: {rng.randint(2, 4)}
  fields:
    when:
      Schedule.Event:
        start_date: {rng.choice(['2024-01-0' + str(rng.randint(1, 9)), '2023-06-15'])}
        freq: {rng.choice(['daily', 'weekly', 'monthly'])}
    root: ${{{{Math.sqrt({rng.choice([4, 9, 16, 144])})}}}}
    big: ${{{{Math.max(id, {rng.randint(1, 3)})}}}}
"""
    return finish({"kind": "schedule", "recipe": text, "reps": rng.choice([1, 2]), "det": True, "features": ["plugin"]})


PLUGIN_SRC = """from snowfakery import SnowfakeryPlugin
from snowfakery.plugins import PluginResult, memorable


class Box(PluginResult):
    pass


class {cls}(SnowfakeryPlugin):
    class Functions:
        def val(self):
            return "{val}"

        def bump(self):
            ctx = self.context.context_vars()
            ctx["n"] = ctx.get("n", 0) + 1
            return ctx["n"]

        @memorable
        def remembered(self, x=0):
            return Box({{"v": "{val}"}})
"""


def gen_plugin(rng, alias=False):
    """A plugin next to the recipe (`plugins/<module>.py`).  alias=False: module name unique per directory;
    alias=True: every directory uses the module name `shared_plug` (D19d family)."""
    val = rng.choice(SAFE_WORDS) + str(rng.randint(0, 999))
    mod = "shared_plug" if alias else "plug_" + val
    text = f"""- snowfakery_version: 3
- plugin: {mod}.Local
- object: P
  count: {rng.randint(1, 3)}
  fields:
    plug: ${{{{Local.val()}}}}
    n: ${{{{Local.bump()}}}}
    mem: ${{{{Local.remembered().v}}}}
"""
    return finish({"kind": "plugin_alias" if alias else "plugin", "recipe": text, "det": True, "reps": rng.choice([1, 2]),
                   "files": {f"plugins/{mod}.py": PLUGIN_SRC.format(cls="Local", val=val)},
                   "features": ["local_plugin"] + (["alias"] if alias else [])}, needs_dir=True)


def gen_fail(rng):
    w = rng.choice(SAFE_WORDS)
    variants = [
        # fails after some rows were written
        f"- snowfakery_version: 3\n- object: A\n  count: 4\n  fields:\n    x: ${{{{ 10 / (3 - id) }}}}\n    w: {w}\n",
        # undefined name (v3) in the second template
        f"- snowfakery_version: 3\n- object: A\n  nickname: {w}\n  fields:\n    x: 1\n- object: B\n  fields:\n    y: ${{{{nosuch_{w}.x}}}}\n",
        # YAML syntax error
        f"- object: A\n  fields: [unclosed\n    x: {w}\n",
        # unknown function
        f"- object: A\n  fields:\n    x:\n      no_such_function_{w}: 3\n",
        # random_reference to a table that does not exist
        f"- object: A\n  fields:\n    x:\n      random_reference: Nowhere{w}\n",
        # unfulfilled forward reference
        f"- object: A\n  fields:\n    x:\n      reference: Later{w}\n",
        # plugin that cannot be found
        f"- plugin: nowhere_{w}.Nothing\n- object: A\n",
        # unique id generator with a bad template: advances the process-wide counter, then raises
        f"- snowfakery_version: 3\n- plugin: snowfakery.standard_plugins.UniqueId\n- var: G\n  value:\n    UniqueId.NumericIdGenerator:\n      template: index, bogus{w}\n- object: A\n  fields:\n    x: ${{{{G.unique_id}}}}\n",
        # bad date string (raising call of a cached function)
        f"- snowfakery_version: 3\n- object: A\n  count: 2\n  fields:\n    ok:\n      date: 2024-01-01\n    bad:\n      date: not-a-date-{w}\n",
        # missing option
        f"- option: needed_{w}\n- object: A\n  fields:\n    x: ${{{{needed_{w}}}}}\n",
        # stopping table that no template creates
        None,
    ]
    i = rng.randrange(len(variants))
    if variants[i] is None:
        return finish({"kind": "fail", "recipe": f"- object: A\n  fields:\n    x: {w}\n", "target": ["Nope" + w, 3], "det": True,
                       "features": ["failing"]})
    return finish({"kind": "fail", "recipe": variants[i], "reps": 1, "det": True, "features": ["failing", f"fail{i}"]})


def gen_dataset_fail_inside(rng):
    """A dataset lookup that fails *inside* the chdir bracket (file missing / wrong extension / missing column)."""
    w = rng.choice(SAFE_WORDS)
    which = rng.choice(["missing", "ext", "column"])
    url = {"missing": "nofile.csv", "ext": "data.txt", "column": "data.csv"}[which]
    text = f"""- snowfakery_version: 3
- plugin: snowfakery.standard_plugins.datasets.Dataset
- object: Before
  fields:
    w: {w}
- object: Row
  count: 2
  fields:
    __rec:
      Dataset.iterate:
        dataset: {url}
    v: ${{{{__rec.nosuchcolumn}}}}
"""
    return finish({"kind": "fail", "recipe": text, "files": {"data.csv": "name\nx\n", "data.txt": "name\nx\n"}, "reps": 1, "det": True,
                   "features": ["failing", "dataset", "fail-in-bracket"]}, needs_dir=True)


def gen_continuation(rng, cells_unused=None):
    """second half of a continued run: the continuation text is an input like the recipe"""
    w = rng.choice(SAFE_WORDS)
    text = f"""- snowfakery_version: 3
- object: Parent
  just_once: true
  nickname: par
  fields:
    name: {w}
- object: Child
  count: 2
  fields:
    parent:
      reference: par
    n: ${{{{id}}}}
"""
    r = common.run_recipe(text, reps=rng.choice([1, 2]), want_continuation=True)
    if r.outcome != "ok":
        return gen_vars(rng)
    return finish({"kind": "cont", "recipe": text, "continuation": r.continuation, "reps": rng.choice([1, 2]), "det": True,
                   "features": ["continuation", "just_once"]})


OPT_NAMES = ["alpha", "beta", "gamma"]


def opt_group(rng, n=None):
    """The `user_options` counterpart of `po_pair`: 2-4 DIFFERENT recipes that declare overlapping option names with
    different defaults, run by an application that passes ONE non-empty `user_options` dict to all of them (some
    names supplied, some not, one key no recipe declares)."""
    key = "uo" + str(rng.randint(0, 99999))
    supplied = {"zeta": rng.randint(1, 9)}
    for nme in OPT_NAMES:
        if rng.random() < 0.3:
            supplied[nme] = rng.randint(100, 199)
    out = []
    for _ in range(n or rng.randint(2, 4)):
        names = [x for x in OPT_NAMES if rng.random() < 0.75] or [rng.choice(OPT_NAMES)]
        decls = []
        text = "- snowfakery_version: 3\n"
        for nme in names:
            if rng.random() < 0.08:
                decls.append([nme, None])
                text += f"- option: {nme}\n"
            else:
                d = rng.randint(1, 60)
                decls.append([nme, d])
                text += f"- option: {nme}\n  default: {d}\n"
        text += "- object: O\n  count: 2\n  fields:\n" + "".join(f"    o_{nme}: ${{{{{nme}}}}}\n" for nme in names)
        out.append(finish({"kind": "opt", "recipe": text, "reps": 1, "det": True, "options": dict(supplied), "uo_key": key,
                           "decls": decls, "api": rng.choice(["generate", "generate", "generate_data"]),
                           "features": ["shared_user_options"]}))
    return out


def po_pair(rng):
    """D19c family: the caller reuses ONE plugin_options dict for two calls."""
    key = "shared" + str(rng.randint(0, 999))
    po = {"pid": rng.randint(1, 50)}
    a = finish({"kind": "po", "recipe": "- snowfakery_version: 3\n- object: A\n  fields:\n    x: ${{child_index}}\n", "reps": 1, "det": True,
                "plugin_options": po, "po_key": key, "features": ["shared_plugin_options"]})
    b = finish({"kind": "po", "recipe": "- object: B\n  count: 2\n  fields:\n    x: ${{child_index}}\n    y: ${{ 5 - 9 }}\n", "reps": 1, "det": True,
                "plugin_options": po, "po_key": key, "features": ["shared_plugin_options"]})
    return [a, b]


def gen_update(rng):
    """update mode: `update_input_file=` (the run kind in which `build_update_recipe` executes)"""
    w = rng.choice(SAFE_WORDS)
    n = rng.randint(1, 4)
    csvtext = "name,qty,keep\n" + "".join(f"{w}{i},{rng.randint(1, 50)},k{i}\n" for i in range(n))
    v = rng.choice([2, 3])
    text = f"- snowfakery_version: {v}\n- object: Acc\n  fields:\n    newname: up-${{{{input.name}}}}\n    q: ${{{{input.qty}}}}\n"
    return finish({"kind": "update", "recipe": text, "files": {"input.csv": csvtext}, "update_input": "input.csv",
                   "passthrough": (["keep"] if rng.random() < 0.5 else []), "det": True,
                   "api": rng.choice(["generate", "generate_data"]), "features": ["update_mode"]}, needs_dir=True)


def gen_bigcsv(rng):
    """a CSV dataset with one very long field: above csv's default `field_size_limit` (131072) it is rejected — alone and
    after any history —, below it the recipe emits the length"""
    over = rng.random() < 0.7
    size = rng.choice([131073, 140000, 200000]) if over else rng.choice([1000, 100000, 131071])
    csvtext = "name,big\nfirst," + ("x" * size) + "\n"
    text = """- snowfakery_version: 3
- plugin: snowfakery.standard_plugins.datasets.Dataset
- object: Row
  count: 1
  fields:
    __rec:
      Dataset.iterate:
        dataset: data.csv
    name: ${{__rec.name}}
    n: ${{__rec.big | length}}
"""
    return finish({"kind": "bigcsv", "recipe": text, "files": {"data.csv": csvtext}, "reps": 1, "det": True, "size": size,
                   "features": ["dataset", "csv", "big_field"] + (["failing"] if over else [])}, needs_dir=True)


def gen_misc_plugins(rng):
    w = rng.choice(SAFE_WORDS) + str(rng.randint(0, 99))
    text = f"""- snowfakery_version: 3
- plugin: snowfakery.standard_plugins.base64.Base64
- plugin: snowfakery.standard_plugins.file.File
- object: Doc
  count: 2
  fields:
    body:
      File.file_data:
        file: note.txt
    b64:
      Base64.encode: ${{{{body}}}}-${{{{id}}}}
"""
    return finish({"kind": "misc", "recipe": text, "files": {"note.txt": "note " + w}, "reps": 1, "det": True, "features": ["plugin"]},
                  needs_dir=True)


def resource_groups(rng):
    """FAILING runs followed by runs that touch the same resources (same directory, same paths / names) once the cause is
    gone: every group is a list of run specifications sharing one job-private directory; `state` is the complete file
    state at the time of the run, so the fresh-process baseline of a run sees the same files."""
    groups = []
    w = rng.choice(SAFE_WORDS) + str(rng.randint(0, 999))
    dn = "grp_" + w

    def spec(kind, recipe, state, **kw):
        return finish(dict({"kind": kind, "recipe": recipe, "state": state, "reps": 1, "det": True, "dirname": dn + "_" + kind,
                            "features": ["resource_group"]}, **kw), needs_dir=True)

    # include_file: missing / a directory, then present; then another recipe including the same path; include cycle, then fixed
    inc = f"- object: Inc\n  fields:\n    w: {w}\n"
    main = f"- include_file: inc.yml\n- object: Main\n  fields:\n    v: {rng.randint(1, 9)}\n"
    other = f"- object: First\n- include_file: inc.yml\n"
    bad = rng.choice([None, {"dir": True}])
    groups.append([spec("g_include", main, {"inc.yml": bad}), spec("g_include", main, {"inc.yml": inc}),
                   spec("g_include", other, {"inc.yml": inc}), spec("g_include", main, {"inc.yml": bad}),
                   spec("g_include", other, {"inc.yml": inc})])
    cyc_a = "- include_file: b.yml\n- object: A\n"
    groups.append([spec("g_cycle", cyc_a, {"b.yml": "- include_file: recipe.yml\n- object: B\n"}),
                   spec("g_cycle", cyc_a, {"b.yml": "- object: B\n"}),
                   spec("g_cycle", cyc_a, {"b.yml": "- include_file: b.yml\n"}),
                   spec("g_cycle", cyc_a, {"b.yml": "- object: B\n  fields:\n    x: 1\n"})])
    # macros: a macro that includes itself / an unknown macro, then good recipes using the same macro names
    good_macro = f"- macro: addr\n  fields:\n    street: {w} road\n- object: P\n  include: addr\n  fields:\n    n: 1\n"
    self_macro = "- macro: addr\n  include: addr\n  fields:\n    street: x\n- object: P\n  include: addr\n"
    unknown_macro = "- object: P\n  include: addr\n"
    two = f"- macro: addr\n  include: zip\n  fields:\n    street: s\n- macro: zip\n  fields:\n    code: {rng.randint(10000, 99999)}\n- object: Q\n  include: addr\n"
    groups.append([spec("g_macro", self_macro, {}), spec("g_macro", good_macro, {}), spec("g_macro", unknown_macro, {}),
                   spec("g_macro", two, {}), spec("g_macro", self_macro, {}), spec("g_macro", two, {})])
    # dataset file: missing, then created under the same name
    ds = ("- snowfakery_version: 3\n- plugin: snowfakery.standard_plugins.datasets.Dataset\n- object: Row\n  count: 2\n  fields:\n"
          "    __rec:\n      Dataset.iterate:\n        dataset: data.csv\n    name: ${{__rec.name}}\n")
    groups.append([spec("g_dataset", ds, {"data.csv": None}), spec("g_dataset", ds, {"data.csv": f"name\n{w}1\n{w}2\n"}),
                   spec("g_dataset", ds, {"data.csv": None}), spec("g_dataset", ds, {"data.csv": f"name\n{w}3\n"})])
    # update input file: missing, then created
    up = "- snowfakery_version: 3\n- object: Acc\n  fields:\n    n: up-${{input.name}}\n"
    groups.append([spec("g_update", up, {"input.csv": None}, update_input="input.csv"),
                   spec("g_update", up, {"input.csv": f"name\n{w}\n"}, update_input="input.csv"),
                   spec("g_update", up, {"input.csv": "name\n"}, update_input="input.csv")])
    # plugin next to the recipe: class missing in the module, then a plugin under another module name in the same directory
    plug = "- snowfakery_version: 3\n- plugin: {m}.Local\n- object: P\n  fields:\n    plug: ${{{{Local.val()}}}}\n"
    m1, m2 = "gp_" + w + "a", "gp_" + w + "b"
    # (the `plugins` directory exists from the start; the directory appearing only later is the D58 regression group below)
    groups.append([spec("g_plugin", plug.format(m="gp_missing_" + w), {"plugins/readme.txt": "x"}),
                   spec("g_plugin", plug.format(m=m1), {"plugins/readme.txt": "x", f"plugins/{m1}.py": "x = 1\n"}),
                   spec("g_plugin", plug.format(m=m2), {"plugins/readme.txt": "x", f"plugins/{m1}.py": "x = 1\n",
                                                        f"plugins/{m2}.py": PLUGIN_SRC.format(cls="Local", val=w)})])
    # D58 (repaired by commit b940bd9; its signature only labels a relapse): the recipe's `plugins` directory does not exist at
    # the first (failing) attempt and is created afterwards
    m3 = "gp_" + w + "c"
    groups.append([spec("g_plugdir", plug.format(m=m3), {}, features=["resource_group", "late_plugin_dir"]),
                   spec("g_plugdir", plug.format(m=m3), {f"plugins/{m3}.py": PLUGIN_SRC.format(cls="Local", val=w)},
                        features=["resource_group", "late_plugin_dir"])])
    # every member names every file of its group (absent = None), so that the state is complete whatever ran before
    out = []
    for g in groups:
        rels = sorted({r for sp in g for r in sp["state"]})
        out.append([finish(dict({k: v for k, v in sp.items() if k not in ("rid", "dir")},
                                state={r: sp["state"].get(r) for r in rels}), needs_dir=True) for sp in g])
    return out


def keeps_order(seq):
    """groups whose later members rely on Python's import cache semantics (a module file that disappears stays imported)
    are only run in their written order"""
    return any(s["kind"] in ("g_plugin", "g_plugdir") for s in seq)


GENS = [(gen_update, 3), (gen_bigcsv, 3), (gen_misc_plugins, 1), (gen_l2, 6), (gen_ref, 2), (gen_vars, 3), (gen_counters, 2), (gen_uid, 3), (gen_dataset, 4), (gen_dates, 3),
        (gen_schedule_math, 1), (gen_plugin, 2), (gen_fail, 4), (gen_dataset_fail_inside, 1), (gen_continuation, 1)]


def gen_pool(rng, n):
    fns = [f for f, w in GENS for _ in range(w)]
    pool = []
    for _ in range(n):
        pool.append(rng.choice(fns)(rng))
    return pool


def gen_sequence(rng, pool):
    k = rng.choice([2, 2, 3, 3, 4, 5, 6])
    seq = [rng.choice(pool) for _ in range(k)]
    # bias: same recipe twice, failing run right before a good one
    if rng.random() < 0.3:
        seq.append(seq[0])
    return seq


# ---------------------------------------------------------------------------------- fixed cases


def fixed_sequences():
    """Hand-written sequences that always run (the known-finding families and the seeded-mutation shape)."""
    rng = random.Random(1234)
    out = []
    # D19b: same instant, different offsets, both orders
    def aware(inst, off):
        text = ("- snowfakery_version: 3\n- object: Stamp\n  fields:\n    dt_aware:\n      datetime: " + _fmt_dt(inst, off)
                + "\n    day_aware:\n      date: " + _fmt_dt(inst, off) + "\n    dz_naive:\n      datetime:\n        datetimespec: "
                + _fmt_dt(inst, off) + "\n        timezone: False\n")
        return finish({"kind": "aware", "recipe": text, "reps": 1, "det": True, "features": ["dates", "aware", "aware_mix"], "aware": [inst, off]})

    out.append([aware(28928160 + 1920, -720), aware(28928160 + 1920, 0)])
    out.append([aware(28928160 + 1920, 0), aware(28928160 + 1920, -720)])
    # D19d: two directories, same plugin module name
    out.append([gen_plugin(rng, alias=True), gen_plugin(rng, alias=True)])
    # D19c
    out.append(po_pair(rng))
    # caller-owned user_options: one non-empty dict, different recipes declaring the same option with different defaults
    uo = {"zeta": 4}
    a = finish({"kind": "opt", "recipe": "- snowfakery_version: 3\n- option: alpha\n  default: 1\n- object: O\n  fields:\n    o_alpha: ${{alpha}}\n",
                "reps": 1, "det": True, "options": dict(uo), "uo_key": "fixed", "decls": [["alpha", 1]], "features": ["shared_user_options"]})
    b = finish({"kind": "opt", "recipe": "- snowfakery_version: 3\n- option: alpha\n  default: 2\n- option: beta\n  default: 5\n- object: O\n  fields:\n    o_alpha: ${{alpha}}\n    o_beta: ${{beta}}\n",
                "reps": 1, "det": True, "options": dict(uo), "uo_key": "fixed", "decls": [["alpha", 2], ["beta", 5]], "features": ["shared_user_options"]})
    out.append([a, b])
    out.append(opt_group(rng, 3))
    # process-wide settings: an update-mode run, then a CSV dataset whose field is above csv's default limit (rejected alone,
    # must be rejected after any history), and the other way round
    big, upd = None, gen_update(rng)
    while big is None or big["size"] <= 131072:
        big = gen_bigcsv(rng)
    out.append([upd, big])
    out.append([big, upd, gen_misc_plugins(rng), big])
    # failing runs followed by runs that touch the same resources
    out.extend(resource_groups(rng))
    # the seeded-mutation shape: same relative URL text, different directories, both kinds
    for _ in range(2):
        a, b = gen_dataset(rng), gen_dataset(rng)
        out.append([a, b, a])
    # failed run, then the same recipe family
    out.append([gen_dataset_fail_inside(rng), gen_dataset(rng)])
    out.append([gen_fail(rng), gen_vars(rng), gen_fail(rng), gen_vars(rng)])
    out.append([gen_uid(rng), gen_uid(rng), gen_uid(rng)])
    return out


# ---------------------------------------------------------------------------------- checking


def mask_rows(rows, prefixes):
    if not prefixes:
        return rows
    return [[t, [[k, ("<masked>" if any(k.startswith(p) for p in prefixes) else v)] for k, v in fs]] for t, fs in rows]


def masked_values(rows, prefixes):
    return [json.dumps(v, sort_keys=True) for t, fs in rows for k, v in fs if any(k.startswith(p) for p in prefixes)]


def canon_result(spec, r):
    return {"outcome": r["outcome"], "exc": r.get("exc"), "rows": mask_rows(r["rows"], spec.get("mask"))}


ALLOWED_CHANGES = {
    "standard_plugins/UniqueId.py:UniqueNumericIdGenerator.context_uniqifier",
    "template_funcs.py:_parse_date_str",
    "template_funcs.py:_parse_datetime_str",
    "template_funcs.py:parse_date",  # the cells before commit 885750c (revert tests)
    "template_funcs.py:parse_datetimespec",
    "utils/scrambled_numbers.py:randomizer",
    "utils/scrambled_numbers.py:mask_for_key",
    "object_rows.py:RowHistoryCV",
    "template_funcs.py:StandardFuncs.Functions._faker_for_dates",
    "ext:sys.modules",  # imports of plugin modules
    # PluginResult subclasses register themselves for continuation files when a plugin module is imported
    "ext:yaml.SafeLoader.constructors",
    "ext:SnowfakeryDumper.representers",
    "ext:yaml.SafeDumper.representers",
}


# D19b (repaired by commit 885750c; the entry is "fixed", so this signature suppresses nothing): the fields through which
# the date-cache aliasing was observable after f914bf1 — `date:` / `date_between` of an aware datetime and `datetime:` with
# a non-default zone.  A difference confined to them that the cache replay explains is reported under D19b's signature,
# anything else under the generic one.
ALIAS_FIELDS = {"day_aware", "dz_zone", "dz_naive", "db_aware"}


def differing_fields(a_rows, b_rows):
    out = set()
    if len(a_rows) != len(b_rows):
        return {"<row count>"}
    for (ta, fa), (tb, fb) in zip(a_rows, b_rows):
        if ta != tb or [k for k, _ in fa] != [k for k, _ in fb]:
            return {"<shape>"}
        for (k, va), (_, vb) in zip(fa, fb):
            if va != vb:
                out.add(k)
    return out


def model_check(rep, case, seq, res):
    """Replay the recorded operations of the whole sequence on the Lean process machine."""
    runs = [[o["op"] for o in r["ops"]] for r in res["runs"]]
    req = {"m": "c19.replay", "ctx0": res["start"]["ctx"], "cwd0": res["start"]["cwd"], "runs": runs}
    (st, val), = common.model_batch([req])
    if st != "ok":
        rep.disagreement("c19.replay:driver-error", case, val, None)
        return False
    ok = True
    explained_alias = set()  # (run index) whose lookups returned an aliased value, as the model predicted
    base_hits = {k: res["start"][k] for k in ("parse_date", "parse_datetimespec", "randomizer", "mask_for_key")}
    for i, (r, m) in enumerate(zip(res["runs"], val)):
        for j, (o, mo) in enumerate(zip(r["ops"], m["ops"])):
            kind = o["op"][0]
            obs = mo["obs"]
            if kind == "gen":
                if obs != ["nat", o["value"]]:
                    rep.disagreement("c19.replay:context-number", dict(case, run=i, op=j), obs, o["value"])
                    ok = False
            elif kind == "lookup":
                if obs[0] != "val" or obs[1] != o["value"]:
                    rep.disagreement("c19.replay:lookup-value", dict(case, run=i, op=j, key=o["op"][2]), obs, o["value"])
                    ok = False
                elif o["hit"] is not None and obs[2] != o["hit"]:
                    rep.disagreement("c19.replay:hit-or-miss", dict(case, run=i, op=j, key=o["op"][2]), obs, o["hit"])
                    ok = False
                elif o["hit"] is False and mo["spec"] is not None and mo["spec"] != o["value"]:
                    rep.disagreement("c19.replay:computed-value", dict(case, run=i, op=j, key=o["op"][2]), mo["spec"], o["value"])
                    ok = False
                if o["hit"] and mo["spec"] is not None and mo["spec"] != o["value"] and obs[1] == o["value"]:
                    explained_alias.add(i)
                if o["op"][1] == "import_module" and o["op"][3] != o["value"]:
                    pass
            elif kind == "getHistory":
                want = ["hist", o["value"]]
                if obs != want:
                    rep.disagreement("c19.replay:contextvar", dict(case, run=i, op=j), obs, want)
                    ok = False
        a, ra = m["after"], r["after"]
        mine = {"ctx": a["ctx"], "cwd": a["cwd"], "history": a["history"]}
        real = {"ctx": ra["ctx"], "cwd": ra["cwd"], "history": ra["history"]}
        for c in ("parse_date", "parse_datetimespec", "randomizer", "mask_for_key"):
            mine[c] = [a[c]["hits"] + base_hits[c]["hits"], a[c]["misses"] + base_hits[c]["misses"] + ra[c]["raising"],
                       a[c]["currsize"] + base_hits[c]["currsize"]]
            real[c] = [ra[c]["hits"], ra[c]["misses"], ra[c]["currsize"]]
        if mine != real:
            rep.disagreement("c19.replay:cells-after-run", dict(case, run=i), mine, real)
            ok = False
        rep.count("ops-replayed", len(r["ops"]))
    res["_explained_alias"] = sorted(explained_alias)
    ok = datetime_view_check(rep, case, seq, res, val) and ok
    ok = dialect_check(rep, case, seq, res) and ok
    ok = options_check(rep, case, seq, res) and ok
    rep.traces_validated += 1
    return ok


def _enc_row_datetime(v):
    """captured {"t": "datetime", "v": iso} -> model key"""
    import datetime as _dt

    if not (isinstance(v, dict) and v.get("t") == "datetime"):
        return None
    d = _dt.datetime.fromisoformat(v["v"])
    if d.tzinfo is None:
        delta = d - _dt.datetime(1970, 1, 1)
        return ["naive", delta.days * 1440 + delta.seconds // 60]
    delta = d - _dt.datetime(1970, 1, 1, tzinfo=_dt.timezone.utc)
    off = d.utcoffset()
    return ["aware", delta.days * 1440 + delta.seconds // 60, off.days * 1440 + off.seconds // 60]


def datetime_view_check(rep, case, seq, res, replay):
    """`Functions.datetime` = `datetimeFn tz` applied to what the cache returned (model: the replayed observation):
    the emitted dt_aware (default zone), dz_zone (+05:00), dz_naive (timezone: False) must be exactly that."""
    reqs, metas = [], []
    for i, (spec, r, m) in enumerate(zip(seq, res["runs"], replay)):
        if not spec.get("aware") or r["outcome"] != "ok" or spec.get("api") == "generate_data" or not r["rows"]:
            continue
        key = ["aware", spec["aware"][0], spec["aware"][1]]
        served = None
        for o, mo in zip(r["ops"], m["ops"]):
            if o["op"][:3] == ["lookup", "parse_datetimespec", key] and mo["obs"][0] == "val":
                served = mo["obs"][1]
                break
        if served is None:
            # since commit 885750c a datetime argument never reaches the cache: parse_datetimespec answers directly
            served = key
        fields = dict((k, v) for k, v in r["rows"][0][1])
        for fname, tz in (("dt_aware", 0), ("dz_zone", 300), ("dz_naive", None)):
            if fname in fields:
                reqs.append({"m": "c19.datetime", "tz": tz, "v": served})
                metas.append((i, fname, fields[fname]))
    ok = True
    for (i, fname, real), (st, val) in zip(metas, common.model_batch(reqs)):
        rep.count("datetime-view-compared")
        if st != "ok" or val != _enc_row_datetime(real):
            rep.disagreement("c19.datetime:view", dict(case, run=i, field=fname), val, real)
            ok = False
    return ok


def options_check(rep, case, seq, res):
    """one `user_options` dict passed to several generate() calls of recipes with overlapping option declarations: every
    run resolves its options as the model does with read-only access (`runShared (generateOptions false)`)."""
    if not seq or any(s["kind"] != "opt" for s in seq) or len({s.get("uo_key") for s in seq}) != 1:
        return True
    user = sorted((k, v) for k, v in (seq[0].get("options") or {}).items())
    req = {"m": "c19.options", "writesBack": False, "user": [list(e) for e in user], "calls": [s["decls"] for s in seq]}
    ((st, val),) = common.model_batch([req])
    rep.count("options-compared")
    if st != "ok":
        rep.disagreement("c19.options:driver", case, val, None)
        return False
    ok = True
    for i, (spec, r, m) in enumerate(zip(seq, res["runs"], val)):
        if m is None:
            observed = None if r["outcome"] != "ok" else "ok"
            want = None
        else:
            want = {k: v for k, v in m if any(k == d[0] for d in spec["decls"])}
            if r["outcome"] != "ok" or not r["rows"]:
                observed = r["outcome"]
            else:
                observed = {k[2:]: v for k, v in r["rows"][0][1] if k.startswith("o_")}
        if observed != want:
            rep.disagreement("c19.options", dict(case, run=i), want, observed)
            ok = False
    return ok


def dialect_check(rep, case, seq, res):
    """one plugin_options dict passed to several generate() calls: the dialect every call runs under is the model's
    (`dialects copies:=true`, the repaired code); observed through `${{child_index}}` of the first row ('0' vs 0)."""
    if not seq or any(s["kind"] != "po" for s in seq) or len({s.get("po_key") for s in seq}) != 1:
        return True
    import re

    versions, observed = [], []
    for spec, r in zip(seq, res["runs"]):
        m = re.search(r"snowfakery_version: (\d)", spec["recipe"])
        versions.append(int(m.group(1)) if m else None)
        x = dict((k, v) for k, v in r["rows"][0][1]).get("x") if r["rows"] else None
        observed.append(2 if isinstance(x, dict) else 3)
    d = sorted((k, v) for k, v in (seq[0].get("plugin_options") or {}).items() if isinstance(v, int))
    ((st, val),) = common.model_batch([{"m": "c19.dialects", "copies": True, "dict": [list(e) for e in d], "versions": versions}])
    rep.count("dialects-compared")
    if st != "ok" or val != observed:
        rep.disagreement("c19.dialects", case, val, observed)
        return False
    return True


def l2_check(rep, spec, base):
    """The rows of the baseline run against the L2 reference interpreter (no continuation file is written:
    `final_save: false`); together with the position-i == baseline oracle this is "each run's output equals the
    model's output for that recipe alone"."""
    if not spec.get("l2") or spec.get("api") == "generate_data":
        return
    from . import l2

    (m,) = common.model_batch([{"m": "l2.run", "recipe": spec["l2"], "parts": [spec["reps"]], "final_save": False}])

    class Chain:
        pass

    ch = Chain()
    ch.outcome, ch.error = base["outcome"], base["error"]
    ch.rows = [(t, [(k, v) for k, v in fs]) for t, fs in base["rows"]]
    r = l2.compare(rep, "c19.l2", {"recipe": spec["recipe"], "parts": [spec["reps"]], "ast": spec["l2"]}, ch, m)
    rep.count("l2:" + r)


def slim(spec):
    return {k: v for k, v in spec.items() if k not in ("l2",)}


def check_sequence(rep, seq, res, baselines, known):
    """Oracle + correspondence for one executed sequence."""
    case = {"kind": "seq", "runs": [slim(s) for s in seq]}
    if "crash" in res:
        rep.disagreement("c19:child-crashed", case, None, res["crash"])
        return
    model_ok = model_check(rep, case, seq, res)
    uid_seen = {}
    for i, (spec, r) in enumerate(zip(seq, res["runs"])):
        rep.count("kind:" + spec["kind"])
        rep.count("outcome:" + r["outcome"].split(":")[0])
        rep.count("position:" + str(i))
        base = baselines.get(spec["rid"])
        pcase = dict(case, position=i)
        # --- snapshots: nothing outside the allow-list changes (also for failed runs)
        changed_settings = [c for c in r["changed"] if c.startswith("set:")]
        if changed_settings:
            rep.violation("C19:process-setting-changed",
                          f"run {i} ({spec['kind']}, {r['outcome']}) left process-wide setting(s) of other modules changed: "
                          + "; ".join(f"{c[4:]}: {r['changes'][c][0]} -> {r['changes'][c][1]}" for c in changed_settings),
                          pcase, {c[4:]: r["changes"][c][0] for c in changed_settings}, {c[4:]: r["changes"][c][1] for c in changed_settings})
        bad = [c for c in r["changed"] if c not in ALLOWED_CHANGES and not c.startswith("set:")]
        if bad:
            sig = "C19:cell-changed-by-run:" + bad[0].split(":", 1)[0].replace("ext", "external") + ":" + bad[0].split(":", 1)[1]
            rep.violation(sig, f"run {i} ({spec['kind']}, {r['outcome']}) changed process state outside the allow-list: {bad}",
                          pcase, None, {c: r["changes"][c] for c in bad})
        # --- every caller-owned mutable argument is deep-equal before and after the call
        if r.get("args_changed"):
            names = sorted(r["args_changed"])
            rep.violation("C19:caller-argument-mutated",
                          f"run {i} ({spec['kind']}, {r['outcome']}) changed caller-owned argument(s) {names}: "
                          + "; ".join(f"{k}: {v[0]} -> {v[1]}" for k, v in sorted(r["args_changed"].items())),
                          pcase, {k: v[0] for k, v in r["args_changed"].items()}, {k: v[1] for k, v in r["args_changed"].items()})
        # --- the caller's plugin_options dict
        if r.get("po_before") is not None and r["po_after"] != r["po_before"]:
            rep.violation("C19:plugin-options-dict-mutated",
                          f"generate() changed the plugin_options dict passed by the caller: {r['po_before']} -> {r['po_after']}",
                          pcase, r["po_before"], r["po_after"])
        # --- identity: unique ids never repeat across the runs of a process
        for v in masked_values(r["rows"], spec.get("mask")):
            if v in uid_seen and uid_seen[v] != i:
                rep.violation("C19:unique-id-repeats-across-runs", f"unique id {v} of run {uid_seen[v]} appears again in run {i}", pcase)
            uid_seen.setdefault(v, i)
        if base is None or i == 0:
            continue
        # --- output at position i == output when run first in a fresh process
        got, want = canon_result(spec, r), canon_result(spec, base)
        if got != want:
            fields = differing_fields(got["rows"], want["rows"]) if got["outcome"] == want["outcome"] else {"<outcome>"}
            sig = "C19:output-depends-on-earlier-runs"
            feats = set(spec.get("features", []))
            if "aware" in feats and fields and fields <= ALIAS_FIELDS and i in res.get("_explained_alias", []):
                sig = "C19:datetime-cache-aliasing-across-runs"
            elif "late_plugin_dir" in feats and want["outcome"] == "ok" and got["exc"] == "DataGenImportError":
                sig = "C19:plugin-directory-created-after-failed-import"
            elif "alias" in feats and fields and fields <= {"plug", "mem"}:
                sig = "C19:local-plugin-module-aliasing"
            elif "shared_plugin_options" in feats and r.get("po_before") != base.get("po_before"):
                sig = "C19:plugin-options-dict-mutated"
            rep.violation(sig, f"run {i} ({spec['kind']}) differs from the same run executed first in a fresh process; differing: {sorted(fields)}",
                          pcase, want, got)
        # ids start at 1 (per table) whenever the baseline's did
        rep.count("compared-with-baseline")
    nontrivial = len(seq) >= 2 and any(r["ops"] for r in res["runs"]) and len({s["rid"] for s in seq}) >= 2
    rep.case({"runs": [s["rid"] for s in seq], "kinds": [s["kind"] for s in seq]}, nontrivial=nontrivial)
    return model_ok


def execute(rep, sequences, known, do_l2=True):
    cells = pinned_cells()
    specs = {}
    for seq in sequences:
        for s in seq:
            specs.setdefault(s["rid"], s)
    base_jobs = [[s] for s in specs.values()]
    results = run_jobs(base_jobs + sequences, cells)
    baselines = {}
    for (spec,), res in zip(base_jobs, results[: len(base_jobs)]):
        if "crash" in res:
            rep.disagreement("c19:child-crashed", {"kind": "seq", "runs": [slim(spec)]}, None, res["crash"])
            continue
        baselines[spec["rid"]] = res["runs"][0]
        check_sequence(rep, [spec], res, {}, known)
        if do_l2:
            l2_check(rep, spec, res["runs"][0])
    for seq, res in zip(sequences, results[len(base_jobs):]):
        check_sequence(rep, seq, res, baselines, known)


def run(ctx, rep, findings):
    rep.rule = (
        "Sequences of 2-7 runs drawn from a pool of generated run specifications (L2Gen/RefGen recipes incl. failing ones; "
        "vars/nicknames/just_once/random_reference/random_choice/fake with re-seeded PRNGs; Counters; UniqueId (default, plugin, custom "
        "generators, alpha codes); Dataset.iterate/shuffle over CSV and sqlite with the SAME relative URL text in different directories; "
        "dates through strings / date objects / naive / aware datetimes; Schedule + Math; plugins next to the recipe; 12 kinds of "
        "failing runs incl. failures inside the chdir bracket and after rows were written; continued runs; both embedding APIs), each "
        "sequence in one pristine forked process, each run also first in its own pristine process. Non-trivial: >= 2 distinct "
        "run specifications and at least one recorded cell operation. Fixed sequences (finding families, seeded-mutation shape) run first."
    )
    known = {f["signature"] for f in findings if f.get("status") == "finding"}
    rng = ctx.rng
    sequences = []
    for f in findings:
        if f.get("input") and f["input"].get("kind") == "seq":
            sequences.append(f["input"]["runs"])
    for c in ctx.corpus():
        if c.get("kind") == "seq":
            sequences.append(c["runs"])
    sequences += fixed_sequences()
    n_pool = ctx.scale(170, 1100)
    n_seq = ctx.scale(150, 1250)
    pool = gen_pool(rng, n_pool)
    aware_pool = [gen_dates(rng, aware_mix=True) for _ in range(ctx.scale(6, 40))]
    alias_pool = [gen_plugin(rng, alias=True) for _ in range(ctx.scale(3, 12))]
    for _ in range(n_seq):
        sequences.append(gen_sequence(rng, pool))
    for _ in range(ctx.scale(6, 60)):
        sequences.append([rng.choice(aware_pool + pool[:10]) for _ in range(rng.randint(2, 4))])
    for _ in range(ctx.scale(3, 20)):
        sequences.append([rng.choice(alias_pool + pool[:5]) for _ in range(rng.randint(2, 3))])
    for _ in range(ctx.scale(2, 10)):
        sequences.append(po_pair(rng))
    # shared user_options: dedicated sequences, and members of further groups mixed into the pool (interleaved with other kinds)
    for _ in range(ctx.scale(12, 120)):
        g = opt_group(rng)
        sequences.append(g)
        if rng.random() < 0.5:
            other = [rng.choice(pool) for _ in range(rng.randint(1, 2))]
            mixed = g + other
            rng.shuffle(mixed)
            sequences.append(mixed)
    for _ in range(ctx.scale(6, 60)):
        for g in resource_groups(rng):
            k = rng.randint(2, len(g))
            start = rng.randint(0, len(g) - k)
            sub = g[start:start + k]
            if keeps_order(g):
                sub = g[:k]
            elif rng.random() < 0.4:
                sub = sub + [rng.choice(pool)] + [rng.choice(g)]
            sequences.append(sub)
    # orderings: every third sequence also runs reversed
    sequences += [list(reversed(s)) for s in sequences[len(fixed_sequences())::3] if not keeps_order(s)]
    chunk = 120 if ctx.tier == "quick" else 250
    for i in range(0, len(sequences), chunk):
        execute(rep, sequences[i:i + chunk], known)
        unlisted = [v for v in rep.violations if v["signature"] not in known]
        if len(unlisted) + len(rep.disagreements) > 60:
            rep.notes.append("stopped early: more than 60 failing cases collected")
            break
        if ctx.time_left() < 90:
            rep.notes.append("stopped early: time budget")
            break
    rep.extra["cells_snapshotted"] = len(pinned_cells())


def replay(case, rep):
    seq = case["runs"]
    execute(rep, [seq], set(), do_l2=False)


def shrink(case, signature):
    """Drop predecessors / successors while the same signature is still reported."""
    pos = case.get("position")
    if pos is None:
        return case
    runs = case["runs"][: pos + 1]

    def still_fails(prefix_and_target):
        rep = common.Report("C19")
        execute(rep, [prefix_and_target], set(), do_l2=False)
        return any(v["signature"] == signature for v in rep.violations)

    target = runs[-1]
    pred = runs[:-1]
    if pred:
        try:
            keep = common.shrink_list(pred, lambda cand: still_fails(cand + [target]), max_rounds=12)
            if still_fails(keep + [target]):
                pred = keep
        except Exception:  # noqa
            pass
    return {"kind": "seq", "runs": pred + [target], "position": len(pred)}


if __name__ == "__main__":
    if len(sys.argv) >= 2 and sys.argv[1] == "zygote":
        sys.exit(zygote_main(sys.argv[2:]))
