"""C02 — no dangling references: every emitted reference resolves to an emitted row."""
from . import l1, l1cases

SPEC = {
    "lean": ["SnowModel.Props.C02", "SnowModel.Props.C02L2", "SnowModel.Props.L1Bridge"],
    "pins": ["Runtime", "ObjectRows", "ObjectModel"],
    "technique": "Lean 4 invariant proof over arbitrary op sequences of the id/slot/registry machine (every handed-out reference is an issued id; at a successful boundary it is a created row; an unfulfilled forward reference aborts) + AST pins + op-by-op trace correspondence + direct resolvability oracle on emitted rows",
    "level_text": "Machine-checked proof, for every op sequence of the L1 machine, that whatever a name lookup hands out is an id issued for that table, that at every successful iteration boundary it names a created row (this iteration, an earlier one or an earlier continuation run), that created rows are never forgotten, and that a reserved id whose target is never created makes the end-of-iteration check fail; the same is carried through the L2 reference interpreter (Props/C02L2: for every recipe of the modelled language, every reference cell in the output of a completed chain names the id of a created row of that table, and an unfulfilled forward reference makes `iterations` fail); tied to the code by trace replay and by checking every captured reference cell against the emitted rows per iteration.",
    "level_note": "Trusted: Lean kernel, py2lean, trace wrappers. Dotted-path references and references produced inside formulas are covered by the L2 differential (C03), not by the L1 trace. References into hidden `__` tables and literal reference:{object,id} pairs are out of scope by the property's own text. random_reference targets are C10's.",
    "assumptions": ["nicknames_and_tables is a dict (unique keys)"],
}

ORACLES = [l1.oracle_refs_resolve, l1.oracle_dense_ids]
GEN = {"hostile_names": 0.2}

FIXED = [
    # D01 (fixed by ae1111e): stored forward-reference slot written after its consumption
    {"recipe": "- object: A\n  fields:\n    ref:\n      reference: B\n    child:\n      - object: B\n- object: B\n", "parts": [1], "features": ["reference", "nested"]},
    # D02 (fixed by 3997a0f): nickname shared by two tables + forward reference
    {"recipe": "- object: A\n  fields:\n    ref:\n      reference: n1\n- object: B\n  nickname: n1\n- object: C\n  nickname: n1\n", "parts": [2], "features": ["reference"]},
    # forward reference never fulfilled: must fail
    {"recipe": "- object: A\n  fields:\n    ref:\n      reference: B\n- object: B\n  count: 0\n", "parts": [1], "features": ["reference", "count0"]},
    # self and cyclic references
    {"recipe": "- object: A\n  nickname: n1\n  fields:\n    me:\n      reference: A\n    other:\n      reference: n2\n- object: B\n  nickname: n2\n  fields:\n    back:\n      reference: n1\n", "parts": [2, 2], "features": ["reference"]},
]


def oracle_unfulfilled_fails(rep, prop, case, chain):
    """A forward reference whose target is never created must make the run fail: in a completed
    chain no `end` op may leave an ALLOCATED slot behind (checked on the real digests)."""
    if chain.outcome != "ok" or not chain.trace:
        return
    prev = None
    for op in chain.trace.ops:
        if op["op"][0] == "end" and "obs" in op and prev is not None:
            alloc = [n for n, s in prev.get("slots", {}).items() if s[0] == "a"]
            if alloc:
                rep.violation(f"{prop}:unfulfilled-completes",
                              f"iteration ended successfully with reserved ids never used: {alloc}", case,
                              "Reference not fulfilled error", alloc)
                return
        if "st" in op:
            prev = op["st"]


ORACLES.append(oracle_unfulfilled_fails)


def carried_case(rng):
    """A forward reference captured in a variable and used by a row of a LATER iteration: the captured
    slot must keep the id its target received (the follower is skipped in the first iteration)."""
    v3 = rng.random() < 0.5
    lines = [f"- snowfakery_version: {3 if v3 else 2}", "- object: M"]
    lines += ["- object: F", "  count: ${{ 0 if M.id == 1 else %d }}" % rng.randint(1, 2), "  fields:"]
    if v3 and rng.random() < 0.5:
        lines += ["    p: ${{prev}}"]
    else:
        lines += ["    p:", "      reference: prev"]
    if rng.random() < 0.5:
        lines += ["- object: X", "  count: %d" % rng.randint(0, 2)]
    lines += ["- var: prev", "  value:", "    reference: %s" % rng.choice(["T", "T", "tn"])]
    lines += ["- object: T", "  nickname: tn"]
    if rng.random() < 0.4:
        lines += ["  count: %d" % rng.randint(1, 2)]
    k = rng.randint(2, 4)
    return {"recipe": "\n".join(lines) + "\n", "parts": [k], "kind": "carried"}


def run_carried(ctx, rep, n):
    from . import common

    for _ in range(n):
        case = carried_case(ctx.rng)
        chain = l1.run_chain(case["recipe"], case["parts"], trace=False, final_continuation=False)
        rep.count("carried:" + chain.outcome.split(":")[0])
        rep.case({"recipe": case["recipe"], "parts": case["parts"]}, nontrivial=chain.outcome == "ok")
        if chain.outcome != "ok":
            continue
        seen = {(t, dict(f).get("id")) for t, f in chain.rows}
        for t, fields in chain.rows:
            for kf, v in fields:
                if isinstance(v, dict) and v.get("t") == "ref" and not v["table"].startswith("__"):
                    if not isinstance(v["id"], int) or (v["table"], v["id"]) not in seen:
                        rep.violation("C02:dangling-ref",
                                      f"{t}.{kf} references {v['table']}({v['id']}) which is never emitted", case,
                                      "a row of the dataset", v)
                        break


def history_case(rng):
    """random_reference over a continuation: just_once and ordinary templates that SHARE a nickname across tables
    (or spell a nickname like a table), re-saved into the row history when a run is continued; every reference
    cell of the whole dataset must name an emitted row."""
    import yaml

    nick = rng.choice(["Owner", "P", "n1"])
    t1 = {"object": "T", "nickname": nick, "just_once": True, "count": rng.randint(1, 4), "fields": {"v": 1}}
    t2 = {"object": "P", "fields": {"v": 2}}
    if rng.random() < 0.8:
        t2["nickname"] = nick
    if rng.random() < 0.3:
        t2["count"] = 2
    users = []
    for i in range(rng.randint(1, 2)):
        f = {"rr": {"random_reference": rng.choice(["P", "P", "T", nick])}}
        if rng.random() < 0.4:
            f["r2"] = {"reference": rng.choice(["P", nick])}
        users.append({"object": "U", "count": rng.randint(1, 3), "fields": f})
    rec = [t1, t2] if rng.random() < 0.6 else [t2, t1]
    rec += users
    k = rng.randint(2, 4)
    parts = rng.choice([c for c in __import__("harness.recipes", fromlist=["x"]).all_compositions(k) if len(c) > 1])
    return {"recipe": yaml.safe_dump(rec, sort_keys=False), "parts": parts, "kind": "history", "seed": rng.randint(0, 10**6)}


def run_history_case(rep, case):
    import random as _random

    _random.seed(case["seed"])
    chain = l1.run_chain(case["recipe"], case["parts"], trace=False, final_continuation=False)
    rep.count("history:" + chain.outcome.split(":")[0])
    rep.case({"recipe": case["recipe"], "parts": case["parts"], "seed": case["seed"]}, nontrivial=chain.outcome == "ok")
    if chain.outcome != "ok":
        return
    rows = [r for run in chain.runs for r in run.rows]
    seen = {(t, dict(f).get("id")) for t, f in rows}
    for t, fields in rows:
        for kf, v in fields:
            if isinstance(v, dict) and v.get("t") == "ref" and not v["table"].startswith("__"):
                if not isinstance(v["id"], int) or (v["table"], v["id"]) not in seen:
                    rep.violation("C02:dangling-ref", f"{t}.{kf} references {v['table']}({v['id']}) which is never emitted (chain {case['parts']})",
                                  case, "a row of the dataset", v)
                    return


def run(ctx, rep, findings):
    rep.rule = ("as C01, biased to references (every order of referencing vs creating: backward, forward, self, cyclic, "
                "by nickname, by table name, both slots reserved); reference cells of captured rows checked per "
                "iteration against the rows emitted so far. Non-trivial: completed, >= 3 rows, uses reference/nested/friends.")
    l1cases.run_l1(ctx, rep, "C02", GEN, ORACLES, findings, 1200, 12000, FIXED)
    run_carried(ctx, rep, ctx.scale(120, 1500))
    for _ in range(ctx.scale(150, 1500)):
        run_history_case(rep, history_case(ctx.rng))
    rep.count("family:random_reference-over-continuation")


def replay(case, rep):
    if case.get("kind") == "history":
        run_history_case(rep, case)
        return
    if case.get("kind") == "carried":
        import random

        class _C:  # minimal ctx stand-in
            rng = random.Random(0)

        chain = l1.run_chain(case["recipe"], case["parts"], trace=False, final_continuation=False)
        seen = {(t, dict(f).get("id")) for t, f in chain.rows}
        for t, fields in chain.rows:
            for kf, v in fields:
                if isinstance(v, dict) and v.get("t") == "ref" and not v["table"].startswith("__"):
                    if not isinstance(v["id"], int) or (v["table"], v["id"]) not in seen:
                        rep.violation("C02:dangling-ref", f"{t}.{kf} references {v['table']}({v['id']}) which is never emitted", case)
        return
    l1cases.replay_l1(case, rep, "C02", ORACLES)


def shrink(case, signature):
    if case.get("kind") in ("carried", "history"):
        return case
    return l1cases.shrink_recipe(case, signature, "C02", ORACLES)
