#!/usr/bin/env python3
"""py2lean — regenerate the Lean "pins" from /repo's current Python source.

Every run of a check calls `regenerate()`: each pin group reads the current AST of one source
file and writes `lean/SnowModel/Generated/<Group>.lean` (only if the text changed, so an
unchanged source costs no rebuild).  Extraction that does not find what it expects (function
gone, different free variables, unsupported syntax) raises `PinError`; the caller reports that
as a broken tie for the properties that use the group.

Scope is deliberately small (see DESIGN.md §2.3):
  * integer expressions  (+ - * // % ** << comparisons, max/min/int/len, .bit_length(),
    random.randint(a,b) -> explicit draw parameter)
  * constants, ordered tables of names/strings, key tables with access kinds, keyword wiring.
Python ints are translated to Lean `Int`; `//` and `%` become `Int.fdiv` / `Int.fmod`
(floor semantics, exactly Python's).
"""
import ast
import json
import os
import sys

REPO = os.environ.get("VERIF_REPO", "/repo")
ROOT = os.path.dirname(os.path.dirname(os.path.abspath(__file__)))
GEN_DIR = os.path.join(ROOT, "lean", "SnowModel", "Generated")


class PinError(Exception):
    pass


# ----------------------------------------------------------------------------- AST helpers


def parse(relpath):
    path = os.path.join(REPO, relpath)
    try:
        with open(path) as f:
            return ast.parse(f.read(), filename=path)
    except (OSError, SyntaxError) as e:  # pragma: no cover
        raise PinError(f"{relpath}: cannot parse: {e}")


def find_func(tree, name, cls=None):
    scope = tree
    if cls is not None:
        for n in ast.walk(tree):
            if isinstance(n, ast.ClassDef) and n.name == cls:
                scope = n
                break
        else:
            raise PinError(f"class {cls} not found")
    for n in ast.walk(scope):
        if isinstance(n, (ast.FunctionDef, ast.AsyncFunctionDef)) and n.name == name:
            return n
    raise PinError(f"function {cls + '.' if cls else ''}{name} not found")


def find_class(tree, cls):
    for n in ast.walk(tree):
        if isinstance(n, ast.ClassDef) and n.name == cls:
            return n
    raise PinError(f"class {cls} not found")


def assignments_to(func, target):
    """All `target = expr` (simple Name targets / attribute `self.x`) in order of appearance."""
    out = []
    for n in ast.walk(func):
        if isinstance(n, ast.Assign) and len(n.targets) == 1:
            t = n.targets[0]
            if (isinstance(t, ast.Name) and t.id == target) or (
                isinstance(t, ast.Attribute) and ast.unparse(t) == target
            ):
                out.append(n)
        if isinstance(n, ast.AugAssign):
            t = n.target
            if (isinstance(t, ast.Name) and t.id == target) or ast.unparse(t) == target:
                out.append(n)
    out.sort(key=lambda n: (n.lineno, n.col_offset))
    return out


def module_constant(tree, name):
    for n in tree.body:
        if isinstance(n, ast.Assign) and len(n.targets) == 1:
            t = n.targets[0]
            if isinstance(t, ast.Name) and t.id == name:
                return n.value
    raise PinError(f"module constant {name} not found")


def class_constant(tree, cls, name):
    c = find_class(tree, cls)
    for n in c.body:
        if isinstance(n, ast.Assign) and len(n.targets) == 1:
            t = n.targets[0]
            if isinstance(t, ast.Name) and t.id == name:
                return n.value
    raise PinError(f"class constant {cls}.{name} not found")


# ----------------------------------------------------------------------------- expressions


class ExprTranslator:
    """Python int expression -> Lean `Int` term (string).

    `params`: mapping python-name -> lean-name for the free variables we allow.
    `consts`: mapping python-name -> lean term (substituted, e.g. `step` -> `1`).
    `draws`: list collecting (lo_term, hi_term) for each `random.randint(lo, hi)` call; the call
             is replaced by the parameter `draw<i>` (or the name given in draw_names).
    """

    def __init__(self, params, consts=None, draw_names=None):
        self.params = dict(params)
        self.consts = dict(consts or {})
        self.draw_names = list(draw_names or [])
        self.draws = []
        self.used = set()

    def tr(self, n):
        if isinstance(n, ast.Constant):
            if isinstance(n.value, bool) or not isinstance(n.value, int):
                raise PinError(f"unsupported constant {n.value!r}")
            return f"({n.value} : Int)" if n.value >= 0 else f"(-{-n.value} : Int)"
        if isinstance(n, ast.Name) or isinstance(n, ast.Attribute):
            name = ast.unparse(n)
            if name in self.consts:
                return self.consts[name]
            if name in self.params:
                self.used.add(name)
                return self.params[name]
            raise PinError(f"unexpected free variable `{name}`")
        if isinstance(n, ast.UnaryOp) and isinstance(n.op, ast.USub):
            return f"(-{self.tr(n.operand)})"
        if isinstance(n, ast.BinOp):
            a, b = self.tr(n.left), self.tr(n.right)
            op = type(n.op)
            if op is ast.Add:
                return f"({a} + {b})"
            if op is ast.Sub:
                return f"({a} - {b})"
            if op is ast.Mult:
                return f"({a} * {b})"
            if op is ast.FloorDiv:
                return f"(Int.fdiv {a} {b})"
            if op is ast.Mod:
                return f"(Int.fmod {a} {b})"
            if op is ast.Pow:
                return f"({a} ^ (Int.toNat {b}))"
            if op is ast.LShift:
                return f"({a} * (2 : Int) ^ (Int.toNat {b}))"
            if op is ast.BitXor:
                return f"(Int.xor {a} {b})"
            raise PinError(f"unsupported operator {op.__name__}")
        if isinstance(n, ast.Call):
            f = ast.unparse(n.func)
            if f in ("random.randint", "randint") and len(n.args) == 2:
                lo, hi = self.tr(n.args[0]), self.tr(n.args[1])
                i = len(self.draws)
                name = self.draw_names[i] if i < len(self.draw_names) else f"draw{i}"
                self.draws.append((lo, hi))
                return name
            if f == "max" and len(n.args) == 2:
                return f"(max {self.tr(n.args[0])} {self.tr(n.args[1])})"
            if f == "min" and len(n.args) == 2:
                return f"(min {self.tr(n.args[0])} {self.tr(n.args[1])})"
            if f == "int" and len(n.args) == 1:
                return self.tr(n.args[0])
            if (
                isinstance(n.func, ast.Attribute)
                and n.func.attr == "bit_length"
                and not n.args
            ):
                return f"(Py.bitLength {self.tr(n.func.value)})"
            raise PinError(f"unsupported call `{ast.unparse(n)}`")
        raise PinError(f"unsupported expression `{ast.unparse(n)}`")

    def cond(self, n):
        """Comparison / boolean -> Lean `Bool` term."""
        if isinstance(n, ast.Compare) and len(n.ops) == 1:
            a, b = self.tr(n.left), self.tr(n.comparators[0])
            sym = {
                ast.Lt: "<",
                ast.LtE: "≤",
                ast.Gt: ">",
                ast.GtE: "≥",
                ast.Eq: "=",
                ast.NotEq: "≠",
            }.get(type(n.ops[0]))
            if sym is None:
                raise PinError(f"unsupported comparison `{ast.unparse(n)}`")
            return f"(decide ({a} {sym} {b}))"
        if isinstance(n, ast.BoolOp):
            parts = [self.cond(v) for v in n.values]
            j = " && " if isinstance(n.op, ast.And) else " || "
            return "(" + j.join(parts) + ")"
        if isinstance(n, ast.UnaryOp) and isinstance(n.op, ast.Not):
            return f"(!{self.cond(n.operand)})"
        raise PinError(f"unsupported condition `{ast.unparse(n)}`")


def lean_def(name, params, ty, body, doc=None):
    ps = " ".join(f"({p} : Int)" for p in params)
    d = f"/-- `{doc}` -/\n" if doc else ""
    return f"{d}def {name}{(' ' + ps) if ps else ''} : {ty} :=\n  {body}\n"


def lean_str(s):
    return json.dumps(s, ensure_ascii=False)


def lean_list(items):
    return "[" + ", ".join(items) + "]"


# ----------------------------------------------------------------------------- pin groups

GROUPS = {}


def group(name, source, props):
    def deco(fn):
        GROUPS[name] = {"fn": fn, "source": source, "props": props}
        return fn

    return deco


def int_pin(func, target, params, consts=None, draw_names=None, index=-1, name=None):
    """`def <name> (params…) : Int := <rhs of the index-th assignment to target>`"""
    asg = assignments_to(func, target)
    if not asg:
        raise PinError(f"no assignment to `{target}` in {func.name}")
    node = asg[index]
    if isinstance(node, ast.AugAssign):
        raise PinError(f"augmented assignment to `{target}` not supported here")
    tr = ExprTranslator({p: p for p in params}, consts, draw_names)
    body = tr.tr(node.value)
    missing = [p for p in params if p not in tr.used]
    if missing:
        raise PinError(
            f"`{target} = {ast.unparse(node.value)}` no longer mentions {missing}"
        )
    all_params = list(params) + [
        (draw_names[i] if draw_names and i < len(draw_names) else f"draw{i}")
        for i in range(len(tr.draws))
    ]
    out = lean_def(name or target, all_params, "Int", body, doc=f"{target} = {ast.unparse(node.value)}")
    for i, (lo, hi) in enumerate(tr.draws):
        dn = draw_names[i] if draw_names and i < len(draw_names) else f"draw{i}"
        out += lean_def(f"{name or target}_{dn}_lo", params_used(lo, params), "Int", lo)
        out += lean_def(f"{name or target}_{dn}_hi", params_used(hi, params), "Int", hi)
    return out


def params_used(term, params):
    import re

    toks = set(re.findall(r"[A-Za-z_][A-Za-z_0-9]*", term))
    return [p for p in params if p in toks]


def cond_pin(node, params, name, consts=None, doc=None):
    tr = ExprTranslator({p: p for p in params}, consts)
    body = tr.cond(node)
    missing = [p for p in params if p not in tr.used]
    if missing:
        raise PinError(f"`{ast.unparse(node)}` no longer mentions {missing}")
    return lean_def(name, params, "Bool", body, doc=doc or ast.unparse(node))


HEADER = """-- GENERATED by /verif/tools/py2lean.py from {source} — do not edit by hand.
-- Regenerated on every check run; the bridging lemmas in SnowModel/Props relate these
-- definitions to the hand-written models.
import SnowModel.Core.PyInt

set_option linter.unusedVariables false

namespace Gen.{name}

"""


def load_pin_modules():
    """Pin groups live in tools/pins/*.py; each registers itself with @group."""
    import importlib
    import pkgutil

    here = os.path.join(os.path.dirname(os.path.abspath(__file__)), "pins")
    for m in sorted(pkgutil.iter_modules([here]), key=lambda m: m.name):
        importlib.import_module(f"tools.pins.{m.name}")


def regenerate(only=None, verbose=False):
    """Regenerate all (or the named) groups. Returns {group: None | error string}."""
    os.makedirs(GEN_DIR, exist_ok=True)
    load_pin_modules()
    status = {}
    for name, g in GROUPS.items():
        if only and name not in only:
            continue
        path = os.path.join(GEN_DIR, name + ".lean")
        try:
            tree = parse(g["source"]) if isinstance(g["source"], str) else None
            body = g["fn"](tree)
            text = HEADER.format(source=g["source"], name=name) + body + f"\nend Gen.{name}\n"
            status[name] = None
        except PinError as e:
            status[name] = str(e)
            # leave the previous file in place so that the rest of the project still builds;
            # the caller reports the broken tie.
            if verbose:
                print(f"py2lean: {name}: BROKEN: {e}", file=sys.stderr)
            continue
        old = None
        if os.path.exists(path):
            with open(path) as f:
                old = f.read()
        if old != text:
            with open(path, "w") as f:
                f.write(text)
            if verbose:
                print(f"py2lean: {name}: rewritten", file=sys.stderr)
    return status


def groups_for(prop):
    return [n for n, g in GROUPS.items() if prop in g["props"]]


if __name__ == "__main__":
    sys.path.insert(0, ROOT)
    if __package__ in (None, ""):
        # run as a script: make `tools.py2lean` the canonical module so that pin modules register here
        import tools.py2lean as _canon

        st = _canon.regenerate(verbose=True)
        print(json.dumps(st, indent=1))
        sys.exit(1 if any(st.values()) else 0)
    st = regenerate(verbose=True)
    print(json.dumps(st, indent=1))
    sys.exit(1 if any(st.values()) else 0)
