#!/bin/bash
# list files in a package workspace that are new or differ from /verif (excluding build output)
pkg=/tmp/work/pkg_$1/verif
cd $pkg && find . -type f \( -name "*.lean" -o -name "*.py" -o -name "*.json" -o -name "*.md" -o -name "*.diff" -o -name "check" -o -name "*.toml" -o -name "*.yml" -o -name "*.txt" \) -not -path "./lean/.lake/*" -not -path "./evidence/*" -not -path "./replays/*" -not -path "./lean/SnowModel/Audit/*" -not -path "./design/*" -not -path "./seeded/*" | sort | while read f; do
  if [ ! -e "/verif/$f" ]; then echo "NEW  $f"; elif ! cmp -s "$f" "/verif/$f"; then echo "DIFF $f"; fi
done
