#!/bin/bash
# usage: tools/try_seed.sh <patch.diff> <Cxx> [<Cyy> ...]   -- apply a seeded patch to /repo, run checks, undo
set -u
patch="$(realpath "$1")"; shift
R="${VERIF_REPO:-/repo}"; V="${VERIF_DIR:-/verif}"; cd "$R" || exit 2
if [ -n "$(git status --porcelain)" ]; then echo "/repo not clean"; exit 2; fi
if ! git apply --3way "$patch" 2>/tmp/try_seed.err; then echo "APPLY FAILED"; cat /tmp/try_seed.err; git reset -q --hard HEAD; exit 3; fi
git reset -q
if grep -rq "<<<<<<<" snowfakery; then echo "CONFLICT"; git reset -q --hard HEAD; exit 3; fi
cd "$V"
for p in "$@"; do
  out=$(./check "$p" quick 2>/tmp/try_seed.$p.err); rc=$?
  echo "[$p] exit=$rc $(echo "$out" | grep -c VIOLATION) violation line(s): $(echo "$out" | grep VIOLATION | head -3 | tr '\n' ' ')"
  tail -1 /tmp/try_seed.$p.err
done
cd "$R" && git checkout -- . && git status --porcelain | head -3
cd "$V" && git checkout -- lean/SnowModel/Generated 2>/dev/null
