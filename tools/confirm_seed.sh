#!/bin/bash
# usage: tools/confirm_seed.sh <patch.diff> <demo.py>
# Confirms in a scratch worktree of /repo's HEAD: patch applies, test-suite passes with it,
# demo fails with it and passes without it.  Prints one JSON line.  Removes the worktree.
set -u
patch="$(realpath "$1")"; demo="$(realpath "$2")"
wt=/tmp/confirm_wt_$$
git -C /repo worktree add --detach "$wt" HEAD >/dev/null 2>&1 || { echo '{"error":"worktree"}'; exit 2; }
cd "$wt"
applies=true
git apply "$patch" 2>/dev/null || git apply --3way "$patch" >/dev/null 2>&1 || applies=false
if grep -rq "<<<<<<<" snowfakery 2>/dev/null; then applies=false; fi
tests="n/a"; demo_with="n/a"; demo_without="n/a"
if $applies; then
  tests=$(PYTHONPATH="$wt" /venv/bin/python -m pytest -q -p no:cacheprovider --timeout=900 2>&1 | tail -1 | sed 's/"//g')
  PYTHONPATH="$wt" timeout 600 /venv/bin/python "$demo" >/dev/null 2>&1; demo_with=$?
  git checkout -q -- . ; git reset -q --hard HEAD
  PYTHONPATH="$wt" timeout 600 /venv/bin/python "$demo" >/dev/null 2>&1; demo_without=$?
fi
cd /; git -C /repo worktree remove --force "$wt"
echo "{\"applies\": $applies, \"tests\": \"$tests\", \"demo_exit_with_patch\": \"$demo_with\", \"demo_exit_without_patch\": \"$demo_without\"}"
