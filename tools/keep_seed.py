#!/usr/bin/env python3
"""usage: keep_seed.py <name> <patch> <demo> <agent meta.json> <props csv> <confirm json> [caught-by text]"""
import json, os, shutil, sys
name, patch, demo, meta, props, confirm = sys.argv[1:7]
caught = sys.argv[7] if len(sys.argv) > 7 else ""
d = os.path.join(os.path.dirname(os.path.dirname(os.path.abspath(__file__))), "seeded", name)
os.makedirs(d, exist_ok=True)
shutil.copy(patch, os.path.join(d, "patch.diff"))
shutil.copy(demo, os.path.join(d, "demo.py"))
m = json.load(open(meta)) if os.path.exists(meta) else {}
out = {
    "breaks_properties": props.split(","),
    "summary": m.get("summary"),
    "needs_to_manifest": m.get("needs_to_manifest"),
    "files_touched": m.get("files_touched"),
    "confirmed_in_scratch_worktree": json.loads(confirm),
    "what_was_run": "tools/confirm_seed.sh patch.diff demo.py  (scratch worktree of /repo HEAD: git apply, full pytest suite, demo with and without the patch); tools/try_seed.sh patch.diff <checks>",
    "caught_by": caught,
}
json.dump(out, open(os.path.join(d, "meta.json"), "w"), indent=1)
print("kept", d)
