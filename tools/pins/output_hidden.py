"""Pins for C09: the two places where the interpreter looks at the `__` prefix."""
import ast

from tools.py2lean import PinError, find_func, group, lean_list, lean_str


@group("OutputHidden", "snowfakery/data_generator_runtime.py", ["C09"])
def _output_hidden(tree):
    f = find_func(tree, "filter_row_values_normal", cls="Interpreter")
    rets = [ast.unparse(n.value) for n in ast.walk(f) if isinstance(n, ast.Return)]
    out = "/-- `Interpreter.filter_row_values_normal` -/\ndef filterRowValues : List String :=\n  " + lean_list(lean_str(s) for s in rets) + "\n"
    # every other use of the literal "__" in the interpreter modules
    import os
    from tools.py2lean import REPO
    uses = []
    for rel in ("snowfakery/data_generator_runtime.py", "snowfakery/data_generator_runtime_object_model.py"):
        with open(os.path.join(REPO, rel)) as fh:
            t = ast.parse(fh.read())
        for n in ast.walk(t):
            if isinstance(n, ast.Call) and isinstance(n.func, ast.Attribute) and n.func.attr == "startswith" \
                    and n.args and isinstance(n.args[0], ast.Constant) and n.args[0].value == "__":
                uses.append(rel.split("/")[-1] + ": " + ast.unparse(n))
    out += "/-- every `.startswith('__')` in the interpreter -/\ndef hiddenTests : List String :=\n  " + lean_list(lean_str(s) for s in sorted(uses)) + "\n"
    return out
