"""Pins for snowfakery/standard_plugins/Schedule.py (C15).

What is extracted (all as ordered tables of strings, `Gen.Schedule.*`):
  rruleWiring          for every keyword of the `rrule(...)` call in CalendarRule.__init__:
                       (keyword, expression passed, recipe parameter that expression was last
                       normalised from)
  eventPassthrough     keyword -> expression of the `CalendarRule(...)` call in Schedule.Functions.Event
  eventParams / ruleParams   parameter names (order) of Event and CalendarRule.__init__
  gateArgs / gateAny   `_check_undocumented_features`: call arguments and the `any([...])` list
  helperTzinfo         every `tzinfo=` the date helpers use (function, expression)
  specialBranches / atStartTime  what include / exclude do with each kind of value
  untilTests / specialTests  the isinstance chains (order matters: datetime is a date)
  untilReturn          what `_normalize_until` finally returns
  freqNames / weekdayNames / subDailyFreqs / wkstExpr
  nextDate / nextDatetime / iterReturn    return expressions of the three output paths
  intListBranches      process_list_of_ints: (test, returned expression)
"""
import ast

from tools.py2lean import PinError, find_class, find_func, group, lean_list, lean_str


def _strs(name, items, doc=None):
    d = f"/-- {doc} -/\n" if doc else ""
    return f"{d}def {name} : List String :=\n  " + lean_list(lean_str(s) for s in items) + "\n"


def _pairs(name, items, doc=None):
    d = f"/-- {doc} -/\n" if doc else ""
    body = lean_list("(" + ", ".join(lean_str(x) for x in t) + ")" for t in items)
    ty = " × ".join(["String"] * len(items[0])) if items else "String × String"
    return f"{d}def {name} : List ({ty}) :=\n  {body}\n"


def _source_of(func, expr_text, params, before_line):
    """the recipe parameter(s) the expression `expr_text` was normalised from: every assignment to
    it before the call, in source order (several when it is assigned in both arms of an `if`)"""
    found = []
    for n in ast.walk(func):
        if isinstance(n, ast.Assign) and n.lineno < before_line:
            for t in n.targets:
                names = [ast.unparse(e) for e in t.elts] if isinstance(t, ast.Tuple) else [ast.unparse(t)]
                if expr_text in names:
                    found.append(n)
    if not found:
        if expr_text in params:
            return expr_text
        raise PinError(f"rrule argument `{expr_text}` is neither a parameter nor assigned before the call")
    srcs = []
    for a in sorted(found, key=lambda n: n.lineno):
        v = a.value
        if isinstance(v, ast.Call):
            if len(v.args) != 1 or v.keywords:
                raise PinError(f"`{ast.unparse(a)}`: normaliser no longer takes exactly one argument")
            srcs.append(ast.unparse(v.args[0]))
        else:
            srcs.append(ast.unparse(v))
    return " | ".join(srcs)


@group("Schedule", "snowfakery/standard_plugins/Schedule.py", ["C15"])
def _schedule(tree):
    cr = find_class(tree, "CalendarRule")
    init = find_func(cr, "__init__")
    params = [a.arg for a in init.args.args if a.arg != "self"]
    out = _strs("ruleParams", params, "parameters of CalendarRule.__init__")
    calls = [n for n in ast.walk(init) if isinstance(n, ast.Call) and ast.unparse(n.func) == "rrule"]
    if len(calls) != 1:
        raise PinError("expected exactly one rrule(...) call in CalendarRule.__init__")
    call = calls[0]
    if call.args or any(k.arg is None for k in call.keywords):
        raise PinError("rrule(...) is no longer called with explicit keywords only")
    wiring = []
    for kw in call.keywords:
        passed = ast.unparse(kw.value)
        wiring.append((kw.arg, passed, _source_of(init, passed, params, call.lineno)))
    out += _pairs("rruleWiring", wiring, "(rrule keyword, expression passed, parameter it was normalised from)")
    # the interval guard (since fix 66ecebf) and where it sits among the steps of __init__
    guards = [n for n in init.body if isinstance(n, ast.If) and "interval" in ast.unparse(n.test)]
    if len(guards) != 1 or not any(isinstance(b, ast.Raise) for b in guards[0].body):
        raise PinError("expected exactly one `if <interval test>: raise ...` in CalendarRule.__init__")
    rz = [b for b in guards[0].body if isinstance(b, ast.Raise)][0]
    out += _strs("intervalGuard", [ast.unparse(guards[0].test), ast.unparse(rz.exc.func) if isinstance(rz.exc, ast.Call) else ast.unparse(rz.exc)],
                 "the interval precondition and the exception it raises")
    steps = []
    for st in init.body:
        if isinstance(st, ast.Expr) and isinstance(st.value, ast.Constant):
            continue
        if isinstance(st, ast.Assign):
            v = st.value
            rhs = (ast.unparse(v.func) + "(...)") if isinstance(v, ast.Call) and len(ast.unparse(v)) > 60 else ast.unparse(v)
            steps.append(", ".join(ast.unparse(t) for t in st.targets) + " = " + rhs)
        elif isinstance(st, ast.If):
            steps.append("if " + ast.unparse(st.test))
        else:
            steps.append(ast.unparse(st))
    out += _strs("initSteps", steps, "the statements of CalendarRule.__init__, in order")
    # the ruleset the rule is added to, and what include / exclude do
    out += _strs(
        "initCalls",
        [ast.unparse(n.value) for n in init.body if isinstance(n, ast.Expr) and isinstance(n.value, ast.Call)]
        + [ast.unparse(n.test) + " -> " + "; ".join(ast.unparse(b) for b in n.body)
           for n in init.body if isinstance(n, ast.If) and ast.unparse(n.test) in ("exclude", "include")],
        "expression statements of __init__ and the include / exclude dispatch",
    )
    # Event -> CalendarRule
    fns = find_class(tree, "Functions")
    ev = find_func(fns, "Event")
    out += _strs("eventParams", [a.arg for a in ev.args.args if a.arg != "self"], "parameters of Schedule.Event")
    out += _strs("eventDecorators", [ast.unparse(d) for d in ev.decorator_list],
                 "Event is a @memorable function: one state (CalendarRule) per context and argument values")
    rets = [n for n in ast.walk(ev) if isinstance(n, ast.Return)]
    if len(rets) != 1 or not isinstance(rets[0].value, ast.Call) or ast.unparse(rets[0].value.func) != "CalendarRule":
        raise PinError("Event no longer returns a single CalendarRule(...) call")
    out += _pairs("eventPassthrough", [(k.arg, ast.unparse(k.value)) for k in rets[0].value.keywords],
                  "keywords of the CalendarRule(...) call in Event")
    # gate
    gate_calls = [n for n in ast.walk(init) if isinstance(n, ast.Call) and ast.unparse(n.func) == "self._check_undocumented_features"]
    if len(gate_calls) != 1:
        raise PinError("gate call changed")
    out += _strs("gateArgs", [ast.unparse(a) for a in gate_calls[0].args], "arguments of the gate call")
    gate = find_func(cr, "_check_undocumented_features")
    anys = [n for n in ast.walk(gate) if isinstance(n, ast.Call) and ast.unparse(n.func) == "any"]
    if len(anys) != 1 or not isinstance(anys[0].args[0], ast.List):
        raise PinError("gate: any([...]) changed")
    out += _strs("gateAny", [ast.unparse(e) for e in anys[0].args[0].elts], "`any([...])` of the gate")
    ifs = [n for n in gate.body if isinstance(n, ast.If)]
    if len(ifs) != 1:
        raise PinError("gate: expected one if")
    out += _strs("gateTest", [ast.unparse(ifs[0].test)], "the gate condition")
    # tzinfo used by the helpers
    tz = []
    for fname in ("_normalize_start_date", "_normalize_until", "_at_start_time", "_process_special_cases"):
        f = find_func(cr, fname)
        found = []
        for n in ast.walk(f):
            if isinstance(n, ast.Call):
                for k in n.keywords:
                    if k.arg == "tzinfo":
                        found.append((n.lineno, n.col_offset, fname, ast.unparse(n.func), ast.unparse(k.value)))
        for f5 in sorted(found):
            tz.append(f5[2:])
    out += _pairs("helperTzinfo", tz, "(helper, call, tzinfo expression) for every tzinfo= in the date helpers")
    # isinstance chains
    def tests(fname):
        f = find_func(cr, fname)
        res = []
        for n in ast.walk(f):
            if isinstance(n, ast.If):
                res.append((n.lineno, ast.unparse(n.test)))
        return [t for _, t in sorted(res)]

    out += _strs("untilTests", tests("_normalize_until"), "if-tests of _normalize_until in source order")
    out += _strs("specialTests", tests("_process_special_cases"), "if-tests of _process_special_cases in source order")
    out += _strs("startTests", tests("_normalize_start_date"), "if-tests of _normalize_start_date in source order")
    nu = find_func(cr, "_normalize_until")
    out += _strs("untilReturn", [ast.unparse(n.value) for n in ast.walk(nu) if isinstance(n, ast.Return) and n.value is not None],
                 "return expressions of _normalize_until")
    out += _strs("untilAssignments",
                 [ast.unparse(n) for n in sorted((m for m in ast.walk(nu) if isinstance(m, ast.Assign)), key=lambda m: m.lineno)],
                 "assignments of _normalize_until")
    sp = find_func(cr, "_process_special_cases")
    # what each isinstance branch of _process_special_cases does with its value
    branches = []
    for n in ast.walk(sp):
        if isinstance(n, ast.If) and ast.unparse(n.test).startswith("isinstance(case"):
            branches.append((n.lineno, ast.unparse(n.test), " ; ".join(ast.unparse(b).replace("\n", " ; ") for b in n.body)))
    out += _pairs("specialBranches", [(t, b) for _, t, b in sorted(branches)],
                  "(isinstance test, what is done with the value) in _process_special_cases")
    ast_ = find_func(cr, "_at_start_time")
    out += _strs("atStartTime", [ast.unparse(n) for n in ast_.body if not (isinstance(n, ast.Expr) and isinstance(n.value, ast.Constant))],
                 "a date-valued argument: that date at the start's time of day in the start's zone")
    # frequency / weekday names
    def names_of(const):
        for n in tree.body:
            if isinstance(n, ast.Assign) and ast.unparse(n.targets[0]) == const:
                comp = n.value
                if isinstance(comp, ast.DictComp) and isinstance(comp.generators[0].iter, ast.List):
                    return [e.value for e in comp.generators[0].iter.elts], ast.unparse(comp.key) + ": " + ast.unparse(comp.value)
        raise PinError(f"{const} changed shape")

    fr, fr_how = names_of("FREQ_STRS")
    wd, wd_how = names_of("WEEKDAYS")
    out += _strs("freqNames", fr, "FREQ_STRS: " + fr_how)
    out += _strs("weekdayNames", wd, "WEEKDAYS: " + wd_how)
    out += _strs("freqHow", [fr_how, wd_how])
    nf = find_func(cr, "_normalize_frequency")
    tup = [n for n in ast.walk(nf) if isinstance(n, ast.Compare) and isinstance(n.ops[0], ast.In) and isinstance(n.comparators[0], ast.Tuple)]
    if len(tup) != 1:
        raise PinError("_normalize_frequency: sub-daily test changed")
    out += _strs("subDailyFreqs", [ast.unparse(e) for e in tup[0].comparators[0].elts], "frequencies that need a datetime start")
    w = [n for n in init.body if isinstance(n, ast.Assign) and ast.unparse(n.targets[0]) == "wkst"]
    if len(w) != 1:
        raise PinError("wkst assignment changed")
    out += _strs("wkstExpr", [ast.unparse(w[0].value)])
    # output paths
    def ret_of(fname):
        f = find_func(cr, fname)
        body = [s for s in f.body if not (isinstance(s, ast.Expr) and isinstance(s.value, ast.Constant))]
        return [ast.unparse(s) for s in body]

    out += _strs("nextDate", ret_of("_next_date"))
    out += _strs("nextDatetime", ret_of("_next_datetime"))
    out += _strs("iterReturn", ret_of("__iter__"))
    sod = find_func(cr, "_set_output_datetype_date_or_datetime")
    out += _strs("precisionDispatch", [ast.unparse(n.test) + " -> " + "; ".join(ast.unparse(b) for b in n.body)
                                        for n in ast.walk(sod) if isinstance(n, ast.If)])
    out += _strs("isDatetimeChars", [ast.unparse(n.value) for n in ast.walk(find_func(tree, "is_datetime")) if isinstance(n, ast.Return)])
    # weekday parsing
    pw = find_func(cr, "_parse_weekday")
    out += _strs("parseWeekday",
                 [ast.unparse(n) for n in ast.walk(pw) if isinstance(n, ast.Subscript) and ast.unparse(n.value) == "WEEKDAYS"]
                 + [ast.unparse(n.test) + " -> " + "; ".join(ast.unparse(b) for b in n.body)
                    for n in pw.body if isinstance(n, ast.If)],
                 "weekday lookup and the n-th application")
    sw = find_func(cr, "_split_weekday")
    rx = [ast.unparse(n.args[0]) for n in ast.walk(sw) if isinstance(n, ast.Call) and ast.unparse(n.func) == "re.match"]
    out += _strs("weekdayRegex", rx)
    nw = find_func(cr, "_normalize_weekday")
    out += _strs("weekdaySplit", [ast.unparse(n) for n in ast.walk(nw) if isinstance(n, ast.Assign)])
    # process_list_of_ints
    pl = find_func(tree, "process_list_of_ints")
    br = []
    node = pl.body[0]
    while isinstance(node, ast.If):
        r = [s for s in node.body if isinstance(s, ast.Return)]
        br.append((ast.unparse(node.test), ast.unparse(r[0].value) if r else "raise"))
        if node.orelse and isinstance(node.orelse[0], ast.If):
            node = node.orelse[0]
        else:
            br.append(("else", "raise" if any(isinstance(s, ast.Raise) for s in node.orelse) else "other"))
            break
    out += _pairs("intListBranches", br, "process_list_of_ints: (test, returned expression)")
    return out


@group("DateParse", "snowfakery/template_funcs.py", ["C15"])
def _dateparse(tree):
    """parse_date / parse_datetimespec as Schedule.py uses them: a datetime keeps its zone, a naive
    one means UTC; a date string is read by dateutil; only strings go through the cached helpers."""

    def chain(fname):
        f = find_func(tree, fname)
        res = []
        for st in f.body:
            node = st
            while isinstance(node, ast.If):
                res.append((ast.unparse(node.test), " ; ".join(ast.unparse(b).replace("\n", " ; ") for b in node.body)))
                if len(node.orelse) == 1 and isinstance(node.orelse[0], ast.If):
                    node = node.orelse[0]
                else:
                    if node.orelse:
                        res.append(("else", " ; ".join(ast.unparse(b).replace("\n", " ; ") for b in node.orelse)))
                    break
            if isinstance(st, ast.Return):
                res.append(("return", ast.unparse(st.value)))
        return res

    out = _pairs("parseDatetimespec", chain("parse_datetimespec"), "parse_datetimespec: (test, body)")
    out += _pairs("parseDate", chain("parse_date"), "parse_date: (test, body)")
    for helper in ("_parse_datetime_str", "_parse_date_str"):
        f = find_func(tree, helper)
        body = [s for s in f.body if not (isinstance(s, ast.Expr) and isinstance(s.value, ast.Constant))]
        out += _strs(helper.strip("_").replace("_", "") + "Body", [ast.unparse(s).replace("\n", " ; ") for s in body])
    return out
