"""Pins for the stopping machinery (C07).

StopApi     <- snowfakery/api.py: SnowfakeryApplication (COUNT_REPS, class attributes, default
               criteria, stopping_tablename, ensure_progress_was_made, check_if_finished)
StopRuntime <- snowfakery/data_generator_runtime.py: IdManager (default id, start_ids after
               __setstate__, generate_id increment), RuntimeContext.check_if_finished (call order),
               Interpreter.loop_over_templates_until_finished (loop skeleton),
               Interpreter.__init__ (target validation, placed before anything executes)
"""
import ast

from tools.py2lean import (
    PinError, ExprTranslator, assignments_to, class_constant, cond_pin, find_class, find_func, group,
    int_pin, lean_def, lean_list, lean_str, module_constant,
)


def _body(func):
    """Statements of a function without its docstring."""
    b = list(func.body)
    if b and isinstance(b[0], ast.Expr) and isinstance(b[0].value, ast.Constant) and isinstance(b[0].value.value, str):
        b = b[1:]
    return b


def _str_list(name, items, doc):
    return f"/-- {doc} -/\ndef {name} : List String :=\n  " + lean_list(lean_str(s) for s in items) + "\n"


def _str(name, s, doc):
    return f"/-- {doc} -/\ndef {name} : String :=\n  {lean_str(s)}\n"


def _int_const(node, what):
    if not isinstance(node, ast.Constant) or isinstance(node.value, bool) or not isinstance(node.value, int):
        raise PinError(f"{what} is no longer an int literal")
    return node.value


def _rename(text, mapping):
    for a, b in mapping.items():
        text = text.replace(a, b)
    return text


@group("StopApi", "snowfakery/api.py", ["C07"])
def _stop_api(tree):
    out = ""
    # COUNT_REPS = "__REPS__"
    cr = module_constant(tree, "COUNT_REPS")
    if not isinstance(cr, ast.Constant) or not isinstance(cr.value, str):
        raise PinError("COUNT_REPS is no longer a string literal")
    out += _str("countReps", cr.value, "`COUNT_REPS`")
    # class attributes
    sidn = class_constant(tree, "SnowfakeryApplication", "starting_id")
    if not (isinstance(sidn, ast.Constant) and sidn.value is None):
        raise PinError("class attribute starting_id is no longer `None` (modelled: unset until the first boundary)")
    rc = _int_const(class_constant(tree, "SnowfakeryApplication", "rep_count"), "rep_count")
    out += "/-- `starting_id = None` -/\ndef startingIdInit : Option Int :=\n  none\n"
    out += lean_def("repCountInit", [], "Int", f"({rc} : Int)", doc=f"rep_count = {rc}")
    app = find_class(tree, "SnowfakeryApplication")
    # __init__: self.stopping_criteria = stopping_criteria or StoppingCriteria(COUNT_REPS, 1)
    init = find_func(app, "__init__")
    asg = assignments_to(init, "self.stopping_criteria")
    if len(asg) != 1:
        raise PinError("__init__: expected one assignment to self.stopping_criteria")
    v = asg[0].value
    if not (
        isinstance(v, ast.BoolOp) and isinstance(v.op, ast.Or) and len(v.values) == 2
        and ast.unparse(v.values[0]) == "stopping_criteria"
        and isinstance(v.values[1], ast.Call) and ast.unparse(v.values[1].func) == "StoppingCriteria"
        and len(v.values[1].args) == 2 and not v.values[1].keywords
    ):
        raise PinError("__init__: default criteria are no longer `stopping_criteria or StoppingCriteria(a, b)`")
    out += _str("defaultTablename", ast.unparse(v.values[1].args[0]), "first argument of the default StoppingCriteria")
    dc = _int_const(v.values[1].args[1], "default count")
    out += lean_def("defaultCount", [], "Int", f"({dc} : Int)", doc=f"default count = {dc}")
    # stopping_tablename
    st = find_func(app, "stopping_tablename")
    out += _str_list("stoppingTablenameBody", [ast.unparse(s) for s in _body(st)],
                     "body of the property `stopping_tablename`")
    # ensure_progress_was_made
    ep = find_func(app, "ensure_progress_was_made")
    body = _body(ep)
    kinds = [type(s).__name__ for s in body]
    if kinds != ["If", "Assign", "If", "If", "Assign"]:
        raise PinError(f"ensure_progress_was_made: statement skeleton changed: {kinds}")
    out += _str("progressGuard", ast.unparse(body[0].test), "guard of the early `return` of ensure_progress_was_made")
    if len(body[0].body) != 1 or not isinstance(body[0].body[0], ast.Return) or body[0].orelse:
        raise PinError("ensure_progress_was_made: the guard no longer just returns")
    out += _str("progressLastUsed", ast.unparse(body[1]), "where ensure_progress_was_made reads the last id")
    # first boundary: `if self.starting_id is None: self.starting_id = id_manager.start_ids.get(T, 1) - 1`
    first = body[2]
    out += _str("progressFirstGuard", ast.unparse(first.test), "guard of the first-boundary initialisation")
    if first.orelse or len(first.body) != 1 or not isinstance(first.body[0], ast.Assign) \
            or ast.unparse(first.body[0].targets[0]) != "self.starting_id":
        raise PinError("ensure_progress_was_made: first-boundary branch no longer just assigns self.starting_id")
    fv = first.body[0].value
    if not (
        isinstance(fv, ast.BinOp) and isinstance(fv.left, ast.Call)
        and ast.unparse(fv.left.func) == "id_manager.start_ids.get" and len(fv.left.args) == 2
        and ast.unparse(fv.left.args[0]) == "self.stopping_tablename"
    ):
        raise PinError("ensure_progress_was_made: initial starting_id is no longer `start_ids.get(T, <default>) <op> <k>`")
    out += lean_def("progressStartDefault", [], "Int",
                    f"({_int_const(fv.left.args[1], 'default start id (progress)')} : Int)", doc=ast.unparse(fv.left))
    tr0 = ExprTranslator({"start": "start"})
    out += lean_def("initialStartingId", ["start"], "Int",
                    tr0.tr(ast.BinOp(left=ast.Name(id="start", ctx=ast.Load()), op=fv.op, right=fv.right)),
                    doc=ast.unparse(first.body[0]) + "   (start := the .get(...) call)")
    stalled = body[3]
    if stalled.orelse or len(stalled.body) != 1 or not isinstance(stalled.body[0], ast.Raise):
        raise PinError("ensure_progress_was_made: the stalled branch no longer just raises")
    exc_ = stalled.body[0].exc
    out += _str("progressRaises", ast.unparse(exc_.func) if isinstance(exc_, ast.Call) else ast.unparse(exc_),
                "exception type raised when no progress was made")
    out += _rename(
        cond_pin(stalled.test, ["last_used_id", "self.starting_id"], "progressStalled"),
        {"self.starting_id": "starting_id"},
    )
    tr = ExprTranslator({"last_used_id": "last_used_id"})
    if ast.unparse(body[4].targets[0]) != "self.starting_id":
        raise PinError("ensure_progress_was_made: last statement no longer assigns self.starting_id")
    out += lean_def("newStartingId", ["last_used_id"], "Int", tr.tr(body[4].value), doc=ast.unparse(body[4]))
    # check_if_finished
    cf = find_func(app, "check_if_finished")
    body = _body(cf)
    kinds = [type(s).__name__ for s in body]
    if kinds != ["AugAssign", "Assign", "If", "Assign", "Assign", "Assign", "Return"]:
        raise PinError(f"check_if_finished: statement skeleton changed: {kinds}")
    out += _str("repIncrement", ast.unparse(body[0]), "first statement of check_if_finished")
    out += _str("criteriaUnpack", ast.unparse(body[1]), "unpacking of the stopping criteria")
    out += _str("repsGuard", ast.unparse(body[2].test), "test that selects repetition counting")
    if body[2].orelse or len(body[2].body) != 1 or not isinstance(body[2].body[0], ast.Return):
        raise PinError("check_if_finished: the reps branch no longer just returns")
    out += _rename(
        cond_pin(body[2].body[0].value, ["self.rep_count", "count"], "repsDone"),
        {"self.rep_count": "rep_count"},
    )
    # start = id_manager.start_ids.get(target_table, 1)
    s = body[3]
    if not (
        ast.unparse(s.targets[0]) == "start" and isinstance(s.value, ast.Call)
        and ast.unparse(s.value.func) == "id_manager.start_ids.get" and len(s.value.args) == 2
        and ast.unparse(s.value.args[0]) == "target_table"
    ):
        raise PinError("check_if_finished: `start = id_manager.start_ids.get(target_table, <default>)` changed")
    d = _int_const(s.value.args[1], "default start id")
    out += lean_def("startDefault", [], "Int", f"({d} : Int)", doc=ast.unparse(s))
    if ast.unparse(body[4].targets[0]) != "target_id":
        raise PinError("check_if_finished: target_id assignment moved")
    out += int_pin(cf, "target_id", ["start", "count"], name="targetId")
    out += _str("finishedLastUsed", ast.unparse(body[5]), "where check_if_finished reads the last id")
    out += cond_pin(body[6].value, ["last_used_id", "target_id"], "finishedRows")
    return out


@group("StopRuntime", "snowfakery/data_generator_runtime.py", ["C07"])
def _stop_runtime(tree):
    out = ""
    idm = find_class(tree, "IdManager")
    # __init__: last_used_ids = defaultdict(lambda: 0); start_ids = {}
    init = find_func(idm, "__init__")
    out += _str_list("idManagerInit", [ast.unparse(s) for s in _body(init)], "body of IdManager.__init__")
    lu = assignments_to(init, "self.last_used_ids")
    if len(lu) != 1 or not (
        isinstance(lu[0].value, ast.Call) and ast.unparse(lu[0].value.func) == "defaultdict"
        and len(lu[0].value.args) == 1 and isinstance(lu[0].value.args[0], ast.Lambda)
    ):
        raise PinError("IdManager.__init__: last_used_ids is no longer defaultdict(lambda: <int>)")
    d = _int_const(lu[0].value.args[0].body, "default last used id")
    out += lean_def("lastUsedDefault", [], "Int", f"({d} : Int)", doc=ast.unparse(lu[0]))
    # generate_id: += 1
    gi = find_func(idm, "generate_id")
    aug = [s for s in _body(gi) if isinstance(s, ast.AugAssign)]
    if len(aug) != 1 or not isinstance(aug[0].op, ast.Add) or ast.unparse(aug[0].target) != "self.last_used_ids[table_name]":
        raise PinError("IdManager.generate_id: increment changed")
    out += lean_def("idIncrement", [], "Int", f"({_int_const(aug[0].value, 'id increment')} : Int)", doc=ast.unparse(aug[0]))
    out += _str("getitem", ast.unparse(_body(find_func(idm, "__getitem__"))[-1]), "IdManager.__getitem__")
    # __setstate__: start_ids = {name: val + 1 for name, val in self.last_used_ids.items()}
    ss = find_func(idm, "__setstate__")
    sa = assignments_to(ss, "self.start_ids")
    if len(sa) != 1 or not isinstance(sa[0].value, ast.DictComp):
        raise PinError("IdManager.__setstate__: start_ids is no longer a dict comprehension")
    dc = sa[0].value
    gen = dc.generators
    if len(gen) != 1 or gen[0].ifs or ast.unparse(gen[0].target) != "(name, val)" or ast.unparse(gen[0].iter) != "self.last_used_ids.items()" \
            or ast.unparse(dc.key) != "name":
        raise PinError("IdManager.__setstate__: start_ids comprehension changed shape")
    tr = ExprTranslator({"val": "val"})
    out += lean_def("startIdOf", ["val"], "Int", tr.tr(dc.value), doc=ast.unparse(sa[0]))
    lus = assignments_to(ss, "self.last_used_ids")
    if len(lus) != 1 or sa[0].lineno < lus[0].lineno:
        raise PinError("IdManager.__setstate__: start_ids must be computed after last_used_ids is restored")
    out += _str("restoreLastUsed", ast.unparse(lus[0]), "how __setstate__ restores last_used_ids")
    # RuntimeContext.check_if_finished: call order
    rcx = find_class(tree, "RuntimeContext")
    cf = find_func(rcx, "check_if_finished")
    calls = []
    for s in _body(cf):
        if isinstance(s, ast.Expr) and isinstance(s.value, ast.Call):
            calls.append(ast.unparse(s.value))
        elif isinstance(s, ast.Return):
            calls.append("return " + ast.unparse(s.value))
        elif isinstance(s, ast.Assign):
            calls.append(ast.unparse(s))
        else:
            raise PinError(f"RuntimeContext.check_if_finished: unexpected statement {type(s).__name__}")
    out += _str_list("boundaryCalls", calls, "statements of RuntimeContext.check_if_finished, in order")
    # Interpreter.loop_over_templates_until_finished
    itp = find_class(tree, "Interpreter")
    lp = find_func(itp, "loop_over_templates_until_finished")
    body = _body(lp)
    whiles = [s for s in body if isinstance(s, ast.While)]
    if len(whiles) != 1 or whiles[0].orelse:
        raise PinError("loop_over_templates_until_finished: expected exactly one while loop")
    w = whiles[0]
    out += _str_list("loopPrologue", [ast.unparse(s) for s in body[: body.index(w)]], "statements before the loop")
    out += _str("loopTest", ast.unparse(w.test), "loop test")
    for s in w.body:
        if not isinstance(s, (ast.Expr, ast.Assign, ast.AugAssign)):
            raise PinError(f"loop body contains a {type(s).__name__} (break / if / nested loop are not modelled)")
    out += _str_list("loopBody", [ast.unparse(s) for s in w.body], "loop body, in order")
    if body.index(w) != len(body) - 1:
        raise PinError("statements after the while loop")
    once = find_func(itp, "loop_over_templates_once")
    out += _str_list("loopOnce", [ast.unparse(s) for s in _body(once)], "loop_over_templates_once")
    # Interpreter.execute: the loop is entered from execute(), after __init__ has validated the target
    ex = find_func(itp, "execute")
    out += _str_list("executeBody", [ast.unparse(s) for s in _body(ex)], "Interpreter.execute")
    # Interpreter.__init__: target validation
    init = find_func(itp, "__init__")
    stn = assignments_to(init, "stop_table_name")
    if len(stn) != 1:
        raise PinError("Interpreter.__init__: stop_table_name assignment changed")
    out += _str("stopTableName", ast.unparse(stn[0]), "where the validation gets the target name from")
    ifs = [s for s in _body(init) if isinstance(s, ast.If) and "stop_table_name" in ast.unparse(s.test)]
    if len(ifs) != 1 or ifs[0].orelse or len(ifs[0].body) != 1 or not isinstance(ifs[0].body[0], ast.Raise):
        raise PinError("Interpreter.__init__: target validation changed shape")
    out += _str("rejectTest", ast.unparse(ifs[0].test), "target validation test")
    exc_ = ifs[0].body[0].exc
    out += _str("rejectRaises", ast.unparse(exc_.func) if isinstance(exc_, ast.Call) else ast.unparse(exc_),
                "exception type of the rejection")
    # nothing that executes statements may precede the validation in __init__
    before = [s for s in _body(init) if s.lineno < ifs[0].lineno]
    for s in before:
        txt = ast.unparse(s)
        if "execute" in txt or "loop_over" in txt or "write_row" in txt:
            raise PinError("Interpreter.__init__: something executes before the target validation")
    return out


def _calls_in(node):
    out = []
    for n in ast.walk(node):
        if isinstance(n, ast.Call):
            out.append(ast.unparse(n.func))
    return out


@group("StopTables", "snowfakery/parse_recipe_yaml.py", ["C07"])
def _stop_tables(tree):
    """Where `parse_result.tables` comes from: only templates parsed as part of the recipe's own
    statement list (and what they include) register a table."""
    out = ""
    pr = find_func(tree, "parse_recipe")
    body = _body(pr)
    tries = [s for s in body if isinstance(s, ast.Try)]
    if len(tries) != 1:
        raise PinError("parse_recipe: expected exactly one try block around the parse")
    out += _str_list("parseRecipeTry", [ast.unparse(s) for s in tries[0].body],
                     "statements of the try block of parse_recipe, in order")
    for h in tries[0].handlers:
        for s in h.body:
            if not isinstance(s, ast.Raise):
                raise PinError("parse_recipe: an exception handler does more than re-raise")
    if tries[0].orelse or tries[0].finalbody:
        raise PinError("parse_recipe: try block gained else/finally")
    out += _str_list("parseRecipeCalls", sorted(set(_calls_in(pr))), "every callee of parse_recipe (sorted, unique)")
    ta = assignments_to(pr, "tables")
    if not ta or not isinstance(ta[-1].value, ast.DictComp):
        raise PinError("parse_recipe: `tables` is no longer a dict comprehension over context.table_infos")
    dc = ta[-1].value
    if len(dc.generators) != 1 or len(dc.generators[0].ifs) != 1:
        raise PinError("parse_recipe: tables comprehension changed shape")
    out += _str("tablesSource", ast.unparse(dc.generators[0].iter), "what the tables comprehension iterates over")
    out += _str("tablesFilter", ast.unparse(dc.generators[0].ifs[0]), "filter of the tables comprehension")
    out += _str("tablesKey", ast.unparse(dc.key) + ": " + ast.unparse(dc.value), "key: value of the comprehension")
    rets = [s for s in body if isinstance(s, ast.Return)]
    if len(rets) != 1 or not isinstance(rets[0].value, ast.Call) or ast.unparse(rets[0].value.func) != "ParseResult" \
            or len(rets[0].value.args) < 2:
        raise PinError("parse_recipe: return ParseResult(options, tables, ...) changed")
    out += _str("resultTablesArg", ast.unparse(rets[0].value.args[1]), "second positional argument of ParseResult(...)")
    # call graph restricted to the functions through which a table can get registered
    funcs = {}
    for n in ast.walk(tree):
        if isinstance(n, (ast.FunctionDef, ast.AsyncFunctionDef)):
            funcs.setdefault(n.name, []).append(n)
    targets = ["register_template", "parse_object_template", "include_macro", "parse_inclusions",
               "parse_statement_list", "parse_friends", "parse_fields", "parse_field", "parse_field_value",
               "parse_structured_value", "parse_structured_value_args"]
    edges = []
    for callee in targets:
        callers = set()
        for name, defs in funcs.items():
            for d in defs:
                for c in _calls_in(d):
                    if c == callee or c.endswith("." + callee):
                        callers.add(name)
        edges.append(callee + " <- " + ",".join(sorted(callers)))
    out += _str_list("registrationCallGraph", edges, "callee <- callers, for every function on a path to register_template")
    # who writes table_infos / macros
    writers_t, writers_m = set(), set()
    for name, defs in funcs.items():
        for d in defs:
            for n in ast.walk(d):
                if isinstance(n, (ast.Assign, ast.AugAssign)):
                    tg = n.targets if isinstance(n, ast.Assign) else [n.target]
                    for t in tg:
                        if "table_infos" in ast.unparse(t):
                            writers_t.add(name)
                if isinstance(n, ast.Call) and "macros." in ast.unparse(n.func) and ast.unparse(n.func).split(".")[-1] in (
                        "update", "setdefault", "__setitem__", "pop", "clear"):
                    writers_m.add(name + ":" + ast.unparse(n.func))
    out += _str_list("tableInfosWriters", sorted(writers_t), "functions that assign into table_infos")
    out += _str_list("macrosWriters", sorted(writers_m), "calls that modify context.macros")
    rt = find_func(tree, "register_template", cls="ParseContext")
    out += _str_list("registerTemplateBody", [ast.unparse(s) for s in _body(rt)], "ParseContext.register_template")
    # include_macro: order lookup -> cycle checks -> inclusions -> fields -> friends
    im = find_func(tree, "include_macro")
    tr = [s for s in _body(im) if isinstance(s, ast.Try)]
    if len(tr) != 1:
        raise PinError("include_macro: expected one try block")
    out += _str_list("includeMacroExpansion", [ast.unparse(s) for s in tr[0].body], "what include_macro expands, in order")
    pot = find_func(tree, "parse_object_template")
    seq = [c for c in _calls_in(pot) if c in ("parse_inclusions", "parse_fields", "parse_friends", "context.register_template")]
    order = sorted(
        (n.lineno, n.col_offset, ast.unparse(n.func)) for n in ast.walk(pot)
        if isinstance(n, ast.Call) and ast.unparse(n.func) in ("parse_inclusions", "parse_fields", "parse_friends", "context.register_template")
    )
    if len(seq) != 4:
        raise PinError("parse_object_template: inclusions/fields/friends/register calls changed")
    out += _str_list("objectTemplateOrder", [o[2] for o in order], "order of the registering calls in parse_object_template")
    return out
