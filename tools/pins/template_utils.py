"""Pins for snowfakery/utils/template_utils.py (C03): look_for_number."""
import ast

from tools.py2lean import PinError, find_func, group, lean_list, lean_str, module_constant


@group("TemplateUtils", "snowfakery/utils/template_utils.py", ["C03"])
def _template_utils(tree):
    f = find_func(tree, "look_for_number")
    body = [ast.unparse(s) for s in f.body if not (isinstance(s, ast.Expr) and isinstance(s.value, ast.Constant))]
    out = "/-- `look_for_number` statements -/\ndef lookForNumberBody : List String :=\n  " + lean_list(lean_str(s) for s in body) + "\n"
    nc = module_constant(tree, "number_chars")
    out += "/-- `number_chars` -/\ndef numberChars : String :=\n  " + lean_str(ast.unparse(nc)) + "\n"
    return out
