"""Pins for C19: the global-state scan of snowfakery/** (everything a run could leave behind in the process).

Group `GlobalState` (no single source file: every *.py below snowfakery/ except the developer tools):
  * cells            every module-level / class-level binding whose value is not evidently immutable:
                     mutable container literal or comprehension, `itertools.count`, `ContextVar`, an
                     `lru_cache`/`cache`-decorated function, any other value produced by a call at import time
  * cellWrites       every place inside a function body that stores to / mutates / advances one of those
                     cells (by name or by attribute name): subscript stores, mutator methods, `next(x)`
  * cellUses         every function that mentions one of the non-container cells at all (who reads a cache,
                     the counter, the shared Faker, the ContextVar)
  * importEffects    expression statements executed at import time (registrations in third-party registries,
                     `setattr` on classes)
  * mutableDefaults  function parameters whose default value is a mutable object
  * globalDecls      `global` / `nonlocal` statements
  * classAttrWrites  assignments inside functions to `<Class>.<attr>`, `cls.<attr>`, `type(self).<attr>`
  * externalWrites   calls inside functions that change process-wide state living outside the package
                     (cwd, sys.path, import system, yaml registries, PRNG seeds, warning filters, env, locale …)
plus the small wiring facts the process model is written from: cache sizes, the counter's start value, the
bodies of `mask_for_key`, `randomizer`, `datasets.chdir`, `plugins.plugin_path`, the first statement of
`Interpreter.execute`, what `Interpreter.__exit__` clears, where `generate` creates the per-run objects.
"""
import ast
import os
import re

from tools.py2lean import PinError, REPO, find_class, find_func, group, lean_list, lean_str

EXCLUDE_DIRS = {"tools", "docs", "__pycache__"}
MUT_LIT = (ast.Dict, ast.List, ast.Set, ast.ListComp, ast.DictComp, ast.SetComp, ast.GeneratorExp)
MUTATORS = {
    "append", "extend", "insert", "pop", "remove", "clear", "update", "setdefault", "add", "discard", "popitem",
    "sort", "reverse", "__setitem__", "__delitem__", "cache_clear", "set", "reset", "seed", "seed_instance",
    "seed_locale", "add_provider", "appendleft", "popleft", "send", "__next__", "difference_update",
    "intersection_update", "symmetric_difference_update", "move_to_end",
}
EXTERNAL = (
    "os.chdir", "os.fchdir", "os.putenv", "os.unsetenv", "os.umask", "chdir",
    "import_module", "importlib.import_module", "__import__", "importlib.reload", "reload",
    "random.seed", "seed", "Faker.seed", "warnings.filterwarnings", "warnings.simplefilter", "filterwarnings",
    "simplefilter", "locale.setlocale", "setlocale", "atexit.register", "signal.signal", "logging.basicConfig",
    "sys.setrecursionlimit", "sys.path.append", "sys.path.insert", "sys.path.extend", "sys.path.remove",
    "patch.object", "patch", "patch.dict", "mock.patch", "sys.modules.pop", "sys.modules.update",
    "gc.disable", "gc.enable", "gc.freeze", "os.environ.update", "os.environ.setdefault", "os.environ.pop",
    "time.tzset", "socket.setdefaulttimeout", "sys.settrace", "sys.setprofile", "threading.setprofile",
    "copyreg.pickle", "copyreg.constructor",
)
EXTERNAL_SUFFIX = ("add_representer", "add_constructor", "add_implicit_resolver", "add_multi_representer",
                   "add_multi_constructor", "add_path_resolver")


def _files():
    root = os.path.join(REPO, "snowfakery")
    out = []
    for d, ds, fs in os.walk(root):
        ds[:] = sorted(x for x in ds if x not in EXCLUDE_DIRS)
        for f in sorted(fs):
            if f.endswith(".py"):
                out.append(os.path.join(d, f))
    if not out:
        raise PinError("no python files under snowfakery/")
    return root, sorted(out)


def _immutable(v):
    if isinstance(v, ast.Constant):
        return True
    if isinstance(v, (ast.Name, ast.Lambda, ast.JoinedStr)):
        return True
    if isinstance(v, ast.Attribute):
        return _immutable(v.value)
    if isinstance(v, ast.Tuple):
        return all(_immutable(e) for e in v.elts)
    if isinstance(v, ast.BinOp):
        return _immutable(v.left) and _immutable(v.right)
    if isinstance(v, ast.UnaryOp):
        return _immutable(v.operand)
    if isinstance(v, ast.Subscript):
        return _immutable(v.value)  # typing aliases such as T.Union[...]
    if isinstance(v, ast.Compare):
        return True
    return False


def _is_cache_deco(s):
    head = s.split("(")[0].split(".")[-1]
    return head in ("lru_cache", "cache", "cached", "memoize", "memoized", "cachedmethod")


def _kind_of(v):
    if isinstance(v, MUT_LIT):
        return "container"
    if isinstance(v, ast.Call):
        f = ast.unparse(v.func)
        if f in ("count", "itertools.count"):
            return "counter"
        if f.split(".")[-1] == "ContextVar":
            return "contextvar"
        if _is_cache_deco(f) or (isinstance(v.func, ast.Call) and _is_cache_deco(ast.unparse(v.func.func))):
            return "lru_cache"
        return "call:" + f
    if _immutable(v):
        return None
    return "expr:" + type(v).__name__


BLOCKS = (ast.If, ast.Try, ast.With, ast.For, ast.While)


def _sub_bodies(n):
    out = []
    for fld in ("body", "orelse", "finalbody"):
        b = getattr(n, fld, None)
        if b:
            out.append(b)
    for h in getattr(n, "handlers", []) or []:
        out.append(h.body)
    return out


def _scan_bindings(rel, body, scope, cells, effects, class_names):
    for n in body:
        if isinstance(n, ast.ClassDef):
            class_names.add(n.name)
            _scan_bindings(rel, n.body, scope + [n.name], cells, effects, class_names)
        elif isinstance(n, (ast.FunctionDef, ast.AsyncFunctionDef)):
            for d in n.decorator_list:
                s = ast.unparse(d)
                if _is_cache_deco(s):
                    cells.append((rel, ".".join(scope + [n.name]), "lru_cache"))
        elif isinstance(n, (ast.Assign, ast.AnnAssign, ast.AugAssign)):
            v = getattr(n, "value", None)
            if v is None:
                continue
            k = _kind_of(v)
            if k:
                tgts = n.targets if isinstance(n, ast.Assign) else [n.target]
                for tg in tgts:
                    cells.append((rel, ".".join(scope + [ast.unparse(tg)]), k))
        elif isinstance(n, ast.Expr):
            if isinstance(n.value, ast.Constant):
                continue
            effects.append((rel, ".".join(scope) or "<module>", ast.unparse(n.value)))
        elif isinstance(n, BLOCKS):
            for b in _sub_bodies(n):
                _scan_bindings(rel, b, scope, cells, effects, class_names)


def _functions(body, scope):
    """(qualified name, node) of every function, nested ones included."""
    for n in body:
        if isinstance(n, ast.ClassDef):
            yield from _functions(n.body, scope + [n.name])
        elif isinstance(n, (ast.FunctionDef, ast.AsyncFunctionDef)):
            yield ".".join(scope + [n.name]), n
            yield from _functions(n.body, scope + [n.name])
        elif isinstance(n, BLOCKS):
            for b in _sub_bodies(n):
                yield from _functions(b, scope)


def _own_nodes(func):
    """AST nodes of a function body, not descending into nested function / class definitions."""
    nested = (ast.FunctionDef, ast.AsyncFunctionDef, ast.ClassDef)
    stack = [n for n in func.body if not isinstance(n, nested)]
    while stack:
        n = stack.pop()
        yield n
        for c in ast.iter_child_nodes(n):
            if isinstance(c, (ast.FunctionDef, ast.AsyncFunctionDef, ast.ClassDef)):
                continue
            stack.append(c)


def _ref_name(n):
    if isinstance(n, ast.Name):
        return n.id
    if isinstance(n, ast.Attribute):
        return n.attr
    return None


def _triples(name, rows, doc):
    rows = sorted(set(rows))
    items = ["(" + ", ".join(lean_str(x) for x in r) + ")" for r in rows]
    ty = " × ".join(["String"] * (len(rows[0]) if rows else 3))
    return f"/-- {doc} -/\ndef {name} : List ({ty}) :=\n  [" + ",\n   ".join(items) + "]\n"


def _strlist(name, items, doc):
    return f"/-- {doc} -/\ndef {name} : List String :=\n  " + lean_list(lean_str(s) for s in items) + "\n"


def _body(func):
    return [ast.unparse(s) for s in func.body if not (isinstance(s, ast.Expr) and isinstance(s.value, ast.Constant))]


def _maxsize(func):
    for d in func.decorator_list:
        s = ast.unparse(d)
        if _is_cache_deco(s):
            if isinstance(d, ast.Call):
                for kw in d.keywords:
                    if kw.arg == "maxsize":
                        if isinstance(kw.value, ast.Constant) and isinstance(kw.value.value, int):
                            return kw.value.value
                        raise PinError(f"{func.name}: maxsize is not an int literal: {ast.unparse(kw.value)}")
                if d.args:
                    a = d.args[0]
                    if isinstance(a, ast.Constant) and isinstance(a.value, int):
                        return a.value
                    raise PinError(f"{func.name}: maxsize is not an int literal: {ast.unparse(a)}")
                return 128  # functools.lru_cache() default
            if s.split(".")[-1] == "cache":
                raise PinError(f"{func.name}: unbounded functools.cache")
            return 128
    raise PinError(f"{func.name} is no longer lru_cache'd")


def scan():
    root, paths = _files()
    cells, effects, class_names = [], [], set()
    trees = {}
    for p in paths:
        rel = os.path.relpath(p, root)
        try:
            with open(p) as f:
                t = ast.parse(f.read(), filename=p)
        except SyntaxError as e:
            raise PinError(f"{rel}: {e}")
        trees[rel] = t
        _scan_bindings(rel, t.body, [], cells, effects, class_names)
        class_names.update(n.name for n in ast.walk(t) if isinstance(n, ast.ClassDef))
    cell_names = {}
    for rel, q, k in cells:
        cell_names.setdefault(q.split(".")[-1], []).append((rel, q, k))
    writes, uses, defaults, gdecls, cattr, external = [], [], [], [], [], []
    for rel, t in trees.items():
        for q, fn in _functions(t.body, []):
            a = fn.args
            pos = a.posonlyargs + a.args
            pairs = list(zip(pos[len(pos) - len(a.defaults):], a.defaults))
            pairs += [(x, y) for x, y in zip(a.kwonlyargs, a.kw_defaults) if y is not None]
            for arg, d in pairs:
                if not _immutable(d):
                    defaults.append((rel, f"{q}({arg.arg})", ast.unparse(d)))
            for m in _own_nodes(fn):
                if isinstance(m, (ast.Global, ast.Nonlocal)):
                    gdecls.append((rel, q, type(m).__name__.lower() + " " + ",".join(m.names)))
                # writes to cells
                tgts = []
                if isinstance(m, ast.Assign):
                    tgts = m.targets
                elif isinstance(m, (ast.AugAssign, ast.AnnAssign)):
                    tgts = [m.target]
                elif isinstance(m, ast.Delete):
                    tgts = m.targets
                for tg in tgts:
                    for el in (tg.elts if isinstance(tg, (ast.Tuple, ast.List)) else [tg]):
                        if isinstance(el, ast.Subscript) and _ref_name(el.value) in cell_names:
                            writes.append((rel, q, _ref_name(el.value), "subscript-store"))
                        if isinstance(el, ast.Attribute):
                            b = el.value
                            bs = ast.unparse(b)
                            if (isinstance(b, ast.Name) and (b.id in class_names or b.id == "cls")) or bs in (
                                "type(self)", "self.__class__"
                            ):
                                cattr.append((rel, q, ast.unparse(el)))
                            if el.attr in cell_names and bs != "self":
                                writes.append((rel, q, el.attr, "attribute-store"))
                if isinstance(m, ast.Call):
                    f = m.func
                    fs = ast.unparse(f)
                    if isinstance(f, ast.Attribute) and f.attr in MUTATORS and _ref_name(f.value) in cell_names:
                        writes.append((rel, q, _ref_name(f.value), "call:" + f.attr))
                    if fs == "next" and m.args and _ref_name(m.args[0]) in cell_names:
                        writes.append((rel, q, _ref_name(m.args[0]), "next"))
                    if fs in EXTERNAL or fs.split(".")[-1] in EXTERNAL_SUFFIX:
                        arg0 = ast.unparse(m.args[0]) if m.args else ""
                        external.append((rel, q, fs + "(" + arg0 + (", …" if len(m.args) + len(m.keywords) > 1 else "") + ")"))
                if isinstance(m, ast.Subscript) and isinstance(m.ctx, ast.Store) and ast.unparse(m.value) == "os.environ":
                    external.append((rel, q, "os.environ[…] = …"))
                nm = _ref_name(m) if isinstance(m, (ast.Name, ast.Attribute)) else None
                if nm in cell_names and any(k != "container" for _, _, k in cell_names[nm]):
                    uses.append((rel, q, nm))
    return {
        "cells": cells, "effects": effects, "writes": writes, "uses": uses, "defaults": defaults,
        "gdecls": gdecls, "cattr": cattr, "external": external, "trees": trees,
    }


# ---------------------------------------------------------------------------------- process-wide settings of other modules

SETTER_RE = re.compile(
    r"^(set[a-z_A-Z]*|register[a-z_A-Z]*|unregister[a-z_A-Z]*|add_[a-z_]+|install[a-z_]*|seed|basicConfig|field_size_limit|"
    r"simplefilter|filterwarnings|resetwarnings|tzset|chdir|fchdir|umask|putenv|unsetenv|freeze|disable|enable|"
    r"excepthook|displayhook|dictConfig|fileConfig|captureWarnings|use|reload|import_module|__import__|"
    r"patch|object|dict|getcontext|localcontext|setcontext|clear_cache|cache_clear|purge|mount|unmount)$")


def _external_aliases(tree):
    """names bound by `import X [as a]` / `from X import n [as a]` for modules outside the package"""
    out = {}
    for n in ast.walk(tree):
        if isinstance(n, ast.Import):
            for a in n.names:
                if not a.name.startswith("snowfakery"):
                    out[(a.asname or a.name).split(".")[0]] = a.name if a.asname else a.name.split(".")[0]
        elif isinstance(n, ast.ImportFrom):
            if n.level == 0 and n.module and not n.module.startswith("snowfakery"):
                for a in n.names:
                    out[a.asname or a.name] = n.module + "." + a.name
    return out


def _root_name(f):
    while isinstance(f, (ast.Attribute, ast.Call, ast.Subscript)):
        f = f.func if isinstance(f, ast.Call) else f.value
    return f.id if isinstance(f, ast.Name) else None


def process_setting_writes(trees):
    """Calls (inside functions) into modules outside the package that can change state global to the Python process:
    every call whose result is discarded (`csv.field_size_limit(n)`, `os.chdir(p)`, `warnings.warn(…)`), every call whose
    name looks like a setter / registration wherever it stands, and every store through an external module object
    (`os.environ[k] = v`, `decimal.getcontext().prec = n`).  (file, function, what)"""
    out = []
    for rel, t in trees.items():
        ext = _external_aliases(t)
        for q, fn in _functions(t.body, []):
            local = set(_param_names(fn))
            for m in _own_nodes(fn):
                if isinstance(m, ast.Assign):
                    for tg in m.targets:
                        if isinstance(tg, ast.Name):
                            local.add(tg.id)
            for m in _own_nodes(fn):
                if isinstance(m, ast.Expr) and isinstance(m.value, ast.Call):
                    c = m.value
                    r = _root_name(c.func)
                    if r in ext and r not in local:
                        out.append((rel, q, "call " + ast.unparse(c.func) + " [" + ext[r] + "] (result discarded)"))
                elif isinstance(m, ast.Call):
                    r = _root_name(m.func)
                    last = m.func.attr if isinstance(m.func, ast.Attribute) else (m.func.id if isinstance(m.func, ast.Name) else "")
                    if r in ext and r not in local and SETTER_RE.match(last or ""):
                        out.append((rel, q, "call " + ast.unparse(m.func) + " [" + ext[r] + "]"))
                tgts = []
                if isinstance(m, ast.Assign):
                    tgts = m.targets
                elif isinstance(m, (ast.AugAssign, ast.AnnAssign)):
                    tgts = [m.target]
                elif isinstance(m, ast.Delete):
                    tgts = m.targets
                for tg in tgts:
                    for el in (tg.elts if isinstance(tg, (ast.Tuple, ast.List)) else [tg]):
                        if isinstance(el, (ast.Attribute, ast.Subscript)):
                            r = _root_name(el)
                            if r in ext and r not in local:
                                out.append((rel, q, "store " + ast.unparse(el) + " [" + ext[r] + "]"))
    # a discarded call is also caught by the setter pattern: keep one line per (file, function, callee)
    seen, res = set(), []
    for rel, q, what in sorted(set(out)):
        key = (rel, q, what.split(" [")[0])
        if key in seen:
            continue
        seen.add(key)
        res.append((rel, q, what))
    return res


# ---------------------------------------------------------------------------------- per-run containers and stacks

PER_RUN_CLASSES = ("ParseContext", "ParseResult", "TableInfo", "Interpreter", "Globals", "Transients", "IdManager", "RowHistory",
                   "RuntimeContext", "SnowfakeryApplication", "DatasetBase", "JinjaTemplateEvaluatorFactory")


def per_run_containers(trees):
    """attributes of the classes instantiated once per run that `__init__` binds to a new mutable object:
    (file, class, attribute) — a container that moves from `__init__` to the class body leaves this list (and enters `cells`)"""
    out = []
    for rel, t in trees.items():
        for n in ast.walk(t):
            if isinstance(n, ast.ClassDef) and n.name in PER_RUN_CLASSES:
                for f in n.body:
                    if isinstance(f, ast.FunctionDef) and f.name == "__init__":
                        for m in _own_nodes(f):
                            if isinstance(m, ast.Assign) and len(m.targets) == 1 and isinstance(m.targets[0], ast.Attribute) \
                                    and ast.unparse(m.targets[0].value) == "self" and isinstance(m.value, MUT_LIT):
                                out.append((rel, n.name, m.targets[0].attr))
    return sorted(set(out))


def stack_discipline(trees):
    """every `X.append(…)` statement that is paired with an `X.pop()`: is the pop in the `finally` of a `try` that starts
    IMMEDIATELY after the push (so that no path — in particular no `raise` — lies between push and protection)?
    (file, function, stack, verdict)"""
    out = []
    for rel, t in trees.items():
        for q, fn in _functions(t.body, []):
            for body in [fn.body] + [b for m in _own_nodes(fn) if isinstance(m, BLOCKS) for b in _sub_bodies(m)]:
                for i, st in enumerate(body):
                    if not (isinstance(st, ast.Expr) and isinstance(st.value, ast.Call) and isinstance(st.value.func, ast.Attribute)
                            and st.value.func.attr == "append"):
                        continue
                    stack = ast.unparse(st.value.func.value)
                    pops = [m for m in _own_nodes(fn) if isinstance(m, ast.Call) and isinstance(m.func, ast.Attribute)
                            and m.func.attr == "pop" and not m.args and ast.unparse(m.func.value) == stack]
                    if not pops:
                        continue
                    verdict = "pop not in a finally"
                    for j in range(i + 1, len(body)):
                        nx = body[j]
                        if isinstance(nx, ast.Try) and any(isinstance(m, ast.Call) and isinstance(m.func, ast.Attribute) and m.func.attr == "pop"
                                                          and ast.unparse(m.func.value) == stack
                                                          for fb in nx.finalbody for m in ast.walk(fb)):
                            verdict = "pop in finally, try follows the push" if j == i + 1 else f"pop in finally, {j - i - 1} statement(s) between push and try"
                            break
                    out.append((rel, q, stack, verdict))
    return sorted(set(out))


# ---------------------------------------------------------------------------------- caller-owned arguments

ENTRY_POINTS = (("api.py", "generate_data"), ("data_generator.py", "generate"))
FRESH_CALLS = {"dict", "list", "set", "tuple", "frozenset", "sorted", "copy", "deepcopy", "copy.copy", "copy.deepcopy", "str", "int",
               "bool", "len", "Path", "bytes"}


def _mentions(expr, names):
    return [n.id for n in ast.walk(expr) if isinstance(n, ast.Name) and n.id in names]


def _alias_value(v, aliases):
    """does `x = v` make x another name for an object reachable through `aliases`?"""
    if isinstance(v, ast.Name):
        return v.id in aliases
    if isinstance(v, ast.BoolOp):  # `a or {}` keeps the caller's object when it is truthy
        return any(_alias_value(x, aliases) for x in v.values)
    if isinstance(v, ast.IfExp):
        return _alias_value(v.body, aliases) or _alias_value(v.orelse, aliases)
    if isinstance(v, ast.Starred):
        return _alias_value(v.value, aliases)
    return False


def _param_names(fn):
    a = fn.args
    names = [x.arg for x in a.posonlyargs + a.args + a.kwonlyargs]
    if a.vararg:
        names.append(a.vararg.arg)
    if a.kwarg:
        names.append(a.kwarg.arg)
    return [n for n in names if n not in ("self", "cls")]


def _positional(fn):
    a = fn.args
    return [x.arg for x in a.posonlyargs + a.args if x.arg not in ("self", "cls")]


def caller_arguments(trees):
    """Everything the embedding entry points do with the objects their caller passes in.

    Starting from every parameter of `generate_data` / `generate`, follow the object through simple aliases
    (`x = p`, `x = p or {}`, `x = a if c else p`) and through calls of package functions (by position / keyword),
    transitively.  Reports
      cells    (function, parameter): the places the caller's objects reach
      writes   (file, function, parameter, how): subscript store / del / augmented subscript / mutator method on such a name
      escapes  (file, function, parameter, where): the object is stored in an attribute or handed to something the scan cannot follow
    """
    funcs = {}
    for rel, t in trees.items():
        for q, fn in _functions(t.body, []):
            funcs.setdefault(q.split(".")[-1], []).append((rel, q, fn))
    work, seen = [], set()
    for rel, name in ENTRY_POINTS:
        cands = [x for x in funcs.get(name, []) if x[0] == rel and x[1] == name]
        if len(cands) != 1:
            raise PinError(f"entry point {rel}:{name} not found")
        for p in _param_names(cands[0][2]):
            work.append((rel, name, p))
    cells, writes, escapes = [], [], []
    while work:
        rel, q, param = work.pop()
        if (rel, q, param) in seen:
            continue
        seen.add((rel, q, param))
        cells.append((rel, q, param))
        fn = [x for x in funcs[q.split(".")[-1]] if x[0] == rel and x[1] == q][0][2]
        aliases = {param}
        nodes = sorted(_own_nodes(fn), key=lambda n: (getattr(n, "lineno", 0), getattr(n, "col_offset", 0)))
        unconditional = {id(x) for x in fn.body}
        for m in nodes:
            # (re)binding of names
            if isinstance(m, ast.Assign) and len(m.targets) == 1 and isinstance(m.targets[0], ast.Name):
                tgt = m.targets[0].id
                if _alias_value(m.value, aliases):
                    aliases.add(tgt)
                elif tgt in aliases and id(m) in unconditional:
                    # rebound, on every path, to something that is not the caller's object (e.g. dict(p or {}));
                    # a rebinding inside an `if` / loop leaves the name an alias on the other paths
                    aliases.discard(tgt)
            if isinstance(m, ast.Assign):
                for tg in m.targets:
                    if isinstance(tg, ast.Attribute) and _alias_value(m.value, aliases):
                        escapes.append((rel, q, param, "stored: " + ast.unparse(tg)))
            # writes
            tgts = []
            if isinstance(m, ast.Assign):
                tgts = m.targets
            elif isinstance(m, (ast.AugAssign, ast.AnnAssign)):
                tgts = [m.target]
            elif isinstance(m, ast.Delete):
                tgts = m.targets
            for tg in tgts:
                for el in (tg.elts if isinstance(tg, (ast.Tuple, ast.List)) else [tg]):
                    if isinstance(el, ast.Subscript) and isinstance(el.value, ast.Name) and el.value.id in aliases:
                        writes.append((rel, q, param, ("del " if isinstance(m, ast.Delete) else "store ") + ast.unparse(el)))
                    if isinstance(el, ast.Attribute) and isinstance(el.value, ast.Name) and el.value.id in aliases:
                        writes.append((rel, q, param, "attribute " + ast.unparse(el)))
                    if isinstance(m, ast.AugAssign) and isinstance(el, ast.Name) and el.id in aliases:
                        writes.append((rel, q, param, "augmented " + ast.unparse(m)))
            if isinstance(m, ast.Call):
                f = m.func
                if isinstance(f, ast.Attribute) and isinstance(f.value, ast.Name) and f.value.id in aliases:
                    if f.attr in MUTATORS or f.attr in ("write", "writelines", "truncate", "close"):
                        if f.attr in MUTATORS:
                            writes.append((rel, q, param, "call ." + f.attr + "(…)"))
                    continue
                # the object is passed on
                passed = []
                for i, a in enumerate(m.args):
                    if _alias_value(a, aliases):
                        passed.append((i, None))
                for kw in m.keywords:
                    if kw.value is not None and _alias_value(kw.value, aliases):
                        passed.append((None, kw.arg))
                if not passed:
                    continue
                fs = ast.unparse(f)
                if fs in FRESH_CALLS or fs.split(".")[-1] in ("isinstance", "bool", "len", "str", "repr", "tuple", "list", "dict", "set"):
                    continue
                cands = funcs.get(fs.split(".")[-1], []) if isinstance(f, (ast.Name, ast.Attribute)) else []
                cands = [c for c in cands if c[1].count(".") == (0 if isinstance(f, ast.Name) else c[1].count("."))]
                if isinstance(f, ast.Name) and len(cands) == 1:
                    crel, cq, cfn = cands[0]
                    pos = _positional(cfn)
                    allp = _param_names(cfn)
                    for i, kw in passed:
                        if i is not None and i < len(pos):
                            work.append((crel, cq, pos[i]))
                        elif kw is not None and kw in allp:
                            work.append((crel, cq, kw))
                        else:
                            escapes.append((rel, q, param, "passed to " + fs + "(…)"))
                else:
                    escapes.append((rel, q, param, "passed to " + fs + "(…)"))
    return sorted(set(cells)), sorted(set(writes)), sorted(set(escapes))


@group("GlobalState", ("snowfakery/**/*.py",), ["C19"])
def _global_state(_tree):
    s = scan()
    trees = s["trees"]
    out = ""
    out += _triples("cells", s["cells"], "every module-level or class-level binding whose value is not evidently immutable: (file, qualified name, kind)")
    out += f"/-- number of scanned source files -/\ndef scannedFiles : Nat := {len(trees)}\n"
    rows = s["writes"] or []
    out += ("/-- stores / mutations / advances of a cell inside function bodies: (file, function, cell, how) -/\n"
            "def cellWrites : List (String × String × String × String) :=\n  ["
            + ",\n   ".join("(" + ", ".join(lean_str(x) for x in r) + ")" for r in sorted(set(rows))) + "]\n")
    out += _triples("cellUses", s["uses"], "functions mentioning a non-container cell: (file, function, cell)")
    out += _triples("importEffects", s["effects"], "expression statements executed at import time: (file, scope, call)")
    out += _triples("mutableDefaults", s["defaults"], "mutable default arguments: (file, function(parameter), default)") if s["defaults"] else \
        "def mutableDefaults : List (String × String × String) := []\n"
    out += _triples("globalDecls", s["gdecls"], "global / nonlocal statements: (file, function, statement)") if s["gdecls"] else \
        "/-- global / nonlocal statements -/\ndef globalDecls : List (String × String × String) := []\n"
    out += _triples("classAttrWrites", s["cattr"], "assignments to class attributes inside functions: (file, function, target)") if s["cattr"] else \
        "def classAttrWrites : List (String × String × String) := []\n"
    out += _triples("externalWrites", s["external"], "calls changing process-wide state outside the package: (file, function, call)") if s["external"] else \
        "def externalWrites : List (String × String × String) := []\n"

    # ---- per-run containers and stacks
    out += _triples("perRunContainers", per_run_containers(trees), "containers created by `__init__` of the per-run classes: (file, class, attribute)")
    sd = stack_discipline(trees)
    out += ("/-- push / pop pairs: (file, function, stack, verdict) -/\ndef stackDiscipline : List (String × String × String × String) :=\n  ["
            + ",\n   ".join("(" + ", ".join(lean_str(x) for x in r) + ")" for r in sd) + "]\n")
    # ---- process-wide settings of other modules
    out += _triples("processSettingWrites", process_setting_writes(trees),
                    "in-function calls / stores that can change process-global state of modules outside the package: (file, function, what)")
    # ---- caller-owned arguments of the embedding entry points
    acells, awrites, aescapes = caller_arguments(trees)
    out += _triples("callerArgCells", acells, "where the objects passed by the caller of generate_data / generate reach: (file, function, parameter)")
    out += ("/-- writes to a caller-owned argument (or an alias of it): (file, function, parameter, how) -/\n"
            "def callerArgWrites : List (String × String × String × String) :=\n  ["
            + ",\n   ".join("(" + ", ".join(lean_str(x) for x in r) + ")" for r in awrites) + "]\n")
    out += ("/-- a caller-owned argument stored in an attribute or handed to code the scan does not follow: (file, function, parameter, where) -/\n"
            "def callerArgEscapes : List (String × String × String × String) :=\n  ["
            + ",\n   ".join("(" + ", ".join(lean_str(x) for x in r) + ")" for r in aescapes) + "]\n")
    # ---- wiring facts of the process model
    tf = trees.get("template_funcs.py")
    sn = trees.get("utils/scrambled_numbers.py")
    uid = trees.get("standard_plugins/UniqueId.py")
    ds = trees.get("standard_plugins/datasets.py")
    pl = trees.get("plugins.py")
    rt = trees.get("data_generator_runtime.py")
    dg = trees.get("data_generator.py")
    rh = trees.get("row_history.py")
    pk = trees.get("utils/pickle.py")
    for name, t in (("template_funcs.py", tf), ("utils/scrambled_numbers.py", sn), ("standard_plugins/UniqueId.py", uid),
                    ("standard_plugins/datasets.py", ds), ("plugins.py", pl), ("data_generator_runtime.py", rt),
                    ("data_generator.py", dg), ("row_history.py", rh), ("utils/pickle.py", pk)):
        if t is None:
            raise PinError(f"{name} not found")
    # since commit 885750c only the string branches of parse_date / parse_datetimespec are cached
    def _opt_func(tree, name):
        try:
            return find_func(tree, name)
        except PinError:
            return None

    def _decorated(fn):
        return any(_is_cache_deco(ast.unparse(d)) for d in fn.decorator_list)

    pd, pdt = find_func(tf, "parse_date"), find_func(tf, "parse_datetimespec")
    pds, pdts = _opt_func(tf, "_parse_date_str"), _opt_func(tf, "_parse_datetime_str")
    only_strings = (pds is not None and pdts is not None and not _decorated(pd) and not _decorated(pdt)
                    and _decorated(pds) and _decorated(pdts))
    date_cache_fn = pds if only_strings else pd
    dt_cache_fn = pdts if only_strings else pdt
    out += f"/-- the date caches sit on the string-only helpers, the dispatching wrappers are not cached -/\ndef cachesOnlyStrings : Bool := {'true' if only_strings else 'false'}\n"
    out += f"/-- `@lru_cache(maxsize=…)` of {date_cache_fn.name} -/\ndef maxsizeParseDate : Nat := {_maxsize(date_cache_fn)}\n"
    out += f"/-- `@lru_cache(maxsize=…)` of {dt_cache_fn.name} -/\ndef maxsizeParseDatetimespec : Nat := {_maxsize(dt_cache_fn)}\n"
    out += _strlist("parseDateBody", _body(pd), "`parse_date`: datetimes and dates are answered directly, only strings go on")
    out += _strlist("parseDatetimespecBody", _body(pdt), "`parse_datetimespec`: datetimes, `now`, `today` and dates are answered directly, other strings go on")
    out += _strlist("parseDateStrBody", _body(pds) if pds else [], "`_parse_date_str` (cached)")
    out += _strlist("parseDatetimeStrBody", _body(pdts) if pdts else [], "`_parse_datetime_str` (cached)")
    out += f"/-- `@lru_cache()` of randomizer -/\ndef maxsizeRandomizer : Nat := {_maxsize(find_func(sn, 'randomizer'))}\n"
    out += f"/-- `@lru_cache()` of mask_for_key -/\ndef maxsizeMaskForKey : Nat := {_maxsize(find_func(sn, 'mask_for_key'))}\n"
    for fn_name, lean_name in ((date_cache_fn.name, "parseDateParams"), (dt_cache_fn.name, "parseDatetimespecParams"),
                               ("randomizer", "randomizerParams"), ("mask_for_key", "maskForKeyParams")):
        fn = find_func(tf if "parse" in fn_name else sn, fn_name)
        a = fn.args
        if a.vararg or a.kwarg or a.kwonlyargs or a.defaults:
            raise PinError(f"{fn_name}: unexpected signature")
        out += _strlist(lean_name, [x.arg for x in a.args], f"parameters of `{fn_name}` (= the cache key)")
    out += _strlist("maskForKeyBody", _body(find_func(sn, "mask_for_key")), "`mask_for_key`: the cached Random is copied, never advanced")
    out += _strlist("randomizerBody", _body(find_func(sn, "randomizer")), "`randomizer` body")
    # the counter
    cu = None
    for n in find_class(uid, "UniqueNumericIdGenerator").body:
        if isinstance(n, ast.Assign) and ast.unparse(n.targets[0]) == "context_uniqifier":
            cu = n.value
    if cu is None or not isinstance(cu, ast.Call) or ast.unparse(cu.func) != "count" or len(cu.args) != 1 \
            or not isinstance(cu.args[0], ast.Constant) or not isinstance(cu.args[0].value, int):
        raise PinError("UniqueNumericIdGenerator.context_uniqifier is no longer `count(<int>)`")
    out += f"/-- `context_uniqifier = count(…)` -/\ndef counterStart : Nat := {cu.args[0].value}\n"
    init = find_func(find_class(uid, "UniqueNumericIdGenerator"), "__init__")
    first = [ast.unparse(x) for x in init.body if "context_uniqifier" in ast.unparse(x)]
    out += _strlist("counterUse", first, "statements of `UniqueNumericIdGenerator.__init__` touching the counter")
    # brackets
    out += _strlist("chdirBody", _body(find_func(ds, "chdir")), "`datasets.chdir`: save, change, restore in `finally`")
    pp = find_func(pl, "plugin_path")
    rets = [ast.unparse(n.value) for n in ast.walk(pp) if isinstance(n, ast.Return)]
    out += _strlist("pluginPathReturn", rets, "`plugins.plugin_path` returns a restoring patch of sys.path")
    rp = find_func(pl, "resolve_plugins")
    out += _strlist("resolvePluginsBody", [ast.unparse(x).split("\n")[0] for x in rp.body if not isinstance(x, ast.Expr)],
                    "`resolve_plugins`: the patch is used as a context manager")
    # per-run lifecycle
    ex = find_func(rt, "execute", cls="Interpreter")
    out += _strlist("executeBody", _body(ex), "`Interpreter.execute`: the ContextVar is set before anything is read")
    xt = find_func(rt, "__exit__", cls="Interpreter")
    cleared = [ast.unparse(x) for x in xt.body if isinstance(x, ast.Assign)]
    out += _strlist("exitClears", cleared, "`Interpreter.__exit__` assignments")
    ini = find_func(rt, "__init__", cls="Interpreter")
    fresh = [ast.unparse(x).split("\n")[0] for x in ini.body if isinstance(x, ast.Assign)
             and ast.unparse(x.targets[0]) in ("self.instance_states", "self.row_history", "self.faker_template_libraries",
                                               "self.plugin_instances", "self.template_evaluator_factory")]
    out += _strlist("interpreterFresh", fresh, "per-run objects created in `Interpreter.__init__`")
    idm = find_func(find_class(rt, "IdManager"), "__init__")
    out += _strlist("idManagerInit", _body(idm), "`IdManager.__init__`: ids start from 0 + 1")
    ig = find_func(dg, "initialize_globals")
    news = [ast.unparse(n) for n in ast.walk(ig) if isinstance(n, ast.Assign) and ast.unparse(n.targets[0]) == "globals"]
    out += _strlist("initializeGlobals", news, "`initialize_globals`: where the Globals of a run comes from")
    gen = find_func(dg, "generate")
    po = [ast.unparse(x).replace("\n", " ") for x in gen.body if "plugin_options" in ast.unparse(x) and not isinstance(x, (ast.Try,))]
    out += _strlist("generatePluginOptions", po, "statements of `generate` that touch plugin_options")
    # is the caller's dict copied before anything is stored into it?
    first = None
    for x in gen.body:
        if isinstance(x, ast.Assign) and ast.unparse(x.targets[0]) == "plugin_options":
            first = x
            break
    stores_before = False
    for x in gen.body:
        if x is first:
            break
        if "plugin_options[" in ast.unparse(x):
            stores_before = True
    if first is None:
        raise PinError("generate: no assignment to plugin_options")
    v = first.value
    copies = (isinstance(v, ast.Call) and (ast.unparse(v.func) in ("dict", "copy.copy", "copy.deepcopy", "copy", "deepcopy")
                                           or (isinstance(v.func, ast.Attribute) and v.func.attr == "copy"))) and not stores_before
    out += f"/-- `generate` copies the caller's plugin_options before writing to it: `{ast.unparse(first)}` -/\ndef copiesPluginOptions : Bool := {'true' if copies else 'false'}\n"
    # what StandardFuncs.datetime does with the object parse_datetimespec returns
    dtf = find_func(find_class(tf, "Functions"), "datetime")
    post = []
    for n in ast.walk(dtf):
        if isinstance(n, ast.If) and any("parse_datetimespec" in ast.unparse(x) for x in n.body):
            seen = False
            for x in n.body:
                if "parse_datetimespec" in ast.unparse(x):
                    seen = True
                if seen:
                    post.append(ast.unparse(x))
            break
    if not post:
        raise PinError("Functions.datetime: the call of parse_datetimespec was not found")
    out += _strlist("datetimePostprocess", post, "`Functions.datetime`: from the cached lookup to the returned value")
    dflt = [ast.unparse(d) for a, d in zip(dtf.args.kwonlyargs, dtf.args.kw_defaults) if a.arg == "timezone"]
    out += _strlist("datetimeDefaultZone", dflt, "default of the `timezone` parameter of `Functions.datetime`")
    dfn = find_func(find_class(tf, "Functions"), "date")
    out += _strlist("dateReturns", [ast.unparse(n) for n in ast.walk(dfn) if isinstance(n, ast.Return)],
                    "`Functions.date`: the cached lookup is returned as it is")
    rhc = find_class(rh, "RowHistory")
    aw = [ast.unparse(n) for n in ast.walk(rhc) if isinstance(n, ast.Assign) and "already_warned" in ast.unparse(n.targets[0])]
    out += _strlist("alreadyWarnedStores", aw, "assignments to RowHistory.already_warned (class default, instance latch)")
    gu = find_func(pk, "_get_RestrictedUnpicklerClass")
    inner = [n.name for n in gu.body if isinstance(n, ast.ClassDef)]
    out += _strlist("unpicklerClassPerInstance", inner, "the class carrying `count` is created inside a function (one per RowHistory)")
    return out
