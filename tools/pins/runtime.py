"""Pins for snowfakery/data_generator_runtime.py, object_rows.py, data_generator_runtime_object_model.py
(C01, C02, C03, C04, C05, C06): dict-override orders, the id arithmetic, call orders, persisted keys."""
import ast

from tools.py2lean import (
    PinError, ExprTranslator, find_class, find_func, group, lean_def, lean_list, lean_str, parse,
)


def _ret_dict(func):
    rets = [n for n in ast.walk(func) if isinstance(n, ast.Return) and isinstance(n.value, ast.Dict)]
    if len(rets) != 1:
        raise PinError(f"{func.name}: expected exactly one `return {{...}}`")
    return rets[0].value


def _strlist(name, items, doc):
    return f"/-- {doc} -/\ndef {name} : List String :=\n  " + lean_list(lean_str(s) for s in items) + "\n"


def _calls_in_order(func):
    """Names of calls / augmented assignments at statement level, in source order (shallow)."""
    out = []
    for s in func.body:
        if isinstance(s, ast.Expr) and isinstance(s.value, ast.Constant):
            continue  # docstring
        out.append(ast.unparse(s))
    return out


@group("Runtime", "snowfakery/data_generator_runtime.py", ["C01", "C02", "C03", "C04", "C05", "C06", "C09"])
def _runtime(tree):
    out = ""
    # --- Globals.object_names: later entries override earlier ones
    f = find_func(tree, "object_names", cls="Globals")
    d = _ret_dict(f)
    if any(k is not None for k in d.keys):
        raise PinError("object_names: expected only **-unpackings")
    out += _strlist("objectNamesOrder", [ast.unparse(v) for v in d.values],
                    "`Globals.object_names`: dict unpacking order (later overrides earlier)")
    # --- EvaluationNamespace.simple_field_vars override order
    f = find_func(tree, "simple_field_vars", cls="EvaluationNamespace")
    d = _ret_dict(f)
    items = [(k.value if k is not None else "**" + ast.unparse(v)) for k, v in zip(d.keys, d.values)]
    out += _strlist("fieldVarsOrder", items, "`simple_field_vars`: key / unpacking order (later overrides earlier)")
    # --- IdManager
    idm = find_class(tree, "IdManager")
    g = find_func(idm, "generate_id")
    out += _strlist("idManagerGenerate", _calls_in_order(g), "`IdManager.generate_id` body")
    ss = find_func(idm, "__setstate__")
    comp = [n for n in ast.walk(ss) if isinstance(n, ast.DictComp)]
    if len(comp) != 1:
        raise PinError("IdManager.__setstate__: expected one dict comprehension for start_ids")
    tr = ExprTranslator({"val": "val"})
    out += lean_def("startId", ["val"], "Int", tr.tr(comp[0].value), doc="start_ids[name] = " + ast.unparse(comp[0].value))
    out += _strlist("idManagerSaved", [ast.unparse(k) for k in _ret_dict(find_func(idm, "__getstate__")).keys],
                    "keys written by `IdManager.__getstate__`")
    # --- RuntimeContext.generate_id: the chain nickname slot / table slot / fresh id
    f = find_func(tree, "generate_id", cls="RuntimeContext")
    out += _strlist("generateIdBody", _calls_in_order(f), "`RuntimeContext.generate_id` statements")
    # --- Globals.generate_id_for_nickname
    f = find_func(tree, "generate_id_for_nickname", cls="Globals")
    out += _strlist("consumeBody", _calls_in_order(f), "`Globals.generate_id_for_nickname` statements")
    # --- register_object
    f = find_func(tree, "register_object", cls="Globals")
    out += _strlist("registerBody", _calls_in_order(f), "`Globals.register_object` statements")
    # --- check_slots_filled / reset_slots
    f = find_func(tree, "check_slots_filled", cls="Globals")
    comps = [n for n in ast.walk(f) if isinstance(n, ast.ListComp)]
    if len(comps) != 1:
        raise PinError("check_slots_filled: expected one list comprehension")
    out += _strlist("notFilledComp", [ast.unparse(comps[0])], "`check_slots_filled`: which slots count as not filled")
    f = find_func(tree, "reset_slots", cls="Globals")
    out += _strlist("resetSlotsBody", _calls_in_order(f), "`Globals.reset_slots` statements")
    tcls = find_class(tree, "Transients")
    out += _strlist("transientsInit", _calls_in_order(find_func(tcls, "__init__")), "`Transients.__init__` statements")
    # --- the iteration loop
    f = find_func(tree, "loop_over_templates_until_finished", cls="Interpreter")
    wh = [n for n in f.body if isinstance(n, ast.While)]
    if len(wh) != 1:
        raise PinError("loop_over_templates_until_finished: expected one while loop")
    out += _strlist("loopTest", [ast.unparse(wh[0].test)], "loop condition")
    out += _strlist("loopBody", [ast.unparse(s) for s in wh[0].body], "iteration loop body, in order")
    f = find_func(tree, "check_if_finished", cls="RuntimeContext")
    out += _strlist("checkIfFinishedBody", _calls_in_order(f)[2:], "`RuntimeContext.check_if_finished` after the two local bindings")
    # --- persisted keys (continuation file)
    gs = find_func(tree, "__getstate__", cls="Globals")
    dicts = [n for n in ast.walk(gs) if isinstance(n, ast.Assign) and isinstance(n.value, ast.Dict)
             and n.value.keys and all(isinstance(k, ast.Constant) for k in n.value.keys)]
    if len(dicts) != 1:
        raise PinError("Globals.__getstate__: expected one literal state dict")
    out += _strlist("globalsSaved", [k.value for k in dicts[0].value.keys], "keys written by `Globals.__getstate__`")
    st = find_func(tree, "__setstate__", cls="Globals")
    acc = []
    for n in ast.walk(st):
        if isinstance(n, ast.Subscript) and ast.unparse(n.value) == "state" and isinstance(n.slice, ast.Constant):
            acc.append((n.lineno, n.col_offset, "item:" + n.slice.value))
        if isinstance(n, ast.Call) and ast.unparse(n.func) == "state.get" and n.args and isinstance(n.args[0], ast.Constant):
            acc.append((n.lineno, n.col_offset, "get:" + n.args[0].value))
        if (isinstance(n, ast.Call) and ast.unparse(n.func) == "getattr" and len(n.args) >= 2
                and ast.unparse(n.args[0]) == "state" and isinstance(n.args[1], ast.Constant)):
            acc.append((n.lineno, n.col_offset, "attr:" + n.args[1].value))
    acc.sort()
    out += _strlist("globalsLoaded", [a[2] for a in acc], "how `Globals.__setstate__` reads each key (item / get / attr)")
    out += _strlist("setstateTail", _calls_in_order(st)[-1:], "last statement of `Globals.__setstate__`")
    # --- resave_objects_from_continuation exists and is called from __init__
    init = find_func(tree, "__init__", cls="Interpreter")
    calls = [ast.unparse(n.func) for n in ast.walk(init) if isinstance(n, ast.Call)]
    out += _strlist("interpreterInitTail", [c for c in calls if "resave" in c or "RowHistory" in c],
                    "history-related calls in `Interpreter.__init__`")
    return out


@group("ObjectRows", "snowfakery/object_rows.py", ["C01", "C02", "C05"])
def _object_rows(tree):
    out = ""
    slot = find_class(tree, "NicknameSlot")
    f = find_func(slot, "consume_slot")
    out += _strlist("consumeSlotBody", _calls_in_order(f), "`NicknameSlot.consume_slot` statements")
    f = find_func(slot, "id")
    out += _strlist("slotIdBody", _calls_in_order(f), "`NicknameSlot.id` statements")
    f = find_func(slot, "status")
    out += _strlist("slotStatusBody", [ast.unparse(s) for s in f.body if not (isinstance(s, ast.Expr) and isinstance(s.value, ast.Constant))],
                    "`NicknameSlot.status` statements")
    row = find_class(tree, "ObjectRow")
    f = find_func(row, "__getstate__")
    out += _strlist("objectRowGetstate", _calls_in_order(f), "`ObjectRow.__getstate__` statements")
    f = find_func(row, "__setstate__")
    out += _strlist("objectRowSetstate", _calls_in_order(f), "`ObjectRow.__setstate__` statements")
    return out


@group("ObjectModel", "snowfakery/data_generator_runtime_object_model.py", ["C03", "C06", "C09"])
def _object_model(tree):
    out = ""
    ot = find_class(tree, "ObjectTemplate")
    f = find_func(ot, "execute")
    out += _strlist("templateExecuteBody", _calls_in_order(f), "`ObjectTemplate.execute` (the just_once skip rule)")
    f = find_func(ot, "_generate_row")
    out += _strlist("generateRowBody", [ast.unparse(s) for s in f.body if not (isinstance(s, ast.Expr) and isinstance(s.value, ast.Constant))],
                    "`ObjectTemplate._generate_row` statements, in order")
    f = find_func(ot, "generate_rows")
    out += _strlist("generateRowsBody", [ast.unparse(s) for s in f.body if not (isinstance(s, ast.Expr) and isinstance(s.value, ast.Constant))],
                    "`ObjectTemplate.generate_rows` statements")
    f = find_func(ot, "_generate_fields")
    out += _strlist("generateFieldsBody", [ast.unparse(s) for s in f.body if not (isinstance(s, ast.Expr) and isinstance(s.value, ast.Constant))],
                    "`ObjectTemplate._generate_fields` statements")
    vd = find_class(tree, "VariableDefinition")
    out += _strlist("varExecuteBody", _calls_in_order(find_func(vd, "execute")), "`VariableDefinition.execute` statements")
    sv = find_class(tree, "SimpleValue")
    out += _strlist("simpleValueRender", _calls_in_order(find_func(sv, "render")), "`SimpleValue.render` statements")
    f = find_func(ot, "_evaluate_count")
    rets = [ast.unparse(n.value) for n in ast.walk(f) if isinstance(n, ast.Return)]
    out += _strlist("evaluateCountReturns", rets, "`_evaluate_count` return expressions")
    return out
