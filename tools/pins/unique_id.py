"""Pins for C13: snowfakery/utils/scrambled_numbers.py, snowfakery/standard_plugins/UniqueId.py and
the two builtins in snowfakery/template_funcs.py.

Arithmetic is translated to Lean `Int` terms; `int(log(x, 2))` becomes the explicit oracle
parameter `lg`, `a ^ b` becomes `pyXor` (defined in the generated file, for non-negative ints).
Everything that is wiring rather than arithmetic (statement order, the `_convert` dispatch chain,
default templates, the keyword arguments of the inner generator, the cached mask function) is
pinned as ordered string tables compared with `rfl` in `Props/C13Bridge.lean`.
"""
import ast

from tools.py2lean import (
    PinError, ExprTranslator, assignments_to, cond_pin, find_class, find_func, group, int_pin,
    lean_def, lean_list, lean_str, module_constant, class_constant,
)


class Tr(ExprTranslator):
    """ExprTranslator + `x if n else y` (int truthiness), `int(log(x, 2))`, `^`, `int(a / b)`."""

    def tr(self, n):
        if isinstance(n, ast.IfExp):
            return f"(if {self.tr(n.test)} ≠ 0 then {self.tr(n.body)} else {self.tr(n.orelse)})"
        if isinstance(n, ast.Call) and ast.unparse(n.func) == "int" and len(n.args) == 1:
            a = n.args[0]
            if (
                isinstance(a, ast.Call)
                and ast.unparse(a.func) in ("log", "math.log")
                and len(a.args) == 2
                and isinstance(a.args[1], ast.Constant)
                and a.args[1].value == 2
            ):
                return f"(lg {self.tr(a.args[0])})"
            if isinstance(a, ast.BinOp) and isinstance(a.op, ast.Div):
                # float division of small non-negative ints followed by int(): truncation
                return f"(Int.tdiv {self.tr(a.left)} {self.tr(a.right)})"
        if isinstance(n, ast.BinOp) and isinstance(n.op, ast.BitXor):
            return f"(pyXor {self.tr(n.left)} {self.tr(n.right)})"
        return super().tr(n)


PRELUDE = """/-- Python `a ^ b` for non-negative ints -/
def pyXor (a b : Int) : Int := ((a.toNat ^^^ b.toNat : Nat) : Int)

"""


def _def(name, params, body, doc, fparams=()):
    ps = " ".join([f"({p} : Int → Int)" for p in fparams] + [f"({p} : Int)" for p in params])
    return f"/-- `{doc}` -/\ndef {name}{(' ' + ps) if ps else ''} : Int :=\n  {body}\n"


def _strs(name, items, doc):
    return f"/-- {doc} -/\ndef {name} : List String :=\n  " + lean_list(lean_str(s) for s in items) + "\n"


def _str(name, s, doc):
    return f"/-- {doc} -/\ndef {name} : String :=\n  {lean_str(s)}\n"


def _single_assign(func, target, index=0, count=None):
    asg = [a for a in assignments_to(func, target) if isinstance(a, ast.Assign)]
    if not asg:
        raise PinError(f"no assignment to `{target}` in {func.name}")
    if count is not None and len(asg) != count:
        raise PinError(f"`{target}` is assigned {len(asg)} times in {func.name}, expected {count}")
    return asg[index]


def _expr_pin(func, target, params, consts, name=None, index=0, count=None, fparams=(), rename=None):
    node = _single_assign(func, target, index, count)
    mapping = {p: (rename or {}).get(p, p) for p in params}
    tr = Tr(mapping, consts)
    body = tr.tr(node.value)
    missing = [p for p in params if p not in tr.used]
    if missing:
        raise PinError(f"`{target} = {ast.unparse(node.value)}` no longer mentions {missing}")
    used_f = [f for f in fparams if f"({f} " in body]
    if list(used_f) != list(fparams):
        raise PinError(f"`{target} = {ast.unparse(node.value)}` no longer calls {list(fparams)}")
    return _def(name or target, [mapping[p] for p in params], body, f"{target} = {ast.unparse(node.value)}", fparams)


def _body_strings(func):
    """unparsed top-level statements of a function body (docstring skipped)"""
    out = []
    for s in func.body:
        if isinstance(s, ast.Expr) and isinstance(s.value, ast.Constant) and isinstance(s.value.value, str):
            continue
        out.append(ast.unparse(s).replace("\n", " ; "))
    return out


def _kwdefault(func, name):
    a = func.args
    for k, d in zip(a.kwonlyargs, a.kw_defaults):
        if k.arg == name:
            return d
    pos = a.posonlyargs + a.args
    for k, d in zip(pos[len(pos) - len(a.defaults):], a.defaults):
        if k.arg == name:
            return d
    raise PinError(f"{func.name}: no parameter `{name}` with a default")


def _const(node, what, types=(int,)):
    if not isinstance(node, ast.Constant) or isinstance(node.value, bool) or not isinstance(node.value, types):
        raise PinError(f"{what} is no longer a literal of the expected type")
    return node.value


def _decorators(func):
    return [ast.unparse(d) for d in func.decorator_list]


# ----------------------------------------------------------------------------- scrambled_numbers.py


@group("ScrambledNumbers", "snowfakery/utils/scrambled_numbers.py", ["C13"])
def _scrambled(tree):
    out = PRELUDE
    consts = {}
    for nm in ("SHIFT1", "SHIFT2", "SHIFT3"):
        v = module_constant(tree, nm)
        body = Tr({}, consts).tr(v)
        out += _def(nm, [], body, f"{nm} = {ast.unparse(v)}")
        consts[nm] = nm
    f = find_func(tree, "scramble_number")
    d = _const(_kwdefault(f, "minbits"), "default of minbits")
    out += _def("defaultMinbits", [], f"({d} : Int)", f"minbits: int = {d}")
    asserts = [n for n in f.body if isinstance(n, ast.Assert)]
    if len(asserts) != 2:
        raise PinError("scramble_number: expected two asserts")
    out += cond_pin(asserts[0].test, ["minbits"], "assertMinbits")
    tr = ExprTranslator({"numbits": "numbits"}, consts)
    out += lean_def("assertNumbits", ["numbits"], "Bool", tr.cond(asserts[1].test), doc=ast.unparse(asserts[1].test))
    out += _expr_pin(f, "minbits", ["minbits"], consts, name="effMinbits", count=1)
    out += _expr_pin(f, "key", ["number"], consts, count=1)
    out += _expr_pin(f, "number", ["number"], consts, name="numberDiv", count=1)
    out += _expr_pin(f, "numbits", ["minbits", "number"], consts, count=1, fparams=("lg",))
    out += _expr_pin(f, "scrambled", ["number", "mask"], consts, count=1)
    m = _single_assign(f, "mask", count=1)
    out += _str("maskCall", ast.unparse(m.value), "how the mask is obtained")
    rets = [n for n in ast.walk(f) if isinstance(n, ast.Return)]
    if len(rets) != 1:
        raise PinError("scramble_number: expected one return")
    trr = Tr({p: p for p in ("scrambled", "key", "numbits")}, consts)
    body = trr.tr(rets[0].value)
    if trr.used != {"scrambled", "key", "numbits"}:
        raise PinError("scramble_number: return no longer combines scrambled, key and numbits")
    out += _def("result", ["scrambled", "key", "numbits"], body, "return " + ast.unparse(rets[0].value))
    # statement order (asserts, assignments, return)
    skel = []
    for s in f.body:
        if isinstance(s, ast.Assert):
            skel.append("assert " + ast.unparse(s.test))
        elif isinstance(s, ast.Assign):
            skel.append(ast.unparse(s.targets[0]))
        elif isinstance(s, ast.Return):
            skel.append("return")
        elif isinstance(s, ast.Expr) and isinstance(s.value, ast.Constant):
            continue
        else:
            skel.append(type(s).__name__)
    out += _strs("scrambleSkeleton", skel, "statement order of scramble_number")
    # the mask function must be a pure function of (key, numbits)
    mk = find_func(tree, "mask_for_key")
    out += _strs("maskForKey", [",".join(a.arg for a in mk.args.args)] + _decorators(mk) + _body_strings(mk),
                 "mask_for_key: parameters, decorators, body")
    rz = find_func(tree, "randomizer")
    out += _strs("randomizer", [",".join(a.arg for a in rz.args.args)] + _decorators(rz) + _body_strings(rz),
                 "randomizer: parameters, decorators, body")
    # unscramble_number
    u = find_func(tree, "unscramble_number")
    out += _expr_pin(u, "numbits", ["number"], consts, name="unNumbits", count=1)
    out += _expr_pin(u, "number", ["number", "numbits"], consts, name="unStep1", index=0, count=2)
    out += _expr_pin(u, "key", ["number"], consts, name="unKey", count=1)
    out += _expr_pin(u, "number", ["number", "key"], consts, name="unStep2", index=1, count=2)
    out += _expr_pin(u, "scrambled", ["number"], consts, name="unScrambled", count=1)
    out += _expr_pin(u, "unscrambled", ["scrambled", "mask"], consts, name="unUnscrambled", count=1)
    rets = [n for n in ast.walk(u) if isinstance(n, ast.Return)]
    if len(rets) != 1:
        raise PinError("unscramble_number: expected one return")
    trr = Tr({p: p for p in ("unscrambled", "key")}, consts)
    out += _def("unResult", ["unscrambled", "key"], trr.tr(rets[0].value), "return " + ast.unparse(rets[0].value))
    m = _single_assign(u, "mask", count=1)
    out += _str("unMaskCall", ast.unparse(m.value), "how unscramble obtains the mask")
    return out


# ----------------------------------------------------------------------------- UniqueId.py


def _ifchain(func_body_if):
    """[(test, first statement of the branch)…] of an if/elif/else chain"""
    out = []
    node = func_body_if
    while True:
        out.append((ast.unparse(node.test), ast.unparse(node.body[0]).replace("\n", " ; ")))
        if len(node.orelse) == 1 and isinstance(node.orelse[0], ast.If):
            node = node.orelse[0]
            continue
        if node.orelse:
            out.append(("else", ast.unparse(node.orelse[0]).replace("\n", " ; ")))
        break
    return out


def _default_template(func):
    """`template = template or (A if self._bigids else B)` -> (test, A, B)"""
    a = _single_assign(func, "template", count=1).value
    if not (isinstance(a, ast.BoolOp) and isinstance(a.op, ast.Or) and len(a.values) == 2
            and ast.unparse(a.values[0]) == "template" and isinstance(a.values[1], ast.IfExp)):
        raise PinError(f"{func.name}: default template expression changed shape")
    ie = a.values[1]
    return ast.unparse(ie.test), _const(ie.body, "big-id template", (str,)), _const(ie.orelse, "small-id template", (str,))


@group("UniqueId", "snowfakery/standard_plugins/UniqueId.py", ["C13"])
def _unique_id(tree):
    out = ""
    o = find_func(tree, "_oct")
    out += _strs("octBody", _body_strings(o), "_oct")
    cu = class_constant(tree, "UniqueNumericIdGenerator", "context_uniqifier")
    if not (isinstance(cu, ast.Call) and ast.unparse(cu.func) == "count" and len(cu.args) == 1):
        raise PinError("context_uniqifier is no longer count(<literal>)")
    out += _def("firstContext", [], f"({_const(cu.args[0], 'count(…) argument')} : Int)", "context_uniqifier = " + ast.unparse(cu))
    init = find_func(tree, "__init__", cls="UniqueNumericIdGenerator")
    out += _def("numericStart", [], f"({_const(_kwdefault(init, 'start'), 'default of start')} : Int)", "start: int = …")
    rd = _kwdefault(init, "randomize")
    if not (isinstance(rd, ast.Constant) and isinstance(rd.value, bool)):
        raise PinError("default of randomize is no longer a bool literal")
    out += f"/-- `randomize: bool = …` -/\ndef numericRandomizeDefault : Bool := {'true' if rd.value else 'false'}\n"
    out += _strs("numericInit", _body_strings(init), "UniqueNumericIdGenerator.__init__ body, in order")
    a = init.args
    params = [x.arg for x in a.posonlyargs + a.args] + (["*" + a.vararg.arg] if a.vararg else [])
    params += [f"{k.arg}={ast.unparse(d) if d is not None else ''}" for k, d in zip(a.kwonlyargs, a.kw_defaults)]
    params += ["**" + a.kwarg.arg] if a.kwarg else []
    out += _strs("numericInitParams", params, "UniqueNumericIdGenerator.__init__ parameters (what a continuation file may pass)")
    red = find_func(tree, "__reduce__", cls="UniqueNumericIdGenerator")
    dicts = [n for n in ast.walk(red) if isinstance(n, ast.Dict)]
    if len(dicts) != 1:
        raise PinError("UniqueNumericIdGenerator.__reduce__: expected exactly one dict literal")
    out += _strs("numericReduceState",
                 [f"{ast.unparse(k)}: {ast.unparse(v)}" for k, v in zip(dicts[0].keys, dicts[0].values)],
                 "what __reduce__ persists (key: expression), in order")
    out += _strs("numericReduce", _body_strings(red), "UniqueNumericIdGenerator.__reduce__ body")
    alpha_cls = find_class(tree, "AlphaUniquifier")
    out += _strs("alphaOwnMethods", [n.name for n in alpha_cls.body if isinstance(n, ast.FunctionDef)],
                 "methods AlphaUniquifier defines itself (it has no __reduce__ of its own)")
    conv = find_func(tree, "_convert", cls="UniqueNumericIdGenerator")
    ifs = [s for s in conv.body if isinstance(s, ast.If)]
    if len(ifs) != 2:
        raise PinError("_convert: expected two top-level ifs")
    chain = _ifchain(ifs[0]) + _ifchain(ifs[1])
    out += _strs("convertChain", [f"{t} => {a}" for t, a in chain], "_convert dispatch, in order")
    gp = find_func(tree, "_get_pid", cls="UniqueNumericIdGenerator")
    rets = [ast.unparse(n.value) for n in ast.walk(gp) if isinstance(n, ast.Return)]
    out += _strs("getPidReturns", rets, "_get_pid return expressions")
    uid = find_func(tree, "unique_id", cls="UniqueNumericIdGenerator")
    out += _strs("numericUniqueId", _body_strings(uid), "UniqueNumericIdGenerator.unique_id body")
    # AlphaUniquifier
    ainit = find_func(tree, "__init__", cls="AlphaUniquifier")
    out += _def("alphaMinCharsDefault", [], f"({_const(_kwdefault(ainit, 'min_chars'), 'default of min_chars')} : Int)", "min_chars: int = …")
    out += _strs("alphaInit", _body_strings(ainit), "AlphaUniquifier.__init__ body, in order")
    ifs = [s for s in ainit.body if isinstance(s, ast.If)]
    if len(ifs) != 1 or ast.unparse(ifs[0].test) != "randomize_codes" or ifs[0].orelse:
        raise PinError("AlphaUniquifier.__init__: `if randomize_codes:` changed")
    a = [s for s in ifs[0].body if isinstance(s, ast.Assign)]
    if len(a) != 1 or ast.unparse(a[0].targets[0]) != "min_chars":
        raise PinError("AlphaUniquifier.__init__: body of `if randomize_codes:` changed")
    tr = Tr({"min_chars": "min_chars"})
    out += _def("effMinCharsRandomized", ["min_chars"], tr.tr(a[0].value), "min_chars = " + ast.unparse(a[0].value))
    ng = _single_assign(ainit, "self.number_generator", count=1).value
    if not (isinstance(ng, ast.Call) and ast.unparse(ng.func) == "UniqueNumericIdGenerator"):
        raise PinError("AlphaUniquifier no longer builds a UniqueNumericIdGenerator")
    kws = {k.arg: k.value for k in ng.keywords}
    if set(kws) != {"pid", "parts", "start", "randomize"} or ng.args:
        raise PinError(f"inner generator keywords changed: {sorted(kws)}")
    out += _def("alphaStart", [], f"({_const(kws['start'], 'start= of the inner generator')} : Int)", "start=…")
    if not (isinstance(kws["randomize"], ast.Constant) and isinstance(kws["randomize"].value, bool)):
        raise PinError("randomize= of the inner generator is no longer a literal")
    out += f"/-- `randomize=…` of the inner generator -/\ndef alphaInnerRandomize : Bool := {'true' if kws['randomize'].value else 'false'}\n"
    out += _strs("alphaInnerArgs", [f"{k}={ast.unparse(v)}" for k, v in sorted(kws.items())], "keywords of the inner generator")
    rn = find_func(tree, "_randomize_number", cls="AlphaUniquifier")
    out += _strs("randomizeNumber", _body_strings(rn), "_randomize_number body")
    mb = _single_assign(rn, "min_bits", count=1)
    tr = Tr({"self.min_chars": "min_chars", "bits_per_char": "bits_per_char"})
    body = tr.tr(mb.value)
    if tr.used != {"self.min_chars", "bits_per_char"}:
        raise PinError("min_bits expression changed")
    out += _def("minBits", ["min_chars", "bits_per_char"], body, "min_bits = " + ast.unparse(mb.value))
    auid = find_func(tree, "unique_id", cls="AlphaUniquifier")
    out += _strs("alphaUniqueId", _body_strings(auid), "AlphaUniquifier.unique_id body")
    # Functions
    funcs = find_class(tree, "Functions")
    ng = find_func(funcs, "NumericIdGenerator")
    t, big, small = _default_template(ng)
    out += _str("bigIdsTest", t, "what selects the big-id template")
    out += _str("numericBig", big, "NumericIdGenerator default template, big ids")
    out += _str("numericSmall", small, "NumericIdGenerator default template, small ids")
    out += _strs("numericFactory", _body_strings(ng), "Functions.NumericIdGenerator body")
    ag = find_func(funcs, "AlphaCodeGenerator")
    t2, big, small = _default_template(ag)
    if t2 != t:
        raise PinError("AlphaCodeGenerator selects its template differently from NumericIdGenerator")
    out += _str("alphaBig", big, "AlphaCodeGenerator default template, big ids")
    out += _str("alphaSmall", small, "AlphaCodeGenerator default template, small ids")
    out += _def("alphaFactoryMinChars", [], f"({_const(_kwdefault(ag, 'min_chars'), 'default of min_chars')} : Int)", "AlphaCodeGenerator(min_chars=…)")
    out += _strs("alphaFactory", _body_strings(ag), "Functions.AlphaCodeGenerator body")
    for nm in ("default_uniqifier", "default_alpha_code_generator", "unique_id"):
        fn = find_func(funcs, nm)
        out += _strs(nm.replace("_", "") + "Body", _body_strings(fn), f"Functions.{nm} body")
    return out


@group("UniqueIdBuiltins", "snowfakery/template_funcs.py", ["C13"])
def _builtins(tree):
    funcs = find_class(tree, "Functions")
    out = ""
    for nm in ("_unique_id_generator", "_unique_id", "_unique_alpha_code"):
        fn = find_func(funcs, nm)
        out += _strs(nm.strip("_").replace("_", "") + "Body", _body_strings(fn), f"StandardFuncs.Functions.{nm} body")
    init = find_func(funcs, "__init__")
    regs = [s for s in _body_strings(init) if "unique" in s]
    out += _strs("registrations", regs, "how the builtins are registered")
    return out


@group("PluginContinuation", "snowfakery/plugins.py", ["C13"])
def _plugin_continuation(tree):
    """How a PluginResult held by a just_once row travels through a continuation file."""
    pr = find_class(tree, "PluginResult")
    out = ""
    out += _strs("reduceBody", _body_strings(find_func(pr, "__reduce__")), "PluginResult.__reduce__ body")
    fc = find_func(pr, "_from_continuation")
    out += _strs("fromContinuation", [",".join(a.arg for a in fc.args.args)] + _decorators(fc) + _body_strings(fc),
                 "PluginResult._from_continuation: parameters, decorators, body")
    out += _strs("initSubclass", _body_strings(find_func(pr, "__init_subclass__")), "PluginResult.__init_subclass__ body")
    out += _strs("register", _body_strings(find_func(tree, "_register_for_continuation")), "_register_for_continuation body")
    return out
