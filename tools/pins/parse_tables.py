"""Pins for C20 (validation layer).

ParseTables   <- snowfakery/parse_recipe_yaml.py: the key/type tables handed to `parse_element` by every
                 caller, the skeleton of `parse_element` itself (expected_keys literal, conditions and
                 the exception class each one raises), `collection_rules`, the accepted versions, the
                 isinstance tuples of `parse_field_value` / `_coerce_to_string`, the dispatch of
                 `parse_statement_list`, every `assert` / `raise AssertionError` of the module (the
                 holes of the model: repairing one changes the pin), the exception class of every
                 `raise` per function, and the statement order of `parse_top_level_elements` /
                 `parse_object_template`.
GenerateOrder <- snowfakery/data_generator.py: the order of the calls in `generate` (parse_recipe
                 before merge_options before create_or_validate_tables before the interpreter), the
                 branches of `merge_options`; plus (read from data_generator_runtime.py) the body of
                 `get_referent_name` and the fact that `Interpreter.__init__` runs the
                 random_reference pass.
"""
import ast
import os

from tools.py2lean import PinError, REPO, find_func, group, lean_list, lean_str, module_constant

TYPE_NAMES = {"Dict": "dict", "dict": "dict", "List": "list", "list": "list", "str": "str", "int": "int", "bool": "bool"}


def _ty(node):
    if isinstance(node, ast.Tuple):
        out = []
        for e in node.elts:
            out.extend(_ty(e))
        return out
    name = ast.unparse(node)
    if name not in TYPE_NAMES:
        raise PinError(f"unexpected type `{name}` in a parse_element table")
    return [TYPE_NAMES[name]]


def _table(node, what):
    if not isinstance(node, ast.Dict):
        raise PinError(f"{what} is no longer a dict literal")
    out = []
    for k, v in zip(node.keys, node.values):
        if not isinstance(k, ast.Constant) or not isinstance(k.value, str):
            raise PinError(f"{what}: non-literal key")
        out.append((k.value, _ty(v)))
    return out


def _lean_table(name, table, doc):
    rows = lean_list("(" + lean_str(k) + ", " + lean_list(lean_str(t) for t in tys) + ")" for k, tys in table)
    return f"/-- {doc} -/\ndef {name} : List (String × List String) :=\n  {rows}\n"


def _str_list(name, items, doc):
    return f"/-- {doc} -/\ndef {name} : List String :=\n  " + lean_list(lean_str(s) for s in items) + "\n"


def _pairs(name, items, doc):
    rows = lean_list("(" + lean_str(a) + ", " + lean_str(b) + ")" for a, b in items)
    return f"/-- {doc} -/\ndef {name} : List (String × String) :=\n  {rows}\n"


def _str(name, s, doc):
    return f"/-- {doc} -/\ndef {name} : String :=\n  {lean_str(s)}\n"


PARAMS = ["dct", "element_type", "mandatory_keys", "optional_keys", "context"]


def _parse_element_calls(func):
    """Calls of parse_element inside `func`: [{param: ast node}]"""
    out = []
    for n in ast.walk(func):
        if isinstance(n, ast.Call) and ast.unparse(n.func) == "parse_element":
            args = {}
            for p, a in zip(PARAMS, n.args):
                args[p] = a
            for kw in n.keywords:
                args[kw.arg] = kw.value
            if set(args) != set(PARAMS):
                raise PinError(f"{func.name}: parse_element call with unexpected arguments")
            out.append((n.lineno, args))
    out.sort(key=lambda x: x[0])
    return [a for _, a in out]


def _element(tree, fname, prefix, doc):
    func = find_func(tree, fname)
    calls = _parse_element_calls(func)
    if len(calls) != 1:
        raise PinError(f"{fname}: expected exactly one parse_element call, found {len(calls)}")
    c = calls[0]
    et = c["element_type"]
    if not isinstance(et, ast.Constant) or not isinstance(et.value, str):
        raise PinError(f"{fname}: element_type is no longer a string literal")
    out = _str(prefix + "Element", et.value, f"`element_type` in {fname}")
    out += _lean_table(prefix + "Mandatory", _table(c["mandatory_keys"], f"{fname}: mandatory_keys"), f"`mandatory_keys` in {doc}")
    out += _lean_table(prefix + "Optional", _table(c["optional_keys"], f"{fname}: optional_keys"), f"`optional_keys` in {doc}")
    return out


def _raises(func):
    """[(condition of the innermost enclosing `if`, exception class)] for every `raise X(...)` in source order."""
    out = []

    def visit(stmts, cond):
        for s in stmts:
            if isinstance(s, ast.Raise) and s.exc is not None:
                exc = s.exc.func if isinstance(s.exc, ast.Call) else s.exc
                out.append((s.lineno, cond, ast.unparse(exc)))
            elif isinstance(s, ast.If):
                visit(s.body, ast.unparse(s.test))
                visit(s.orelse, "not (" + ast.unparse(s.test) + ")" if not (len(s.orelse) == 1 and isinstance(s.orelse[0], ast.If)) else cond)
            elif isinstance(s, (ast.For, ast.While, ast.With)):
                visit(s.body, cond)
                visit(getattr(s, "orelse", []), cond)
            elif isinstance(s, ast.Try):
                visit(s.body, cond)
                for h in s.handlers:
                    visit(h.body, "except " + (ast.unparse(h.type) if h.type else ""))
                visit(s.orelse, cond)
                visit(s.finalbody, cond)

    visit(func.body, "")
    out.sort(key=lambda x: x[0])
    return [(c, e) for _, c, e in out]


def _isinstance_tuple(func, var):
    for n in ast.walk(func):
        if isinstance(n, ast.Call) and ast.unparse(n.func) == "isinstance" and len(n.args) == 2 and ast.unparse(n.args[0]) == var \
                and isinstance(n.args[1], ast.Tuple):
            return [ast.unparse(e) for e in n.args[1].elts]
    raise PinError(f"{func.name}: isinstance({var}, (...)) not found")


def _top_functions(tree):
    out = []
    for n in tree.body:
        if isinstance(n, ast.FunctionDef):
            out.append(n)
        elif isinstance(n, ast.ClassDef):
            for m in n.body:
                if isinstance(m, ast.FunctionDef):
                    out.append(m)
    return out


def _stmt_heads(func, keep):
    """First line of each top-level statement of `func` (inside its outermost `with`, if the body is one) that
    mentions one of the `keep` words, in order."""
    out = []

    def visit(stmts):
        for s in stmts:
            if isinstance(s, ast.With):
                visit(s.body)
                continue
            text = ast.unparse(s).split("\n")[0]
            if any(k in text for k in keep):
                out.append(text)
            if isinstance(s, (ast.If, ast.For)):
                visit(s.body)

    visit(func.body)
    return out


@group("ParseTables", "snowfakery/parse_recipe_yaml.py", ["C20"])
def _parse_tables(tree):
    out = ""
    out += _element(tree, "parse_object_template", "object", "parse_object_template")
    out += _element(tree, "parse_variable_definition", "var", "parse_variable_definition")
    out += _element(tree, "parse_for_each_variable_definition", "forEach", "parse_for_each_variable_definition")
    out += _element(tree, "include_macro", "macro", "include_macro")
    out += _element(tree, "relpath_from_inclusion_element", "includeFile", "relpath_from_inclusion_element")

    # parse_element itself
    pe = find_func(tree, "parse_element")
    ek = None
    for n in ast.walk(pe):
        if isinstance(n, ast.Assign) and ast.unparse(n.targets[0]) == "expected_keys":
            ek = n.value
    if not isinstance(ek, ast.Dict):
        raise PinError("parse_element: expected_keys is no longer a dict literal")
    items = []
    for k, v in zip(ek.keys, ek.values):
        items.append(("**" + ast.unparse(v)) if k is None else (ast.unparse(k) + ": " + ast.unparse(v)))
    out += _str_list("expectedKeysLiteral", items, "the dict literal `expected_keys` of parse_element, in order (later entries win)")
    out += _pairs("parseElementRaises", _raises(pe), "parse_element: (guarding condition, exception class) of every raise, in order")
    loops = [ast.unparse(n.target) + " in " + ast.unparse(n.iter) for n in ast.walk(pe) if isinstance(n, ast.For)]
    out += _str_list("parseElementLoops", loops, "parse_element: the for loops")
    tests = [ast.unparse(n.test) for n in ast.walk(pe) if isinstance(n, ast.If)]
    out += _str_list("parseElementTests", sorted(tests), "parse_element: every `if` condition (sorted)")
    assigns = [ast.unparse(n) for n in ast.walk(pe) if isinstance(n, ast.Assign) and ast.unparse(n.targets[0]) in ("missing_keys", "key_definition", "value", "defaulted_keys")]
    out += _str_list("parseElementAssigns", sorted(assigns), "parse_element: how the tested values are computed (sorted)")

    # collection_rules
    cr = module_constant(tree, "collection_rules")
    if not isinstance(cr, ast.Dict):
        raise PinError("collection_rules is no longer a dict literal")
    pairs = []
    for k, v in zip(cr.keys, cr.values):
        if not (isinstance(k, ast.Constant) and isinstance(v, ast.Constant)):
            raise PinError("collection_rules: non-literal entry")
        pairs.append((k.value, v.value))
    out += _pairs("collectionRules", pairs, "`collection_rules`, in dict order")
    cat = find_func(tree, "categorize_top_level_objects")
    out += _pairs("categorizeRaises", _raises(cat), "categorize_top_level_objects: (condition, exception class) of every raise")

    # versions
    pv = find_func(tree, "parse_version")
    vers = None
    for n in ast.walk(pv):
        if isinstance(n, ast.Compare) and len(n.ops) == 1 and isinstance(n.ops[0], ast.NotIn) and ast.unparse(n.left) == "base_version":
            t = n.comparators[0]
            if isinstance(t, ast.Tuple) and all(isinstance(e, ast.Constant) and isinstance(e.value, int) for e in t.elts):
                vers = [e.value for e in t.elts]
    if vers is None:
        raise PinError("parse_version: `base_version not in (…)` not found")
    out += "/-- `base_version not in (…)` -/\ndef versions : List Nat :=\n  " + lean_list(str(v) for v in vers) + "\n"
    out += _pairs("parseVersionRaises", _raises(pv), "parse_version: raises")

    # isinstance tuples
    pfv = find_func(tree, "parse_field_value")
    out += _str_list("fieldValueScalarTypes", _isinstance_tuple(pfv, "field"), "parse_field_value: isinstance(field, (…)) of the SimpleValue branch")
    out += _str_list("fieldValueTests", [ast.unparse(n.test) for n in pfv.body if isinstance(n, ast.If)] + [ast.unparse(n.test) for n in ast.walk(pfv) if isinstance(n, ast.If) and n not in pfv.body], "parse_field_value: the branch conditions, in order")
    cts = find_func(tree, "_coerce_to_string")
    out += _str_list("coerceTypes", _isinstance_tuple(cts, "val"), "_coerce_to_string: isinstance(val, (…))")

    # parse_statement_list dispatch
    psl = find_func(tree, "parse_statement_list")
    tests = []
    for n in ast.walk(psl):
        if isinstance(n, ast.If):
            tests.append((n.lineno, ast.unparse(n.test)))
    out += _str_list("statementDispatch", [t for _, t in sorted(tests)], "parse_statement_list: the if/elif tests in order")

    # the holes: every assert and every `raise AssertionError / NotImplementedError` of the module, per function
    holes = []
    for f in _top_functions(tree):
        for n in ast.walk(f):
            if isinstance(n, ast.Assert):
                holes.append((f.name, "assert " + ast.unparse(n.test)))
            elif isinstance(n, ast.Raise) and n.exc is not None:
                exc = ast.unparse(n.exc.func if isinstance(n.exc, ast.Call) else n.exc)
                if not exc.startswith("exc."):
                    holes.append((f.name, "raise " + exc))
    out += _pairs("asserts", holes, "every `assert` and every non-DataGenError `raise` of parse_recipe_yaml.py: (function, statement)")

    # exception class of every DataGenError raise, per function
    classes = []
    for f in _top_functions(tree):
        for _, e in _raises(f):
            if e.startswith("exc."):
                classes.append((f.name, e[4:]))
    out += _pairs("raiseClasses", classes, "(function, DataGenError subclass) of every recipe-error raise, in source order")

    # unguarded accesses the model turns into stuck sites
    ps = find_func(tree, "parse_structured_value")
    out += _str_list("structuredValueDots", [ast.unparse(n).split("\n")[0] for n in ast.walk(ps) if isinstance(n, ast.If) and "function_name" in ast.unparse(n.test)] + [ast.unparse(n) for n in ast.walk(ps) if isinstance(n, ast.Assign) and "function_name.split" in ast.unparse(n)], "parse_structured_value: the dotted-name handling")
    ptl = find_func(tree, "parse_top_level_elements")
    out += _str_list("topLevelOrder", _stmt_heads(ptl, ["categorize_top_level_objects", "parse_included_files", "for kind in", "options.extend", "macros.update", "plugin_specs", "resolve_plugins", "parse_version", "own_version is not None", "statements.extend"]), "parse_top_level_elements: the order of its steps")
    pot = find_func(tree, "parse_object_template")
    out += _str_list("templateOrder", _stmt_heads(pot, ["just_once", "parse_inclusions", "parse_fields", "parse_friends", "_dedupe_field_list", "count_expr is not None", "for_each_expr is not None", "ObjectTemplate(", "register_template"]), "parse_object_template: the order of its steps")
    reg = None
    for n in ast.walk(tree):
        if isinstance(n, ast.ClassDef) and n.name == "TableInfo":
            reg = find_func(n, "register")
    if reg is None:
        raise PinError("TableInfo.register not found")
    out += _str_list("registerNameTests", [ast.unparse(n) for n in ast.walk(reg) if isinstance(n, ast.Call) and isinstance(n.func, ast.Attribute) and n.func.attr == "startswith"], "TableInfo.register: the startswith tests on field names")
    # the cycle / conflict checks added by the fix commits
    pif = find_func(tree, "parse_included_file")
    out += _pairs("includedFileRaises", _raises(pif), "parse_included_file: (condition, exception class) of every raise")
    out += _str_list("includedFileStack", [ast.unparse(n).split("\n")[0] for n in ast.walk(pif) if isinstance(n, (ast.Expr, ast.Assign)) and "files_being_parsed" in ast.unparse(n)],
                     "parse_included_file: how the stack of files being parsed is maintained")
    im = find_func(tree, "include_macro")
    out += _pairs("includeMacroRaises", _raises(im), "include_macro: (condition, exception class) of every raise")
    out += _str_list("includeMacroStack", [ast.unparse(n).split("\n")[0] for n in ast.walk(im) if isinstance(n, ast.Expr) and "macros_being_expanded" in ast.unparse(n)],
                     "include_macro: how the stack of macros being expanded is maintained")
    out += _pairs("topLevelRaises", _raises(ptl), "parse_top_level_elements: (condition, exception class) of every raise")
    loop = [n for n in ptl.body if isinstance(n, ast.For) and "kind" in ast.unparse(n.target)]
    if len(loop) != 1:
        raise PinError("parse_top_level_elements: the declaration loop `for kind in (...)` not found")
    out += _str_list("declarationLoop", [ast.unparse(loop[0].iter)] + sorted(ast.unparse(n).split("\n")[0] for n in ast.walk(loop[0]) if isinstance(n, ast.Assign)),
                     "the declaration loop: kinds in order, and how well_formed is computed (sorted)")
    out += _str_list("versionMerge", [ast.unparse(n.test) for n in ast.walk(ptl) if isinstance(n, ast.If) and "version" in ast.unparse(n.test)],
                     "parse_top_level_elements: the version tests")
    pr = find_func(tree, "parse_recipe")
    out += _str_list("recursionGuard", [ast.unparse(h.type) + " -> " + ast.unparse(r.exc.func) for n in ast.walk(pr) if isinstance(n, ast.Try) for h in n.handlers for r in ast.walk(h) if isinstance(r, ast.Raise) and isinstance(r.exc, ast.Call)]
                     + sorted(ast.unparse(c.func) for n in ast.walk(pr) if isinstance(n, ast.Try) for b in n.body for c in ast.walk(b) if isinstance(c, ast.Call) and ast.unparse(c.func).startswith("parse_")),
                     "parse_recipe: the RecursionError guard and what it encloses")
    pfn = find_func(tree, "parse_field")
    out += _pairs("parseFieldRaises", _raises(pfn), "parse_field: (condition, exception class)")
    out += _pairs("structuredValueRaises", _raises(ps), "parse_structured_value: (condition, exception class)")
    out += _pairs("statementListRaises", _raises(psl), "parse_statement_list: (condition, exception class)")
    out += _pairs("relpathRaises", _raises(find_func(tree, "relpath_from_inclusion_element")), "relpath_from_inclusion_element: (condition, exception class)")
    calls = [ast.unparse(n.func) for n in ast.walk(pr) if isinstance(n, ast.Call) and ast.unparse(n.func) in ("parse_file", "parse_statement_list", "build_update_recipe", "ParseResult")]
    order = sorted(((n.lineno, ast.unparse(n.func)) for n in ast.walk(pr) if isinstance(n, ast.Call) and ast.unparse(n.func) in ("parse_file", "parse_statement_list", "build_update_recipe", "ParseResult")))
    out += _str_list("parseRecipeOrder", [c for _, c in order], "parse_recipe: order of its steps")
    return out


@group("GenerateOrder", "snowfakery/data_generator.py", ["C20"])
def _generate_order(tree):
    gen = find_func(tree, "generate")
    want = ("parse_recipe", "process_plugins_options", "merge_options", "output_stream.create_or_validate_tables",
            "initialize_globals", "Interpreter", "interpreter.execute", "save_continuation_yaml")
    calls = sorted((n.lineno, n.col_offset, ast.unparse(n.func)) for n in ast.walk(gen) if isinstance(n, ast.Call) and ast.unparse(n.func) in want)
    out = _str_list("generateCalls", [c for _, _, c in calls], "generate(): the calls that matter, in source order")
    mo = find_func(tree, "merge_options")
    tests = sorted((n.lineno, ast.unparse(n.test)) for n in ast.walk(mo) if isinstance(n, ast.If))
    out += _str_list("mergeOptionsTests", [t for _, t in tests], "merge_options: the if/elif tests")
    raises = [ast.unparse(n.exc.func) for n in ast.walk(mo) if isinstance(n, ast.Raise) and isinstance(n.exc, ast.Call)]
    out += _str_list("mergeOptionsRaises", raises, "merge_options: exception classes")
    # the static random_reference pass lives in data_generator_runtime.py
    with open(os.path.join(REPO, "snowfakery/data_generator_runtime.py")) as fh:
        rt = ast.parse(fh.read())
    grn = find_func(rt, "get_referent_name")
    body = [s for s in grn.body if not (isinstance(s, ast.Expr) and isinstance(s.value, ast.Constant))]
    out += _str_list("getReferentName", [ast.unparse(s) for s in body], "body of get_referent_name")
    interp_init = None
    for n in ast.walk(rt):
        if isinstance(n, ast.ClassDef) and n.name == "Interpreter":
            interp_init = find_func(n, "__init__")
    if interp_init is None:
        raise PinError("Interpreter.__init__ not found")
    uses = [ast.unparse(n.func) for n in ast.walk(interp_init) if isinstance(n, ast.Call) and ast.unparse(n.func) == "find_tables_to_keep_history_for"]
    out += _str_list("interpreterInitStaticPass", uses, "Interpreter.__init__ runs the random_reference pass")
    return out


@group("PluginResolve", "snowfakery/plugins.py", ["C20"])
def _plugin_resolve(tree):
    """resolve_plugin_alternatives / resolve_plugin: the unguarded `rsplit` and `issubclass`, the two recipe errors."""
    rpa = find_func(tree, "resolve_plugin_alternatives")
    body = [s for s in rpa.body if not (isinstance(s, ast.Expr) and isinstance(s.value, ast.Constant))]
    out = _str_list("alternativesHead", [ast.unparse(s) for s in body[:2]], "first statements of resolve_plugin_alternatives")
    handlers = [ast.unparse(h.type) for n in ast.walk(rpa) if isinstance(n, ast.Try) for h in n.handlers]
    out += _str_list("alternativesHandlers", handlers, "exceptions resolve_plugin_alternatives swallows")
    rp = find_func(tree, "resolve_plugin")
    out += _pairs("resolveRaises", _raises(rp), "resolve_plugin: (condition, exception class) of every raise")
    guards = [ast.unparse(n.test) for n in ast.walk(rp) if isinstance(n, ast.If)]
    out += _str_list("resolveTests", guards, "resolve_plugin: every `if` condition, in walk order")
    return out
