"""Pins for the composition features (C14): include_file, macros, field de-duplication, option merge.

Sources: snowfakery/parse_recipe_yaml.py (group source) and snowfakery/data_generator.py.

What is pinned
  * merge_options: the *kind* of the two tests of the if/elif chain ('truthy-get' for `d.get(k)`,
    'in' for `k in d`), what is tested, what is stored in each branch, and that the chain ends in a
    raise; the body as normalised source
  * `_dedupe_field_list`: the returned expression (dict comprehension keyed by `.name`, `.values()`)
  * macro expansion: the cycle test, the parents passed down by `include_macro`, the default of
    `parent_macros`, the fact that `parse_object_template` starts the inclusions without parents,
    the order inclusions / own fields / own friends / de-dup in `parse_object_template` and in
    `include_macro`, the split/strip/filter of the `include:` string
  * the two stacks: `context.macros_being_expanded` in include_macro and `context.files_being_parsed` in
    parse_included_file must be push / try / finally-pop stacks (kind 'stack'); a set that is never popped
    is a different rule (it would forbid diamonds) and is a PinError; the version rule of
    parse_top_level_elements as a kind ('assign' | 'keep-or-conflict') with its tests
  * file flattening: the order in which `parse_top_level_elements` handles included files, options,
    macros, plugins, version and statements (a table derived from the statement sequence), the macro
    table update expression, `parse_included_files`, `parse_included_file` (no cycle check: no state is
    kept about files being read), `parse_version`, the order parse_file -> parse_statement_list in
    `parse_recipe`, `collection_rules`
  * the normalised source (`ast.unparse`, docstrings dropped) of those small functions.
"""
import ast

from tools.py2lean import PinError, find_func, group, lean_list, lean_str, module_constant, parse


def sdef(name, value, doc=None):
    d = f"/-- {doc} -/\n" if doc else ""
    return f"{d}def {name} : String :=\n  {lean_str(value)}\n"


def ldef(name, values, doc=None):
    d = f"/-- {doc} -/\n" if doc else ""
    return f"{d}def {name} : List String :=\n  {lean_list(lean_str(v) for v in values)}\n"


def body_lines(func):
    body = list(func.body)
    if body and isinstance(body[0], ast.Expr) and isinstance(getattr(body[0], "value", None), ast.Constant) \
            and isinstance(body[0].value.value, str):
        body = body[1:]
    lines = []
    for st in body:
        lines += ast.unparse(st).splitlines()
    return lines


def test_kind(test, container, key_src):
    """'truthy-get' for `<container>.get(<key>)`, 'in' for `<key> in <container>`."""
    if isinstance(test, ast.Call) and isinstance(test.func, ast.Attribute) and test.func.attr == "get" \
            and ast.unparse(test.func.value) == container and len(test.args) == 1 and not test.keywords \
            and ast.unparse(test.args[0]) == key_src:
        return "truthy-get"
    if isinstance(test, ast.Compare) and len(test.ops) == 1 and isinstance(test.ops[0], ast.In) \
            and ast.unparse(test.left) == key_src and ast.unparse(test.comparators[0]) == container:
        return "in"
    raise PinError(f"merge_options: unrecognised test `{ast.unparse(test)}` on {container}")


def stored_value(body, what):
    if len(body) != 1 or not isinstance(body[0], ast.Assign) or ast.unparse(body[0].targets[0]) != "options[name]":
        raise PinError(f"merge_options: the {what} branch no longer is `options[name] = …`")
    return ast.unparse(body[0].value)


def stack_kind(func, container, item):
    """'none' if `container` is not mentioned; 'stack' if `<container>.append(<item>)` is followed by a
    try whose finally pops it; otherwise a PinError (a set / a list that is never popped is another rule)."""
    src = ast.unparse(func)
    if container not in src:
        return "none"
    for i, st in enumerate(func.body):
        if isinstance(st, ast.Expr) and ast.unparse(st) == f"{container}.append({item})":
            nxt = func.body[i + 1] if i + 1 < len(func.body) else None
            if isinstance(nxt, ast.Try) and len(nxt.finalbody) == 1 and ast.unparse(nxt.finalbody[0]) == f"{container}.pop()" \
                    and not nxt.handlers:
                return "stack"
    raise PinError(f"{func.name}: `{container}` is used but not as a push / try / finally-pop stack")


@group("Compose", "snowfakery/parse_recipe_yaml.py", ["C14"])
def _compose(tree):
    out = ""
    # ------------------------------------------------------------------ merge_options
    dg = parse("snowfakery/data_generator.py")
    mo = find_func(dg, "merge_options")
    loops = [n for n in mo.body if isinstance(n, ast.For)]
    if len(loops) != 1 or ast.unparse(loops[0].iter) != "option_definitions":
        raise PinError("merge_options: expected one loop over option_definitions")
    loop = loops[0]
    ifs = [n for n in loop.body if isinstance(n, ast.If)]
    if len(ifs) != 1 or len(ifs[0].orelse) != 1 or not isinstance(ifs[0].orelse[0], ast.If):
        raise PinError("merge_options: expected an if / elif / else chain in the loop")
    first, second = ifs[0], ifs[0].orelse[0]
    names = [n for n in loop.body if isinstance(n, ast.Assign) and ast.unparse(n.targets[0]) == "name"]
    if len(names) != 1 or ast.unparse(names[0].value) != "option['option']":
        raise PinError("merge_options: `name = option['option']` changed")
    out += sdef("userTest", test_kind(first.test, "user_options", "name"),
                "how merge_options decides that the user supplied a value")
    out += sdef("defaultTest", test_kind(second.test, "option", "'default'"),
                "how merge_options decides that the option has a default")
    out += sdef("userStored", stored_value(first.body, "user"))
    out += sdef("defaultStored", stored_value(second.body, "default"))
    if len(second.orelse) != 1 or not isinstance(second.orelse[0], ast.Raise):
        raise PinError("merge_options: the chain no longer ends in a raise")
    out += sdef("neitherRaises", ast.unparse(second.orelse[0].exc.func))
    out += ldef("mergeOptionsSource", body_lines(mo))
    # ------------------------------------------------------------------ de-dup
    dd = find_func(tree, "_dedupe_field_list")
    rets = [n for n in dd.body if isinstance(n, ast.Return)]
    if len(rets) != 1:
        raise PinError("_dedupe_field_list: expected one return")
    out += sdef("dedupeExpr", ast.unparse(rets[0].value))
    # ------------------------------------------------------------------ macros
    im = find_func(tree, "include_macro")
    out += ldef("includeMacroSource", body_lines(im))
    tests = [n for n in ast.walk(im) if isinstance(n, ast.If) and "parent_macros" in ast.unparse(n.test)]
    chain = [n for n in tests if ast.unparse(n.test) == "name in parent_macros"]
    nested = [n for n in tests if n not in chain]
    if len(chain) != 1 or not any(isinstance(s, ast.Raise) for s in chain[0].body):
        raise PinError("include_macro: the chain cycle check changed shape")
    out += sdef("cycleTest", ast.unparse(chain[0].test))
    # the second check (D46): the stack of all macros under expansion, kept on the context
    if len(nested) > 1 or (nested and not any(isinstance(s, ast.Raise) for s in nested[0].body)):
        raise PinError("include_macro: the nested cycle check changed shape")
    out += sdef("nestedCycleTest", ast.unparse(nested[0].test) if nested else "")
    if nested and nested[0].lineno > chain[0].lineno:
        raise PinError("include_macro: the nested cycle check no longer precedes the chain check")
    out += sdef("macroExpansionTracking", stack_kind(im, "context.macros_being_expanded", "name"),
                "how include_macro keeps track of the macros under expansion: 'stack' = push before, pop in a finally")
    calls = [n for n in ast.walk(im) if isinstance(n, ast.Call) and ast.unparse(n.func) == "parse_inclusions"]
    if len(calls) != 1 or len(calls[0].args) != 5:
        raise PinError("include_macro: expected one parse_inclusions(macro, fields, friends, context, parents) call")
    out += ldef("includeMacroInclusionArgs", [ast.unparse(a) for a in calls[0].args])
    pi = find_func(tree, "parse_inclusions")
    out += ldef("parseInclusionsSource", body_lines(pi))
    defaults = [ast.unparse(d) for d in pi.args.defaults]
    out += ldef("parseInclusionsParams", [a.arg for a in pi.args.args])
    out += ldef("parseInclusionsDefaults", defaults)
    comps = [n for n in ast.walk(pi) if isinstance(n, ast.ListComp)]
    if len(comps) != 1:
        raise PinError("parse_inclusions: expected one list comprehension (split of the include string)")
    out += sdef("includeSplit", ast.unparse(comps[0]))
    filt = [n for n in ast.walk(pi) if isinstance(n, ast.Call) and ast.unparse(n.func) == "filter"]
    if len(filt) != 1:
        raise PinError("parse_inclusions: expected one filter(...) call")
    out += sdef("includeFilter", ast.unparse(filt[0]))
    pot = find_func(tree, "parse_object_template")
    seq = []
    for n in ast.walk(pot):
        if isinstance(n, ast.With):
            for st in n.body:
                src = ast.unparse(st)
                if src.startswith("parse_inclusions(") or src.startswith("fields.extend(") \
                        or src.startswith("friends.extend(") or "_dedupe_field_list" in src:
                    seq.append(src)
    if len(seq) != 4:
        raise PinError(f"parse_object_template: the inclusion / fields / friends / de-dup sequence changed: {seq}")
    out += ldef("objectTemplateCompose", seq)
    # ------------------------------------------------------------------ files
    pt = find_func(tree, "parse_top_level_elements")
    out += ldef("parseTopLevelSource", body_lines(pt))
    order = []
    version_rule = None
    for i, st in enumerate(pt.body):
        src = ast.unparse(st)
        if "parse_included_files(" in src:
            order.append("included_files")
        elif src.startswith("context.options.extend("):
            order.append("options")
        elif src.startswith("context.macros.update("):
            order.append("macros")
            out += sdef("macroUpdateExpr", ast.unparse(st.value.args[0]))
        elif src.startswith("context.plugins.extend("):
            order.append("plugins")
        elif src.startswith("context.version =") or src.startswith("own_version = parse_version("):
            order.append("version")
            if src.startswith("context.version ="):
                version_rule = ["assign", src]
            else:
                nxt = pt.body[i + 1] if i + 1 < len(pt.body) else None
                if not (isinstance(nxt, ast.If) and ast.unparse(nxt.test) == "own_version is not None" and not nxt.orelse
                        and len(nxt.body) == 2 and isinstance(nxt.body[0], ast.If)
                        and any(isinstance(x, ast.Raise) for x in nxt.body[0].body)
                        and ast.unparse(nxt.body[1]) == "context.version = own_version"):
                    raise PinError("parse_top_level_elements: the version rule changed shape")
                version_rule = ["keep-or-conflict", src, ast.unparse(nxt.test), ast.unparse(nxt.body[0].test),
                                ast.unparse(nxt.body[0].body[0].exc.func), ast.unparse(nxt.body[1])]
        elif src.startswith("statements.extend(top_level_objects"):
            order.append("statements")
    if "macroUpdateExpr" not in out or version_rule is None:
        raise PinError("parse_top_level_elements: macro update / version rule not found")
    out += ldef("versionRule", version_rule,
                "'assign': the file's own declaration list overwrites; 'keep-or-conflict': no declaration keeps, a different one is an error")
    out += ldef("topLevelOrder", order, "the order in which one file's declarations reach the context")
    out += ldef("parseIncludedFilesSource", body_lines(find_func(tree, "parse_included_files")))
    pif = find_func(tree, "parse_included_file")
    out += ldef("parseIncludedFileSource", body_lines(pif))
    out += sdef("includeCycleTracking", stack_kind(pif, "context.files_being_parsed", "resolved"),
                "how parse_included_file keeps track of the files being read: 'none' | 'stack' (push, try, finally pop)")
    ctests = [n for n in ast.walk(pif) if isinstance(n, ast.If) and "files_being_parsed" in ast.unparse(n.test)]
    if len(ctests) > 1 or (ctests and not any(isinstance(x, ast.Raise) for x in ctests[0].body)):
        raise PinError("parse_included_file: the cycle test changed shape")
    out += sdef("includeCycleTest", ast.unparse(ctests[0].test) if ctests else "")
    out += ldef("relpathSource", body_lines(find_func(tree, "relpath_from_inclusion_element")))
    out += ldef("parseVersionSource", body_lines(find_func(tree, "parse_version")))
    pr = find_func(tree, "parse_recipe")
    head = []
    for st in pr.body[:3]:
        if isinstance(st, ast.Try):
            head += [ast.unparse(x) for x in st.body]
            head += ["except " + ast.unparse(h.type) for h in st.handlers]
            break
        head.append(ast.unparse(st))
    out += ldef("parseRecipeHead", head)
    # ------------------------------------------------------------------ formula namespace: who shadows an option
    rt = parse("snowfakery/data_generator_runtime.py")
    sfv = find_func(rt, "simple_field_vars", cls="EvaluationNamespace")
    rets = [n for n in sfv.body if isinstance(n, ast.Return)]
    if len(rets) != 1 or not isinstance(rets[0].value, ast.Dict) or any(
            isinstance(n, ast.Call) and isinstance(n.func, ast.Attribute) and n.func.attr in ("update", "setdefault")
            for n in ast.walk(sfv)) or any(isinstance(n, ast.Subscript) and isinstance(n.ctx, ast.Store) for n in ast.walk(sfv)):
        raise PinError("simple_field_vars: the namespace is no longer ONE dict literal (the order of its entries is the "
                       "precedence of the layers; later entries override earlier ones)")
    d = rets[0].value
    layers, builtin_keys = [], []
    tags = {"interpreter.options": "options", "interpreter.globals.object_names": "object_names",
            "obj._values if obj else {}": "row_fields", "interpreter.plugin_function_libraries": "plugins",
            "self.runtime_context.variable_definitions()": "variables"}
    for k, v in zip(d.keys, d.values):
        if k is not None:
            if not isinstance(k, ast.Constant) or not isinstance(k.value, str):
                raise PinError("simple_field_vars: non-literal key")
            builtin_keys.append(k.value)
            if not layers or layers[-1] != "builtins":
                layers.append("builtins")
        else:
            src = ast.unparse(v)
            if src not in tags:
                raise PinError(f"simple_field_vars: unknown layer `**{src}`")
            layers.append(tags[src])
    out += ldef("namespaceLayers", layers, "the layers of the formula namespace, farthest first (a later layer overrides an earlier one)")
    out += ldef("builtinKeys", builtin_keys, "the names the `builtins` layer binds")
    fv = find_func(rt, "field_vars", cls="EvaluationNamespace")
    rets = [n for n in fv.body if isinstance(n, ast.Return)]
    if len(rets) != 1 or not isinstance(rets[0].value, ast.Dict) or any(k is not None for k in rets[0].value.keys):
        raise PinError("field_vars: expected `{**a, **b}`")
    out += ldef("fieldVarsMerge", [ast.unparse(v) for v in rets[0].value.values],
                "`field_vars`: the standard functions are merged over everything")
    cr = module_constant(tree, "collection_rules")
    if not isinstance(cr, ast.Dict):
        raise PinError("collection_rules is no longer a dict literal")
    out += ldef("collectionRules", [f"{k.value}={v.value}" for k, v in zip(cr.keys, cr.values)])
    return out
