"""Pins for the CCI mapping generator (C16).

Sources: snowfakery/generate_mapping_from_recipe.py (group source), plus
snowfakery/cci_mapping_files/post_processes.py, snowfakery/salesforce.py,
snowfakery/data_generator_runtime.py, snowfakery/parse_recipe_yaml.py,
snowfakery/data_generator_runtime_object_model.py.

What is pinned
  * the comparison that decides whether a lookup gets `after:`            (Bool function over Int)
  * string constants the model hard-codes (special table/field names, step-name and filter templates,
    record-type names, the hidden prefix `__` at its three sites)
  * wiring: the order of the dict merge `{**inferred, **declared}`, the fields of `Dependency` and
    `LoadStep`, the argument order of `register_intertable_reference` in `remember_row`, the sort key,
    how `__setstate__` reads `intertable_dependencies` (access kind) and that `__getstate__` writes it
  * the normalised source (`ast.unparse`, docstrings dropped) of the small control-flow functions the
    model mirrors by hand: `_table_is_free`, `sort_dependencies`, `add_after_statements`,
    `_index_by_sobject`, `load_steps_from_tableinfos`, `remove_person_contact_id`, `build_dependencies`.
    A change of any of them changes the generated file and breaks the bridging lemma that quotes it.
  * the frame of `TableInfo.fields`: a scan of the whole package (outside parse_recipe_yaml.py) for uses of a
    `.fields` attribute that are not syntactically read-only (rebind, item store/delete, mutating method,
    alias / argument / return). The mapping generator reads `TableInfo.fields` long after parsing; anything
    in between that writes into it (e.g. an output stream building its header in place) changes the mapping.
"""
import ast

from tools.py2lean import (
    PinError, cond_pin, find_class, find_func, group, lean_list, lean_str, parse,
)


def sdef(name, value, doc=None):
    d = f"/-- {doc} -/\n" if doc else ""
    return f"{d}def {name} : String :=\n  {lean_str(value)}\n"


def ldef(name, values, doc=None):
    d = f"/-- {doc} -/\n" if doc else ""
    return f"{d}def {name} : List String :=\n  {lean_list(lean_str(v) for v in values)}\n"


def body_lines(func):
    """Normalised source of a function: unparse of every statement, docstring dropped."""
    body = list(func.body)
    if body and isinstance(body[0], ast.Expr) and isinstance(getattr(body[0], "value", None), ast.Constant) \
            and isinstance(body[0].value.value, str):
        body = body[1:]
    lines = []
    for st in body:
        lines += ast.unparse(st).splitlines()
    return lines


def str_constants(node):
    return [n.value for n in ast.walk(node) if isinstance(n, ast.Constant) and isinstance(n.value, str)]


def fstring_parts(node):
    if not isinstance(node, ast.JoinedStr):
        raise PinError(f"expected an f-string, found `{ast.unparse(node)}`")
    out = []
    for v in node.values:
        if isinstance(v, ast.Constant):
            out.append(v.value)
        elif isinstance(v, ast.FormattedValue):
            if v.conversion != -1 or v.format_spec is not None:
                raise PinError("f-string with conversion / format spec")
            out.append("{" + ast.unparse(v.value) + "}")
        else:
            raise PinError("unexpected f-string part")
    return out


def startswith_prefixes(node, receiver_suffix):
    """String arguments of `<…receiver_suffix>.startswith("…")` calls under `node`."""
    out = []
    for n in ast.walk(node):
        if isinstance(n, ast.Call) and isinstance(n.func, ast.Attribute) and n.func.attr == "startswith":
            if ast.unparse(n.func.value).endswith(receiver_suffix):
                if len(n.args) != 1 or not isinstance(n.args[0], ast.Constant):
                    raise PinError(f"startswith with a non-literal argument: {ast.unparse(n)}")
                out.append(n.args[0].value)
    return out


def namedtuple_fields(cls):
    return [s.target.id for s in cls.body if isinstance(s, ast.AnnAssign) and isinstance(s.target, ast.Name)]


# ------------------------------------------------------------------ frame: who touches a `.fields` attribute
_READ_METHODS = {"keys", "items", "values", "get", "copy", "__contains__", "__iter__", "__len__"}
_WRAP_FUNCS = {"list", "tuple", "dict", "len", "sorted", "set", "frozenset", "iter", "enumerate", "any", "all",
               "bool", "str", "repr"}


def fields_uses_not_read_only(tree, relname):
    """Every use of an attribute named `fields` that is not syntactically read-only: rebinding, item store /
    delete, a method call other than keys/items/values/get/copy, or the object escaping (aliased by an
    assignment, passed as an argument, returned). Over-approximates on purpose (any class's `.fields`)."""
    parents = {}
    for n in ast.walk(tree):
        for c in ast.iter_child_nodes(n):
            parents[c] = n

    def func_of(n):
        names = []
        while n in parents:
            n = parents[n]
            if isinstance(n, (ast.FunctionDef, ast.ClassDef, ast.AsyncFunctionDef)):
                names.append(n.name)
        return ".".join(reversed(names)) or "<module>"

    def stmt_of(n):
        while n in parents and not isinstance(n, ast.stmt):
            n = parents[n]
        return n

    out = []
    for n in ast.walk(tree):
        if not (isinstance(n, ast.Attribute) and n.attr == "fields"):
            continue
        par = parents.get(n)
        kind = None
        if isinstance(n.ctx, (ast.Store, ast.Del)):
            kind = "rebind"
        elif isinstance(par, ast.Attribute) and par.value is n:
            gp = parents.get(par)
            if isinstance(gp, ast.Call) and gp.func is par:
                kind = None if par.attr in _READ_METHODS else f"call .{par.attr}()"
            else:
                kind = f"attribute .{par.attr}"
        elif isinstance(par, ast.Subscript) and par.value is n:
            kind = None if isinstance(par.ctx, ast.Load) else "item store/delete"
        elif isinstance(par, ast.Call) and n in par.args and isinstance(par.func, ast.Name) \
                and par.func.id in _WRAP_FUNCS:
            kind = None
        elif isinstance(par, ast.Compare) and n in par.comparators:
            kind = None
        elif isinstance(par, (ast.For, ast.comprehension)) and par.iter is n:
            kind = None
        elif isinstance(par, (ast.Starred, ast.FormattedValue)):
            kind = None
        elif isinstance(par, ast.Dict) and n in par.values and par.keys[par.values.index(n)] is None:
            kind = None  # {**x.fields}
        else:
            kind = "escapes (alias / argument / return)"
        if kind:
            first = ast.unparse(stmt_of(n)).splitlines()[0][:110]
            out.append(f"{relname}:{func_of(n)}: {kind}: {first}")
    return out


def scan_fields_uses(exclude=("snowfakery/parse_recipe_yaml.py",)):
    import os
    from tools.py2lean import REPO

    out = []
    base = os.path.join(REPO, "snowfakery")
    if not os.path.isdir(base):
        raise PinError("snowfakery package not found")
    for root, dirs, files in os.walk(base):
        dirs.sort()
        for f in sorted(files):
            if not f.endswith(".py"):
                continue
            rel = os.path.relpath(os.path.join(root, f), REPO)
            if rel in exclude:
                continue
            out += fields_uses_not_read_only(parse(rel), rel)
    return out


@group("MappingGen", "snowfakery/generate_mapping_from_recipe.py", ["C16"])
def _mapping_gen(tree):
    out = ""
    # ---------------------------------------------------------------- add_after_statements
    pp = parse("snowfakery/cci_mapping_files/post_processes.py")
    aas = find_func(pp, "add_after_statements")
    ifs = [n for n in ast.walk(aas) if isinstance(n, ast.If) and isinstance(n.test, ast.Compare)
           and "first_instance" in ast.unparse(n.test)]
    if len(ifs) != 1:
        raise PinError("add_after_statements: expected exactly one comparison on first_instance")
    out += cond_pin(ifs[0].test, ["target_mapping_index.first_instance", "idx"], "afterCond").replace(
        "target_mapping_index.first_instance", "first_instance")
    skip = [n for n in ast.walk(aas) if isinstance(n, ast.If) and isinstance(n.test, ast.Compare)
            and "target_table" in ast.unparse(n.test)]
    if len(skip) != 1 or len(str_constants(skip[0].test)) != 1 or not isinstance(skip[0].test.ops[0], ast.Eq) \
            or not any(isinstance(s, ast.Continue) for s in skip[0].body):
        raise PinError("add_after_statements: the PersonContact skip changed shape")
    out += sdef("afterSkipTarget", str_constants(skip[0].test)[0], "lookups to this table never get `after:`")
    out += ldef("addAfterSource", body_lines(aas))
    out += ldef("indexBySobjectSource", body_lines(find_func(pp, "_index_by_sobject")))
    mi = find_class(pp, "MappingIndex")
    out += ldef("mappingIndexFields", namedtuple_fields(mi))
    # ---------------------------------------------------------------- sorter
    out += ldef("tableIsFreeSource", body_lines(find_func(tree, "_table_is_free")))
    sd = find_func(tree, "sort_dependencies")
    out += ldef("sortDependenciesSource", body_lines(sd))
    merges = [n for n in ast.walk(sd) if isinstance(n, ast.Assign) and isinstance(n.value, ast.Dict)
              and all(k is None for k in n.value.keys) and n.value.values]
    if len(merges) != 1:
        raise PinError("sort_dependencies: expected one `{**a, **b}` merge")
    out += ldef("dependencyMergeOrder", [ast.unparse(v) for v in merges[0].value.values],
                "later entries override earlier ones (per table)")
    # ---------------------------------------------------------------- build / person contact / load steps
    out += ldef("buildDependenciesSource", body_lines(find_func(tree, "build_dependencies")))
    rp = find_func(tree, "remove_person_contact_id")
    out += ldef("removePersonContactSource", body_lines(rp))
    out += ldef("removePersonContactConstants", list(dict.fromkeys(str_constants(rp))))
    ls = find_func(tree, "load_steps_from_tableinfos")
    out += ldef("loadStepsSource", body_lines(ls))
    sorts = [n for n in ast.walk(ls) if isinstance(n, ast.Call) and isinstance(n.func, ast.Attribute)
             and n.func.attr == "sort"]
    if len(sorts) != 1 or len(sorts[0].keywords) != 1 or sorts[0].keywords[0].arg != "key":
        raise PinError("load_steps_from_tableinfos: expected one `.sort(key=…)`")
    out += sdef("loadStepSortKey", ast.unparse(sorts[0].keywords[0].value))
    out += ldef("loadStepFields", namedtuple_fields(find_class(tree, "LoadStep")))
    out += ldef("mappingFromRecipeSource", body_lines(find_func(tree, "mapping_from_recipe_templates")))
    # ---------------------------------------------------------------- mappings_from_load_steps
    mf = find_func(tree, "mappings_from_load_steps")
    out += ldef("mappingsFromLoadStepsSource", body_lines(mf))
    names = [n for n in ast.walk(mf) if isinstance(n, ast.Assign) and len(n.targets) == 1
             and ast.unparse(n.targets[0]) == "step_name"]
    if len(names) != 2:
        raise PinError("mappings_from_load_steps: expected two assignments to step_name")
    names.sort(key=lambda n: n.lineno)
    out += ldef("upsertStepName", fstring_parts(names[0].value))
    out += ldef("insertStepName", fstring_parts(names[1].value))
    filt = [n for n in ast.walk(mf) if isinstance(n, ast.Assign) and len(n.targets) == 1
            and ast.unparse(n.targets[0]) == "mapping['filters']"]
    if len(filt) != 2:
        raise PinError("mappings_from_load_steps: expected two assignments to mapping['filters']")
    filt.sort(key=lambda n: n.lineno)
    if not (isinstance(filt[0].value, ast.List) and len(filt[0].value.elts) == 1):
        raise PinError("upsert filter changed shape")
    out += ldef("upsertFilter", fstring_parts(filt[0].value.elts[0]))
    if not (isinstance(filt[1].value, ast.List) and len(filt[1].value.elts) == 1
            and isinstance(filt[1].value.elts[0], ast.Constant)):
        raise PinError("insert filter changed shape")
    out += sdef("insertFilter", filt[1].value.elts[0].value)
    rtk = [n for n in ast.walk(mf) if isinstance(n, ast.Assign) and len(n.targets) == 1
           and isinstance(n.targets[0], ast.Subscript) and ast.unparse(n.targets[0].value) == "fields"]
    if len(rtk) != 1 or not isinstance(rtk[0].targets[0].slice, ast.Constant):
        raise PinError("mappings_from_load_steps: `fields[<literal>] = record_type_col` changed")
    out += sdef("recordTypeKey", rtk[0].targets[0].slice.value)
    pc = [n for n in ast.walk(mf) if isinstance(n, ast.If) and ast.unparse(n.test).startswith("table_name ==")]
    if len(pc) != 1 or len(str_constants(pc[0])) != 2:
        raise PinError("mappings_from_load_steps: the PersonContact -> Contact rule changed")
    out += ldef("personContactRule", str_constants(pc[0]), "[table name, sf_object it is loaded into]")
    # ---------------------------------------------------------------- salesforce.find_record_type_column
    sf = parse("snowfakery/salesforce.py")
    fr = find_func(sf, "find_record_type_column")
    out += ldef("findRecordTypeSource", body_lines(fr))
    tup = [n for n in ast.walk(fr) if isinstance(n, ast.Tuple) and n.elts
           and all(isinstance(e, ast.Constant) and isinstance(e.value, str) for e in n.elts)]
    if len(tup) != 1:
        raise PinError("find_record_type_column: expected one tuple of names")
    out += ldef("recordTypeNames", [e.value for e in tup[0].elts])
    # ---------------------------------------------------------------- runtime: Dependency, remember_row, state
    rt = parse("snowfakery/data_generator_runtime.py")
    out += ldef("dependencyFields", namedtuple_fields(find_class(rt, "Dependency")))
    rr = find_func(rt, "remember_row")
    calls = [n for n in ast.walk(rr) if isinstance(n, ast.Call)
             and ast.unparse(n.func).endswith("register_intertable_reference")]
    if len(calls) != 1:
        raise PinError("remember_row: expected one register_intertable_reference call")
    out += ldef("rememberRowArgs", [ast.unparse(a) for a in calls[0].args])
    isinst = [n for n in ast.walk(rr) if isinstance(n, ast.Call) and ast.unparse(n.func) == "isinstance"]
    if len(isinst) != 1:
        raise PinError("remember_row: expected one isinstance test")
    out += sdef("rememberRowTest", ast.unparse(isinst[0]))
    reg = find_func(rt, "register_intertable_reference")
    dcalls = [n for n in ast.walk(reg) if isinstance(n, ast.Call) and ast.unparse(n.func) == "Dependency"]
    if len(dcalls) != 1:
        raise PinError("register_intertable_reference: expected one Dependency(...) call")
    out += ldef("registerDependencyArgs", [ast.unparse(a) for a in dcalls[0].args])
    gl = find_class(rt, "Globals")
    gs = find_func(gl, "__getstate__")
    keys = []
    for n in ast.walk(gs):
        if isinstance(n, ast.Assign) and ast.unparse(n.targets[0]) == "state" and isinstance(n.value, ast.Dict):
            keys = [k.value for k in n.value.keys if isinstance(k, ast.Constant)]
    if not keys:
        raise PinError("Globals.__getstate__: state dict literal not found")
    out += ldef("savedKeys", keys)
    ss = find_func(gl, "__setstate__")
    access = []
    for n in ast.walk(ss):
        if isinstance(n, ast.Subscript) and ast.unparse(n.value) == "state" and isinstance(n.slice, ast.Constant) \
                and n.slice.value == "intertable_dependencies":
            access.append("index")
        if isinstance(n, ast.Call) and n.args and isinstance(n.args[0], ast.Constant) \
                and n.args[0].value == "intertable_dependencies" and ast.unparse(n.func) == "state.get":
            access.append("get")
        if isinstance(n, ast.Call) and ast.unparse(n.func) == "getattr" and len(n.args) >= 2 \
                and ast.unparse(n.args[0]) == "state" and isinstance(n.args[1], ast.Constant) \
                and n.args[1].value == "intertable_dependencies":
            access.append("getattr")
    if len(access) != 1:
        raise PinError(f"Globals.__setstate__: intertable_dependencies is read {len(access)} times ({access})")
    out += sdef("depsLoadAccess", access[0],
                "how `Globals.__setstate__` reads `intertable_dependencies` from the saved dict")
    # ---------------------------------------------------------------- hidden names
    pr = parse("snowfakery/parse_recipe_yaml.py")
    ti = find_func(find_class(pr, "TableInfo"), "register")
    p1 = startswith_prefixes(ti, "field.name")
    p2 = startswith_prefixes(find_func(pr, "parse_recipe"), "name")
    om = parse("snowfakery/data_generator_runtime_object_model.py")
    p3 = startswith_prefixes(find_func(om, "_generate_row"), "self.tablename")
    fr_ = find_func(rt, "filter_row_values_normal")
    p4 = startswith_prefixes(fr_, "k")
    if len(p1) != 1 or len(p2) != 1 or len(p3) != 1 or len(p4) != 1:
        raise PinError(f"hidden-name filters changed: {p1} {p2} {p3} {p4}")
    out += ldef("hiddenPrefixes", p1 + p2 + p3 + p4,
                "TableInfo.register (fields), parse_recipe (tables), _generate_row (rows), filter_row_values_normal (fields)")
    out += ldef("tableInfoRegisterSource", body_lines(ti))
    # ---------------------------------------------------------------- frame: TableInfo.fields after parsing
    out += ldef("fieldsUsesOutsideParser", scan_fields_uses(),
                "every not syntactically read-only use of an attribute `.fields` in snowfakery/**.py outside "
                "parse_recipe_yaml.py (file:function: kind: statement)")
    return out
