"""Pins for C10: snowfakery/row_history.py (RowHistory, RandomReferenceContext),
the history wiring in snowfakery/data_generator_runtime.py, and the `random_reference`
template function (template_funcs.py / plugins.py)."""
import ast

from tools.py2lean import (
    PinError, ExprTranslator, cond_pin, find_class, find_func, group, lean_def, lean_list, lean_str, parse,
)


def _strlist(name, items, doc):
    return f"/-- {doc} -/\ndef {name} : List String :=\n  " + lean_list(lean_str(s) for s in items) + "\n"


def _body(func):
    """Statements of a function (docstring skipped), unparsed."""
    out = []
    for s in func.body:
        if isinstance(s, ast.Expr) and isinstance(s.value, ast.Constant) and isinstance(s.value.value, str):
            continue
        out.append(ast.unparse(s))
    return out


def _get_plus_one(node, what):
    """`<dict>.get(<key>, 0) + 1`  ->  (dict source, key source, Lean Int term over `loc`)."""
    if not (isinstance(node, ast.BinOp) and isinstance(node.left, ast.Call)
            and isinstance(node.left.func, ast.Attribute) and node.left.func.attr == "get"
            and len(node.left.args) == 2 and isinstance(node.left.args[1], ast.Constant)
            and node.left.args[1].value == 0):
        raise PinError(f"{what}: expected `<dict>.get(<key>, 0) <op> <int>`, found `{ast.unparse(node)}`")
    repl = ast.BinOp(left=ast.Name(id="loc", ctx=ast.Load()), op=node.op, right=node.right)
    tr = ExprTranslator({"loc": "loc"})
    term = tr.tr(repl)
    return ast.unparse(node.left.func.value), ast.unparse(node.left.args[0]), term


@group("RowHistory", "snowfakery/row_history.py", ["C10"])
def _row_history(tree):
    out = ""
    rh = find_class(tree, "RowHistory")
    f = find_func(rh, "random_row_reference")
    top_ifs = [s for s in f.body if isinstance(s, ast.If)]
    if len(top_ifs) != 6:
        raise PinError(f"random_row_reference: expected 6 top-level if statements, found {len(top_ifs)}")
    scope_if, name_if, norows_if, min_if, fb_if, res_if = top_ifs
    # 1 scope check
    t = scope_if.test
    if not (isinstance(t, ast.Compare) and isinstance(t.ops[0], ast.NotIn) and isinstance(t.comparators[0], ast.Tuple)):
        raise PinError("scope check is no longer `scope not in (...)`")
    out += _strlist("scopes", [e.value for e in t.comparators[0].elts], "accepted values of `scope`")
    # 2 name -> (nickname, tablename, max_id)
    out += _strlist("nameTest", [ast.unparse(name_if.test)], "is `name` a nickname?")
    out += _strlist("nickBranch", [ast.unparse(s) for s in name_if.body], "nickname branch")
    out += _strlist("tableBranch", [ast.unparse(s) for s in name_if.orelse], "table branch")
    # 3 no rows
    out += _strlist("noRowsTest", [ast.unparse(norows_if.test)], "when `There is no table or nickname` is raised")
    # 4 min_id
    if not (len(min_if.orelse) == 1 and isinstance(min_if.orelse[0], ast.If)):
        raise PinError("min_id: expected if / elif / else")
    elif_ = min_if.orelse[0]
    out += _strlist("minIdTests", [ast.unparse(min_if.test), ast.unparse(elif_.test)], "tests of the min_id chain")
    glob = [s for s in min_if.body if isinstance(s, ast.Assign) and ast.unparse(s.targets[0]) == "min_id"]
    if len(glob) != 1:
        raise PinError("global scope branch: expected one assignment to min_id")
    out += lean_def("minIdGlobal", [], "Int", ExprTranslator({}).tr(glob[0].value), doc=ast.unparse(glob[0]))
    for nm, stmts in (("Nick", elif_.body), ("Table", elif_.orelse)):
        if len(stmts) != 1 or not isinstance(stmts[0], ast.Assign) or ast.unparse(stmts[0].targets[0]) != "min_id":
            raise PinError(f"min_id ({nm}): expected a single assignment")
        d, k, term = _get_plus_one(stmts[0].value, f"min_id ({nm})")
        out += lean_def(f"minId{nm}", ["loc"], "Int", term, doc=ast.unparse(stmts[0]))
        out += _strlist(f"minId{nm}Src", [d, k], f"dict and key read by the {nm} branch")
    # 5 fallback
    out += cond_pin(fb_if.test, ["max_id", "min_id"], "fallbackCond")
    if len(fb_if.body) != 1 or fb_if.orelse:
        raise PinError("fallback: expected `if max_id < min_id: min_id = 1`")
    out += lean_def("fallbackValue", [], "Int", ExprTranslator({}).tr(fb_if.body[0].value), doc=ast.unparse(fb_if.body[0]))
    # 6 result
    out += _strlist("resultTest", [ast.unparse(res_if.test)], "nickname or table lookup")
    out += _strlist("resultNick", [ast.unparse(s) for s in res_if.body], "nickname result")
    out += _strlist("resultTable", [ast.unparse(s) for s in res_if.orelse], "table result")
    rets = [ast.unparse(s) for s in f.body if isinstance(s, ast.Return)]
    out += _strlist("resultReturn", rets, "return statement")
    # save_row: how the table's highest id is maintained (fix 9826fcb: a maximum)
    sr = find_func(rh, "save_row")
    asg = [n for n in sr.body if isinstance(n, ast.Assign) and ast.unparse(n.targets[0]) == "self.table_counters[tablename]"]
    if len(asg) != 1:
        raise PinError("save_row: expected exactly one assignment to self.table_counters[tablename]")
    v = asg[0].value
    if not (isinstance(v, ast.Call) and ast.unparse(v.func) in ("max", "min") and len(v.args) == 2
            and isinstance(v.args[1], ast.BoolOp) and isinstance(v.args[1].op, ast.Or)
            and len(v.args[1].values) == 2 and isinstance(v.args[1].values[1], ast.Constant)
            and v.args[1].values[1].value == 0 and isinstance(v.args[1].values[0], ast.Call)
            and isinstance(v.args[1].values[0].func, ast.Attribute) and v.args[1].values[0].func.attr == "get"):
        raise PinError(f"save_row: table counter is no longer `max(row_id, <dict>.get(<key>) or 0)`: `{ast.unparse(v)}`")
    repl = ast.Call(func=v.func, args=[v.args[0], ast.Name(id="cur", ctx=ast.Load())], keywords=[])
    out += lean_def("saveTableCtr", ["row_id", "cur"], "Int",
                    ExprTranslator({"row_id": "row_id", "cur": "cur"}).tr(repl), doc=ast.unparse(asg[0]))
    g = v.args[1].values[0]
    out += _strlist("saveTableCtrSrc", [ast.unparse(g.func.value), ast.unparse(g.args[0])],
                    "dict and key whose previous value (or 0) the new id is compared with")
    # bookkeeping
    out += _strlist("saveRowBody", _body(find_func(rh, "save_row")), "`save_row` statements")
    out += _strlist("getNicknameIdBody", _body(find_func(rh, "_get_nickname_id")), "`_get_nickname_id` statements")
    out += _strlist("resetLocalsBody", _body(find_func(rh, "reset_locals")), "`reset_locals` statements")
    out += _strlist("initBody", _body(find_func(rh, "__init__")), "`RowHistory.__init__` statements")
    out += _strlist("findRowBody", _body(find_func(rh, "find_row_id_for_nickname_id")), "`find_row_id_for_nickname_id` statements")
    out += _strlist("makeHistoryTableBody", _body(find_func(tree, "_make_history_table")), "`_make_history_table` statements")
    # RandomReferenceContext
    rc = find_class(tree, "RandomReferenceContext")
    out += _strlist("ctxInitBody", _body(find_func(rc, "__init__")), "`RandomReferenceContext.__init__` statements")
    out += _strlist("ctxClassAttrs", [ast.unparse(s) for s in rc.body if isinstance(s, ast.Assign)], "class attributes")
    out += _strlist("ctxNextBody", _body(find_func(rc, "next")), "`RandomReferenceContext.next` statements")
    u = find_func(rc, "unique_random")
    body = _body(u)
    out += _strlist("uniqueRandomBody", body, "`unique_random` statements")
    aug = [s for s in u.body if isinstance(s, ast.AugAssign)]
    if len(aug) != 1 or ast.unparse(aug[0].target) != "b":
        raise PinError("unique_random: expected exactly one augmented assignment, to `b`")
    expr = ast.BinOp(left=ast.Name(id="b", ctx=ast.Load()), op=aug[0].op, right=aug[0].value)
    out += lean_def("uniqueTop", ["b"], "Int", ExprTranslator({"b": "b"}).tr(expr), doc=ast.unparse(aug[0]))
    return out


@group("HistoryWiring", "snowfakery/data_generator_runtime.py", ["C10"])
def _wiring(tree):
    out = ""
    f = find_func(tree, "get_contextual_state", cls="Interpreter")
    out += _strlist("contextualStateBody", _body(f), "`Interpreter.get_contextual_state` statements")
    ifs = [s for s in f.body if isinstance(s, ast.If)]
    if len(ifs) != 2:
        raise PinError("get_contextual_state: expected two if statements")
    out += _strlist("freshTest", [ast.unparse(ifs[1].test)], "when the state is (re-)created")
    out += _strlist("findTablesBody", _body(find_func(tree, "find_tables_to_keep_history_for")), "`find_tables_to_keep_history_for` statements")
    out += _strlist("referentNameBody", _body(find_func(tree, "get_referent_name")), "`get_referent_name` statements")
    out += _strlist("rememberRowBody", _body(find_func(tree, "remember_row", cls="RuntimeContext")), "`RuntimeContext.remember_row` statements")
    out += _strlist("resaveBody", _body(find_func(tree, "resave_objects_from_continuation", cls="Interpreter")), "`resave_objects_from_continuation` statements")
    # the de-duplication rule of the re-save (fix 5da9efa: by (table, id))
    rs = find_func(tree, "resave_objects_from_continuation", cls="Interpreter")
    asg = [n for n in rs.body if isinstance(n, ast.Assign) and ast.unparse(n.targets[0]) == "already_saved"]
    if len(asg) != 1 or not (isinstance(asg[0].value, ast.Call) and ast.unparse(asg[0].value.func) == "set"
                             and len(asg[0].value.args) == 1 and isinstance(asg[0].value.args[0], ast.GeneratorExp)):
        raise PinError("resave: expected `already_saved = set(<generator>)`")
    gen = asg[0].value.args[0]
    ext = [n for n in ast.walk(rs) if isinstance(n, ast.Call) and ast.unparse(n.func) == "relevant_objs.extend"]
    if len(ext) != 1 or not isinstance(ext[0].args[0], ast.GeneratorExp) or len(ext[0].args[0].generators[0].ifs) != 1:
        raise PinError("resave: expected `relevant_objs.extend(<generator with one if>)`")
    g2 = ext[0].args[0]
    out += _strlist("resaveDedup", [ast.unparse(gen.elt), ast.unparse(gen.generators[0].iter),
                                    ast.unparse(g2.elt), ast.unparse(g2.generators[0].iter), ast.unparse(g2.generators[0].ifs[0])],
                    "re-save de-duplication: key stored per nicknamed row, its source; by-table element, its source, its test")
    init = find_func(tree, "__init__", cls="Interpreter")
    tail = [ast.unparse(s) for s in init.body if "row_history" in ast.unparse(s) or "tables_to_keep_history_for" in ast.unparse(s)]
    out += _strlist("interpreterInitHistory", tail, "history-related statements of `Interpreter.__init__`, in order")
    lp = find_func(tree, "loop_over_templates_until_finished", cls="Interpreter")
    wh = [n for n in lp.body if isinstance(n, ast.While)]
    if len(wh) != 1:
        raise PinError("loop_over_templates_until_finished: expected one while loop")
    out += _strlist("loopBody", [ast.unparse(s) for s in wh[0].body], "iteration loop body, in order")
    # the template function and the memoisation key
    tf = parse("snowfakery/template_funcs.py")
    rr = find_func(tf, "random_reference")
    out += _strlist("randomReferenceDecorators", [ast.unparse(d) for d in rr.decorator_list], "decorators of `random_reference`")
    out += _strlist("randomReferenceSignature", [ast.unparse(rr.args)], "signature of `random_reference`")
    out += _strlist("randomReferenceBody", _body(rr), "`random_reference` statements")
    pl = parse("snowfakery/plugins.py")
    out += _strlist("memorableBody", _body(find_func(pl, "evaluate_memorable_function")), "`evaluate_memorable_function` statements")
    om = parse("snowfakery/data_generator_runtime_object_model.py")
    # the key under which a call site keeps its state (RandomReferenceContext incl. the unique RNG):
    # one key per parsed StructuredValue object, installed when the value is rendered
    sv = find_class(om, "StructuredValue")
    key_asg = [n for n in ast.walk(find_func(sv, "__init__")) if isinstance(n, ast.Assign)
               and ast.unparse(n.targets[0]) == "self.unique_context_identifier"]
    if len(key_asg) != 1:
        raise PinError("StructuredValue.__init__: expected one assignment to self.unique_context_identifier")
    rbody = _body(find_func(sv, "render"))
    simple = find_class(om, "SimpleValue")
    skey = [ast.unparse(n.value) for n in ast.walk(find_func(simple, "render")) if isinstance(n, ast.Assign)
            and ast.unparse(n.targets[0]) == "context.unique_context_identifier"]
    out += _strlist("callSiteKey", [ast.unparse(key_asg[0].value), rbody[0]] + skey,
                    "state key of a function call site: value assigned in StructuredValue.__init__, first statement of its render, values SimpleValue.render installs")
    gr = find_func(om, "_generate_row", cls="ObjectTemplate")
    out += _strlist("generateRowBody", _body(gr), "`ObjectTemplate._generate_row` statements")
    return out
