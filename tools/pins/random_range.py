"""Pins for snowfakery/utils/randomized_range.py (C12, C10)."""
import ast

from tools.py2lean import (
    PinError, ExprTranslator, assignments_to, cond_pin, find_class, find_func, group, int_pin,
    lean_def, lean_list, lean_str,
)


@group("RandomRange", "snowfakery/utils/randomized_range.py", ["C12", "C10"])
def _random_range(tree):
    f = find_func(tree, "random_range")
    consts = {}
    # local constant `step = 1`
    st = assignments_to(f, "step")
    if len(st) != 1 or not isinstance(st[0].value, ast.Constant):
        raise PinError("`step` is no longer a single literal assignment")
    consts["step"] = f"({st[0].value.value} : Int)"
    out = lean_def("step", [], "Int", consts["step"], doc="step = " + ast.unparse(st[0].value))
    out += int_pin(f, "maximum", ["start", "stop"], consts)
    out += int_pin(f, "value", ["maximum"], consts, draw_names=["d1"], index=0, name="value0")
    out += int_pin(f, "offset", ["maximum"], consts, draw_names=["d2"])
    out += int_pin(f, "multiplier", ["maximum"], consts)
    out += int_pin(f, "modulus", ["maximum"], consts)
    out += int_pin(
        f, "value", ["value", "multiplier", "offset", "modulus"], consts, index=-1, name="nextValue"
    )
    if len(assignments_to(f, "value")) != 2:
        raise PinError("`value` is assigned a different number of times than modelled (2)")
    # mapping(i)
    m = find_func(f, "mapping")
    ret = [n for n in ast.walk(m) if isinstance(n, ast.Return)]
    if len(ret) != 1:
        raise PinError("mapping() shape changed")
    tr = ExprTranslator({"i": "i", "start": "start"}, consts)
    out += lean_def("mapping", ["i", "start"], "Int", tr.tr(ret[0].value), doc="return " + ast.unparse(ret[0].value))
    # loop conditions
    whiles = [n for n in ast.walk(f) if isinstance(n, ast.While)]
    if len(whiles) != 1:
        raise PinError("expected exactly one while loop")
    w = whiles[0]
    out += cond_pin(w.test, ["found", "maximum"], "loopCond")
    ifs = [n for n in w.body if isinstance(n, ast.If)]
    if len(ifs) != 1 or ifs[0].orelse:
        raise PinError("expected exactly one `if` (without else) in the loop body")
    out += cond_pin(ifs[0].test, ["value", "maximum"], "yieldCond")
    # statement skeleton of the loop body: [If([AugAssign found, Expr(Yield mapping(value))]), Assign value]
    skel = [type(s).__name__ for s in w.body] + ["|"] + [type(s).__name__ for s in ifs[0].body]
    out += "/-- statement skeleton of the loop body -/\n"
    out += "def loopSkeleton : List String :=\n  " + lean_list(lean_str(s) for s in skel) + "\n"
    inc = [s for s in ifs[0].body if isinstance(s, ast.AugAssign)]
    if len(inc) != 1 or ast.unparse(inc[0]) != "found += 1":
        raise PinError("`found += 1` changed")
    ys = [s for s in ifs[0].body if isinstance(s, ast.Expr) and isinstance(s.value, ast.Yield)]
    if len(ys) != 1 or ast.unparse(ys[0].value.value) != "mapping(value)":
        raise PinError("`yield mapping(value)` changed")
    # UpdatableRandomRange: pin the comparisons used by the state machine
    urr = find_class(tree, "UpdatableRandomRange")
    snm = find_func(urr, "set_new_max")
    asserts = [n for n in ast.walk(snm) if isinstance(n, ast.Assert)]
    if len(asserts) != 1:
        raise PinError("set_new_max: expected one assert")
    out += cond_pin(asserts[0].test, ["new_max", "self.cur_max"], "setNewMaxAssert",
                    consts=None).replace("self.cur_max", "cur_max")
    snr = find_func(urr, "set_new_range")
    iff = [n for n in snr.body if isinstance(n, ast.If)]
    if len(iff) != 1:
        raise PinError("set_new_range: expected one if")
    out += cond_pin(iff[0].test, ["new_min", "self.min"], "sameMin").replace("self.min", "min_")
    asserts = [n for n in iff[0].orelse if isinstance(n, ast.Assert)]
    if len(asserts) != 1:
        raise PinError("set_new_range: expected one assert in else branch")
    out += cond_pin(asserts[0].test, ["new_min", "self.orig_max"], "moveAssert").replace(
        "self.orig_max", "orig_max"
    )
    imm = find_func(urr, "_set_new_range_immediately")
    asserts = [n for n in ast.walk(imm) if isinstance(n, ast.Assert)]
    if len(asserts) != 1:
        raise PinError("_set_new_range_immediately: expected one assert")
    out += cond_pin(asserts[0].test, ["new_max", "new_min"], "immediateAssert")
    nx = find_func(urr, "__next__")
    ifs = [n for n in nx.body if isinstance(n, ast.If)]
    if len(ifs) != 2:
        raise PinError("__next__: expected two ifs")
    out += cond_pin(ifs[1].test, ["self.cur_max", "self.orig_max"], "exhaustedCond").replace(
        "self.cur_max", "cur_max").replace("self.orig_max", "orig_max")
    # which attributes __next__ assigns after exhaustion (D06: `self.min` must not be among them)
    assigned = []
    for s in nx.body:
        if isinstance(s, ast.Assign):
            assigned.append(ast.unparse(s.targets[0]) + " = " + ast.unparse(s.value))
    out += "/-- assignments `__next__` performs when it starts the generator for the added part -/\n"
    out += "def nextAssignments : List String :=\n  " + lean_list(lean_str(s) for s in assigned) + "\n"
    return out


