"""Pins for the dataset iterator protocol (C17).

Four groups, one per source file:
  IterProtocol  snowfakery/plugins.py                               PluginResultIterator
  Datasets      snowfakery/standard_plugins/datasets.py             CSV/SQL iterators, mode wiring
  ForEach       snowfakery/data_generator_runtime_object_model.py   for_each evaluation, row loop,
                                                                    field-site consumption
  UpdateMode    snowfakery/parse_recipe_yaml.py                     build_update_recipe

`PluginResultIterator.next` is translated statement by statement into a prefix token list
(`ret p | call p K | if c T E | try B H | raise | done`) that the Lean side parses into
`DsIter.Prog` and relates to the hand-written `DsIter.next`; everything else is pinned as
constants (Bool / String) and ordered tables of unparsed statements.
"""
import ast

from tools.py2lean import PinError, find_class, find_func, group, lean_list, lean_str


# ----------------------------------------------------------------------------- helpers


def _body(func):
    """statements of a function without its docstring"""
    b = list(func.body)
    if b and isinstance(b[0], ast.Expr) and isinstance(b[0].value, ast.Constant) and isinstance(b[0].value.value, str):
        b = b[1:]
    return b


def _method(tree, cls, name):
    c = find_class(tree, cls)
    for n in c.body:
        if isinstance(n, (ast.FunctionDef, ast.AsyncFunctionDef)) and n.name == name:
            return n
    raise PinError(f"method {cls}.{name} not found")


def _has_method(tree, cls, name):
    c = find_class(tree, cls)
    return any(isinstance(n, ast.FunctionDef) and n.name == name for n in c.body)


def _stmts(func):
    return [ast.unparse(s) for s in _body(func)]


def def_bool(name, value, doc):
    if not isinstance(value, bool):
        raise PinError(f"{name}: expected a bool literal, found {value!r}")
    return f"/-- `{doc}` -/\ndef {name} : Bool :=\n  {'true' if value else 'false'}\n"


def def_str(name, value, doc):
    if not isinstance(value, str):
        raise PinError(f"{name}: expected a string, found {value!r}")
    return f"/-- `{doc}` -/\ndef {name} : String :=\n  {lean_str(value)}\n"


def def_strs(name, values, doc):
    return f"/-- {doc} -/\ndef {name} : List String :=\n  " + lean_list(lean_str(v) for v in values) + "\n"


def def_pairs(name, pairs, doc):
    items = ", ".join(f"({lean_str(a)}, {lean_str(b)})" for a, b in pairs)
    return f"/-- {doc} -/\ndef {name} : List (String × String) :=\n  [{items}]\n"


def _const(node, what):
    if not isinstance(node, ast.Constant):
        raise PinError(f"{what}: expected a literal, found `{ast.unparse(node)}`")
    return node.value


# ----------------------------------------------------------------------------- method body -> tokens

_PRIMS = {"self.next_result()": "next_result", "self.restart()": "restart"}
_CONDS = {"self.repeat": "repeat", "not self.repeat": "not_repeat"}


def block_tokens(stmts):
    """Translate a statement list into the prefix token form (see module docstring)."""
    if not stmts:
        return ["done"]
    s, rest = stmts[0], stmts[1:]
    if isinstance(s, ast.Return):
        if rest:
            raise PinError("statements after `return`")
        src = ast.unparse(s.value) if s.value is not None else None
        if src not in _PRIMS:
            raise PinError(f"unsupported return value `{src}`")
        return ["ret", _PRIMS[src]]
    if isinstance(s, ast.Expr) and isinstance(s.value, ast.Call):
        src = ast.unparse(s.value)
        if src not in _PRIMS:
            raise PinError(f"unsupported call `{src}`")
        return ["call", _PRIMS[src]] + block_tokens(rest)
    if isinstance(s, ast.If):
        if rest:
            raise PinError("statements after `if` are not supported (both branches must end the block)")
        c = ast.unparse(s.test)
        if c not in _CONDS:
            raise PinError(f"unsupported condition `{c}`")
        return ["if", _CONDS[c]] + block_tokens(s.body) + block_tokens(s.orelse)
    if isinstance(s, ast.Try):
        if rest or s.orelse or s.finalbody or len(s.handlers) != 1:
            raise PinError("unsupported try statement shape")
        h = s.handlers[0]
        if h.type is None or ast.unparse(h.type) != "StopIteration" or h.name:
            raise PinError(f"handler is not a plain `except StopIteration`: `{ast.unparse(h)[:60]}`")
        return ["try"] + block_tokens(s.body) + block_tokens(h.body)
    if isinstance(s, ast.Raise):
        if s.exc is not None or rest:
            raise PinError("only a bare `raise` at the end of a handler is supported")
        return ["raise"]
    raise PinError(f"unsupported statement `{ast.unparse(s)[:80]}`")


# ----------------------------------------------------------------------------- groups


@group("IterProtocol", "snowfakery/plugins.py", ["C17"])
def _iter_protocol(tree):
    out = ""
    nxt = _method(tree, "PluginResultIterator", "next")
    out += def_strs("nextTokens", block_tokens(_body(nxt)),
                    "body of `PluginResultIterator.next` in prefix token form: " + " ; ".join(_stmts(nxt)).replace("\n", " "))
    out += def_strs("restartBody", _stmts(_method(tree, "PluginResultIterator", "restart")),
                    "`PluginResultIterator.restart`")
    out += def_strs("dunderNextBody", _stmts(_method(tree, "PluginResultIterator", "__next__")),
                    "`PluginResultIterator.__next__`")
    out += def_strs("dunderIterBody", _stmts(_method(tree, "PluginResultIterator", "__iter__")),
                    "`PluginResultIterator.__iter__`")
    out += def_strs("initBody", _stmts(_method(tree, "PluginResultIterator", "__init__")),
                    "`PluginResultIterator.__init__`")
    # memorable functions: one object per call site, unless the context recalculates every time
    emf = find_func(tree, "evaluate_memorable_function")
    b = _body(emf)
    if not b or not isinstance(b[0], ast.If) or b[0].orelse:
        raise PinError("evaluate_memorable_function no longer starts with the recalculate check")
    out += def_str("memorableRecalcTest", ast.unparse(b[0].test), "when a memorable function is simply called again")
    out += def_strs("memorableRecalcBody", [ast.unparse(x) for x in b[0].body], "… it builds a new object")
    asg = {ast.unparse(x.targets[0]): ast.unparse(x.value) for x in b if isinstance(x, ast.Assign)}
    out += def_str("memorableUserKey", asg.get("user_key", ""), "identity of the cached object: the call site and its arguments, or `name`")
    out += def_str("memorableKey", asg.get("key", ""), "full cache key")
    rets = [x for x in b if isinstance(x, ast.Return)]
    if len(rets) != 1 or not isinstance(rets[0].value, ast.Call):
        raise PinError("evaluate_memorable_function: return changed")
    out += def_str("memorableStore", ast.unparse(rets[0].value.func), "where the object is kept")
    out += def_pairs("memorableStoreArgs", sorted((k.arg, ast.unparse(k.value)) for k in rets[0].value.keywords), "arguments of the store call")
    return out


def _mode_table(func, what):
    """[(mode literal, class instantiated)] from the `if mode == "…": return Cls(…)` chain."""
    pairs = []
    args = []
    for n in ast.walk(func):
        if isinstance(n, ast.If) and isinstance(n.test, ast.Compare) and len(n.test.ops) == 1 \
                and isinstance(n.test.ops[0], ast.Eq) and isinstance(n.test.comparators[0], ast.Constant) \
                and isinstance(n.test.comparators[0].value, str) \
                and ast.unparse(n.test.left) in ("mode", "iteration_mode"):
            rets = [s for s in n.body if isinstance(s, ast.Return)]
            if len(rets) != 1 or not isinstance(rets[0].value, ast.Call):
                raise PinError(f"{what}: branch for {ast.unparse(n.test)} does not return a constructor call")
            pairs.append((n.test.comparators[0].value, ast.unparse(rets[0].value.func)))
            args.append(ast.unparse(rets[0].value.args[-1]) if rets[0].value.args else "")
    pairs.sort(key=lambda p: p[0])
    if not pairs:
        raise PinError(f"{what}: no mode dispatch found")
    if set(args) != {"repeat"}:
        raise PinError(f"{what}: the iterators are no longer built with `repeat` as last argument: {args}")
    return pairs


@group("Datasets", "snowfakery/standard_plugins/datasets.py", ["C17"])
def _datasets(tree):
    out = ""
    out += def_strs("nextResultBody", _stmts(_method(tree, "DatasetIteratorBase", "next_result")),
                    "`DatasetIteratorBase.next_result`")
    for cls in ("DatasetIteratorBase", "SQLDatasetIterator", "CSVDatasetLinearIterator",
                "CSVDatasetRandomPermutationIterator", "SQLDatasetLinearIterator",
                "SQLDatasetRandomPermutationIterator"):
        for m in ("next", "__next__", "restart", "__iter__"):
            if _has_method(tree, cls, m):
                raise PinError(f"{cls} now overrides `{m}` of PluginResultIterator")
    for cls in ("SQLDatasetIterator", "SQLDatasetLinearIterator", "SQLDatasetRandomPermutationIterator",
                "CSVDatasetLinearIterator", "CSVDatasetRandomPermutationIterator"):
        if _has_method(tree, cls, "next_result"):
            raise PinError(f"{cls} now overrides `next_result`")
    out += def_strs("baseClasses", [
        cls + "(" + ",".join(ast.unparse(b) for b in find_class(tree, cls).bases) + ")"
        for cls in ("DatasetIteratorBase", "SQLDatasetIterator", "SQLDatasetLinearIterator",
                    "SQLDatasetRandomPermutationIterator", "CSVDatasetLinearIterator",
                    "CSVDatasetRandomPermutationIterator")], "class hierarchy of the iterators")
    out += def_strs("baseInitBody", _stmts(_method(tree, "DatasetIteratorBase", "__init__")),
                    "`DatasetIteratorBase.__init__`")
    out += def_strs("csvInitBody", _stmts(_method(tree, "CSVDatasetLinearIterator", "__init__")),
                    "`CSVDatasetLinearIterator.__init__` (ends with the first `start()`)")
    out += def_strs("csvLinearStart", _stmts(_method(tree, "CSVDatasetLinearIterator", "start")),
                    "`CSVDatasetLinearIterator.start`: rewind, read in file order")
    out += def_strs("csvShuffleStart", _stmts(_method(tree, "CSVDatasetRandomPermutationIterator", "start")),
                    "`CSVDatasetRandomPermutationIterator.start`: rewind, read everything, shuffle")
    out += def_strs("csvPluginResult", _stmts(_method(tree, "CSVDatasetLinearIterator", "plugin_result")),
                    "`CSVDatasetLinearIterator.plugin_result`")
    out += def_strs("sqlInitBody", _stmts(_method(tree, "SQLDatasetIterator", "__init__")),
                    "`SQLDatasetIterator.__init__` (ends with the first `start()`)")
    out += def_strs("sqlStart", _stmts(_method(tree, "SQLDatasetIterator", "start")),
                    "`SQLDatasetIterator.start`: re-run the query")
    out += def_strs("sqlLinearQuery", _stmts(_method(tree, "SQLDatasetLinearIterator", "query")),
                    "`SQLDatasetLinearIterator.query`")
    out += def_strs("sqlShuffleQuery", _stmts(_method(tree, "SQLDatasetRandomPermutationIterator", "query")),
                    "`SQLDatasetRandomPermutationIterator.query`")
    # state that outlives one iterator object: `DatasetBase.datasets` is created and never used, the CSV
    # iterators take (datasource, repeat) only — nothing parsed is shared between two iterators of a file
    uses = sorted({ast.unparse(st) for st in ast.walk(tree) if isinstance(st, ast.stmt) and not isinstance(st, (ast.ClassDef, ast.FunctionDef, ast.If, ast.With, ast.Try, ast.For, ast.While))
                   and any(isinstance(n, ast.Attribute) and n.attr == "datasets" for n in ast.walk(st))})
    out += def_strs("datasetsAttrUses", uses, "every statement that touches an attribute named `datasets`")
    params = []
    for cls in ("CSVDatasetLinearIterator", "CSVDatasetRandomPermutationIterator", "SQLDatasetIterator"):
        if _has_method(tree, cls, "__init__"):
            params.append(cls + "(" + ",".join(a.arg for a in _method(tree, cls, "__init__").args.args[1:]) + ")")
    out += def_strs("iteratorCtorParams", params, "constructor parameters of the iterator classes")
    mod_state = [ast.unparse(n.targets[0]) for n in tree.body if isinstance(n, ast.Assign)]
    out += def_strs("moduleLevelAssignments", mod_state, "module-level variables of datasets.py (none: no module-wide cache)")
    # the shuffle used is random.shuffle
    imports = [ast.unparse(n) for n in tree.body if isinstance(n, ast.ImportFrom) and n.module == "random"]
    out += def_strs("randomImports", imports, "what the module takes from `random`")
    # default of `repeat`
    ld = _method(tree, "FileDataset", "_load_dataset")
    rep = [n for n in ast.walk(ld) if isinstance(n, ast.Assign) and ast.unparse(n.targets[0]) == "repeat"]
    if len(rep) != 1 or not isinstance(rep[0].value, ast.Call) or ast.unparse(rep[0].value.func) != "kwargs.get" \
            or len(rep[0].value.args) != 2 or _const(rep[0].value.args[0], "repeat key") != "repeat":
        raise PinError("`repeat = kwargs.get('repeat', <default>)` changed in FileDataset._load_dataset")
    out += def_bool("defaultRepeat", _const(rep[0].value.args[1], "repeat default"), ast.unparse(rep[0]))
    sq = find_func(tree, "sql_dataset")
    names = [a.arg for a in sq.args.args]
    defaults = dict(zip(names[len(names) - len(sq.args.defaults):], sq.args.defaults))
    if "repeat" not in defaults or "mode" not in defaults:
        raise PinError("sql_dataset signature changed")
    out += def_bool("sqlDefaultRepeat", _const(defaults["repeat"], "sql repeat default"), "sql_dataset(…, repeat=…)")
    out += def_str("sqlDefaultMode", _const(defaults["mode"], "sql mode default"), "sql_dataset(…, mode=…)")
    out += def_pairs("csvModes", _mode_table(ld, "_load_dataset"), "iteration mode ↦ CSV iterator class")
    out += def_pairs("sqlModes", _mode_table(sq, "sql_dataset"), "iteration mode ↦ SQL iterator class")
    sqlcall = [n for n in ast.walk(ld) if isinstance(n, ast.Call) and ast.unparse(n.func) == "sql_dataset"]
    if len(sqlcall) != 1:
        raise PinError("_load_dataset no longer calls sql_dataset exactly once")
    out += def_str("sqlCall", ast.unparse(sqlcall[0]), "how _load_dataset calls sql_dataset")
    # which mode the two recipe-level functions ask for
    fns = find_class(find_class(tree, "DatasetPluginBase"), "Functions")
    modes = []
    for fname in ("iterate", "shuffle"):
        f = [n for n in fns.body if isinstance(n, ast.FunctionDef) and n.name == fname]
        if len(f) != 1:
            raise PinError(f"Functions.{fname} not found")
        calls = [n for n in ast.walk(f[0]) if isinstance(n, ast.Call) and ast.unparse(n.func).endswith("_get_dataset_instance")]
        if len(calls) != 1 or len(calls[0].args) != 3:
            raise PinError(f"Functions.{fname}: call of _get_dataset_instance changed")
        decos = ",".join(ast.unparse(d) for d in f[0].decorator_list)
        modes.append((fname, f"{decos}:{_const(calls[0].args[1], fname + ' mode')}"))
    out += def_pairs("functionModes", modes, "recipe function ↦ decorator:iteration mode")
    gdi = _method(tree, "DatasetBase", "_get_dataset_instance")
    out += def_strs("getDatasetInstance", _stmts(gdi), "`DatasetBase._get_dataset_instance`")
    # how the CSV file is opened
    init = _method(tree, "CSVDatasetLinearIterator", "__init__")
    opens = [n for n in ast.walk(init) if isinstance(n, ast.Call) and ast.unparse(n.func) == "open_file_like"]
    if len(opens) != 1:
        raise PinError("CSVDatasetLinearIterator.__init__ no longer calls open_file_like once")
    kw = sorted((k.arg, repr(_const(k.value, "open kw"))) for k in opens[0].keywords)
    out += def_pairs("csvOpenKeywords", kw, "keywords of open_file_like (BOM handling, newline translation off)")
    return out


@group("ForEach", "snowfakery/data_generator_runtime_object_model.py", ["C17"])
def _for_each(tree):
    out = ""
    ev = _method(tree, "ForEachVariableDefinition", "evaluate")
    out += def_strs("evaluateSkeleton", [type(s).__name__ for s in _body(ev)],
                    "statement kinds of `ForEachVariableDefinition.evaluate`")
    # every simple assignment of the method, in source order (those inside try/finally included)
    assigns = sorted((n for n in ast.walk(ev) if isinstance(n, ast.Assign) and len(n.targets) == 1),
                     key=lambda n: (n.lineno, n.col_offset))
    order = [ast.unparse(n.targets[0]) for n in assigns]
    FLAG = "context.recalculate_every_time"
    flag_asg = [n for n in assigns if ast.unparse(n.targets[0]) == FLAG]
    if not flag_asg:
        raise PinError("`context.recalculate_every_time = …` is gone from ForEachVariableDefinition.evaluate")
    rep_asg = [n for n in assigns if ast.unparse(n.targets[0]) == "ret.repeat"]
    if len(rep_asg) != 1:
        raise PinError("`ret.repeat = …` is gone from ForEachVariableDefinition.evaluate")
    ret_asg = [n for n in assigns if ast.unparse(n.targets[0]) == "ret"]
    if len(ret_asg) != 1:
        raise PinError("`ret = …` changed in ForEachVariableDefinition.evaluate")
    out += def_bool("forEachRecalculates", _const(flag_asg[0].value, "recalculate"),
                    FLAG + " = " + ast.unparse(flag_asg[0].value))
    out += def_bool("forEachRepeat", _const(rep_asg[0].value, "ret.repeat"),
                    "ret.repeat = " + ast.unparse(rep_asg[0].value))
    # Is the flag put back once the expression has been rendered?  Required shape:
    #   <saved> = context.recalculate_every_time   (before the flag is switched on)
    #   try: ret = <render>   finally: context.recalculate_every_time = <saved>
    restored = False
    trys = [s for s in _body(ev) if isinstance(s, ast.Try)]
    if trys:
        t = trys[0]
        in_try = any(n is ret_asg[0] for b in t.body for n in ast.walk(b))
        fin = [n for b in t.finalbody for n in ast.walk(b) if isinstance(n, ast.Assign)
               and ast.unparse(n.targets[0]) == FLAG and isinstance(n.value, ast.Name)]
        if in_try and len(fin) == 1 and not t.handlers and not t.orelse:
            saved = fin[0].value.id
            saves = [n for n in assigns if ast.unparse(n.targets[0]) == saved and ast.unparse(n.value) == FLAG
                     and n.lineno < flag_asg[0].lineno]
            on_before_try = flag_asg[0].lineno < t.lineno
            restored = len(saves) == 1 and on_before_try and len(flag_asg) == 2
    out += def_bool("forEachFlagRestored", restored,
                    "try: ret = … finally: context.recalculate_every_time = <value saved before it was switched on>")
    out += def_strs("evaluateAssignOrder", order,
                    "assignment order in evaluate (the flag is set before the expression is rendered and reset right after it)")
    out += def_str("evaluateRet", ast.unparse(ret_asg[0].value), "ret = …")
    typechecks = [ast.unparse(s.test) for s in _body(ev) if isinstance(s, ast.If)]
    out += def_strs("evaluateTypeCheck", typechecks, "guard of evaluate")
    rets = [ast.unparse(s) for s in _body(ev) if isinstance(s, ast.Return)]
    out += def_strs("evaluateReturn", rets, "what evaluate returns")
    # generate_rows
    gr = _method(tree, "ObjectTemplate", "generate_rows")
    ifs = [n for n in ast.walk(gr) if isinstance(n, ast.If) and ast.unparse(n.test) == "self.for_each_expr"]
    if len(ifs) != 1:
        raise PinError("generate_rows: `if self.for_each_expr:` not found")
    out += def_strs("rowLoopForEachBranch", [ast.unparse(s) for s in ifs[0].body],
                    "iterators of a for_each template: the dataset iterator first, then an endless child_index")
    out += def_strs("rowLoopCountBranch", [ast.unparse(s) for s in ifs[0].orelse],
                    "iterators of a counted template")
    mi = [n for n in ast.walk(gr) if isinstance(n, ast.Assign) and ast.unparse(n.targets[0]) == "master_iterator"]
    if len(mi) != 1:
        raise PinError("generate_rows: master_iterator assignment not found")
    out += def_str("masterIterator", ast.unparse(mi[0].value), "master_iterator = …")
    fors = [n for n in ast.walk(gr) if isinstance(n, ast.For) and "master_iterator" in ast.unparse(n.iter)]
    if len(fors) != 1:
        raise PinError("generate_rows: row loop not found")
    out += def_str("rowLoopHeader", f"for {ast.unparse(fors[0].target)} in {ast.unparse(fors[0].iter)}", "the row loop")
    out += def_strs("rowLoopBody", [ast.unparse(s) for s in fors[0].body], "body of the row loop")
    efe = _method(tree, "ObjectTemplate", "_evaluate_for_each")
    inner = [n for n in ast.walk(efe) if isinstance(n, ast.FunctionDef) and n.name == "eval_to_iterator"]
    if len(inner) != 1:
        raise PinError("_evaluate_for_each.eval_to_iterator not found")
    out += def_strs("evalToIterator", [ast.unparse(s).split("\n")[0] for s in inner[0].body], "first lines of eval_to_iterator's statements")
    # field-site consumption
    gf = _method(tree, "ObjectTemplate", "_generate_fields")
    ifs = [n for n in ast.walk(gf) if isinstance(n, ast.If) and "PluginResultIterator" in ast.unparse(n.test)]
    if len(ifs) != 1:
        raise PinError("_generate_fields: iterator check not found")
    out += def_str("fieldIterCheck", ast.unparse(ifs[0].test), "when a field value is an iterator …")
    trys = [s for s in ifs[0].body if isinstance(s, ast.Try)]
    if len(ifs[0].body) != 1 or len(trys) != 1 or len(trys[0].handlers) != 1 or ifs[0].orelse:
        raise PinError("_generate_fields: shape of the iterator branch changed")
    out += def_strs("fieldIterTry", [ast.unparse(s) for s in trys[0].body], "… one value is taken from it")
    h = trys[0].handlers[0]
    raised = [ast.unparse(s.exc.func) for s in h.body if isinstance(s, ast.Raise) and isinstance(s.exc, ast.Call)]
    out += def_pairs("fieldIterHandler", [(ast.unparse(h.type) if h.type else "", ",".join(raised))],
                     "exhaustion ↦ recipe error")
    # the state key of a call site: one key per parsed object, not per source position
    sv_init = _method(tree, "StructuredValue", "__init__")
    keys = [n for n in ast.walk(sv_init) if isinstance(n, ast.Assign) and len(n.targets) == 1
            and ast.unparse(n.targets[0]) == "self.unique_context_identifier"]
    if len(keys) != 1:
        raise PinError("StructuredValue.__init__ no longer assigns self.unique_context_identifier exactly once")
    out += def_str("callSiteKey", ast.unparse(keys[0].value), "state key of a function-block call site")
    sv_render = _method(tree, "StructuredValue", "render")
    first = _body(sv_render)[0]
    out += def_str("callSiteKeyUse", ast.unparse(first), "render publishes the key to the context before the function is called")
    simple = _method(tree, "SimpleValue", "render")
    sk = [ast.unparse(n.value) for n in ast.walk(simple) if isinstance(n, ast.Assign) and len(n.targets) == 1
          and ast.unparse(n.targets[0]) == "context.unique_context_identifier"]
    out += def_strs("formulaKey", sk, "keys a formula publishes while it is rendered (set, then restored)")
    return out


@group("UpdateMode", "snowfakery/parse_recipe_yaml.py", ["C17"])
def _update_mode(tree):
    out = ""
    f = find_func(tree, "build_update_recipe")
    dsv = [n for n in ast.walk(f) if isinstance(n, ast.ClassDef) and n.name == "DataSourceValue"]
    if len(dsv) != 1:
        raise PinError("build_update_recipe.DataSourceValue not found")
    init = [n for n in dsv[0].body if isinstance(n, ast.FunctionDef) and n.name == "__init__"]
    rnd = [n for n in dsv[0].body if isinstance(n, ast.FunctionDef) and n.name == "render"]
    if len(init) != 1 or len(rnd) != 1 or len(init[0].body) != 1:
        raise PinError("DataSourceValue shape changed")
    a = init[0].body[0]
    if not (isinstance(a, ast.Assign) and isinstance(a.value, ast.Call) and len(a.value.args) == 2):
        raise PinError("DataSourceValue.__init__ no longer builds the iterator with two arguments")
    out += def_str("updateIterTarget", ast.unparse(a.targets[0]), "the one iterator of an update run lives in …")
    out += def_str("updateIterClass", ast.unparse(a.value.func), "class of the iterator over the update input file")
    out += def_str("updateIterSource", ast.unparse(a.value.args[0]), "its data source")
    out += def_bool("updateRepeat", _const(a.value.args[1], "update repeat"), ast.unparse(a))
    out += def_strs("updateRender", _stmts(rnd[0]), "DataSourceValue.render returns the same object every time")
    fe = [n for n in ast.walk(f) if isinstance(n, ast.Assign) and ast.unparse(n.targets[0]) == "template.for_each_expr"]
    if len(fe) != 1 or not isinstance(fe[0].value, ast.Call) or len(fe[0].value.args) != 4:
        raise PinError("`template.for_each_expr = ForEachVariableDefinition(…)` changed")
    out += def_str("updateForEachClass", ast.unparse(fe[0].value.func), "the template becomes a for_each over the input")
    out += def_str("updateVar", _const(fe[0].value.args[2], "for_each variable"), "name the record is bound to")
    out += def_str("updateForEachValue", ast.unparse(fe[0].value.args[3]), "expression of the for_each")
    pt = find_func(f, "_make_passthrough_attribute_for_update_recipe")
    sv = [n for n in ast.walk(pt) if isinstance(n, ast.Call) and ast.unparse(n.func) == "SimpleValue"]
    if len(sv) != 1 or not isinstance(sv[0].args[0], ast.BinOp) or not isinstance(sv[0].args[0].op, ast.Mod):
        raise PinError("passthrough field definition changed")
    out += def_str("passthroughTemplate", _const(sv[0].args[0].left, "passthrough template"), "formula of a passthrough field")
    out += def_str("passthroughArg", ast.unparse(sv[0].args[0].right), "… applied to")
    guards = [ast.unparse(n.test) for n in f.body if isinstance(n, ast.If)]
    out += def_strs("updateGuards", guards, "what an update recipe must look like")
    rets = [ast.unparse(n) for n in f.body if isinstance(n, ast.Return)]
    out += def_strs("updateReturn", rets, "the rewritten statement list")
    pr = find_func(tree, "parse_recipe")
    calls = [n for n in ast.walk(pr) if isinstance(n, ast.Call) and ast.unparse(n.func) == "build_update_recipe"]
    conds = [ast.unparse(n.test) for n in ast.walk(pr) if isinstance(n, ast.If)
             and any(c in ast.walk(n) for c in calls)]
    out += def_strs("updateTrigger", conds, "when parse_recipe rewrites the recipe")
    return out
