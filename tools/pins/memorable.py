"""Pins for the state cache behind every `@memorable` plugin function (C15: successive rows of a
template share one `CalendarRule`, two different `Schedule.Event(...)` calls never do).

  Memorable  snowfakery/plugins.py                 evaluate_memorable_function: the cache key
  MemoState  snowfakery/data_generator_runtime.py  Interpreter.get_contextual_state: lookup / create
"""
import ast

from tools.py2lean import PinError, find_class, find_func, group, lean_list, lean_str


def _strs(name, items, doc=None):
    d = f"/-- {doc} -/\n" if doc else ""
    return f"{d}def {name} : List String :=\n  " + lean_list(lean_str(s) for s in items) + "\n"


def _pairs(name, items, doc=None):
    d = f"/-- {doc} -/\n" if doc else ""
    body = lean_list("(" + ", ".join(lean_str(x) for x in t) + ")" for t in items)
    return f"{d}def {name} : List (String × String) :=\n  {body}\n"


@group("Memorable", "snowfakery/plugins.py", ["C15"])
def _memorable(tree):
    f = find_func(tree, "evaluate_memorable_function")
    uk = [n for n in ast.walk(f) if isinstance(n, ast.Assign) and ast.unparse(n.targets[0]) == "user_key"]
    if len(uk) != 1:
        raise PinError("expected exactly one assignment to user_key")
    v = uk[0].value
    if not (isinstance(v, ast.BoolOp) and isinstance(v.op, ast.Or) and len(v.values) == 2 and isinstance(v.values[1], ast.Tuple)):
        raise PinError("user_key is no longer `<override> or (<tuple>)`")
    out = _strs("userKeyOverride", [ast.unparse(v.values[0])], "a user-supplied `name` replaces the computed key")
    out += _strs("userKeyParts", [ast.unparse(e) for e in v.values[1].elts], "components of the computed cache key, in order")
    k = [n for n in ast.walk(f) if isinstance(n, ast.Assign) and ast.unparse(n.targets[0]) == "key"]
    if len(k) != 1 or not isinstance(k[0].value, ast.Tuple):
        raise PinError("`key = (...)` changed shape")
    out += _strs("keyTuple", [ast.unparse(e) for e in k[0].value.elts], "the full key")
    ifs = [n for n in f.body if isinstance(n, ast.If)]
    if len(ifs) != 1:
        raise PinError("expected exactly one top-level if (recalculate_every_time)")
    out += _strs("recalc", [ast.unparse(ifs[0].test)] + [ast.unparse(s) for s in ifs[0].body], "for_each: no caching at all")
    rets = [n for n in f.body if isinstance(n, ast.Return)]
    if len(rets) != 1 or not isinstance(rets[0].value, ast.Call):
        raise PinError("final return changed shape")
    c = rets[0].value
    out += _strs("stateFunc", [ast.unparse(c.func)])
    out += _pairs("stateCall", [(kw.arg, ast.unparse(kw.value)) for kw in c.keywords], "keywords of the state lookup")
    m = find_func(tree, "memorable")
    inner = [n for n in ast.walk(m) if isinstance(n, ast.Return) and isinstance(n.value, ast.Call)]
    out += _strs("wrapper", [ast.unparse(n.value) for n in inner], "what the decorator's wrapper does")
    return out


@group("MemoState", "snowfakery/data_generator_runtime.py", ["C15"])
def _memostate(tree):
    f = find_func(find_class(tree, "Interpreter"), "get_contextual_state")
    body = [s for s in f.body if not (isinstance(s, ast.Expr) and isinstance(s.value, ast.Constant))]
    out = _strs("stateBody", [ast.unparse(s).replace("\n", " ; ") for s in body],
                "Interpreter.get_contextual_state without its docstring")
    return out


@group("CallSite", "snowfakery/data_generator_runtime_object_model.py", ["C15"])
def _callsite(tree):
    """what the `context.unique_context_identifier` of a memorable call is: the identity of the
    parsed value object (`StructuredValue` for a YAML call, `SimpleValue` for a formula)"""
    found = []
    for cls in ("SimpleValue", "StructuredValue"):
        c = find_class(tree, cls)
        for n in ast.walk(c):
            if isinstance(n, ast.Assign) and any("unique_context_identifier" in ast.unparse(t) for t in n.targets):
                found.append((n.lineno, cls, ast.unparse(n)))
    if not found:
        raise PinError("no assignment to unique_context_identifier found")
    out = _pairs("contextIdentifier", [(c, a) for _, c, a in sorted(found)],
                 "(class, assignment) for every assignment to unique_context_identifier")
    return out


@group("MacroParse", "snowfakery/parse_recipe_yaml.py", ["C15"])
def _macroparse(tree):
    """`include_macro` parses the macro's fields and friends anew for every template that includes
    it (no cache): every inclusion gets its own value objects, hence its own call sites"""
    f = find_func(tree, "include_macro")
    steps = []
    for st in f.body:
        if isinstance(st, ast.Expr) and isinstance(st.value, ast.Constant):
            continue
        if isinstance(st, ast.If):
            steps.append("if " + ast.unparse(st.test))
        elif isinstance(st, ast.Try):
            steps.append("try: " + " ; ".join(ast.unparse(b) for b in st.body))
        elif isinstance(st, ast.Assign) and isinstance(st.value, ast.Call) and len(ast.unparse(st)) > 70:
            steps.append(", ".join(ast.unparse(t) for t in st.targets) + " = " + ast.unparse(st.value.func) + "(...)")
        else:
            steps.append(ast.unparse(st))
    out = _strs("includeMacroSteps", steps, "the statements of include_macro, in order")
    return out
