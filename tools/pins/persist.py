"""Pins for the continuation file (C05): the yaml.dump / safe_load wiring in data_generator.py, the
dumper class and the representers registered on it anywhere in the package, `hydrate`, the key tables
of IdManager / ObjectRow / Dependency that tools/pins/runtime.py does not extract, the value
expressions of the state dict, the whole body of `Globals.__setstate__`, and the history restore."""
import ast
import os

from tools.py2lean import (
    PinError, REPO, find_class, find_func, group, lean_list, lean_str, parse,
)


def _strlist(name, items, doc):
    return f"/-- {doc} -/\ndef {name} : List String :=\n  " + lean_list(lean_str(s) for s in items) + "\n"


def _body(func):
    return [ast.unparse(s) for s in func.body
            if not (isinstance(s, ast.Expr) and isinstance(s.value, ast.Constant) and isinstance(s.value.value, str))]


def _accesses(func, var="state"):
    acc = []
    for n in ast.walk(func):
        if isinstance(n, ast.Subscript) and ast.unparse(n.value) == var and isinstance(n.slice, ast.Constant):
            acc.append((n.lineno, n.col_offset, "item:" + str(n.slice.value)))
        if isinstance(n, ast.Call) and ast.unparse(n.func) == var + ".get" and n.args and isinstance(n.args[0], ast.Constant):
            acc.append((n.lineno, n.col_offset, "get:" + str(n.args[0].value)))
        if (isinstance(n, ast.Call) and ast.unparse(n.func) == "getattr" and len(n.args) >= 2
                and ast.unparse(n.args[0]) == var and isinstance(n.args[1], ast.Constant)):
            acc.append((n.lineno, n.col_offset, "attr:" + str(n.args[1].value)))
    acc.sort()
    return [a[2] for a in acc]


def _package_files():
    root = os.path.join(REPO, "snowfakery")
    out = []
    for d, dirs, fs in os.walk(root):
        dirs[:] = sorted(x for x in dirs if x not in ("__pycache__",))
        for f in sorted(fs):
            if f.endswith(".py"):
                out.append(os.path.relpath(os.path.join(d, f), REPO))
    return out


@group("Persist", "snowfakery/data_generator.py", ["C05"])
def _persist(tree):
    out = ""
    # --- save_continuation_yaml: the yaml.dump call and its arguments (no sort_keys => sorted keys)
    f = find_func(tree, "save_continuation_yaml")
    calls = [n for n in ast.walk(f) if isinstance(n, ast.Call) and ast.unparse(n.func).startswith("yaml.")]
    if len(calls) != 1:
        raise PinError("save_continuation_yaml: expected exactly one yaml.* call")
    c = calls[0]
    out += _strlist("saveCall", [ast.unparse(c.func)] + [ast.unparse(a) for a in c.args]
                    + sorted(f"{k.arg}={ast.unparse(k.value)}" for k in c.keywords),
                    "`save_continuation_yaml`: the dump call, positional arguments, keywords (sorted)")
    out += _strlist("saveBody", _body(f), "`save_continuation_yaml` statements")
    # the path of AST node types from the function body down to the dump call: a single expression
    # statement, i.e. ONE dump of the WHOLE state per file (not inside a loop / condition / helper)
    def _path(node, target, acc):
        if node is target:
            return acc
        for ch in ast.iter_child_nodes(node):
            r = _path(ch, target, acc + [type(ch).__name__])
            if r is not None:
                return r
        return None
    out += _strlist("saveCallContext", _path(f, c, []) or ["not found"],
                    "AST path from `save_continuation_yaml` to its dump call")
    f = find_func(tree, "load_continuation_yaml")
    out += _strlist("loadBody", _body(f), "`load_continuation_yaml` statements")
    # --- generate(): where the file is read and written
    g = find_func(tree, "generate")
    src = [ast.unparse(s) for s in g.body]
    out += _strlist("generateContinuation", [s for s in src if "continuation_yaml" in s],
                    "statements of `generate` that read / write the continuation file")
    ig = find_func(tree, "initialize_globals")
    top = [s for s in ig.body if isinstance(s, ast.If)]
    if len(top) != 1:
        raise PinError("initialize_globals: expected one top-level if")
    out += _strlist("initializeGlobalsContinued", [ast.unparse(top[0].test)] + [ast.unparse(s) for s in top[0].body],
                    "`initialize_globals`: test and body of the continued-run branch")
    # --- yaml_utils: dumper class and hydrate
    yu = parse("snowfakery/utils/yaml_utils.py")
    d = find_class(yu, "SnowfakeryDumper")
    out += _strlist("dumperClass", [ast.unparse(b) for b in d.bases] + _body(d), "`SnowfakeryDumper`: bases, then body")
    imports = [ast.unparse(n) for n in yu.body if isinstance(n, (ast.Import, ast.ImportFrom))]
    out += _strlist("yamlUtilsImports", imports, "imports of utils/yaml_utils.py (which SafeDumper)")
    out += _strlist("hydrateBody", _body(find_func(yu, "hydrate")), "`hydrate` statements")
    # --- representers registered on the dumper (or on yaml.SafeDumper) anywhere in the package
    reps = []
    ctors = []
    for rel in _package_files():
        t = parse(rel)
        for n in ast.walk(t):
            if isinstance(n, ast.Call) and isinstance(n.func, ast.Attribute) and n.func.attr in (
                    "add_representer", "add_multi_representer"):
                reps.append(f"{rel}: {ast.unparse(n.func)}({', '.join(ast.unparse(a) for a in n.args)})")
            if isinstance(n, ast.Call) and isinstance(n.func, ast.Attribute) and n.func.attr in (
                    "add_constructor", "add_multi_constructor"):
                ctors.append(f"{rel}: {ast.unparse(n.func)}({', '.join(ast.unparse(a) for a in n.args)})")
    out += _strlist("representers", sorted(reps), "every representer registration in snowfakery/**")
    out += _strlist("constructors", sorted(ctors), "every YAML constructor registration in snowfakery/**")
    # --- runtime: IdManager / Globals / Dependency / resave
    rt = parse("snowfakery/data_generator_runtime.py")
    idm = find_class(rt, "IdManager")
    out += _strlist("idManagerLoaded", _accesses(find_func(idm, "__setstate__")), "how `IdManager.__setstate__` reads its keys")
    out += _strlist("idManagerGetstate", _body(find_func(idm, "__getstate__")), "`IdManager.__getstate__` statements")
    out += _strlist("idManagerSetstate", _body(find_func(idm, "__setstate__")), "`IdManager.__setstate__` statements")
    dep = find_class(rt, "Dependency")
    out += _strlist("depBases", [ast.unparse(b) for b in dep.bases], "bases of `Dependency`")
    out += _strlist("depFields", [s.target.id for s in dep.body if isinstance(s, ast.AnnAssign)], "fields of `Dependency`, in order")
    gs = find_func(rt, "__getstate__", cls="Globals")
    dicts = [n for n in ast.walk(gs) if isinstance(n, ast.Assign) and isinstance(n.value, ast.Dict)
             and n.value.keys and all(isinstance(k, ast.Constant) for k in n.value.keys)]
    if len(dicts) != 1:
        raise PinError("Globals.__getstate__: expected one literal state dict")
    out += _strlist("globalsSavedExprs", [f"{k.value}={ast.unparse(v)}" for k, v in zip(dicts[0].value.keys, dicts[0].value.values)],
                    "state dict of `Globals.__getstate__`: key=value expression")
    out += _strlist("globalsGetstateBody", _body(gs), "`Globals.__getstate__` statements")
    out += _strlist("globalsSetstateBody", _body(find_func(rt, "__setstate__", cls="Globals")), "`Globals.__setstate__` statements")
    out += _strlist("resaveBody", _body(find_func(rt, "resave_objects_from_continuation", cls="Interpreter")),
                    "`Interpreter.resave_objects_from_continuation` statements")
    # --- object_rows: keys written, slots, the drop condition
    orows = parse("snowfakery/object_rows.py")
    row = find_class(orows, "ObjectRow")
    gsr = find_func(row, "__getstate__")
    rets = [n for n in ast.walk(gsr) if isinstance(n, ast.Return) and isinstance(n.value, ast.Dict)]
    if len(rets) != 1 or not all(isinstance(k, ast.Constant) for k in rets[0].value.keys):
        raise PinError("ObjectRow.__getstate__: expected one `return {literal keys}`")
    out += _strlist("objectRowSavedKeys", [k.value for k in rets[0].value.keys], "keys written by `ObjectRow.__getstate__`")
    comps = [n for n in ast.walk(gsr) if isinstance(n, ast.DictComp)]
    if len(comps) != 1 or len(comps[0].generators) != 1:
        raise PinError("ObjectRow.__getstate__: expected one dict comprehension")
    out += _strlist("objectRowDropCond", [ast.unparse(c) for c in comps[0].generators[0].ifs], "filter of the values kept")
    slots = [s for s in row.body if isinstance(s, ast.Assign) and ast.unparse(s.targets[0]) == "__slots__"]
    if len(slots) != 1 or not isinstance(slots[0].value, (ast.List, ast.Tuple)):
        raise PinError("ObjectRow.__slots__: expected a literal list")
    out += _strlist("objectRowSlots", [e.value for e in slots[0].value.elts], "`ObjectRow.__slots__`")
    yamlattrs = [ast.unparse(s) for s in row.body if isinstance(s, ast.Assign) and ast.unparse(s.targets[0]).startswith("yaml_")]
    out += _strlist("objectRowYamlAttrs", yamlattrs, "yaml_* class attributes of `ObjectRow`")
    ref = find_class(orows, "ObjectReference")
    out += _strlist("objectReferenceBases", [ast.unparse(b) for b in ref.bases]
                    + [ast.unparse(s) for s in ref.body if isinstance(s, ast.Assign)],
                    "`ObjectReference`: bases and class attributes (no yaml_tag => no representer)")
    return out
