"""Pins for snowfakery/fakedata/fake_data_generator.py (C18).

What is extracted (all from the AST, nothing is imported or evaluated):
  * the three tuples the e-mail templates are built from, the f-string that assembles a template
    and the order of the `product(...)` comprehension;
  * `FakeNames.email`: the condition, the keyword wiring of `template.format(...)`, the padding
    `ljust(2, "_")`, the year range, the fallback call;
  * `FakeNames.user_name`: the condition, the two name-part f-strings, the arithmetic of
    `namepart_max_len` (with `len(domain)` as a parameter), the slice and the returned f-string;
  * `_already_have` and the sanitiser (`translate`, `REMOVE_WEIRD_CHARS`,
    `replace_unicode_strings_with_None`);
  * the public attributes of class `FakeNames` with what each denotes (def / alias / NotImplemented
    / NamedTuple field / inherited tuple method);
  * `FakeData.__init__`: the canonicaliser, the visibility filter and the four `**` segments of
    the table, in order; `_get_fake_data`: the lookup and the key under which a result is remembered.
Strings that the model computes with are emitted as `List Char`; source skeletons as `String`.
"""
import ast
import copy

from tools.py2lean import (
    PinError, ExprTranslator, assignments_to, find_class, find_func, group, lean_def, lean_list,
    lean_str, module_constant,
)

SRC = "snowfakery/fakedata/fake_data_generator.py"


def lean_char(c):
    if c == "'":
        return "'\\''"
    if c == "\\":
        return "'\\\\'"
    if c == "\n":
        return "'\\n'"
    if c == "\t":
        return "'\\t'"
    if ord(c) < 32 or ord(c) == 127:
        return f"(Char.ofNat {ord(c)})"
    return f"'{c}'"


def lean_chars(s):
    return "[" + ", ".join(lean_char(c) for c in s) + "]"


def str_tuple(node, what):
    if not isinstance(node, (ast.Tuple, ast.List)):
        raise PinError(f"{what}: no longer a tuple/list literal")
    out = []
    for e in node.elts:
        if not (isinstance(e, ast.Constant) and isinstance(e.value, str)):
            raise PinError(f"{what}: element is not a string literal")
        out.append(e.value)
    return out


def chars_list_def(name, items, doc):
    return (
        f"/-- `{doc}` -/\n"
        f"def {name} : List (List Char) :=\n  " + lean_list(lean_chars(s) for s in items) + "\n"
    )


def strs_def(name, items, doc):
    return f"/-- {doc} -/\ndef {name} : List String :=\n  " + lean_list(lean_str(s) for s in items) + "\n"


def str_def(name, s, doc):
    return f"/-- {doc} -/\ndef {name} : String :=\n  {lean_str(s)}\n"


def fstring_parts(node, what):
    """JoinedStr -> ["lit:<text>" | "var:<expr>"] (format specs / conversions are refused)."""
    if not isinstance(node, ast.JoinedStr):
        raise PinError(f"{what}: no longer an f-string")
    parts = []
    for v in node.values:
        if isinstance(v, ast.Constant) and isinstance(v.value, str):
            parts.append("lit:" + v.value)
        elif isinstance(v, ast.FormattedValue):
            if v.conversion != -1 or v.format_spec is not None:
                raise PinError(f"{what}: conversion / format spec not modelled")
            parts.append("var:" + ast.unparse(v.value))
        else:
            raise PinError(f"{what}: unexpected f-string part")
    return parts


class _LenToName(ast.NodeTransformer):
    """`len(x)` -> the name `x_len` (so that the integer translator accepts the expression)."""

    def visit_Call(self, node):
        self.generic_visit(node)
        if isinstance(node.func, ast.Name) and node.func.id == "len" and len(node.args) == 1:
            return ast.copy_location(ast.Name(id=ast.unparse(node.args[0]) + "_len", ctx=ast.Load()), node)
        return node


def single(lst, what):
    if len(lst) != 1:
        raise PinError(f"{what}: expected exactly one, found {len(lst)}")
    return lst[0]


@group("FakeContact", SRC, ["C18"])
def _fake_contact(tree):
    out = ""
    # ---------------------------------------------------------------- e-mail templates
    out += chars_list_def("firstNamePatterns", str_tuple(module_constant(tree, "first_name_patterns"), "first_name_patterns"), "first_name_patterns")
    out += chars_list_def("firstNameSeparators", str_tuple(module_constant(tree, "first_name_separators"), "first_name_separators"), "first_name_separators")
    out += chars_list_def("yearPatterns", str_tuple(module_constant(tree, "year_patterns"), "year_patterns"), "year_patterns")
    et = module_constant(tree, "email_templates")
    if not (isinstance(et, ast.ListComp) and len(et.generators) == 1):
        raise PinError("email_templates: no longer a single-generator list comprehension")
    gen = et.generators[0]
    if gen.ifs:
        raise PinError("email_templates: comprehension has a filter")
    out += strs_def("templateParts", fstring_parts(et.elt, "email template"), "the f-string that assembles one template")
    if not isinstance(gen.target, ast.Tuple):
        raise PinError("email_templates: loop target changed")
    out += strs_def("templateLoopVars", [ast.unparse(t) for t in gen.target.elts], "loop variables of the comprehension")
    if not (isinstance(gen.iter, ast.Call) and ast.unparse(gen.iter.func) == "product" and not gen.iter.keywords):
        raise PinError("email_templates: no longer iterates over product(...)")
    out += strs_def("templateProductArgs", [ast.unparse(a) for a in gen.iter.args], "arguments of product(...), slowest-varying first")

    cls = find_class(tree, "FakeNames")
    # ---------------------------------------------------------------- FakeNames.email
    em = find_func(cls, "email")
    ifs = [n for n in em.body if isinstance(n, ast.If)]
    iff = single(ifs, "email: if statements")
    out += str_def("emailCond", ast.unparse(iff.test), "condition under which the address is built from the row's names")
    if iff.orelse:
        raise PinError("email: the `if` gained an else branch")
    out += strs_def("emailIfSkeleton", [type(s).__name__ for s in iff.body], "statements of the `if` body")
    tmpl = single(assignments_to(iff, "template"), "email: assignments to template")
    out += str_def("emailTemplateChoice", ast.unparse(tmpl.value), "how the template is chosen")
    ret = single([n for n in iff.body if isinstance(n, ast.Return)], "email: return in if")
    call = ret.value
    if not (isinstance(call, ast.Call) and ast.unparse(call.func) == "template.format" and not call.args):
        raise PinError("email: no longer `return template.format(**kw)`")
    out += strs_def("emailFormatKwargs", [f"{k.arg}={ast.unparse(k.value)}" for k in call.keywords], "keyword wiring of template.format")
    out += strs_def("emailAlreadyHave", [ast.unparse(a.value) for a in assignments_to(em, "already_created")], "names asked of _already_have in email")
    tail = em.body[-1]
    if not isinstance(tail, ast.Return):
        raise PinError("email: last statement is not a return")
    out += str_def("emailFallback", ast.unparse(tail.value), "what is returned otherwise")
    defaults = [ast.unparse(d) for d in em.args.defaults]
    out += strs_def("emailDefaults", [a.arg for a in em.args.args] + ["|"] + defaults, "parameters | defaults")
    # year range
    ykw = single([k for k in call.keywords if k.arg == "year"], "email: year keyword")
    yv = ykw.value
    if not (isinstance(yv, ast.Call) and ast.unparse(yv.func) == "str" and len(yv.args) == 1):
        raise PinError("email: year is no longer str(random.randint(...))")
    tr = ExprTranslator({"this_year": "this_year"}, None, ["d"])
    body = tr.tr(yv.args[0])
    if body != "d" or len(tr.draws) != 1:
        raise PinError("email: year is no longer a single random.randint draw")
    lo, hi = tr.draws[0]
    out += lean_def("yearLo", ["this_year"], "Int", lo, doc="lower bound of the year draw")
    out += lean_def("yearHi", ["this_year"], "Int", hi, doc="upper bound of the year draw")
    # ljust
    fkw = single([k for k in call.keywords if k.arg == "firstname"], "email: firstname keyword")
    fv = fkw.value
    if not (isinstance(fv, ast.Call) and isinstance(fv.func, ast.Attribute) and fv.func.attr == "ljust" and len(fv.args) == 2
            and all(isinstance(a, ast.Constant) for a in fv.args)):
        raise PinError("email: firstname is no longer <x>.ljust(<int>, <str>)")
    out += lean_def("ljustWidth", [], "Int", f"({int(fv.args[0].value)} : Int)", doc="ljust width")
    out += f"def ljustFill : List Char :=\n  {lean_chars(fv.args[1].value)}\n"
    # ---------------------------------------------------------------- FakeNames.user_name
    un = find_func(cls, "user_name")
    out += str_def("userDomain", ast.unparse(single(assignments_to(un, "domain"), "user_name: domain").value), "where the domain comes from")
    out += strs_def("userAlreadyHave", [ast.unparse(a.value) for a in assignments_to(un, "already_created")], "names asked of _already_have in user_name")
    uif = single([n for n in un.body if isinstance(n, ast.If)], "user_name: if statements")
    out += str_def("userCond", ast.unparse(uif.test), "condition for the matching name part")
    a1 = single([s for s in uif.body if isinstance(s, ast.Assign)], "user_name: if body")
    a2 = single([s for s in uif.orelse if isinstance(s, ast.Assign)], "user_name: else body")
    if len(uif.body) != 1 or len(uif.orelse) != 1:
        raise PinError("user_name: branches gained statements")
    out += strs_def("userNamepartMatching", fstring_parts(a1.value, "user_name matching namepart"), "name part built from the row's names")
    out += strs_def("userNamepartFresh", fstring_parts(a2.value, "user_name fresh namepart"), "name part built from fresh draws")
    ml = single(assignments_to(un, "namepart_max_len"), "user_name: namepart_max_len")
    expr = _LenToName().visit(copy.deepcopy(ml.value))
    tr = ExprTranslator({"domain_len": "domain_len"})
    body = tr.tr(expr)
    if "domain_len" not in tr.used:
        raise PinError("namepart_max_len no longer depends on len(domain)")
    out += lean_def("namepartMaxLen", ["domain_len"], "Int", body, doc="namepart_max_len = " + ast.unparse(ml.value))
    nps = assignments_to(un, "namepart")
    if len(nps) != 3:
        raise PinError("user_name: `namepart` is assigned a different number of times than modelled (3)")
    out += str_def("userSlice", ast.unparse(nps[-1].value), "the truncation")
    uret = un.body[-1]
    if not isinstance(uret, ast.Return):
        raise PinError("user_name: last statement is not a return")
    out += strs_def("userReturn", fstring_parts(uret.value, "user_name return"), "the returned f-string")
    out += strs_def("userSkeleton", [type(s).__name__ for s in un.body], "statement skeleton of user_name")
    # ---------------------------------------------------------------- _already_have and the sanitiser
    ah = find_func(cls, "_already_have")
    out += strs_def("alreadyHaveBody", [ast.unparse(s) for s in ah.body if not (isinstance(s, ast.Expr) and isinstance(s.value, ast.Constant))], "statements of _already_have")
    trf = find_func(tree, "translate")
    out += strs_def("translateBody", [ast.unparse(s) for s in trf.body], "translate(x)")
    out += str_def("removeWeirdChars", ast.unparse(module_constant(tree, "REMOVE_WEIRD_CHARS")), "REMOVE_WEIRD_CHARS")
    ru = find_func(tree, "replace_unicode_strings_with_None")
    out += strs_def("sanitiserBody", [ast.unparse(s) for s in ru.body], "replace_unicode_strings_with_None(val)")
    # ---------------------------------------------------------------- attributes of FakeNames
    bases = [ast.unparse(b) for b in cls.bases]
    out += strs_def("fakeNamesBases", bases, "base classes")
    attrs = {}
    for s in cls.body:
        if isinstance(s, ast.AnnAssign) and isinstance(s.target, ast.Name):
            attrs[s.target.id] = "field:" + s.target.id
        elif isinstance(s, (ast.FunctionDef, ast.AsyncFunctionDef)):
            attrs[s.name] = s.name
        elif isinstance(s, ast.Assign):
            v = s.value
            if isinstance(v, ast.Name) and v.id == "NotImplemented":
                tag = "NotImplemented"
            elif isinstance(v, ast.Name) and v.id in attrs:
                tag = attrs[v.id]
            else:
                raise PinError(f"FakeNames: unmodelled class attribute `{ast.unparse(s)}`")
            for t in s.targets:
                if not isinstance(t, ast.Name):
                    raise PinError("FakeNames: unmodelled assignment target")
                attrs[t.id] = tag
        elif isinstance(s, ast.Expr) and isinstance(s.value, ast.Constant):
            pass
        else:
            raise PinError(f"FakeNames: unmodelled class statement `{type(s).__name__}`")
    if any("NamedTuple" in b for b in bases):
        attrs.setdefault("count", "tuple.count")
        attrs.setdefault("index", "tuple.index")
    public = sorted(n for n in attrs if not n.startswith("_"))
    out += "/-- public attributes of a `FakeNames` instance in `dir()` order, with what each denotes -/\n"
    out += "def snowAttrs : List (List Char × List Char) :=\n  " + lean_list(
        f"({lean_chars(n)}, {lean_chars(attrs[n])})" for n in public) + "\n"
    # ---------------------------------------------------------------- FakeData
    fd = find_class(tree, "FakeData")
    init = find_func(fd, "__init__")
    nun = find_func(init, "no_underscore_name")
    out += strs_def("noUnderscoreName", [ast.unparse(s) for s in nun.body], "the canonicaliser")
    otf = find_func(init, "obj_to_func_list")
    oret = single([n for n in otf.body if isinstance(n, ast.Return)], "obj_to_func_list: return")
    dc = oret.value
    if not (isinstance(dc, ast.DictComp) and len(dc.generators) == 1):
        raise PinError("obj_to_func_list: no longer a dict comprehension")
    out += strs_def("objToFuncList", [ast.unparse(dc.key), ast.unparse(dc.value), ast.unparse(dc.generators[0].iter)]
                    + [ast.unparse(i) for i in dc.generators[0].ifs], "key, value, iterable, filters")
    tbl = single(assignments_to(init, "self.fake_names"), "FakeData.__init__: self.fake_names")
    d = tbl.value
    if not (isinstance(d, ast.Dict) and all(k is None for k in d.keys)):
        raise PinError("self.fake_names: no longer a dict of ** segments")
    out += strs_def("tableSegments", [ast.unparse(v) for v in d.values], "the ** segments, earliest first (later ones win)")
    out += strs_def("fakerCtor", [ast.unparse(a.value) for a in assignments_to(init, "faker")]
                    + [ast.unparse(a.value) for a in assignments_to(init, "fake_names")], "constructors of the two objects the table is built from")
    out += str_def("fakerClassAttrs", ast.unparse(module_constant(tree, "faker_class_attrs")), "ignore list")
    gf = find_func(fd, "_get_fake_data")
    wanted = []
    n_ifs = 0
    for s in gf.body:
        if isinstance(s, ast.Assign) and ast.unparse(s.targets[0]) in ("name", "meth", "local_faker_vars"):
            wanted.append(ast.unparse(s))
        elif isinstance(s, ast.If) and n_ifs < 2:
            # in source order: the fall-back to the no-underscore key, then call/remember/return
            n_ifs += 1
            if s.orelse:
                raise PinError("_get_fake_data: an `if` gained an else branch")
            wanted.append("if " + ast.unparse(s.test))
            wanted += ["  " + ast.unparse(b) for b in s.body]
    if n_ifs != 2:
        raise PinError("_get_fake_data: expected the fall-back `if` and the call `if`")
    out += strs_def("getFakeData", wanted, "lookup, call, remember, return")
    return out
