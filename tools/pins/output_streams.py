"""Pins for the output layer (C08): snowfakery/output_streams.py, snowfakery/api.py,
snowfakery/parse_recipe_yaml.py + data_generator_runtime_object_model.py.

Three groups:
  OutputStreams  thresholds, the modulo tests of write_row, the `encoders` dict of every stream class
                 resolved through the class hierarchy and the `**Base.encoders` unpacking, `flatten`
                 per class, and the statement text of the buffering / closing / multiplexing methods.
  OutputApi      how `configure_output_stream` treats an exception of `close()`; OUTPUT_FORMATS.
  OutputSchema   TableInfo.register, the keys `_generate_row` puts into a row, the hidden-name filter.
  OutputGenerate whether `generate` commits the stream after `interpreter.execute()` while an error can
                 still fail the run (fix 043066e).
"""
import ast

from tools.py2lean import (
    PinError, ExprTranslator, class_constant, find_class, find_func, group, lean_def, lean_list,
    lean_str, module_constant, parse,
)


# ----------------------------------------------------------------------------- helpers


def body_text(func):
    """Statements of a function as normalised source text (docstring and comments dropped)."""
    stmts = list(func.body)
    if stmts and isinstance(stmts[0], ast.Expr) and isinstance(stmts[0].value, ast.Constant) \
            and isinstance(stmts[0].value.value, str):
        stmts = stmts[1:]
    return [ast.unparse(s) for s in stmts]


def str_list_def(name, items, doc=None):
    d = f"/-- {doc} -/\n" if doc else ""
    return f"{d}def {name} : List String :=\n  " + lean_list(lean_str(s) for s in items) + "\n"


def pair_list_def(name, pairs, doc=None):
    d = f"/-- {doc} -/\n" if doc else ""
    body = lean_list(f"({lean_str(a)}, {lean_str(b)})" for a, b in pairs)
    return f"{d}def {name} : List (String × String) :=\n  {body}\n"


def own_method(cls_node, name):
    for n in cls_node.body:
        if isinstance(n, (ast.FunctionDef, ast.AsyncFunctionDef)) and n.name == name:
            return n
    return None


def class_attr(cls_node, name):
    """Value node of a class-level `name = …` or `name: T = …`."""
    for n in cls_node.body:
        if isinstance(n, ast.Assign) and len(n.targets) == 1 and isinstance(n.targets[0], ast.Name) \
                and n.targets[0].id == name:
            return n.value
        if isinstance(n, ast.AnnAssign) and isinstance(n.target, ast.Name) and n.target.id == name \
                and n.value is not None:
            return n.value
    return None


class Hierarchy:
    def __init__(self, tree):
        self.classes = {n.name: n for n in tree.body if isinstance(n, ast.ClassDef)}

    def bases(self, name):
        c = self.classes.get(name)
        if c is None:
            return []
        out = []
        for b in c.bases:
            if isinstance(b, ast.Name) and b.id in self.classes:
                out.append(b.id)
        return out

    def mro(self, name):
        # single inheritance inside this module (checked): linear walk
        out = [name]
        while True:
            bs = self.bases(out[-1])
            if len(bs) > 1:
                raise PinError(f"{out[-1]}: multiple in-module bases, MRO not modelled")
            if not bs:
                return out
            out.append(bs[0])

    def resolve_attr(self, name, attr):
        for c in self.mro(name):
            v = class_attr(self.classes[c], attr)
            if v is not None:
                return c, v
        raise PinError(f"{name}.{attr} not found in the hierarchy")

    def resolve_method(self, name, meth):
        for c in self.mro(name):
            m = own_method(self.classes[c], meth)
            if m is not None:
                return c, m
        raise PinError(f"{name}.{meth} not found in the hierarchy")

    def encoders(self, name, depth=0):
        """Ordered [(type key, encoder name)] of `name.encoders` with `**X.encoders` expanded."""
        if depth > 10:
            raise PinError("encoders: unpacking too deep")
        _, v = self.resolve_attr(name, "encoders")
        if not isinstance(v, ast.Dict):
            raise PinError(f"{name}.encoders is no longer a dict literal")
        out = []

        def put(k, e):
            for i, (k0, _) in enumerate(out):
                if k0 == k:
                    out[i] = (k, e)
                    return
            out.append((k, e))

        for k, val in zip(v.keys, v.values):
            if k is None:  # **expr
                src = ast.unparse(val)
                if not (isinstance(val, ast.Attribute) and val.attr == "encoders"
                        and isinstance(val.value, ast.Name)):
                    raise PinError(f"{name}.encoders: unsupported unpacking `**{src}`")
                for kk, ee in self.encoders(val.value.id, depth + 1):
                    put(kk, ee)
            else:
                if not isinstance(val, ast.Name):
                    raise PinError(f"{name}.encoders[{ast.unparse(k)}] is not a plain callable name")
                put(ast.unparse(k), val.id)
        return out


STREAM_CLASSES = [
    "OutputStream", "DebugOutputStream", "CSVOutputStream", "JSONOutputStream",
    "SqlDbOutputStream", "SqlTextOutputStream",
]


def int_const(tree, cls, name):
    v = class_constant(tree, cls, name)
    if not isinstance(v, ast.Constant) or isinstance(v.value, bool) or not isinstance(v.value, int):
        raise PinError(f"{cls}.{name} is no longer an int literal")
    return v.value


@group("OutputStreams", "snowfakery/output_streams.py", ["C08"])
def _output_streams(tree):
    h = Hierarchy(tree)
    for c in STREAM_CLASSES + ["MultiplexOutputStream", "FileOutputStream", "SimpleFileOutputStream"]:
        if c not in h.classes:
            raise PinError(f"class {c} not found")
    out = ""
    # thresholds
    out += lean_def("count0", [], "Int", f"({int_const(tree, 'OutputStream', 'count')} : Int)", doc="OutputStream.count")
    out += lean_def("flush_limit", [], "Int", f"({int_const(tree, 'OutputStream', 'flush_limit')} : Int)", doc="OutputStream.flush_limit")
    out += lean_def("commit_limit", [], "Int", f"({int_const(tree, 'OutputStream', 'commit_limit')} : Int)", doc="OutputStream.commit_limit")
    for c in STREAM_CLASSES[1:] + ["MultiplexOutputStream"]:
        for a in ("count", "flush_limit", "commit_limit"):
            owner, _ = h.resolve_attr(c, a)
            if owner != "OutputStream":
                raise PinError(f"{c} overrides {a} (modelled as inherited from OutputStream)")
    # write_row: which class defines it, its statements, the two modulo tests
    owners = []
    for c in STREAM_CLASSES:
        owner, _ = h.resolve_method(c, "write_row")
        owners.append((c, owner))
    out += pair_list_def("writeRowOwner", owners, doc="class whose `write_row` each stream class runs")
    wr = own_method(h.classes["OutputStream"], "write_row")
    if wr is None:
        raise PinError("OutputStream.write_row not found")
    stmts = body_text(wr)
    out += str_list_def("writeRowBody", stmts[1:], doc="OutputStream.write_row after the cleanup comprehension")
    out += str_list_def("writeRowCleanup", stmts[:1], doc="the cleanup comprehension of write_row")
    ifs = [s for s in wr.body if isinstance(s, ast.If)]
    if len(ifs) != 2:
        raise PinError("write_row: expected exactly two `if` statements (flush, commit)")
    names = {"self.count": "count", "self.flush_limit": "flush_limit", "self.commit_limit": "commit_limit"}
    for node, nm, lim, call in ((ifs[0], "flushCond", "flush_limit", "self.flush()"),
                                (ifs[1], "commitCond", "commit_limit", "self.commit()")):
        tr = ExprTranslator(names)
        body = tr.cond(node.test)
        if tr.used != {"self.count", "self." + lim}:
            raise PinError(f"write_row: `{ast.unparse(node.test)}` no longer tests count against {lim}")
        if [ast.unparse(s) for s in node.body] != [call] or node.orelse:
            raise PinError(f"write_row: body of `if {ast.unparse(node.test)}` is no longer `{call}`")
        out += lean_def(nm, ["count", lim], "Bool", body, doc=ast.unparse(node.test))
    # encoders
    for c in STREAM_CLASSES:
        out += pair_list_def("encoders_" + c, h.encoders(c), doc=f"{c}.encoders, resolved")
    for fn in ("noop", "format_datetime", "simplifier_encoder", "_reject_nul"):
        out += str_list_def(fn.strip("_") + "_body", body_text(find_func(tree, fn)))
    # cleanup
    cu = own_method(h.classes["OutputStream"], "cleanup")
    if cu is None:
        raise PinError("OutputStream.cleanup not found")
    out += str_list_def("cleanupBody", body_text(cu), doc="OutputStream.cleanup")
    for c in STREAM_CLASSES:
        owner, _ = h.resolve_method(c, "cleanup")
        if owner != "OutputStream":
            raise PinError(f"{c} overrides cleanup")
    # flatten
    fl = []
    for c in STREAM_CLASSES:
        _, m = h.resolve_method(c, "flatten")
        bt = body_text(m)
        fl.append((c, " ; ".join(bt)))
    out += pair_list_def("flatten", fl, doc="body of the `flatten` each class runs")
    # sinks: write_single_row of every class
    ws = []
    for c in STREAM_CLASSES[1:]:
        owner, m = h.resolve_method(c, "write_single_row")
        ws.append((c, owner + ": " + " ; ".join(body_text(m))))
    out += pair_list_def("writeSingleRow", ws)
    # SqlDbOutputStream bookkeeping
    db = h.classes["SqlDbOutputStream"]
    for meth in ("flush", "_flush_rows", "commit", "close", "create_or_validate_tables"):
        m = own_method(db, meth)
        if m is None:
            raise PinError(f"SqlDbOutputStream.{meth} not found")
        out += str_list_def("db_" + meth.strip("_"), body_text(m), doc=f"SqlDbOutputStream.{meth}")
    # SqlTextOutputStream: what it overrides (no commit, no write_row), and how it closes
    st = h.classes["SqlTextOutputStream"]
    out += str_list_def("sqlTextMethods", [n.name for n in st.body if isinstance(n, ast.FunctionDef)])
    for meth in ("flush", "_dump_db", "close", "_init_db"):
        m = own_method(st, meth)
        if m is None:
            raise PinError(f"SqlTextOutputStream.{meth} not found")
        out += str_list_def("sqlText_" + meth.strip("_"), body_text(m))
    owner, m = h.resolve_method("SqlTextOutputStream", "commit")
    out += str_list_def("sqlText_commit", [owner] + body_text(m), doc="the commit SqlTextOutputStream runs (owner, body)")
    # csv header, json close
    csvc = h.classes["CSVOutputStream"]
    out += str_list_def("csv_open_writer", body_text(own_method(csvc, "open_writer") or _missing("CSVOutputStream.open_writer")))
    out += str_list_def("csv_close", body_text(own_method(csvc, "close") or _missing("CSVOutputStream.close")))
    # dialect parameters of every csv writer created in this module, and how its file is opened:
    # the decoders (and the model's "csv carries text verbatim") assume the default excel dialect
    # (delimiter ",", quotechar '"', lineterminator "\r\n", minimal quoting) on a newline="" file
    calls = []
    for n in ast.walk(tree):
        if isinstance(n, ast.Call) and ast.unparse(n.func) in ("csv.DictWriter", "csv.writer", "DictWriter", "writer"):
            if any(k.arg is None for k in n.keywords):
                raise PinError(f"`{ast.unparse(n)}`: **kwargs in a csv writer call")
            calls.append((ast.unparse(n.func) + "/" + str(len(n.args)),
                          ", ".join(f"{k.arg}={ast.unparse(k.value)}" for k in n.keywords)))
    if not calls:
        raise PinError("no csv.DictWriter / csv.writer call found in output_streams.py")
    out += pair_list_def("csvWriterCalls", calls, doc="every csv writer call: (callee/positional args, keyword arguments)")
    ow = own_method(csvc, "open_writer")
    opens = [n for n in ast.walk(ow) if isinstance(n, ast.Call) and ast.unparse(n.func) == "open"]
    if len(opens) != 1:
        raise PinError("CSVOutputStream.open_writer: expected exactly one open() call")
    out += pair_list_def("csvOpenArgs",
                         [(f"arg{i}", ast.unparse(a)) for i, a in enumerate(opens[0].args[1:], 1)]
                         + [(k.arg or "**", ast.unparse(k.value)) for k in opens[0].keywords],
                         doc="mode and keyword arguments of the open() of a CSV file")
    js = h.classes["JSONOutputStream"]
    out += str_list_def("json_close", body_text(own_method(js, "close") or _missing("JSONOutputStream.close")))
    # multiplexing
    mx = h.classes["MultiplexOutputStream"]
    for meth in ("create_or_validate_tables", "write_row", "commit", "close"):
        m = own_method(mx, meth)
        if m is None:
            raise PinError(f"MultiplexOutputStream.{meth} not found")
        out += str_list_def("mux_" + meth, body_text(m))
    # does close() go on after a stream's close raised?  (for-loop body = try/except without raise)
    mc = own_method(mx, "close")
    loops = [n for n in mc.body if isinstance(n, ast.For)]
    if len(loops) != 1:
        raise PinError("MultiplexOutputStream.close: expected exactly one for-loop")
    body = loops[0].body
    goes_on = (
        len(body) == 1 and isinstance(body[0], ast.Try)
        and [ast.unparse(x) for x in body[0].body] == ["stream.close()"]
        and bool(body[0].handlers)
        and not any(isinstance(n, (ast.Raise, ast.Break, ast.Return)) for h_ in body[0].handlers for n in ast.walk(h_))
        and not body[0].finalbody
    )
    if not goes_on and [ast.unparse(x) for x in body] != ["stream.close()"]:
        raise PinError("MultiplexOutputStream.close: loop body is neither `stream.close()` nor try/except around it")
    after = [n for n in mc.body[mc.body.index(loops[0]) + 1:]]
    reraises = any(isinstance(n, ast.Raise) for st_ in after for n in ast.walk(st_))
    out += "/-- `MultiplexOutputStream.close` closes the remaining streams after one close raised -/\n"
    out += f"def muxCloseGoesOn : Bool :=\n  {'true' if goes_on else 'false'}\n"
    out += "/-- …and re-raises afterwards -/\n"
    out += f"def muxCloseReraises : Bool :=\n  {'true' if reraises else 'false'}\n"
    return out


def _missing(what):
    raise PinError(f"{what} not found")


@group("OutputApi", "snowfakery/api.py", ["C08"])
def _output_api(tree):
    out = ""
    f = find_func(tree, "configure_output_stream")
    tries = [n for n in ast.walk(f) if isinstance(n, ast.Try)]
    outer = [t for t in tries if t.finalbody]
    if len(outer) != 1:
        raise PinError("configure_output_stream: expected one try/finally around the yield")
    fin = outer[0].finalbody
    inner = [n for n in fin if isinstance(n, ast.Try)]
    closes = [n for n in ast.walk(ast.Module(body=fin, type_ignores=[]))
              if isinstance(n, ast.Call) and ast.unparse(n.func) == "output_stream.close"]
    if len(closes) != 1:
        raise PinError("configure_output_stream: expected exactly one output_stream.close() in the finally block")
    if inner:
        t = inner[0]
        handlers = [(ast.unparse(h.type) if h.type else "BaseException") for h in t.handlers]
        reraises = any(isinstance(n, ast.Raise) for h in t.handlers for n in ast.walk(h))
        swallows = bool(handlers) and not reraises
    else:
        handlers, swallows = [], False
    out += "/-- the handler around `output_stream.close()` catches and does not re-raise -/\n"
    out += f"def closeSwallows : Bool :=\n  {'true' if swallows else 'false'}\n"
    out += str_list_def("closeHandlers", handlers, doc="exception types caught around close()")
    out += str_list_def("finallyBody", [ast.unparse(s) for s in fin])
    # stream selection
    stmts = [ast.unparse(s) for s in outer[0].body]
    withs = [n for n in f.body if isinstance(n, ast.With)]
    if len(withs) != 1:
        raise PinError("configure_output_stream: expected one with-statement")
    sel = [ast.unparse(s) for s in withs[0].body if not isinstance(s, ast.Try)]
    out += str_list_def("streamSelection", sel, doc="0 streams: debug to stdout; 1: itself; more: Multiplex")
    out += str_list_def("yieldBody", stmts)
    fm = module_constant(tree, "OUTPUT_FORMATS")
    if not isinstance(fm, ast.Dict):
        raise PinError("OUTPUT_FORMATS is no longer a dict literal")
    pairs = []
    for k, v in zip(fm.keys, fm.values):
        if not (isinstance(k, ast.Constant) and isinstance(v, ast.Constant)):
            raise PinError("OUTPUT_FORMATS: non-literal entry")
        if k.value in ("json", "txt", "csv", "sql"):
            pairs.append((k.value, v.value.rsplit(".", 1)[-1]))
    out += pair_list_def("formats", pairs, doc="OUTPUT_FORMATS restricted to the data formats")
    return out


@group("OutputSchema", "snowfakery/parse_recipe_yaml.py", ["C08"])
def _output_schema(tree):
    out = ""
    ti = find_class(tree, "TableInfo")
    reg = own_method(ti, "register")
    if reg is None:
        raise PinError("TableInfo.register not found")
    out += str_list_def("register", body_text(reg), doc="TableInfo.register")
    init = own_method(ti, "__init__")
    out += str_list_def("tableInfoInit", body_text(init) if init else [])
    om = parse("snowfakery/data_generator_runtime_object_model.py")
    gr = find_func(om, "_generate_row", cls="ObjectTemplate")
    stmts = body_text(gr)
    out += str_list_def("generateRow", stmts, doc="ObjectTemplate._generate_row")
    rt = parse("snowfakery/data_generator_runtime.py")
    interp = find_class(rt, "Interpreter")
    sel = [ast.unparse(n) for n in ast.walk(interp)
           if isinstance(n, ast.Assign) and ast.unparse(n.targets[0]) == "self.filter_row_values"]
    out += str_list_def("filterRowValuesBinding", sel, doc="which filter the interpreter installs")
    fr = own_method(interp, "filter_row_values_normal")
    if fr is None:
        raise PinError("Interpreter.filter_row_values_normal not found")
    out += str_list_def("filterRowValues", body_text(fr))
    return out


@group("OutputGenerate", "snowfakery/data_generator.py", ["C08"])
def _output_generate(tree):
    out = ""
    f = find_func(tree, "generate")
    withs = [n for n in ast.walk(f) if isinstance(n, ast.With)
             and any(ast.unparse(i.context_expr).startswith("Interpreter(") for i in n.items)]
    if len(withs) != 1:
        raise PinError("generate: expected exactly one `with Interpreter(...)` block")
    body = withs[0].body
    texts = [ast.unparse(x) for x in body]
    out += str_list_def("interpreterBlock", texts, doc="body of `with Interpreter(...) as interpreter:` in generate()")
    if not texts or texts[0] != "runtime_context = interpreter.execute()":
        raise PinError("generate: the Interpreter block no longer starts with `runtime_context = interpreter.execute()`")
    commits = False
    for st_ in body[1:]:
        if isinstance(st_, ast.Try) and [ast.unparse(x) for x in st_.body] == ["output_stream.commit()"]:
            # every handler must raise (the failure has to fail the run)
            commits = bool(st_.handlers) and all(
                any(isinstance(n, ast.Raise) for n in ast.walk(h_)) for h_ in st_.handlers
            ) and not st_.finalbody
        elif isinstance(st_, ast.Expr) and ast.unparse(st_) == "output_stream.commit()":
            commits = True
    out += "/-- generate() commits the output stream after the interpreter is done; a failure fails the run -/\n"
    out += f"def commitsBeforeSuccess : Bool :=\n  {'true' if commits else 'false'}\n"
    # the block sits inside the try whose DataGenError handler re-raises
    tries = [n for n in ast.walk(f) if isinstance(n, ast.Try) and withs[0] in n.body]
    if len(tries) != 1:
        raise PinError("generate: the Interpreter block is no longer directly inside a try")
    hs = [(ast.unparse(h_.type) if h_.type else "BaseException") for h_ in tries[0].handlers]
    swallowing = [t for t, h_ in zip(hs, tries[0].handlers)
                  if not any(isinstance(n, ast.Raise) for n in ast.walk(h_))]
    out += str_list_def("generateHandlers", hs, doc="handlers of the try around the Interpreter block")
    out += str_list_def("generateSwallowingHandlers", swallowing, doc="those that do not re-raise")
    return out
