"""Pins for the bounded random functions of snowfakery/template_funcs.py (C11).

What is extracted on every run (first of all the decorator list of every modelled function: a caching
decorator such as `memorable` on `choice` would freeze the first row's weights) (and bridged to the model `SnowModel.Bounded` by
`Props/C11Bridge.lean`):
  * `random_number`: callee and the three argument expressions of `random.randrange(min, max + 1, step)`,
    the default of `step`;
  * `parse_weight_str`: the `rstrip("%")` argument, the `isinstance(…, str)` guard, `float(…)`;
  * `choice`: the guard `if probability is not None:`, what it assigns, and the returned tuples
    `(probability, pick)` / `(when, pick)`;
  * `weighted_choice`: the `random.choices(options, weights, k=1)[0]` call and which tuple
    component is the weight;
  * `random_choice`: the three selection calls (plain list / `choice:` items / mapping) and the
    order `(weight, key)` of the mapping path;
  * `parse_datetimespec` / `datetime`: the call kind used to attach a zone (`replace` vs `astimezone`,
    or the guarded pair `astimezone if dt.utcoffset() … else replace`);
  * `datetime_between`: both bounds go through `self.datetime`, the order comparison, the equal-bounds
    comparison and what it returns, the Faker call;
  * `date_between`: the dispatch guard of `try_parse_date`, the Faker call, the swallowed message.
"""
import ast

from tools.py2lean import (
    PinError, ExprTranslator, cond_pin, find_class, find_func, group, lean_def, lean_list, lean_str,
)


def _str_def(name, value, doc=None):
    d = f"/-- {doc} -/\n" if doc else ""
    return f"{d}def {name} : String :=\n  {lean_str(value)}\n"


def _list_def(name, values, doc=None):
    d = f"/-- {doc} -/\n" if doc else ""
    return f"{d}def {name} : List String :=\n  {lean_list(lean_str(v) for v in values)}\n"


def _only(nodes, what):
    nodes = list(nodes)
    if len(nodes) != 1:
        raise PinError(f"expected exactly one {what}, found {len(nodes)}")
    return nodes[0]


def _body_without_doc(f):
    body = list(f.body)
    if body and isinstance(body[0], ast.Expr) and isinstance(body[0].value, ast.Constant) and isinstance(body[0].value.value, str):
        body = body[1:]
    return body


def _calls(node, attr):
    return [n for n in ast.walk(node) if isinstance(n, ast.Call) and isinstance(n.func, ast.Attribute) and n.func.attr == attr]


@group("BoundedFuncs", "snowfakery/template_funcs.py", ["C11"])
def _bounded(tree):
    out = ""
    funcs = find_class(tree, "Functions")

    # ---------------------------------------------------------------- decorators
    # A caching decorator (`memorable`, `lru_cache`, …) on a function whose result must be computed afresh for
    # every row changes which draws / weights a row sees; the decorator lists are therefore pinned.
    decos = []
    for name in ("random_number", "random_choice", "choice", "if_", "date", "datetime", "date_between", "datetime_between"):
        fn = find_func(funcs, name)
        decos.append(name + ": " + ", ".join(ast.unparse(d) for d in fn.decorator_list))
    for name in ("parse_weight_str", "weighted_choice", "parse_date", "parse_datetimespec", "render_boolean"):
        fn = find_func(tree, name)
        decos.append(name + ": " + ", ".join(ast.unparse(d) for d in fn.decorator_list))
    out += _list_def("functionDecorators", decos, "decorator list of every function the C11 model covers")

    # ---------------------------------------------------------------- random_number
    f = find_func(funcs, "random_number")
    argnames = [a.arg for a in f.args.args]
    if argnames != ["self", "min", "max", "step"]:
        raise PinError(f"random_number parameters changed: {argnames}")
    if len(f.args.defaults) != 1 or not isinstance(f.args.defaults[0], ast.Constant):
        raise PinError("random_number: expected exactly one literal default (step)")
    body = _body_without_doc(f)
    # optional argument conversion (6be3bcb) followed by `return <call>`
    conv = ""
    if len(body) == 2 and isinstance(body[0], ast.Assign):
        conv = ast.unparse(body[0])
        body = body[1:]
    if len(body) != 1 or not isinstance(body[0], ast.Return) or not isinstance(body[0].value, ast.Call):
        raise PinError("random_number is no longer `[argument conversion;] return <call>`")
    out += _str_def("rnArgConversion", conv, "what random_number does with its arguments before the call ('' = nothing)")
    call = body[0].value
    if call.keywords or len(call.args) != 3:
        raise PinError("random_number: expected a call with exactly three positional arguments")
    out += _str_def("rnCallee", ast.unparse(call.func), "the function `random_number` delegates to")
    params = ["min", "max", "step"]
    for nm, arg in zip(("rnStart", "rnStop", "rnStep"), call.args):
        tr = ExprTranslator({p: p for p in params})
        out += lean_def(nm, params, "Int", tr.tr(arg), doc=f"argument of {ast.unparse(call.func)}: {ast.unparse(arg)}")
    tr = ExprTranslator({})
    out += lean_def("rnStepDefault", [], "Int", tr.tr(f.args.defaults[0]), doc="default of `step`")

    # ---------------------------------------------------------------- parse_weight_str
    f = find_func(tree, "parse_weight_str")
    strips = _calls(f, "rstrip")
    c = _only(strips, "rstrip call in parse_weight_str")
    if len(c.args) != 1 or not isinstance(c.args[0], ast.Constant):
        raise PinError("parse_weight_str: rstrip argument is not a literal")
    out += _str_def("weightStrip", c.args[0].value, "characters stripped from the right of a weight string")
    skel = []
    for s in _body_without_doc(f):
        skel.append(ast.unparse(s).replace("\n", " ; "))
    out += _list_def("weightParseBody", skel, "statements of parse_weight_str")

    # ---------------------------------------------------------------- choice
    f = find_func(funcs, "choice")
    body = _body_without_doc(f)
    out += _list_def("choiceBody", [ast.unparse(s).replace("\n", " ; ") for s in body],
                     "statements of `choice` (guard, parse, returned tuple)")
    rets = sorted((n for n in ast.walk(f) if isinstance(n, ast.Return)), key=lambda n: (n.lineno, n.col_offset))
    if not rets:
        raise PinError("choice has no return")
    wexprs, pexprs = [], []
    for ret in rets:
        if not isinstance(ret.value, ast.Tuple) or len(ret.value.elts) != 2:
            raise PinError("choice no longer returns a pair")
        w = ret.value.elts[0]
        wexprs.append(ast.unparse(w))
        pexprs.append(ast.unparse(ret.value.elts[1]))
    guards = [ast.unparse(n.test) for n in ast.walk(f) if isinstance(n, ast.If)]
    out += _list_def("choiceGuards", guards, "the `if` conditions of `choice`")
    out += _list_def("choiceWeightExprs", wexprs, "first component of each pair returned by `choice`, in source order")
    out += _list_def("choicePickExprs", pexprs)

    # ---------------------------------------------------------------- weighted_choice
    f = find_func(tree, "weighted_choice")
    out += _list_def("weightedChoiceBody", [ast.unparse(s) for s in _body_without_doc(f)],
                     "statements of weighted_choice")

    # ---------------------------------------------------------------- random_choice
    f = find_func(funcs, "random_choice")
    sel = []
    for n in ast.walk(f):
        if isinstance(n, ast.Assign) and len(n.targets) == 1 and ast.unparse(n.targets[0]) == "rc":
            sel.append(ast.unparse(n.value))
    out += _list_def("randomChoiceSelections", sel, "every expression assigned to the result `rc`")
    comps = [n for n in ast.walk(f) if isinstance(n, ast.ListComp)]
    out += _list_def("randomChoiceComprehensions", [ast.unparse(c) for c in comps])
    tests = []
    for n in ast.walk(f):
        if isinstance(n, ast.If):
            tests.append(ast.unparse(n.test))
    out += _list_def("randomChoiceTests", tests, "the `if`/`elif` conditions of random_choice, in order")

    # ---------------------------------------------------------------- datetime normalisation
    def _tz_calls(fn):
        kinds = []
        for n in ast.walk(fn):
            if isinstance(n, ast.Call) and isinstance(n.func, ast.Attribute) and n.func.attr in ("replace", "astimezone"):
                kinds.append(n.func.attr + "(" + ", ".join(
                    [ast.unparse(a) for a in n.args] + [f"{k.arg}={ast.unparse(k.value)}" for k in n.keywords]) + ")")
        return kinds

    f = find_func(tree, "parse_datetimespec")
    # string inputs are delegated to module-level helpers (885750c): follow the delegation one level
    helpers = []
    for n in ast.walk(f):
        if isinstance(n, ast.Return) and isinstance(n.value, ast.Call) and isinstance(n.value.func, ast.Name) \
                and n.value.func.id.startswith("_parse_"):
            helpers.append(n.value.func.id)
    kinds = _tz_calls(f)
    for h in helpers:
        kinds += [h + ": " + k for k in _tz_calls(find_func(tree, h))]
    out += _list_def("parseSpecTzCalls", kinds,
                     "zone-attaching calls in parse_datetimespec and in the string helper it delegates to")
    out += _list_def("parseSpecDelegates", [ast.unparse(n.value) for n in ast.walk(f)
                                            if isinstance(n, ast.Return) and isinstance(n.value, ast.Call)
                                            and isinstance(n.value.func, ast.Name)],
                     "calls parse_datetimespec returns directly")
    # which module-level parsers are lru_cached (D39: only string parsing may be cached, because aware
    # datetimes compare by instant)
    cached = []
    for n in tree.body:
        if isinstance(n, ast.FunctionDef) and any("lru_cache" in ast.unparse(d) for d in n.decorator_list):
            cached.append(n.name + "(" + ", ".join(
                a.arg + (": " + ast.unparse(a.annotation) if a.annotation else "") for a in n.args.args) + ")")
    out += _list_def("cachedParsers", cached, "module-level functions of template_funcs decorated with lru_cache")
    f = find_func(funcs, "datetime")
    def _zone_call(stmt):
        if isinstance(stmt, ast.Assign) and len(stmt.targets) == 1 and ast.unparse(stmt.targets[0]) == "dt":
            v = stmt.value
            if isinstance(v, ast.Call) and isinstance(v.func, ast.Attribute) and ast.unparse(v.func.value) == "dt":
                return v
        return None

    def _call_args(v):
        return [ast.unparse(a) for a in v.args] + [f"{k.arg}={ast.unparse(k.value)}" for k in v.keywords]

    zone_calls = [n for n in ast.walk(f) if isinstance(n, ast.Assign) and _zone_call(n) is not None]
    guarded = [n for n in ast.walk(f) if isinstance(n, ast.If) and len(n.body) == 1 and len(n.orelse) == 1
               and _zone_call(n.body[0]) is not None and _zone_call(n.orelse[0]) is not None]
    if len(zone_calls) == 1 and not guarded:
        zc = _zone_call(zone_calls[0])
        kind, args = zc.func.attr, _call_args(zc)
    elif len(zone_calls) == 2 and len(guarded) == 1:
        g = guarded[0]
        a, b = _zone_call(g.body[0]), _zone_call(g.orelse[0])
        kind = f"if {ast.unparse(g.test)}: {a.func.attr} else: {b.func.attr}"
        args = _call_args(a) + ["|"] + _call_args(b)
    else:
        raise PinError("datetime(): the `dt = dt.<method>(…)` zone attachment has an unexpected shape")
    out += _str_def("datetimeTzCall", kind,
                    "how datetime() attaches the target zone to the parsed value (method, or guarded pair of methods)")
    out += _list_def("datetimeTzCallArgs", args)
    first = _body_without_doc(f)[0]
    out += _str_def("datetimeZoneNormalise", ast.unparse(first), "first statement of datetime()")

    # ---------------------------------------------------------------- datetime_between
    f = find_func(funcs, "datetime_between")
    body = _body_without_doc(f)
    out += _list_def("datetimeBetweenBody", [ast.unparse(s).replace("\n", " ; ") for s in body],
                     "statements of datetime_between")
    ifs = [s for s in body if isinstance(s, ast.If)]
    if len(ifs) != 3:
        raise PinError(f"datetime_between: expected the order check, the equal-bounds check and the clamp's zone "
                       f"switch, found {len(ifs)} ifs")
    # the clamp (919a3ea): value = <faker call>; earliest = start in the result's zone; return max(value, earliest)
    z = ifs[2]
    earliest, latest = [], []
    for branch in (z.body, z.orelse):
        names = [ast.unparse(b.targets[0]) if isinstance(b, ast.Assign) else "?" for b in branch]
        if names != ["earliest", "latest"]:
            raise PinError(f"datetime_between: the clamp no longer assigns `earliest`, `latest` in both branches: {names}")
        earliest.append(ast.unparse(branch[0].value))
        latest.append(ast.unparse(branch[1].value))
    out += _list_def("clampEarliest", earliest, "`earliest` for an aware / a naive result")
    out += _list_def("clampLatest", latest, "`latest` for an aware / a naive result")
    last = body[-1]
    if not isinstance(last, ast.Return):
        raise PinError("datetime_between no longer ends with a return")
    out += _str_def("clampReturn", ast.unparse(last.value), "what datetime_between returns after the draw")
    vals = [s for s in body if isinstance(s, ast.Assign) and ast.unparse(s.targets[0]) == "value"]
    out += _str_def("clampValue", ast.unparse(_only(vals, "assignment to `value`").value), "the Faker call")
    i = ifs[0]
    if i.orelse or len(i.body) != 1 or not isinstance(i.body[0], ast.Raise):
        raise PinError("datetime_between: the order check is no longer `if …: raise …`")
    out += cond_pin(i.test, ["end_date", "start_date"], "orderCond")
    q = ifs[1]
    if q.orelse or len(q.body) != 1 or not isinstance(q.body[0], ast.Return):
        raise PinError("datetime_between: the equal-bounds check is no longer `if …: return …`")
    out += cond_pin(q.test, ["end_date", "start_date"], "equalCond")
    out += _str_def("equalReturn", ast.unparse(q.body[0].value), "what is returned for equal bounds")

    # ---------------------------------------------------------------- date_between
    f = find_func(funcs, "date_between")
    tp = find_func(f, "try_parse_date")
    tifs = [s for s in tp.body if isinstance(s, ast.If)]
    ti = _only(tifs, "if in try_parse_date")
    out += _str_def("dateDispatchGuard", ast.unparse(ti.test), "when a bound is handed to parse_date instead of Faker")
    body = [s for s in _body_without_doc(f) if not isinstance(s, ast.FunctionDef)]
    out += _list_def("dateBetweenBody", [ast.unparse(s).replace("\n", " ; ") for s in body],
                     "statements of date_between after the local helper")
    return out
