#!/usr/bin/env python3
"""Write MANIFEST.json from harness/registry.py (kept valid at all times)."""
import json, os, sys
ROOT = os.path.dirname(os.path.dirname(os.path.abspath(__file__)))
sys.path.insert(0, ROOT)
from harness.registry import PROPS, NOT_CLAIMED, FIX_COMMITS  # noqa

ALL = [f"C{i:02d}" for i in range(1, 21)]
checks = []
for pid in ALL:
    if pid not in PROPS:
        continue
    s = PROPS[pid]
    checks.append({
        "property_id": pid,
        "quick_cmd": f"./check {pid} quick",
        "thorough_cmd": f"./check {pid} thorough",
        "evidence_file": f"evidence/{pid}.json",
        "replay_cmd_template": "./check replay {path}",
        "engine": "lean-proof+correspondence",
        "level_claimed": {
            "category": "proof",
            "text": s["level_text"],
            "design_ref": s.get("design_ref", f"DESIGN.md §5 {pid}"),
        },
        "level_note": s["level_note"],
        "technique": s["technique"],
    })
manifest = {
    "version": 1,
    "setup_cmd": "./check setup",
    "hooks": {
        "guard": "SNOWFAKERY_VERIF",
        "enable": "no hooks are compiled into /repo: raw-row capture, draw recording and op tracing are done from the harness side (monkey-patching at run time); the guard name is reserved and unused",
        "baseline_off_cmd": "cd /repo && /venv/bin/python -m pytest -ra -q -p no:cacheprovider --timeout=900 --continue-on-collection-errors",
        "source_commits": [],
        "add_only": True,
    },
    "engines": [
        {"name": "py2lean", "path": "tools/py2lean.py", "serves_properties": sorted(p for p in PROPS if PROPS[p].get("pins")),
         "kind_free_text": "translator: regenerates Lean pin definitions (expressions, constants, tables, key sets, wiring) from /repo's Python ASTs on every run"},
        {"name": "SnowModel", "path": "lean/", "serves_properties": sorted(PROPS),
         "kind_free_text": "Lean 4 executable models (Core), bridging lemmas to the pins, property theorems (Props), axiom audit; line-protocol driver snowdriver"},
        {"name": "harness", "path": "harness/", "serves_properties": sorted(PROPS),
         "kind_free_text": "correspondence check model<->implementation on generated inputs / op sequences / histories, direct oracles and failing-input search, known-findings plumbing"},
    ],
    "checks": checks,
    "notes": "See DESIGN.md. Every check: regenerate pins, lake build theorems, audit axioms, correspondence + direct oracle, classify. Known findings: known_findings.json. No hook commits exist in /repo (hooks.source_commits is empty); the unguarded fix: commits in /repo are: " + ", ".join(FIX_COMMITS) + ".",
    "not_applicable": [{"property_id": p, "reason": NOT_CLAIMED.get(p, "check not built yet")} for p in ALL if p not in PROPS],
}
with open(os.path.join(ROOT, "MANIFEST.json"), "w") as f:
    json.dump(manifest, f, indent=1)
print("MANIFEST.json:", len(checks), "checks,", len(manifest["not_applicable"]), "not claimed")
