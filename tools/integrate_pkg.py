#!/usr/bin/env python3
"""usage: integrate_pkg.py Cxx <base-commit>: copy a package's new files into /verif, merge Main.lean lines and
known-findings entries; report shared files the package changed."""
import json, os, re, shutil, subprocess, sys
pid, base = sys.argv[1], sys.argv[2]
pkg = f"/tmp/work/pkg_{pid}/verif"
V = "/verif"
skip_dirs = ("lean/.lake", "evidence", "replays", "lean/SnowModel/Audit", "design", "seeded", ".git", "__pycache__")
shared = {"harness/common.py", "check", "tools/py2lean.py", "lean/Main.lean", "known_findings.json", "MANIFEST.json",
          "harness/registry.py", "tools/mkmanifest.py", "HOWTO_ADD_PROPERTY.md", "DESIGN.md", "lean/lakefile.toml",
          "harness/l1.py", "harness/recipes.py", "harness/l1cases.py", "harness/c12.py"}
def base_text(f):
    r = subprocess.run(["git", "-C", V, "show", f"{base}:{f}"], capture_output=True)
    return r.stdout if r.returncode == 0 else None
for d, _, fs in os.walk(pkg):
    rel_d = os.path.relpath(d, pkg)
    if any(rel_d == s or rel_d.startswith(s + "/") for s in skip_dirs):
        continue
    for fn in fs:
        rel = os.path.normpath(os.path.join(rel_d, fn))
        if fn.endswith(".pyc") or fn == ".build.lock" or fn == "lake-manifest.json":
            continue
        src = os.path.join(pkg, rel)
        data = open(src, "rb").read()
        b = base_text(rel)
        if b is not None and b == data:
            continue  # unchanged by the package
        if rel in shared:
            print("SHARED-CHANGED", rel)
            continue
        if rel.startswith("lean/SnowModel/Generated/"):
            continue  # regenerated on every run
        if b is not None:
            print("updated", rel)
        dst = os.path.join(V, rel)
        if rel.startswith("REPORT_"):
            dst = os.path.join(V, "reports", rel)
        cur = open(dst, "rb").read() if os.path.exists(dst) else None
        if b is not None and cur is not None and cur != b and cur != data:
            print("CONFLICT (main changed it too; not copied):", rel)
            continue
        os.makedirs(os.path.dirname(dst), exist_ok=True)
        if os.path.exists(dst) and open(dst, "rb").read() != data:
            print("OVERWRITE", rel)
        shutil.copy(src, dst)
        print("copied", rel)
# Main.lean lines
main_pkg = open(os.path.join(pkg, "lean/Main.lean")).read().splitlines()
main_base = (base_text("lean/Main.lean") or b"").decode().splitlines()
added = [l for l in main_pkg if l not in main_base]
cur = open(os.path.join(V, "lean/Main.lean")).read()
for l in added:
    if l in cur:
        continue
    if l.startswith("import "):
        cur = cur.replace("open Lean\n", l + "\nopen Lean\n", 1) if False else re.sub(r"(import SnowModel\.Drv\.Util\n)", r"\1" + l + "\n", cur, count=1)
    elif "startsWith" in l:
        l2 = l.replace("  if m.startsWith", "  else if m.startsWith") if l.strip().startswith("if ") else l
        cur = cur.replace('  else throw s!"unknown method {m}"', l2.rstrip() + '\n  else throw s!"unknown method {m}"', 1)
    else:
        print("MAIN-LINE-NOT-MERGED:", l)
        continue
    print("Main.lean +", l.strip())
open(os.path.join(V, "lean/Main.lean"), "w").write(cur)
# known findings
kp = json.load(open(os.path.join(pkg, "known_findings.json")))["findings"]
kb = json.loads(base_text("known_findings.json") or b'{"findings":[]}')["findings"]
kv = json.load(open(os.path.join(V, "known_findings.json")))
have = {(f["property"], f["id"], f["signature"]) for f in kv["findings"]}
base_have = {(f["property"], f["id"], f["signature"]) for f in kb}
base_by = {(f["property"], f["id"]): f for f in kb}
for f in kp:
    key = (f["property"], f["id"], f["signature"])
    if f["property"] == pid and (f["property"], f["id"]) in base_by and f != base_by[(f["property"], f["id"])]:
        # the package changed one of its own entries (status -> fixed, narrower text, new input)
        for i, g in enumerate(kv["findings"]):
            if (g["property"], g["id"]) == (f["property"], f["id"]):
                kv["findings"][i] = f
                print("finding ~", f["property"], f["id"], f["status"], f.get("commit"))
        continue
    if key in base_have or key in have:
        continue
    kv["findings"].append(f)
    print("finding +", f["property"], f["id"], f["status"], f["signature"])
pkg_ids = {(f["property"], f["id"]) for f in kp}
for f in kb:
    if f["property"] == pid and (f["property"], f["id"]) not in pkg_ids:
        print("finding - (package removed it; NOT removed here, decide by hand):", f["property"], f["id"])
json.dump(kv, open(os.path.join(V, "known_findings.json"), "w"), indent=1)
