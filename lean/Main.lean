import SnowModel.Drv.Util
import SnowModel.Drv.C20
import SnowModel.Drv.C05
import SnowModel.Drv.C19
import SnowModel.Drv.C14
import SnowModel.Drv.C18
import SnowModel.Drv.C10
import SnowModel.Drv.C08
import SnowModel.Drv.C17
import SnowModel.Drv.C11
import SnowModel.Drv.C15
import SnowModel.Drv.C07
import SnowModel.Drv.C13
import SnowModel.Drv.C16
import SnowModel.Drv.C12
import SnowModel.Drv.L1
import SnowModel.Drv.L2
open Lean

/-- Line protocol: one JSON object per input line with a field `"m"` (method); one JSON line out:
    `{"ok": <result>}` or `{"err": "<message>"}`. -/
def dispatch (j : Json) : Except String Json := do
  let m ← SnowModel.Drv.getStr j "m"
  if m.startsWith "c12." then SnowModel.Drv.C12.handle m j
  else if m.startsWith "l1." then SnowModel.Drv.L1.handle m j
  else if m.startsWith "l2." then SnowModel.Drv.L2.handle m j
  else if m.startsWith "c16." then SnowModel.Drv.C16.handle m j
  else if m.startsWith "c13." then SnowModel.Drv.C13.handle m j
  else if m.startsWith "c07." then SnowModel.Drv.C07.handle m j
  else if m.startsWith "c15." then SnowModel.Drv.C15.handle m j
  else if m.startsWith "c11." then SnowModel.Drv.C11.handle m j
  else if m.startsWith "c17." then SnowModel.Drv.C17.handle m j
  else if m.startsWith "c08." then SnowModel.Drv.C08.handle m j
  else if m.startsWith "c10." then SnowModel.Drv.C10.handle m j
  else if m.startsWith "c18." then SnowModel.Drv.C18.handle m j
  else if m.startsWith "c14." then SnowModel.Drv.C14.handle m j
  else if m.startsWith "c19." then SnowModel.Drv.C19.handle m j
  else if m.startsWith "c05." then SnowModel.Drv.C05.handle m j
  else if m.startsWith "c20." then SnowModel.Drv.C20.handle m j
  else throw s!"unknown method {m}"

partial def loop (hin hout : IO.FS.Stream) : IO Unit := do
  let line ← hin.getLine
  if line.isEmpty then return ()
  let out :=
    match Json.parse line with
    | .error e => Json.mkObj [("err", Json.str s!"parse: {e}")]
    | .ok j =>
      match dispatch j with
      | .ok r => Json.mkObj [("ok", r)]
      | .error e => Json.mkObj [("err", Json.str e)]
  hout.putStrLn out.compress
  loop hin hout

def main : IO Unit := do
  let hin ← IO.getStdin
  let hout ← IO.getStdout
  loop hin hout
  hout.flush
