/-
C10 helper lemmas, part a: the history machine (`SnowModel.History`): frame facts, the nickname
invariant and the dense-save (table) invariant over arbitrary op sequences.
-/
import SnowModel.Core.History
import Mathlib.Tactic.SplitIfs

namespace SnowModel.Proofs.C10
open SnowModel.History

/-! ### basic facts -/

@[simp] theorem upd_same (f : Name → Nat) (k : Name) (v : Nat) : upd f k v k = v := by simp [upd]
theorem upd_other (f : Name → Nat) (k x : Name) (v : Nat) (h : x ≠ k) : upd f k v x = f x := by
  simp [upd, h]

/-- The row `save` appends. -/
def newRow (s : St) (t : Name) (nk : Option Name) (i : Nat) (rs : Bool) : SRow :=
  { table := t, id := i, nick := nk, ord := nk.map (fun n => s.nickCtr n + 1), since := s.epoch, resaved := rs }

def newTableCtr (s : St) (t : Name) (nk : Option Name) (i : Nat) : Name → Nat :=
  match nk with
  | some n => upd (upd s.tableCtr t i) n (s.nickCtr n + 1)
  | none => upd s.tableCtr t i

def newNickCtr (s : St) (nk : Option Name) : Name → Nat :=
  match nk with
  | some n => upd s.nickCtr n (s.nickCtr n + 1)
  | none => s.nickCtr

theorem save_ok {s s' : St} {t : Name} {nk : Option Name} {i : Nat} {rs : Bool}
    (h : save s t nk i rs = .ok s') :
    t ∈ s.tables ∧ (∀ r ∈ s.rows, ¬ (r.table = t ∧ r.id = i)) ∧
    s' = { s with tableCtr := newTableCtr s t nk i, nickCtr := newNickCtr s nk,
                  rows := s.rows ++ [newRow s t nk i rs] } := by
  unfold save at h
  split_ifs at h with h1 h2
  refine ⟨by simpa using h1, ?_, ?_⟩
  · intro r hr hc
    apply h2
    rw [List.any_eq_true]
    exact ⟨r, hr, by simpa using hc⟩
  · cases nk with
    | none => simp only [Except.ok.injEq] at h; rw [← h]; rfl
    | some n => simp only [Except.ok.injEq] at h; rw [← h]; rfl

theorem step_ok_cases {s s1 : St} {op : Op} {o : Obs} (h : step s op = .ok (s1, o)) :
    (∃ t nk i rs, op = .save t nk i rs ∧ save s t nk i rs = .ok s1) ∨
    (∃ name sc d, op = .pick name sc d ∧ s1 = s) ∨
    (op = .reset ∧ s1 = resetLocals s) := by
  cases op with
  | save t nk i rs =>
    left
    simp only [step] at h
    cases hs : save s t nk i rs with
    | error e => rw [hs] at h; simp at h
    | ok s' =>
      rw [hs] at h
      simp only [Except.ok.injEq, Prod.mk.injEq] at h
      exact ⟨t, nk, i, rs, rfl, by rw [← h.1]; exact hs⟩
  | pick name sc d =>
    right; left
    simp only [step] at h
    cases hp : pick s name sc d with
    | error e => rw [hp] at h; simp at h
    | ok p =>
      rw [hp] at h
      obtain ⟨t, i⟩ := p
      simp only [Except.ok.injEq, Prod.mk.injEq] at h
      exact ⟨name, sc, d, rfl, h.1.symm⟩
  | reset =>
    right; right
    simp only [step, Except.ok.injEq, Prod.mk.injEq] at h
    exact ⟨rfl, h.1.symm⟩

theorem run_cons_ok {s s' : St} {op : Op} {ops : List Op} (h : run s (op :: ops) = .ok s') :
    ∃ s1 o, step s op = .ok (s1, o) ∧ run s1 ops = .ok s' := by
  simp only [run] at h
  cases hs : step s op with
  | error e => rw [hs] at h; simp at h
  | ok p => obtain ⟨s1, o⟩ := p; rw [hs] at h; exact ⟨s1, o, rfl, h⟩

/-- Naming discipline of a trace relative to the nickname map `nm`: a table is never a key of
    `nm`, and a row saved under nickname `n` goes to the table `nm` gives for `n`. -/
def WellNamedOp (nm : List (Name × Name)) : Op → Prop
  | .save t (some n) _ _ => nm.lookup t = none ∧ nm.lookup n = some t
  | .save t none _ _ => nm.lookup t = none
  | _ => True

theorem wellNamed_save {nm : List (Name × Name)} {t : Name} {nk : Option Name} {i : Nat} {rs : Bool}
    (h : WellNamedOp nm (.save t nk i rs)) :
    nm.lookup t = none ∧ ∀ n, nk = some n → nm.lookup n = some t := by
  cases nk with
  | none => exact ⟨h, fun n hn => by cases hn⟩
  | some n' => exact ⟨h.1, fun n hn => by cases hn; exact h.2⟩

instance (nm : List (Name × Name)) (op : Op) : Decidable (WellNamedOp nm op) := by
  cases op with
  | save t nk i rs => cases nk <;> (simp only [WellNamedOp]; infer_instance)
  | pick a b c => simp only [WellNamedOp]; infer_instance
  | reset => simp only [WellNamedOp]; infer_instance

/-- Dense saves: an ordinary save gets the next id of its table; a re-save (continuation) names
    an id of an earlier run and happens before the run saved rows of that table. -/
def DenseOp (s : St) : Op → Prop
  | .save t _ i false => i = max (s.tableCtr t) (s.localCtr t) + 1
  | .save t _ i true => i ≤ s.localCtr t ∧ s.tableCtr t ≤ s.localCtr t
  | _ => True

def DenseTrace : St → List Op → Prop
  | _, [] => True
  | s, op :: ops =>
    DenseOp s op ∧
      match step s op with
      | .ok (s', _) => DenseTrace s' ops
      | .error _ => True

instance (s : St) (op : Op) : Decidable (DenseOp s op) := by
  cases op with
  | save t nk i rs => cases rs <;> (simp only [DenseOp]; infer_instance)
  | pick a b c => simp only [DenseOp]; infer_instance
  | reset => simp only [DenseOp]; infer_instance

def decDenseTrace : (s : St) → (ops : List Op) → Decidable (DenseTrace s ops)
  | _, [] => isTrue trivial
  | s, op :: ops =>
    match h : step s op with
    | .ok (s', _) =>
      have := decDenseTrace s' ops
      decidable_of_iff (DenseOp s op ∧ DenseTrace s' ops) (by simp [DenseTrace, h])
    | .error _ => decidable_of_iff (DenseOp s op) (by simp [DenseTrace, h])

instance (s : St) (ops : List Op) : Decidable (DenseTrace s ops) := decDenseTrace s ops

theorem step_frame {s s1 : St} {op : Op} {o : Obs} (h : step s op = .ok (s1, o)) :
    s1.nickToTable = s.nickToTable ∧ s1.tables = s.tables ∧ s1.prior = s.prior := by
  rcases step_ok_cases h with ⟨t, nk, i, rs, -, hs⟩ | ⟨_, _, _, -, rfl⟩ | ⟨-, rfl⟩
  · obtain ⟨-, -, rfl⟩ := save_ok hs; exact ⟨rfl, rfl, rfl⟩
  · exact ⟨rfl, rfl, rfl⟩
  · exact ⟨rfl, rfl, rfl⟩

/-- Invariant induction over a successful run, with the naming discipline and the dense-save
    condition available at every step. -/
theorem run_invariant (nm : List (Name × Name)) (P : St → Prop)
    (hstep : ∀ s op s1 o, s.nickToTable = nm → P s → WellNamedOp nm op → DenseOp s op →
      step s op = .ok (s1, o) → P s1) :
    ∀ (ops : List Op) (s s' : St), s.nickToTable = nm → P s → (∀ op ∈ ops, WellNamedOp nm op) →
      DenseTrace s ops → run s ops = .ok s' → P s' ∧ s'.nickToTable = nm := by
  intro ops
  induction ops with
  | nil => intro s s' hnm hp _ _ h; simp only [run, Except.ok.injEq] at h; subst h; exact ⟨hp, hnm⟩
  | cons op ops ih =>
    intro s s' hnm hp hwn hd h
    obtain ⟨s1, o, h1, h2⟩ := run_cons_ok h
    have hd' := hd
    simp only [DenseTrace, h1] at hd'
    exact ih s1 s' ((step_frame h1).1.trans hnm)
      (hstep s op s1 o hnm hp (hwn op (by simp)) hd'.1 h1)
      (fun op' h' => hwn op' (by simp [h'])) hd'.2 h2

/-- The same without the dense-save condition. -/
theorem run_invariant' (nm : List (Name × Name)) (P : St → Prop)
    (hstep : ∀ s op s1 o, s.nickToTable = nm → P s → WellNamedOp nm op →
      step s op = .ok (s1, o) → P s1) :
    ∀ (ops : List Op) (s s' : St), s.nickToTable = nm → P s → (∀ op ∈ ops, WellNamedOp nm op) →
      run s ops = .ok s' → P s' ∧ s'.nickToTable = nm := by
  intro ops
  induction ops with
  | nil => intro s s' hnm hp _ h; simp only [run, Except.ok.injEq] at h; subst h; exact ⟨hp, hnm⟩
  | cons op ops ih =>
    intro s s' hnm hp hwn h
    obtain ⟨s1, o, h1, h2⟩ := run_cons_ok h
    exact ih s1 s' ((step_frame h1).1.trans hnm)
      (hstep s op s1 o hnm hp (hwn op (by simp)) h1)
      (fun op' h' => hwn op' (by simp [h'])) h2

/-! ### the range computation, unfolded -/

/-- `min_id` before the fallback. -/
def minIdOf (sc : Scope) (loc : Nat) : Nat := if sc = .prior then 1 else minIdLocal loc

theorem pickRange_nick (s : St) (n T : Name) (sc : Scope) (hn : s.nickToTable.lookup n = some T) :
    pickRange s n sc =
      if sc = .other then .error .badScope
      else if s.nickCtr n = 0 then .error .noRows
      else .ok { nick := some n, table := T, lo := fallback (minIdOf sc (s.localCtr n)) (s.nickCtr n),
                 hi := s.nickCtr n } := by
  unfold pickRange minIdOf
  simp only [hn]

theorem pickRange_table (s : St) (T : Name) (sc : Scope) (hT : s.nickToTable.lookup T = none) :
    pickRange s T sc =
      if sc = .other then .error .badScope
      else if s.tableCtr T = 0 then .error .noRows
      else .ok { nick := none, table := T, lo := fallback (minIdOf sc (s.localCtr T)) (s.tableCtr T),
                 hi := s.tableCtr T } := by
  unfold pickRange minIdOf
  simp only [hT]

theorem fallback_ge_one (m M : Nat) (hm : 1 ≤ m) : 1 ≤ fallback m M := by
  unfold fallback; split <;> omega

theorem minIdOf_ge_one (sc : Scope) (loc : Nat) : 1 ≤ minIdOf sc loc := by
  unfold minIdOf minIdLocal; split <;> omega

theorem fallback_current (loc M : Nat) :
    fallback (minIdOf .current loc) M = if M < loc + 1 then 1 else loc + 1 := by
  simp [fallback, minIdOf, minIdLocal]

/-! ### the nickname invariant -/

structure NickInv (s : St) (n T : Name) : Prop where
  tbl : ∀ r ∈ s.rows, r.nick = some n → r.table = T
  ordle : ∀ r ∈ s.rows, r.nick = some n → ∃ k, r.ord = some k ∧ 1 ≤ k ∧ k ≤ s.nickCtr n
  ex : ∀ k, 1 ≤ k → k ≤ s.nickCtr n → ∃ r ∈ s.rows, r.nick = some n ∧ r.ord = some k
  tc : s.tableCtr n = s.nickCtr n
  lc : s.localCtr n ≤ s.nickCtr n
  win : ∀ r ∈ s.rows, r.nick = some n → ∀ k, r.ord = some k → (r.since = s.epoch ↔ s.localCtr n < k)
  ep : ∀ r ∈ s.rows, r.since ≤ s.epoch

theorem nickInv_step (nm : List (Name × Name)) (n T : Name) (hn : nm.lookup n = some T)
    (s : St) (op : Op) (s1 : St) (o : Obs) (_hnm : s.nickToTable = nm) (hi : NickInv s n T)
    (hw : WellNamedOp nm op) (h : step s op = .ok (s1, o)) : NickInv s1 n T := by
  rcases step_ok_cases h with ⟨t, nk, i, rs, rfl, hs⟩ | ⟨_, _, _, -, rfl⟩ | ⟨-, rfl⟩
  · obtain ⟨-, -, rfl⟩ := save_ok hs
    obtain ⟨hwt, hwn⟩ := wellNamed_save hw
    have htn : n ≠ t := by intro e; rw [e, hwt] at hn; cases hn
    by_cases hnk : nk = some n
    · -- a row saved under this nickname
      subst hnk
      have htT : t = T := by have := hwn n rfl; rw [hn] at this; exact (Option.some.inj this).symm
      subst htT
      refine ⟨?_, ?_, ?_, ?_, ?_, ?_, ?_⟩
      · intro r hr hrn
        simp only [List.mem_append, List.mem_singleton] at hr
        rcases hr with hr | rfl
        · exact hi.tbl r hr hrn
        · rfl
      · intro r hr hrn
        simp only [List.mem_append, List.mem_singleton] at hr
        simp only [newNickCtr, upd_same]
        rcases hr with hr | rfl
        · obtain ⟨k, h1, h2, h3⟩ := hi.ordle r hr hrn
          exact ⟨k, h1, h2, by omega⟩
        · exact ⟨s.nickCtr n + 1, rfl, by omega, by omega⟩
      · intro k hk1 hk2
        simp only [newNickCtr, upd_same] at hk2
        by_cases hk : k ≤ s.nickCtr n
        · obtain ⟨r, hr, h1, h2⟩ := hi.ex k hk1 hk
          exact ⟨r, by simp [hr], h1, h2⟩
        · have : k = s.nickCtr n + 1 := by omega
          subst this
          exact ⟨newRow s t (some n) i rs, by simp, rfl, rfl⟩
      · simp [newTableCtr, newNickCtr]
      · have := hi.lc
        simp only [newNickCtr, upd_same]
        omega
      · intro r hr hrn k hk
        simp only [List.mem_append, List.mem_singleton] at hr
        rcases hr with hr | rfl
        · exact hi.win r hr hrn k hk
        · simp only [newRow, Option.map_some, Option.some.injEq] at hk
          subst hk
          have := hi.lc
          simp only [newRow, true_iff]
          omega
      · intro r hr
        simp only [List.mem_append, List.mem_singleton] at hr
        rcases hr with hr | rfl
        · exact hi.ep r hr
        · exact Nat.le_refl _
    · -- some other row
      have hnc : newNickCtr s nk n = s.nickCtr n := by
        cases nk with
        | none => rfl
        | some n' =>
          have : n ≠ n' := fun e => hnk (by rw [e])
          simp [newNickCtr, upd_other _ _ _ _ this]
      have htc : newTableCtr s t nk i n = s.tableCtr n := by
        cases nk with
        | none => simp [newTableCtr, upd_other _ _ _ _ htn]
        | some n' =>
          have : n ≠ n' := fun e => hnk (by rw [e])
          simp [newTableCtr, upd_other _ _ _ _ this, upd_other _ _ _ _ htn]
      have hold : ∀ r ∈ s.rows ++ [newRow s t nk i rs], r.nick = some n → r ∈ s.rows := by
        intro r hr hrn
        simp only [List.mem_append, List.mem_singleton] at hr
        rcases hr with hr | rfl
        · exact hr
        · exact absurd hrn hnk
      refine ⟨?_, ?_, ?_, ?_, ?_, ?_, ?_⟩
      · intro r hr hrn; exact hi.tbl r (hold r hr hrn) hrn
      · intro r hr hrn; simp only [hnc]; exact hi.ordle r (hold r hr hrn) hrn
      · intro k hk1 hk2
        simp only [hnc] at hk2
        obtain ⟨r, hr, h1, h2⟩ := hi.ex k hk1 hk2
        exact ⟨r, by simp [hr], h1, h2⟩
      · simp only [hnc, htc]; exact hi.tc
      · simp only [hnc]; exact hi.lc
      · intro r hr hrn k hk; exact hi.win r (hold r hr hrn) hrn k hk
      · intro r hr
        simp only [List.mem_append, List.mem_singleton] at hr
        rcases hr with hr | rfl
        · exact hi.ep r hr
        · exact Nat.le_refl _
  · exact hi
  · refine ⟨hi.tbl, hi.ordle, hi.ex, hi.tc, ?_, ?_, ?_⟩
    · simp only [resetLocals]; rw [hi.tc]; exact Nat.le_refl _
    · intro r hr hrn k hk
      simp only [resetLocals]
      obtain ⟨k', h1, h2, h3⟩ := hi.ordle r hr hrn
      rw [hk] at h1
      have hkk : k = k' := Option.some.inj h1
      have := hi.ep r hr
      rw [hi.tc]
      constructor <;> intro <;> omega
    · intro r hr
      have := hi.ep r hr
      simp only [resetLocals]; omega

theorem nickInv_init (counters : List (Name × Nat)) (tables : List Name) (nickmap : List (Name × Name))
    (n T : Name) (h0 : ctrOf counters n = 0) : NickInv (init counters tables nickmap) n T := by
  refine ⟨?_, ?_, ?_, ?_, ?_, ?_, ?_⟩ <;> simp [init, h0]
  intro k h1 h2; omega

/-! ### the dense-save (table) invariant -/

structure TableInv (s : St) (T : Name) : Prop where
  cur : ∀ r ∈ s.rows, r.table = T → r.since = s.epoch → r.resaved = false →
    s.localCtr T < r.id ∧ r.id ≤ s.tableCtr T
  fill : ∀ i, s.localCtr T < i → i ≤ s.tableCtr T →
    ∃ r ∈ s.rows, r.table = T ∧ r.id = i ∧ r.since = s.epoch ∧ r.resaved = false
  ex : ∀ i, 1 ≤ i → i ≤ max (s.tableCtr T) (s.localCtr T) →
    i ≤ s.prior T ∨ ∃ r ∈ s.rows, r.table = T ∧ r.id = i
  ep : ∀ r ∈ s.rows, r.since ≤ s.epoch

theorem newTableCtr_table (nm : List (Name × Name)) (s : St) (t : Name) (nk : Option Name) (i : Nat)
    (T : Name) (hT : nm.lookup T = none) (hwn : ∀ n, nk = some n → nm.lookup n = some t) :
    newTableCtr s t nk i T = if T = t then i else s.tableCtr T := by
  cases nk with
  | none => simp [newTableCtr, upd]
  | some n' =>
    have : T ≠ n' := by intro e; have := hwn n' rfl; rw [← e, hT] at this; cases this
    simp [newTableCtr, upd, this]

theorem tableInv_step (nm : List (Name × Name)) (T : Name) (hT : nm.lookup T = none)
    (s : St) (op : Op) (s1 : St) (o : Obs) (_hnm : s.nickToTable = nm) (hi : TableInv s T)
    (hw : WellNamedOp nm op) (hd : DenseOp s op) (h : step s op = .ok (s1, o)) : TableInv s1 T := by
  rcases step_ok_cases h with ⟨t, nk, i, rs, rfl, hs⟩ | ⟨_, _, _, -, rfl⟩ | ⟨-, rfl⟩
  · obtain ⟨-, -, rfl⟩ := save_ok hs
    obtain ⟨-, hwn⟩ := wellNamed_save hw
    have htc := newTableCtr_table nm s t nk i T hT hwn
    have hep : ∀ r ∈ s.rows ++ [newRow s t nk i rs], r.since ≤ s.epoch := by
      intro r hr
      simp only [List.mem_append, List.mem_singleton] at hr
      rcases hr with hr | rfl
      · exact hi.ep r hr
      · exact Nat.le_refl _
    by_cases htT : T = t
    · subst htT
      simp only [if_true] at htc
      cases rs with
      | false =>
        simp only [DenseOp] at hd
        refine ⟨?_, ?_, ?_, hep⟩
        · intro r hr h1 h2 h3
          simp only [List.mem_append, List.mem_singleton] at hr
          simp only [htc]
          rcases hr with hr | rfl
          · have := hi.cur r hr h1 h2 h3; omega
          · simp only [newRow]; omega
        · intro j h1 h2
          dsimp only at h1 h2
          simp only [htc] at h2
          by_cases hj : j = i
          · subst hj
            exact ⟨newRow s T nk j false, by simp, rfl, rfl, rfl, rfl⟩
          · obtain ⟨r, hr, h3⟩ := hi.fill j h1 (by omega)
            exact ⟨r, by simp [hr], h3⟩
        · intro j h1 h2
          simp only [htc] at h2
          by_cases hj : j = i
          · subst hj
            exact Or.inr ⟨newRow s T nk j false, by simp, rfl, rfl⟩
          · rcases hi.ex j h1 (by omega) with h3 | ⟨r, hr, h3⟩
            · exact Or.inl h3
            · exact Or.inr ⟨r, by simp [hr], h3⟩
      | true =>
        simp only [DenseOp] at hd
        refine ⟨?_, ?_, ?_, hep⟩
        · intro r hr h1 h2 h3
          simp only [List.mem_append, List.mem_singleton] at hr
          rcases hr with hr | rfl
          · have := hi.cur r hr h1 h2 h3; omega
          · simp [newRow] at h3
        · intro j h1 h2
          dsimp only at h1 h2
          simp only [htc] at h2
          omega
        · intro j h1 h2
          simp only [htc] at h2
          rcases hi.ex j h1 (by omega) with h3 | ⟨r, hr, h3⟩
          · exact Or.inl h3
          · exact Or.inr ⟨r, by simp [hr], h3⟩
    · simp only [htT, if_false] at htc
      have hold : ∀ r ∈ s.rows ++ [newRow s t nk i rs], r.table = T → r ∈ s.rows := by
        intro r hr hrt
        simp only [List.mem_append, List.mem_singleton] at hr
        rcases hr with hr | rfl
        · exact hr
        · exact absurd hrt.symm htT
      refine ⟨?_, ?_, ?_, hep⟩
      · intro r hr h1 h2 h3; simp only [htc]; exact hi.cur r (hold r hr h1) h1 h2 h3
      · intro j h1 h2
        simp only [htc] at h2
        obtain ⟨r, hr, h3⟩ := hi.fill j h1 h2
        exact ⟨r, by simp [hr], h3⟩
      · intro j h1 h2
        simp only [htc] at h2
        rcases hi.ex j h1 h2 with h3 | ⟨r, hr, h3⟩
        · exact Or.inl h3
        · exact Or.inr ⟨r, by simp [hr], h3⟩
  · exact hi
  · refine ⟨?_, ?_, ?_, ?_⟩
    · intro r hr h1 h2 h3
      have := hi.ep r hr
      simp only [resetLocals] at h2
      omega
    · intro j h1 h2
      simp only [resetLocals] at h1 h2
      omega
    · intro j h1 h2
      simp only [resetLocals] at h2
      exact hi.ex j h1 (by omega)
    · intro r hr
      have := hi.ep r hr
      simp only [resetLocals]; omega

theorem tableInv_init (counters : List (Name × Nat)) (tables : List Name) (nickmap : List (Name × Name))
    (T : Name) : TableInv (init counters tables nickmap) T := by
  refine ⟨?_, ?_, ?_, ?_⟩ <;> simp [init]

end SnowModel.Proofs.C10
