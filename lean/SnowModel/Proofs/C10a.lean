/-
C10 helper lemmas, part a: the history machine (`SnowModel.History`): frame facts, the nickname
invariant, the dense-save (table) invariant, monotonicity of the counters and the old-row / fresh-id
invariants, all over arbitrary op sequences (`save`, `pick`, `reset`, `resave`).
-/
import SnowModel.Core.History
import Mathlib.Tactic.SplitIfs

namespace SnowModel.Proofs.C10
open SnowModel.History

/-! ### basic facts -/

@[simp] theorem upd_same (f : Name → Nat) (k : Name) (v : Nat) : upd f k v k = v := by simp [upd]
theorem upd_other (f : Name → Nat) (k x : Name) (v : Nat) (h : x ≠ k) : upd f k v x = f x := by
  simp [upd, h]

/-- The row `save` appends. -/
def newRow (s : St) (t : Name) (nk : Option Name) (i : Nat) (rs : Bool) : SRow :=
  { table := t, id := i, nick := nk, ord := nk.map (fun n => s.nickCtr n + 1), since := s.epoch, resaved := rs }

def newTableCtr (s : St) (t : Name) (_nk : Option Name) (i : Nat) : Name → Nat :=
  upd s.tableCtr t (saveTableCtr i (s.tableCtr t))

def newNickCtr (s : St) (nk : Option Name) : Name → Nat :=
  match nk with
  | some n => upd s.nickCtr n (s.nickCtr n + 1)
  | none => s.nickCtr

theorem save_ok {s s' : St} {t : Name} {nk : Option Name} {i : Nat} {rs : Bool}
    (h : save s t nk i rs = .ok s') :
    t ∈ s.tables ∧ (∀ r ∈ s.rows, ¬ (r.table = t ∧ r.id = i)) ∧
    s' = { s with tableCtr := newTableCtr s t nk i, nickCtr := newNickCtr s nk,
                  rows := s.rows ++ [newRow s t nk i rs] } := by
  unfold save at h
  split_ifs at h with h1 h2
  refine ⟨by simpa using h1, ?_, ?_⟩
  · intro r hr hc
    apply h2
    rw [List.any_eq_true]
    exact ⟨r, hr, by simpa using hc⟩
  · cases nk with
    | none => simp only [Except.ok.injEq] at h; rw [← h]; rfl
    | some n => simp only [Except.ok.injEq] at h; rw [← h]; rfl

theorem saveAll_cons_ok {s s' : St} {x : Name × Option Name × Nat} {rest : List (Name × Option Name × Nat)}
    (h : saveAll s (x :: rest) = .ok s') :
    ∃ s1, save s x.1 x.2.1 x.2.2 true = .ok s1 ∧ saveAll s1 rest = .ok s' := by
  obtain ⟨t, n, i⟩ := x
  simp only [saveAll] at h
  cases hs : save s t n i true with
  | error e => rw [hs] at h; simp at h
  | ok s1 => rw [hs] at h; exact ⟨s1, rfl, h⟩

theorem step_ok_cases {s s1 : St} {op : Op} {o : Obs} (h : step s op = .ok (s1, o)) :
    (∃ t nk i, op = .save t nk i ∧ save s t nk i false = .ok s1) ∨
    (∃ name sc d, op = .pick name sc d ∧ s1 = s) ∨
    (op = .reset ∧ s1 = resetLocals s) ∨
    (∃ rows s2, op = .resave rows ∧ saveAll s rows = .ok s2 ∧ s1 = resetLocals s2) := by
  cases op with
  | save t nk i =>
    left
    simp only [step] at h
    cases hs : save s t nk i false with
    | error e => rw [hs] at h; simp at h
    | ok s' =>
      rw [hs] at h
      simp only [Except.ok.injEq, Prod.mk.injEq] at h
      exact ⟨t, nk, i, rfl, by rw [← h.1]; exact hs⟩
  | pick name sc d =>
    right; left
    simp only [step] at h
    cases hp : pick s name sc d with
    | error e => rw [hp] at h; simp at h
    | ok p =>
      rw [hp] at h
      obtain ⟨t, i⟩ := p
      simp only [Except.ok.injEq, Prod.mk.injEq] at h
      exact ⟨name, sc, d, rfl, h.1.symm⟩
  | reset =>
    right; right; left
    simp only [step, Except.ok.injEq, Prod.mk.injEq] at h
    exact ⟨rfl, h.1.symm⟩
  | resave rows =>
    right; right; right
    simp only [step] at h
    cases hs : saveAll s rows with
    | error e => rw [hs] at h; simp at h
    | ok s2 =>
      rw [hs] at h
      simp only [Except.ok.injEq, Prod.mk.injEq] at h
      exact ⟨rows, s2, rfl, hs, h.1.symm⟩

theorem run_cons_ok {s s' : St} {op : Op} {ops : List Op} (h : run s (op :: ops) = .ok s') :
    ∃ s1 o, step s op = .ok (s1, o) ∧ run s1 ops = .ok s' := by
  simp only [run] at h
  cases hs : step s op with
  | error e => rw [hs] at h; simp at h
  | ok p => obtain ⟨s1, o⟩ := p; rw [hs] at h; exact ⟨s1, o, rfl, h⟩

/-! ### trace conditions -/

/-- Naming discipline of one `save_row` call relative to the nickname map `nm`: a row saved under a
    name that `nm` knows as a nickname goes to the table `nm` gives for it.  (Since fix 07a822a
    nothing is required of table names: a nickname spelled like another table's name is harmless.) -/
def WNSave (nm : List (Name × Name)) (t : Name) : Option Name → Prop
  | some n => nm.lookup n = some t ∨ nm.lookup n = none
  | none => True

instance (nm : List (Name × Name)) (t : Name) (nk : Option Name) : Decidable (WNSave nm t nk) := by
  cases nk <;> (simp only [WNSave]; infer_instance)

theorem wnSave_iff {nm : List (Name × Name)} {t : Name} {nk : Option Name} (h : WNSave nm t nk) :
    ∀ n, nk = some n → ∀ T, nm.lookup n = some T → t = T := by
  cases nk with
  | none => intro n hn; cases hn
  | some n' =>
    intro n hn T hT
    cases hn
    rcases h with h | h
    · rw [h] at hT; exact Option.some.inj hT
    · rw [h] at hT; cases hT

def WellNamedOp (nm : List (Name × Name)) : Op → Prop
  | .save t nk _ => WNSave nm t nk
  | .resave rows => ∀ x ∈ rows, WNSave nm x.1 x.2.1
  | _ => True

instance (nm : List (Name × Name)) (op : Op) : Decidable (WellNamedOp nm op) := by
  cases op <;> (simp only [WellNamedOp]; infer_instance)

/-- Dense saves: an ordinary save carries the next id of its table; a re-save names an id that is
    not above the table's counter (an id of an earlier run). -/
def DenseOp (s : St) : Op → Prop
  | .save t _ i => i = s.tableCtr t + 1
  | .resave rows => ∀ x ∈ rows, x.2.2 ≤ s.tableCtr x.1
  | _ => True

/-- Fresh ids: an ordinary save carries an id above everything the previous iterations knew
    (`IdManager` hands out increasing ids; reserving ahead or nesting does not violate this). -/
def FreshOp (s : St) : Op → Prop
  | .save t _ i => s.localCtr t < i
  | _ => True

instance (s : St) (op : Op) : Decidable (DenseOp s op) := by
  cases op <;> (simp only [DenseOp]; infer_instance)
instance (s : St) (op : Op) : Decidable (FreshOp s op) := by
  cases op <;> (simp only [FreshOp]; infer_instance)

/-- A state-dependent op condition holds along the whole (successful prefix of the) trace. -/
def TraceC (C : St → Op → Prop) : St → List Op → Prop
  | _, [] => True
  | s, op :: ops =>
    C s op ∧
      match step s op with
      | .ok (s', _) => TraceC C s' ops
      | .error _ => True

def decTraceC (C : St → Op → Prop) [∀ s op, Decidable (C s op)] :
    (s : St) → (ops : List Op) → Decidable (TraceC C s ops)
  | _, [] => isTrue trivial
  | s, op :: ops =>
    match h : step s op with
    | .ok (s', _) =>
      have := decTraceC C s' ops
      decidable_of_iff (C s op ∧ TraceC C s' ops) (by simp [TraceC, h])
    | .error _ => decidable_of_iff (C s op) (by simp [TraceC, h])

instance (C : St → Op → Prop) [∀ s op, Decidable (C s op)] (s : St) (ops : List Op) :
    Decidable (TraceC C s ops) := decTraceC C s ops

abbrev DenseTrace := TraceC DenseOp
abbrev FreshTrace := TraceC FreshOp

theorem save_frame {s s' : St} {t : Name} {nk : Option Name} {i : Nat} {rs : Bool}
    (h : save s t nk i rs = .ok s') :
    s'.nickToTable = s.nickToTable ∧ s'.tables = s.tables ∧ s'.prior = s.prior ∧
    s'.localCtr = s.localCtr ∧ s'.epoch = s.epoch := by
  obtain ⟨-, -, rfl⟩ := save_ok h; exact ⟨rfl, rfl, rfl, rfl, rfl⟩

theorem saveAll_frame (rows : List (Name × Option Name × Nat)) : ∀ {s s' : St},
    saveAll s rows = .ok s' →
    s'.nickToTable = s.nickToTable ∧ s'.tables = s.tables ∧ s'.prior = s.prior ∧
    s'.localCtr = s.localCtr ∧ s'.epoch = s.epoch := by
  induction rows with
  | nil => intro s s' h; simp only [saveAll, Except.ok.injEq] at h; subst h; exact ⟨rfl, rfl, rfl, rfl, rfl⟩
  | cons x rest ih =>
    intro s s' h
    obtain ⟨s1, h1, h2⟩ := saveAll_cons_ok h
    obtain ⟨a1, a2, a3, a4, a5⟩ := save_frame h1
    obtain ⟨b1, b2, b3, b4, b5⟩ := ih h2
    exact ⟨b1.trans a1, b2.trans a2, b3.trans a3, b4.trans a4, b5.trans a5⟩

theorem step_frame {s s1 : St} {op : Op} {o : Obs} (h : step s op = .ok (s1, o)) :
    s1.nickToTable = s.nickToTable ∧ s1.tables = s.tables ∧ s1.prior = s.prior := by
  rcases step_ok_cases h with ⟨t, nk, i, -, hs⟩ | ⟨_, _, _, -, rfl⟩ | ⟨-, rfl⟩ | ⟨rows, s2, -, hs, rfl⟩
  · obtain ⟨a, b, c, -, -⟩ := save_frame hs; exact ⟨a, b, c⟩
  · exact ⟨rfl, rfl, rfl⟩
  · exact ⟨rfl, rfl, rfl⟩
  · obtain ⟨a, b, c, -, -⟩ := saveAll_frame rows hs; exact ⟨a, b, c⟩

theorem run_nickToTable (ops : List Op) : ∀ (s s' : St), run s ops = .ok s' →
    s'.nickToTable = s.nickToTable ∧ s'.tables = s.tables ∧ s'.prior = s.prior := by
  induction ops with
  | nil => intro s s' h; simp only [run, Except.ok.injEq] at h; subst h; exact ⟨rfl, rfl, rfl⟩
  | cons op ops ih =>
    intro s s' h
    obtain ⟨s1, o, h1, h2⟩ := run_cons_ok h
    obtain ⟨a1, a2, a3⟩ := step_frame h1
    obtain ⟨b1, b2, b3⟩ := ih s1 s' h2
    exact ⟨b1.trans a1, b2.trans a2, b3.trans a3⟩

/-- With the empty nickname map the naming discipline is vacuous: statements about table names need
    no naming hypothesis at all (since fix 07a822a). -/
theorem wellNamed_nil (op : Op) : WellNamedOp [] op := by
  cases op with
  | save t nk i => cases nk <;> simp [WellNamedOp, WNSave]
  | resave rows => intro x _; cases x.2.1 <;> simp [WNSave]
  | pick a b c => trivial
  | reset => trivial

/-- Invariant induction over a successful run with the naming discipline and a state-dependent
    op condition `C` available at every step. -/
theorem run_invariant (nm : List (Name × Name)) (C : St → Op → Prop) (P : St → Prop)
    (hstep : ∀ s op s1 o, P s → WellNamedOp nm op → C s op → step s op = .ok (s1, o) → P s1) :
    ∀ (ops : List Op) (s s' : St), P s → (∀ op ∈ ops, WellNamedOp nm op) →
      TraceC C s ops → run s ops = .ok s' → P s' := by
  intro ops
  induction ops with
  | nil => intro s s' hp _ _ h; simp only [run, Except.ok.injEq] at h; subst h; exact hp
  | cons op ops ih =>
    intro s s' hp hwn hd h
    obtain ⟨s1, o, h1, h2⟩ := run_cons_ok h
    have hd' := hd
    simp only [TraceC, h1] at hd'
    exact ih s1 s' (hstep s op s1 o hp (hwn op (by simp)) hd'.1 h1)
      (fun op' h' => hwn op' (by simp [h'])) hd'.2 h2

theorem traceC_true (s : St) (ops : List Op) : TraceC (fun _ _ => True) s ops := by
  induction ops generalizing s with
  | nil => trivial
  | cons op ops ih =>
    simp only [TraceC, true_and]
    cases step s op with
    | error e => trivial
    | ok p => exact ih p.1

/-- The same without an op condition. -/
theorem run_invariant' (nm : List (Name × Name)) (P : St → Prop)
    (hstep : ∀ s op s1 o, P s → WellNamedOp nm op → step s op = .ok (s1, o) → P s1) :
    ∀ (ops : List Op) (s s' : St), P s → (∀ op ∈ ops, WellNamedOp nm op) →
      run s ops = .ok s' → P s' :=
  fun ops s s' hp hwn h =>
    run_invariant nm (fun _ _ => True) P (fun s op s1 o a b _ e => hstep s op s1 o a b e)
      ops s s' hp hwn (traceC_true s ops) h

/-- Lifting a `save`-level and a `reset`-level preservation lemma to `step`; `SC s t i rs` is the
    side condition on a single save. -/
theorem step_lift (nm : List (Name × Name)) (P : St → Prop) (SC : St → Name → Nat → Bool → Prop)
    (hsave : ∀ s t nk i rs s', P s → WNSave nm t nk → SC s t i rs →
      save s t nk i rs = .ok s' → P s')
    (hreset : ∀ s, P s → P (resetLocals s))
    (htrans : ∀ s t nk i s' t' i', save s t nk i true = .ok s' → SC s t' i' true → SC s' t' i' true)
    (s : St) (op : Op) (s1 : St) (o : Obs) (hp : P s)
    (hw : WellNamedOp nm op)
    (hc : match op with
      | .save t _ i => SC s t i false
      | .resave rows => ∀ x ∈ rows, SC s x.1 x.2.2 true
      | _ => True)
    (h : step s op = .ok (s1, o)) : P s1 := by
  rcases step_ok_cases h with ⟨t, nk, i, rfl, hs⟩ | ⟨_, _, _, -, rfl⟩ | ⟨-, rfl⟩ | ⟨rows, s2, rfl, hs, rfl⟩
  · exact hsave s t nk i false s1 hp hw hc hs
  · exact hp
  · exact hreset s hp
  · apply hreset
    simp only [WellNamedOp] at hw
    simp only at hc
    clear h
    induction rows generalizing s with
    | nil => simp only [saveAll, Except.ok.injEq] at hs; subst hs; exact hp
    | cons x rest ih =>
      obtain ⟨sa, h1, h2⟩ := saveAll_cons_ok hs
      have hwx := hw x (by simp)
      refine ih sa (hsave s x.1 x.2.1 x.2.2 true sa hp hwx (hc x (by simp)) h1)
        (fun y hy => hw y (by simp [hy])) (fun y hy => ?_) h2
      exact htrans s x.1 x.2.1 x.2.2 sa y.1 y.2.2 h1 (hc y (by simp [hy]))

/-! ### the range computation, unfolded -/

/-- `min_id` before the fallback. -/
def minIdOf (sc : Scope) (loc : Nat) : Nat := if sc = .prior then 1 else minIdLocal loc

theorem pickRange_nick (s : St) (n T : Name) (sc : Scope) (hn : s.nickToTable.lookup n = some T) :
    pickRange s n sc =
      if sc = .other then .error .badScope
      else if s.nickCtr n = 0 then .error .noRows
      else .ok { nick := some n, table := T, lo := fallback (minIdOf sc (s.localNick n)) (s.nickCtr n),
                 hi := s.nickCtr n } := by
  unfold pickRange minIdOf
  simp only [hn]

theorem pickRange_table (s : St) (T : Name) (sc : Scope) (hT : s.nickToTable.lookup T = none) :
    pickRange s T sc =
      if sc = .other then .error .badScope
      else if s.tableCtr T = 0 then .error .noRows
      else .ok { nick := none, table := T, lo := fallback (minIdOf sc (s.localCtr T)) (s.tableCtr T),
                 hi := s.tableCtr T } := by
  unfold pickRange minIdOf
  simp only [hT]

theorem fallback_ge_one (m M : Nat) (hm : 1 ≤ m) : 1 ≤ fallback m M := by
  unfold fallback; split <;> omega

theorem minIdOf_ge_one (sc : Scope) (loc : Nat) : 1 ≤ minIdOf sc loc := by
  unfold minIdOf minIdLocal; split <;> omega

theorem fallback_current (loc M : Nat) :
    fallback (minIdOf .current loc) M = if M < loc + 1 then 1 else loc + 1 := by
  simp [fallback, minIdOf, minIdLocal]

/-- `current-iteration` range of a table whose window is non-empty: no fallback. -/
theorem pickRange_table_window (s : St) (T : Name) (hT : s.nickToTable.lookup T = none)
    (hw : s.localCtr T < s.tableCtr T) :
    pickRange s T .current =
      .ok { nick := none, table := T, lo := s.localCtr T + 1, hi := s.tableCtr T } := by
  rw [pickRange_table s T .current hT, fallback_current]
  have h0 : s.tableCtr T ≠ 0 := by omega
  have h1 : ¬ s.tableCtr T < s.localCtr T + 1 := by omega
  simp [h0, h1]

/-! ### the nickname invariant -/

structure NickInv (s : St) (n T : Name) : Prop where
  tbl : ∀ r ∈ s.rows, r.nick = some n → r.table = T
  ordle : ∀ r ∈ s.rows, r.nick = some n → ∃ k, r.ord = some k ∧ 1 ≤ k ∧ k ≤ s.nickCtr n
  ex : ∀ k, 1 ≤ k → k ≤ s.nickCtr n → ∃ r ∈ s.rows, r.nick = some n ∧ r.ord = some k
  lc : s.localNick n ≤ s.nickCtr n
  win : ∀ r ∈ s.rows, r.nick = some n → ∀ k, r.ord = some k → (r.since = s.epoch ↔ s.localNick n < k)
  ep : ∀ r ∈ s.rows, r.since ≤ s.epoch

theorem nickInv_save (nm : List (Name × Name)) (n T : Name) (hn : nm.lookup n = some T)
    (s : St) (t : Name) (nk : Option Name) (i : Nat) (rs : Bool) (s' : St)
    (hi : NickInv s n T) (hw : WNSave nm t nk) (hs : save s t nk i rs = .ok s') : NickInv s' n T := by
  obtain ⟨-, -, rfl⟩ := save_ok hs
  have hwn := wnSave_iff hw
  by_cases hnk : nk = some n
  · subst hnk
    have htT : t = T := hwn n rfl T hn
    subst htT
    refine ⟨?_, ?_, ?_, ?_, ?_, ?_⟩
    · intro r hr hrn
      simp only [List.mem_append, List.mem_singleton] at hr
      rcases hr with hr | rfl
      · exact hi.tbl r hr hrn
      · rfl
    · intro r hr hrn
      simp only [List.mem_append, List.mem_singleton] at hr
      simp only [newNickCtr, upd_same]
      rcases hr with hr | rfl
      · obtain ⟨k, h1, h2, h3⟩ := hi.ordle r hr hrn
        exact ⟨k, h1, h2, by omega⟩
      · exact ⟨s.nickCtr n + 1, rfl, by omega, by omega⟩
    · intro k hk1 hk2
      simp only [newNickCtr, upd_same] at hk2
      by_cases hk : k ≤ s.nickCtr n
      · obtain ⟨r, hr, h1, h2⟩ := hi.ex k hk1 hk
        exact ⟨r, by simp [hr], h1, h2⟩
      · have : k = s.nickCtr n + 1 := by omega
        subst this
        exact ⟨newRow s t (some n) i rs, by simp, rfl, rfl⟩
    · have := hi.lc
      simp only [newNickCtr, upd_same]
      omega
    · intro r hr hrn k hk
      simp only [List.mem_append, List.mem_singleton] at hr
      rcases hr with hr | rfl
      · exact hi.win r hr hrn k hk
      · simp only [newRow, Option.map_some, Option.some.injEq] at hk
        subst hk
        have := hi.lc
        simp only [newRow, true_iff]
        omega
    · intro r hr
      simp only [List.mem_append, List.mem_singleton] at hr
      rcases hr with hr | rfl
      · exact hi.ep r hr
      · exact Nat.le_refl _
  · have hnc : newNickCtr s nk n = s.nickCtr n := by
      cases nk with
      | none => rfl
      | some n' =>
        have : n ≠ n' := fun e => hnk (by rw [e])
        simp [newNickCtr, upd_other _ _ _ _ this]
    have hold : ∀ r ∈ s.rows ++ [newRow s t nk i rs], r.nick = some n → r ∈ s.rows := by
      intro r hr hrn
      simp only [List.mem_append, List.mem_singleton] at hr
      rcases hr with hr | rfl
      · exact hr
      · exact absurd hrn hnk
    refine ⟨?_, ?_, ?_, ?_, ?_, ?_⟩
    · intro r hr hrn; exact hi.tbl r (hold r hr hrn) hrn
    · intro r hr hrn; simp only [hnc]; exact hi.ordle r (hold r hr hrn) hrn
    · intro k hk1 hk2
      simp only [hnc] at hk2
      obtain ⟨r, hr, h1, h2⟩ := hi.ex k hk1 hk2
      exact ⟨r, by simp [hr], h1, h2⟩
    · simp only [hnc]; exact hi.lc
    · intro r hr hrn k hk; exact hi.win r (hold r hr hrn) hrn k hk
    · intro r hr
      simp only [List.mem_append, List.mem_singleton] at hr
      rcases hr with hr | rfl
      · exact hi.ep r hr
      · exact Nat.le_refl _

theorem nickInv_reset (s : St) (n T : Name) (hi : NickInv s n T) : NickInv (resetLocals s) n T := by
  refine ⟨hi.tbl, hi.ordle, hi.ex, ?_, ?_, ?_⟩
  · simp only [resetLocals]; exact Nat.le_refl _
  · intro r hr hrn k hk
    simp only [resetLocals]
    obtain ⟨k', h1, h2, h3⟩ := hi.ordle r hr hrn
    rw [hk] at h1
    have hkk : k = k' := Option.some.inj h1
    have := hi.ep r hr
    constructor <;> intro <;> omega
  · intro r hr
    have := hi.ep r hr
    simp only [resetLocals]; omega

theorem nickInv_step (nm : List (Name × Name)) (n T : Name) (hn : nm.lookup n = some T)
    (s : St) (op : Op) (s1 : St) (o : Obs) (hi : NickInv s n T)
    (hw : WellNamedOp nm op) (h : step s op = .ok (s1, o)) : NickInv s1 n T :=
  step_lift nm (fun s => NickInv s n T) (fun _ _ _ _ => True)
    (fun s t nk i rs s' hp hw _ hs => nickInv_save nm n T hn s t nk i rs s' hp hw hs)
    (fun s hp => nickInv_reset s n T hp) (fun _ _ _ _ _ _ _ _ _ => trivial)
    s op s1 o hi hw (by cases op <;> simp) h

theorem nickInv_init (counters : List (Name × Nat)) (tables : List Name) (nickmap : List (Name × Name))
    (n T : Name) : NickInv (init counters tables nickmap) n T := by
  refine ⟨?_, ?_, ?_, ?_, ?_, ?_⟩ <;> simp [init]
  intro k h1 h2; omega

/-! ### table counters -/

theorem newTableCtr_table (s : St) (t : Name) (nk : Option Name) (i : Nat) (T : Name) :
    newTableCtr s t nk i T = if T = t then max i (s.tableCtr T) else s.tableCtr T := by
  by_cases hTt : T = t
  · subst hTt; simp [newTableCtr, upd, saveTableCtr]
  · simp [newTableCtr, upd, saveTableCtr, hTt]

/-- Basic order facts, valid for every op sequence: the window bound never exceeds the counter,
    every saved id is covered by the counter, rows of earlier windows and ids of earlier runs lie
    below the window bound. -/
structure OrdInv (s : St) (T : Name) : Prop where
  le : s.localCtr T ≤ s.tableCtr T
  all : ∀ r ∈ s.rows, r.table = T → r.id ≤ s.tableCtr T
  old : ∀ r ∈ s.rows, r.table = T → r.since < s.epoch → r.id ≤ s.localCtr T
  pri : s.prior T ≤ s.localCtr T
  ep : ∀ r ∈ s.rows, r.since ≤ s.epoch

theorem ordInv_save (nm : List (Name × Name)) (T : Name) (hT : nm.lookup T = none)
    (s : St) (t : Name) (nk : Option Name) (i : Nat) (rs : Bool) (s' : St)
    (hi : OrdInv s T) (hw : WNSave nm t nk) (hs : save s t nk i rs = .ok s') : OrdInv s' T := by
  obtain ⟨-, -, rfl⟩ := save_ok hs
  have htc := newTableCtr_table s t nk i T
  refine ⟨?_, ?_, ?_, hi.pri, ?_⟩
  · have := hi.le
    simp only [htc]; split <;> omega
  · intro r hr hrt
    simp only [List.mem_append, List.mem_singleton] at hr
    simp only [htc]
    rcases hr with hr | rfl
    · have := hi.all r hr hrt
      split <;> omega
    · simp only [newRow] at hrt ⊢
      subst hrt
      simp only [if_true]
      omega
  · intro r hr hrt hrs
    simp only [List.mem_append, List.mem_singleton] at hr
    rcases hr with hr | rfl
    · exact hi.old r hr hrt hrs
    · simp [newRow] at hrs
  · intro r hr
    simp only [List.mem_append, List.mem_singleton] at hr
    rcases hr with hr | rfl
    · exact hi.ep r hr
    · exact Nat.le_refl _

theorem ordInv_reset (s : St) (T : Name) (hi : OrdInv s T) : OrdInv (resetLocals s) T := by
  refine ⟨Nat.le_refl _, hi.all, ?_, ?_, ?_⟩
  · intro r hr hrt _
    exact hi.all r hr hrt
  · have := hi.pri; have := hi.le; simp only [resetLocals]; omega
  · intro r hr
    have := hi.ep r hr
    simp only [resetLocals]; omega

theorem ordInv_step (nm : List (Name × Name)) (T : Name) (hT : nm.lookup T = none)
    (s : St) (op : Op) (s1 : St) (o : Obs) (hi : OrdInv s T)
    (hw : WellNamedOp nm op) (h : step s op = .ok (s1, o)) : OrdInv s1 T :=
  step_lift nm (fun s => OrdInv s T) (fun _ _ _ _ => True)
    (fun s t nk i rs s' hp hw _ hs => ordInv_save nm T hT s t nk i rs s' hp hw hs)
    (fun s hp => ordInv_reset s T hp) (fun _ _ _ _ _ _ _ _ _ => trivial)
    s op s1 o hi hw (by cases op <;> simp) h

theorem ordInv_init (counters : List (Name × Nat)) (tables : List Name) (nickmap : List (Name × Name))
    (T : Name) : OrdInv (init counters tables nickmap) T := by
  refine ⟨?_, ?_, ?_, ?_, ?_⟩ <;> simp [init]

/-- Re-saved rows are never in the current window (at op boundaries): `Op.resave` ends with
    `reset_locals()` (fix 9826fcb). -/
def ResavedOld (s : St) : Prop :=
  (∀ r ∈ s.rows, r.since ≤ s.epoch) ∧ ∀ r ∈ s.rows, r.resaved = true → r.since < s.epoch

theorem saveAll_ep (rows : List (Name × Option Name × Nat)) : ∀ {s s' : St},
    saveAll s rows = .ok s' → (∀ r ∈ s.rows, r.since ≤ s.epoch) → ∀ r ∈ s'.rows, r.since ≤ s'.epoch := by
  induction rows with
  | nil => intro s s' h hp; simp only [saveAll, Except.ok.injEq] at h; subst h; exact hp
  | cons x rest ih =>
    intro s s' h hp
    obtain ⟨s1, h1, h2⟩ := saveAll_cons_ok h
    refine ih h2 ?_
    obtain ⟨-, -, rfl⟩ := save_ok h1
    intro r hr
    simp only [List.mem_append, List.mem_singleton] at hr
    rcases hr with hr | rfl
    · exact hp r hr
    · exact Nat.le_refl _

theorem resavedOld_step (s : St) (op : Op) (s1 : St) (o : Obs) (hi : ResavedOld s)
    (h : step s op = .ok (s1, o)) : ResavedOld s1 := by
  rcases step_ok_cases h with ⟨t, nk, i, rfl, hs⟩ | ⟨_, _, _, -, rfl⟩ | ⟨-, rfl⟩ | ⟨rows, s2, rfl, hs, rfl⟩
  · obtain ⟨-, -, rfl⟩ := save_ok hs
    constructor
    · intro r hr
      simp only [List.mem_append, List.mem_singleton] at hr
      rcases hr with hr | rfl
      · exact hi.1 r hr
      · exact Nat.le_refl _
    · intro r hr hrs
      simp only [List.mem_append, List.mem_singleton] at hr
      rcases hr with hr | rfl
      · exact hi.2 r hr hrs
      · simp [newRow] at hrs
  · exact hi
  · constructor
    · intro r hr; have := hi.1 r hr; simp only [resetLocals]; omega
    · intro r hr hrs; have := hi.2 r hr hrs; simp only [resetLocals]; omega
  · have hep := saveAll_ep rows hs hi.1
    constructor
    · intro r hr; have := hep r hr; simp only [resetLocals]; omega
    · intro r hr _; have := hep r hr; simp only [resetLocals]; omega

theorem resavedOld_run (ops : List Op) : ∀ (s s' : St), ResavedOld s → run s ops = .ok s' → ResavedOld s' := by
  induction ops with
  | nil => intro s s' hp h; simp only [run, Except.ok.injEq] at h; subst h; exact hp
  | cons op ops ih =>
    intro s s' hp h
    obtain ⟨s1, o, h1, h2⟩ := run_cons_ok h
    exact ih s1 s' (resavedOld_step s op s1 o hp h1) h2

/-! ### monotonicity of the counters (fix 9826fcb) -/

/-- How the counters of a table at a later state `s'` relate to an earlier state `s`. -/
structure Mono (T : Name) (s s' : St) : Prop where
  tc : s.tableCtr T ≤ s'.tableCtr T
  lc : s.localCtr T ≤ s'.localCtr T
  le : s'.localCtr T ≤ s'.tableCtr T
  /-- either no `reset_locals` happened in between, or the window moved past the old counter -/
  mv : s'.localCtr T = s.localCtr T ∨ s.tableCtr T ≤ s'.localCtr T

theorem mono_refl (T : Name) (s : St) (h : s.localCtr T ≤ s.tableCtr T) : Mono T s s :=
  ⟨Nat.le_refl _, Nat.le_refl _, h, Or.inl rfl⟩

theorem mono_trans {T : Name} {s s1 s2 : St} (a : Mono T s s1) (b : Mono T s1 s2) : Mono T s s2 := by
  refine ⟨Nat.le_trans a.tc b.tc, Nat.le_trans a.lc b.lc, b.le, ?_⟩
  rcases b.mv with h | h
  · rcases a.mv with h' | h'
    · exact Or.inl (h.trans h')
    · exact Or.inr (by omega)
  · exact Or.inr (Nat.le_trans a.tc h)

theorem mono_save (nm : List (Name × Name)) (T : Name) (hT : nm.lookup T = none)
    (s : St) (t : Name) (nk : Option Name) (i : Nat) (rs : Bool) (s' : St)
    (hle : s.localCtr T ≤ s.tableCtr T) (hw : WNSave nm t nk) (hs : save s t nk i rs = .ok s') :
    Mono T s s' := by
  obtain ⟨-, -, rfl⟩ := save_ok hs
  have htc := newTableCtr_table s t nk i T
  refine ⟨?_, Nat.le_refl _, ?_, Or.inl rfl⟩
  · simp only [htc]; split <;> omega
  · simp only [htc]; split <;> omega

theorem mono_reset (T : Name) (s : St) (hle : s.localCtr T ≤ s.tableCtr T) : Mono T s (resetLocals s) :=
  ⟨Nat.le_refl _, hle, Nat.le_refl _, Or.inr (Nat.le_refl _)⟩

theorem mono_saveAll (nm : List (Name × Name)) (T : Name) (hT : nm.lookup T = none)
    (rows : List (Name × Option Name × Nat)) : ∀ (s s' : St), s.localCtr T ≤ s.tableCtr T →
      (∀ x ∈ rows, WNSave nm x.1 x.2.1) → saveAll s rows = .ok s' → Mono T s s' := by
  induction rows with
  | nil => intro s s' hle _ h; simp only [saveAll, Except.ok.injEq] at h; cases h; exact mono_refl T _ hle
  | cons x rest ih =>
    intro s s' hle hw h
    obtain ⟨s1, h1, h2⟩ := saveAll_cons_ok h
    have m1 := mono_save nm T hT s x.1 x.2.1 x.2.2 true s1 hle (hw x (by simp)) h1
    exact mono_trans m1 (ih s1 s' m1.le (fun y hy => hw y (by simp [hy])) h2)

theorem mono_step (nm : List (Name × Name)) (T : Name) (hT : nm.lookup T = none)
    (s : St) (op : Op) (s1 : St) (o : Obs) (hle : s.localCtr T ≤ s.tableCtr T)
    (hw : WellNamedOp nm op) (h : step s op = .ok (s1, o)) : Mono T s s1 := by
  rcases step_ok_cases h with ⟨t, nk, i, rfl, hs⟩ | ⟨_, _, _, -, rfl⟩ | ⟨-, rfl⟩ | ⟨rows, s2, rfl, hs, rfl⟩
  · exact mono_save nm T hT s t nk i false s1 hle hw hs
  · exact mono_refl T _ hle
  · exact mono_reset T s hle
  · have m1 := mono_saveAll nm T hT rows s s2 hle hw hs
    exact mono_trans m1 (mono_reset T s2 m1.le)

theorem mono_run (nm : List (Name × Name)) (T : Name) (hT : nm.lookup T = none) (ops : List Op) :
    ∀ (s s' : St), s.localCtr T ≤ s.tableCtr T → (∀ op ∈ ops, WellNamedOp nm op) →
      run s ops = .ok s' → Mono T s s' := by
  induction ops with
  | nil => intro s s' hle _ h; simp only [run, Except.ok.injEq] at h; cases h; exact mono_refl T _ hle
  | cons op ops ih =>
    intro s s' hle hw h
    obtain ⟨s1, o, h1, h2⟩ := run_cons_ok h
    have m1 := mono_step nm T hT s op s1 o hle (hw op (by simp)) h1
    exact mono_trans m1 (ih s1 s' m1.le (fun op' h' => hw op' (by simp [h'])) h2)

/-! ### fresh ids: rows of the running iteration lie above the window bound -/

def FreshInv (s : St) (T : Name) : Prop :=
  (∀ r ∈ s.rows, r.since ≤ s.epoch) ∧
  ∀ r ∈ s.rows, r.table = T → r.since = s.epoch → r.resaved = false → s.localCtr T < r.id

theorem freshInv_step (nm : List (Name × Name)) (T : Name)
    (s : St) (op : Op) (s1 : St) (o : Obs) (hi : FreshInv s T)
    (hw : WellNamedOp nm op) (hc : FreshOp s op) (h : step s op = .ok (s1, o)) : FreshInv s1 T := by
  refine step_lift nm (fun s => FreshInv s T) (fun s t i rs => rs = false → s.localCtr t < i)
    ?_ ?_ ?_ s op s1 o hi hw ?_ h
  · intro s t nk i rs s' hp _ hsc hs
    obtain ⟨-, -, rfl⟩ := save_ok hs
    constructor
    · intro r hr
      simp only [List.mem_append, List.mem_singleton] at hr
      rcases hr with hr | rfl
      · exact hp.1 r hr
      · exact Nat.le_refl _
    · intro r hr h1 h2 h3
      simp only [List.mem_append, List.mem_singleton] at hr
      rcases hr with hr | rfl
      · exact hp.2 r hr h1 h2 h3
      · simp only [newRow] at h1 h3 ⊢
        subst h1
        exact hsc h3
  · intro s hp
    constructor
    · intro r hr; have := hp.1 r hr; simp only [resetLocals]; omega
    · intro r hr _ h2 _
      have := hp.1 r hr
      simp only [resetLocals] at h2
      omega
  · intro _ _ _ _ _ _ _ _ _ hf; cases hf
  · cases op with
    | save t nk i => intro _; exact hc
    | resave rows => intro x _ hf; cases hf
    | pick a b c => trivial
    | reset => trivial

/-! ### the dense-save (table) invariant -/

structure TableInv (s : St) (T : Name) : Prop where
  le : s.localCtr T ≤ s.tableCtr T
  cur : ∀ r ∈ s.rows, r.table = T → r.since = s.epoch → r.resaved = false →
    s.localCtr T < r.id ∧ r.id ≤ s.tableCtr T
  fill : ∀ i, s.localCtr T < i → i ≤ s.tableCtr T →
    ∃ r ∈ s.rows, r.table = T ∧ r.id = i ∧ r.since = s.epoch ∧ r.resaved = false
  ex : ∀ i, 1 ≤ i → i ≤ s.tableCtr T → i ≤ s.prior T ∨ ∃ r ∈ s.rows, r.table = T ∧ r.id = i
  ep : ∀ r ∈ s.rows, r.since ≤ s.epoch

/-- side condition of a single save under `DenseOp` -/
def DenseSave (s : St) (t : Name) (i : Nat) (rs : Bool) : Prop :=
  if rs then i ≤ s.tableCtr t else i = s.tableCtr t + 1

theorem tableInv_save (nm : List (Name × Name)) (T : Name) (hT : nm.lookup T = none)
    (s : St) (t : Name) (nk : Option Name) (i : Nat) (rs : Bool) (s' : St)
    (hi : TableInv s T) (hw : WNSave nm t nk) (hd : DenseSave s t i rs)
    (hs : save s t nk i rs = .ok s') : TableInv s' T := by
  obtain ⟨-, -, rfl⟩ := save_ok hs
  have htc := newTableCtr_table s t nk i T
  have hep : ∀ r ∈ s.rows ++ [newRow s t nk i rs], r.since ≤ s.epoch := by
    intro r hr
    simp only [List.mem_append, List.mem_singleton] at hr
    rcases hr with hr | rfl
    · exact hi.ep r hr
    · exact Nat.le_refl _
  have hle := hi.le
  by_cases htT : T = t
  · subst htT
    simp only [if_true] at htc
    cases rs with
    | false =>
      simp only [DenseSave, Bool.false_eq_true, if_false] at hd
      have htc' : newTableCtr s T nk i T = i := by rw [htc]; omega
      refine ⟨?_, ?_, ?_, ?_, hep⟩
      · simp only [htc']; omega
      · intro r hr h1 h2 h3
        simp only [List.mem_append, List.mem_singleton] at hr
        simp only [htc']
        rcases hr with hr | rfl
        · have := hi.cur r hr h1 h2 h3; omega
        · simp only [newRow]; omega
      · intro j h1 h2
        dsimp only at h1 h2
        simp only [htc'] at h2
        by_cases hj : j = i
        · subst hj
          exact ⟨newRow s T nk j false, by simp, rfl, rfl, rfl, rfl⟩
        · obtain ⟨r, hr, h3⟩ := hi.fill j h1 (by omega)
          exact ⟨r, by simp [hr], h3⟩
      · intro j h1 h2
        simp only [htc'] at h2
        by_cases hj : j = i
        · subst hj
          exact Or.inr ⟨newRow s T nk j false, by simp, rfl, rfl⟩
        · rcases hi.ex j h1 (by omega) with h3 | ⟨r, hr, h3⟩
          · exact Or.inl h3
          · exact Or.inr ⟨r, by simp [hr], h3⟩
    | true =>
      simp only [DenseSave, if_true] at hd
      have htc' : newTableCtr s T nk i T = s.tableCtr T := by rw [htc]; omega
      refine ⟨?_, ?_, ?_, ?_, hep⟩
      · simp only [htc']; exact hle
      · intro r hr h1 h2 h3
        simp only [List.mem_append, List.mem_singleton] at hr
        simp only [htc']
        rcases hr with hr | rfl
        · exact hi.cur r hr h1 h2 h3
        · simp [newRow] at h3
      · intro j h1 h2
        dsimp only at h1 h2
        simp only [htc'] at h2
        obtain ⟨r, hr, h3⟩ := hi.fill j h1 h2
        exact ⟨r, by simp [hr], h3⟩
      · intro j h1 h2
        simp only [htc'] at h2
        rcases hi.ex j h1 h2 with h3 | ⟨r, hr, h3⟩
        · exact Or.inl h3
        · exact Or.inr ⟨r, by simp [hr], h3⟩
  · simp only [htT, if_false] at htc
    have hold : ∀ r ∈ s.rows ++ [newRow s t nk i rs], r.table = T → r ∈ s.rows := by
      intro r hr hrt
      simp only [List.mem_append, List.mem_singleton] at hr
      rcases hr with hr | rfl
      · exact hr
      · exact absurd hrt.symm htT
    refine ⟨?_, ?_, ?_, ?_, hep⟩
    · simp only [htc]; exact hle
    · intro r hr h1 h2 h3; simp only [htc]; exact hi.cur r (hold r hr h1) h1 h2 h3
    · intro j h1 h2
      simp only [htc] at h2
      obtain ⟨r, hr, h3⟩ := hi.fill j h1 h2
      exact ⟨r, by simp [hr], h3⟩
    · intro j h1 h2
      simp only [htc] at h2
      rcases hi.ex j h1 h2 with h3 | ⟨r, hr, h3⟩
      · exact Or.inl h3
      · exact Or.inr ⟨r, by simp [hr], h3⟩

theorem tableInv_reset (s : St) (T : Name) (hi : TableInv s T) : TableInv (resetLocals s) T := by
  refine ⟨Nat.le_refl _, ?_, ?_, hi.ex, ?_⟩
  · intro r hr h1 h2 h3
    have := hi.ep r hr
    simp only [resetLocals] at h2
    omega
  · intro j h1 h2
    simp only [resetLocals] at h1 h2
    omega
  · intro r hr
    have := hi.ep r hr
    simp only [resetLocals]; omega

theorem tableInv_step (nm : List (Name × Name)) (T : Name) (hT : nm.lookup T = none)
    (s : St) (op : Op) (s1 : St) (o : Obs) (hi : TableInv s T)
    (hw : WellNamedOp nm op) (hd : DenseOp s op) (h : step s op = .ok (s1, o)) : TableInv s1 T := by
  refine step_lift nm (fun s => TableInv s T) DenseSave
    (fun s t nk i rs s' hp hw hsc hs => tableInv_save nm T hT s t nk i rs s' hp hw hsc hs)
    (fun s hp => tableInv_reset s T hp) ?_ s op s1 o hi hw ?_ h
  · intro s t nk i s' t' i' hs hsc
    simp only [DenseSave, if_true] at hsc ⊢
    obtain ⟨-, -, rfl⟩ := save_ok hs
    have := newTableCtr_table s t nk i t'
    simp only [this]
    split <;> omega
  · cases op with
    | save t nk i => simpa [DenseSave, DenseOp] using hd
    | resave rows => intro x hx; simpa [DenseSave] using hd x hx
    | pick a b c => trivial
    | reset => trivial

theorem tableInv_init (counters : List (Name × Nat)) (tables : List Name) (nickmap : List (Name × Name))
    (T : Name) : TableInv (init counters tables nickmap) T := by
  refine ⟨?_, ?_, ?_, ?_, ?_⟩ <;> simp [init]

/-! ### ids are unique per history table (sqlite `UNIQUE`, modelled by `save`) -/

def IdsUnique (s : St) : Prop :=
  ∀ r1 ∈ s.rows, ∀ r2 ∈ s.rows, r1.table = r2.table → r1.id = r2.id → r1 = r2

theorem idsUnique_save {s s' : St} {t : Name} {nk : Option Name} {i : Nat} {rs : Bool}
    (hi : IdsUnique s) (hs : save s t nk i rs = .ok s') : IdsUnique s' := by
  obtain ⟨-, hne, rfl⟩ := save_ok hs
  intro r1 h1 r2 h2 ht hid
  simp only [List.mem_append, List.mem_singleton] at h1 h2
  rcases h1 with h1 | rfl <;> rcases h2 with h2 | rfl
  · exact hi r1 h1 r2 h2 ht hid
  · exact absurd ⟨ht, hid⟩ (hne r1 h1)
  · exact absurd ⟨ht.symm, hid.symm⟩ (hne r2 h2)
  · rfl

theorem idsUnique_saveAll (rows : List (Name × Option Name × Nat)) : ∀ {s s' : St},
    IdsUnique s → saveAll s rows = .ok s' → IdsUnique s' := by
  induction rows with
  | nil => intro s s' hi h; simp only [saveAll, Except.ok.injEq] at h; cases h; exact hi
  | cons x rest ih =>
    intro s s' hi h
    obtain ⟨s1, h1, h2⟩ := saveAll_cons_ok h
    exact ih (idsUnique_save hi h1) h2

theorem ids_unique_run (ops : List Op) : ∀ (s s' : St), IdsUnique s → run s ops = .ok s' → IdsUnique s' := by
  induction ops with
  | nil => intro s s' hi h; simp only [run, Except.ok.injEq] at h; cases h; exact hi
  | cons op ops ih =>
    intro s s' hi h
    obtain ⟨s1, o, h1, h2⟩ := run_cons_ok h
    refine ih s1 s' ?_ h2
    rcases step_ok_cases h1 with ⟨t, nk, i, -, hs⟩ | ⟨_, _, _, -, rfl⟩ | ⟨-, rfl⟩ | ⟨rows, s2, -, hs, rfl⟩
    · exact idsUnique_save hi hs
    · exact hi
    · exact hi
    · exact (idsUnique_saveAll rows hi hs : IdsUnique s2)

end SnowModel.Proofs.C10
