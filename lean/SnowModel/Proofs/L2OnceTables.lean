/-
Which tables a piece of recipe can write to: `Template.tables`, `stmtsTables`, … collect the table
names of all templates in it (top-level, nested in fields and counts, friends — at any depth), and one
simultaneous induction on fuel shows that every output row written carries one of these names.
Used by Props/C06L2 to say "a table written only by top-level `just_once` templates receives all its
rows in the first iteration".
-/
import SnowModel.Proofs.L2Once

namespace SnowModel.L2

mutual
  /-- the tables of all templates inside a field definition -/
  def FieldDef.tables : FieldDef → List String
    | .nested t => t.tables
    | _ => []
  /-- the table of a template and of all templates inside it (count, fields, friends) -/
  def Template.tables : Template → List String
    | .mk tb _ _ cnt fs fr => tb :: (optTables cnt ++ (fieldsTables fs ++ stmtsTables fr))
  def optTables : Option FieldDef → List String
    | none => []
    | some fd => fd.tables
  def fieldsTables : List (String × FieldDef) → List String
    | [] => []
    | p :: rest => pairTables p ++ fieldsTables rest
  def pairTables : String × FieldDef → List String
    | (_, fd) => fd.tables
  /-- the tables of all templates inside a statement list -/
  def stmtsTables : List Stmt → List String
    | [] => []
    | st :: rest => st.tables ++ stmtsTables rest
  def Stmt.tables : Stmt → List String
    | .var _ fd => fd.tables
    | .obj t => t.tables
end

theorem Template.table_mem (t : Template) : t.table ∈ t.tables := by
  cases t; simp [Template.tables, Template.table]

theorem Template.count_sub (t : Template) : ∀ x ∈ optTables t.count, x ∈ t.tables := by
  cases t; intro x hx; simp only [Template.count] at hx; simp [Template.tables, hx]

theorem Template.fields_sub (t : Template) : ∀ x ∈ fieldsTables t.fields, x ∈ t.tables := by
  cases t; intro x hx; simp only [Template.fields] at hx; simp [Template.tables, hx]

theorem Template.friends_sub (t : Template) : ∀ x ∈ stmtsTables t.friends, x ∈ t.tables := by
  cases t; intro x hx; simp only [Template.friends] at hx; simp [Template.tables, hx]

theorem fieldsTables_cons (name : String) (fd : FieldDef) (rest : List (String × FieldDef)) :
    fieldsTables ((name, fd) :: rest) = fd.tables ++ fieldsTables rest := by
  simp only [fieldsTables, pairTables]

theorem stmtsTables_var (name : String) (fd : FieldDef) (rest : List Stmt) :
    stmtsTables (.var name fd :: rest) = fd.tables ++ stmtsTables rest := by
  simp only [stmtsTables, Stmt.tables]

theorem stmtsTables_obj (t : Template) (rest : List Stmt) :
    stmtsTables (.obj t :: rest) = t.tables ++ stmtsTables rest := by
  simp only [stmtsTables, Stmt.tables]

/-- `s'` extends the output of `s` by rows of tables in `T` -/
def OutIn (T : List String) (s s' : St) : Prop :=
  ∃ ext, s'.out = s.out ++ ext ∧ ∀ row ∈ ext, row.table ∈ T

theorem OutIn.refl (T : List String) (s : St) : OutIn T s s := ⟨[], by simp, by simp⟩

theorem OutIn.trans {T : List String} {a b c : St} (h1 : OutIn T a b) (h2 : OutIn T b c) : OutIn T a c := by
  obtain ⟨e1, he1, hc1⟩ := h1
  obtain ⟨e2, he2, hc2⟩ := h2
  refine ⟨e1 ++ e2, by rw [he2, he1, List.append_assoc], ?_⟩
  intro row hr
  rcases List.mem_append.1 hr with h | h
  · exact hc1 row h
  · exact hc2 row h

theorem OutIn.mono {T T' : List String} {a b : St} (h : OutIn T a b) (hs : ∀ x ∈ T, x ∈ T') :
    OutIn T' a b := by
  obtain ⟨e, he, hc⟩ := h
  exact ⟨e, he, fun row hr => hs _ (hc row hr)⟩

theorem Same.outIn {s s' : St} (h : Same s s') (T : List String) : OutIn T s s' :=
  ⟨[], by simp [h.1], by simp⟩

theorem writeRow_outIn {t : Template} {h : Nat} {s6 s8 : St} {u : Unit}
    (hw : writeRow t h s6 = .ok (u, s8)) : OutIn t.tables s6 s8 := by
  unfold writeRow at hw
  split at hw
  · simp only [Except.ok.injEq, Prod.mk.injEq] at hw
    obtain ⟨-, rfl⟩ := hw; exact OutIn.refl _ _
  · split at hw
    · cases hw
    · next fs s7 hc =>
      simp only [Except.ok.injEq, Prod.mk.injEq] at hw
      obtain ⟨-, rfl⟩ := hw
      have hs := canonFields_same _ hc
      refine ⟨[{ table := t.table, fields := fs }], by simp [hs.1], ?_⟩
      intro r hr
      simp only [List.mem_singleton] at hr
      subst hr
      exact t.table_mem

theorem regState_outIn (s : St) (t : Template) (i : Nat) (T : List String) : OutIn T s (regState s t i) :=
  ⟨[], by simp [regState_out], by simp⟩

/-- all six statements for one amount of fuel -/
def TabAll (fuel : Nat) : Prop :=
  (∀ c fd s v s', renderFd fuel c fd s = .ok (v, s') → OutIn fd.tables s s') ∧
  (∀ c t s r s', execTemplate fuel c t s = .ok (r, s') → OutIn t.tables s s') ∧
  (∀ c t i n last s r s', execRows fuel c t i n last s = .ok (r, s') → OutIn t.tables s s') ∧
  (∀ c t i s r s', execRow fuel c t i s = .ok (r, s') → OutIn t.tables s s') ∧
  (∀ c h fs s u s', execFields fuel c h fs s = .ok (u, s') → OutIn (fieldsTables fs) s s') ∧
  (∀ c sts cont s c' s', execStmts fuel c sts cont s = .ok (c', s') → OutIn (stmtsTables sts) s s')

theorem tabAll (fuel : Nat) : TabAll fuel := by
  induction fuel with
  | zero =>
    refine ⟨?_, ?_, ?_, ?_, ?_, ?_⟩
    · intro c fd s v s' h; rw [renderFd_zero] at h; cases h
    · intro c t s r s' h; rw [execTemplate_zero] at h; cases h
    · intro c t i n last s r s' h; rw [execRows_zero] at h; cases h
    · intro c t i s r s' h; rw [execRow_zero] at h; cases h
    · intro c hd fs s u s' h; rw [execFields_zero] at h; cases h
    · intro c sts cont s c' s' h; rw [execStmts_zero] at h; cases h
  | succ fuel ih =>
    obtain ⟨ihFd, ihT, ihRows, ihRow, ihF, ihS⟩ := ih
    refine ⟨?_, ?_, ?_, ?_, ?_, ?_⟩
    · intro c fd s v s' h
      cases fd with
      | lit l =>
        cases l with
        | str x =>
          simp only [renderFd] at h
          split at h
          · simp only [Except.ok.injEq, Prod.mk.injEq] at h
            obtain ⟨-, rfl⟩ := h; exact OutIn.refl _ _
          · split at h
            · simp only [Except.ok.injEq, Prod.mk.injEq] at h
              obtain ⟨-, rfl⟩ := h; exact OutIn.refl _ _
            · cases h
        | int n =>
          simp only [renderFd, Except.ok.injEq, Prod.mk.injEq] at h
          obtain ⟨-, rfl⟩ := h; exact OutIn.refl _ _
        | bool b =>
          simp only [renderFd, Except.ok.injEq, Prod.mk.injEq] at h
          obtain ⟨-, rfl⟩ := h; exact OutIn.refl _ _
        | null =>
          simp only [renderFd, Except.ok.injEq, Prod.mk.injEq] at h
          obtain ⟨-, rfl⟩ := h; exact OutIn.refl _ _
      | tmpl parts =>
        simp only [renderFd] at h
        exact (renderTmpl_same h).outIn _
      | ref path =>
        simp only [renderFd] at h
        exact (renderRef_same h).outIn _
      | nested t =>
        simp only [renderFd] at h
        simp only [FieldDef.tables]
        split at h
        · cases h
        · next s1 ht =>
          simp only [Except.ok.injEq, Prod.mk.injEq] at h
          obtain ⟨-, rfl⟩ := h; exact ihT _ _ _ _ _ ht
        · next hh s1 ht =>
          simp only [Except.ok.injEq, Prod.mk.injEq] at h
          obtain ⟨-, rfl⟩ := h; exact ihT _ _ _ _ _ ht
    · intro c t s r s' h
      rw [execTemplate_succ] at h
      split at h
      · cases h
      · next n s1 hcnt =>
        have h1 : OutIn t.tables s s1 := by
          split at hcnt
          · simp only [Except.ok.injEq, Prod.mk.injEq] at hcnt
            obtain ⟨-, rfl⟩ := hcnt; exact OutIn.refl _ _
          · next fd hfdc =>
            split at hcnt
            · cases hcnt
            · next v s2 hfd =>
              split at hcnt
              · cases hcnt
              · simp only [Except.ok.injEq, Prod.mk.injEq] at hcnt
                obtain ⟨-, rfl⟩ := hcnt
                refine (ihFd _ _ _ _ _ hfd).mono ?_
                intro x hx
                apply t.count_sub
                rw [hfdc]; simpa only [optTables] using hx
        exact h1.trans (ihRows _ _ _ _ _ _ _ _ h)
    · intro c t i n last s r s' h
      rw [execRows_succ] at h
      split at h
      · simp only [Except.ok.injEq, Prod.mk.injEq] at h
        obtain ⟨-, rfl⟩ := h; exact OutIn.refl _ _
      · split at h
        · cases h
        · next hh c2 s1 hrow =>
          exact (ihRow _ _ _ _ _ _ hrow).trans (ihRows _ _ _ _ _ _ _ _ h)
    · intro c t i s r s' h
      rw [execRow_succ] at h
      split at h
      · cases h
      · next u6 s6 hf =>
        split at h
        · cases h
        · next u8 s8 hw =>
          split at h
          · cases h
          · next c2 s9 hs =>
            simp only [Except.ok.injEq, Prod.mk.injEq] at h
            obtain ⟨-, rfl⟩ := h
            exact (regState_outIn s t i _).trans (((ihF _ _ _ _ _ _ hf).mono t.fields_sub).trans
              ((writeRow_outIn hw).trans ((ihS _ _ _ _ _ _ hs).mono t.friends_sub)))
    · intro c hd fs s u s' h
      cases fs with
      | nil =>
        rw [execFields_nil] at h
        simp only [Except.ok.injEq, Prod.mk.injEq] at h
        obtain ⟨-, rfl⟩ := h; exact OutIn.refl _ _
      | cons p rest =>
        obtain ⟨name, fd⟩ := p
        rw [execFields_cons] at h
        rw [fieldsTables_cons]
        split at h
        · cases h
        · next v s1 hfd =>
          exact ((ihFd _ _ _ _ _ hfd).mono (fun x hx => List.mem_append_left _ hx)).trans
            (((setRowValue_same s1 hd name v).outIn _).trans
              ((ihF _ _ _ _ _ _ h).mono (fun x hx => List.mem_append_right _ hx)))
    · intro c sts cont s c' s' h
      cases sts with
      | nil =>
        rw [execStmts_nil] at h
        simp only [Except.ok.injEq, Prod.mk.injEq] at h
        obtain ⟨-, rfl⟩ := h; exact OutIn.refl _ _
      | cons st rest =>
        cases st with
        | var name fd =>
          rw [execStmts_var] at h
          rw [stmtsTables_var]
          split at h
          · cases h
          · next v s1 hfd =>
            exact ((ihFd _ _ _ _ _ hfd).mono (fun x hx => List.mem_append_left _ hx)).trans
              ((ihS _ _ _ _ _ _ h).mono (fun x hx => List.mem_append_right _ hx))
        | obj t =>
          rw [execStmts_obj] at h
          rw [stmtsTables_obj]
          split at h
          · exact (ihS _ _ _ _ _ _ h).mono (fun x hx => List.mem_append_right _ hx)
          · split at h
            · cases h
            · next r s1 ht =>
              exact ((ihT _ _ _ _ _ ht).mono (fun x hx => List.mem_append_left _ hx)).trans
                ((ihS _ _ _ _ _ _ h).mono (fun x hx => List.mem_append_right _ hx))

theorem iterations_outIn (fuel : Nat) (r : Recipe) (k : Nat) : ∀ (c : Ctx) (cont : Bool) (s : St) (c' : Ctx)
    (s' : St), iterations fuel r k c cont s = .ok (c', s') → OutIn (stmtsTables r.statements) s s' := by
  induction k with
  | zero =>
    intro c cont s c' s' h
    simp only [iterations, Except.ok.injEq, Prod.mk.injEq] at h
    obtain ⟨-, rfl⟩ := h; exact OutIn.refl _ _
  | succ k ih =>
    intro c cont s c' s' h
    simp only [iterations] at h
    split at h
    · cases h
    · next c1 s1 hs =>
      split at h
      · cases h
      · exact ((tabAll fuel).2.2.2.2.2 _ _ _ _ _ _ hs).trans
          (((resetSlots_same s1).outIn _).trans (ih _ _ _ _ _ h))

theorem chain_outIn (fuel : Nat) (r : Recipe) (fs : Bool) (parts : List Nat) : ∀ (cont : Bool) (s s' : St),
    chain fuel r fs parts cont s = .ok s' → OutIn (stmtsTables r.statements) s s' := by
  induction parts with
  | nil =>
    intro cont s s' h
    simp only [chain, Except.ok.injEq] at h
    subst h; exact OutIn.refl _ _
  | cons k ks ih =>
    intro cont s s' h
    simp only [chain] at h
    split at h
    · cases h
    · next c1 s1 hi =>
      split at h
      · cases h
      · exact (iterations_outIn fuel r k _ _ _ _ _ hi).trans
          (((saveLoad_same s1).outIn _).trans (ih _ _ _ h))

theorem chainFrom_outIn (fuel : Nat) (r : Recipe) (fs : Bool) (c : Ctx) (parts : List Nat) (cont : Bool)
    (s s' : St) (h : chainFrom fuel r fs c parts cont s = .ok s') :
    OutIn (stmtsTables r.statements) s s' := by
  cases parts with
  | nil =>
    simp only [chainFrom, Except.ok.injEq] at h
    subst h; exact OutIn.refl _ _
  | cons k ks =>
    simp only [chainFrom] at h
    split at h
    · cases h
    · next c1 s1 hi =>
      split at h
      · cases h
      · exact (iterations_outIn fuel r k _ _ _ _ _ hi).trans
          (((saveLoad_same s1).outIn _).trans (chain_outIn fuel r fs ks _ _ _ h))

end SnowModel.L2
