/-
Helper lemmas for Props/C04L2: cutting a run into a chain of continued runs is invisible when the
continuation file loses nothing.

* `noVarStmts` / `NoTopVars`: without top-level `var` statements the top-level context never changes,
  so the empty context a continued run starts with is the context the uninterrupted run carries on with;
* `Boundary`: what every state between two iterations looks like (`resetSlots`, `saveLoad`, `initSt`);
* `persistClean` / `PersistClean`: the rows a continuation file holds carry no row, slot or dead-slot
  value; then saving cannot fail and, at a boundary, `saveLoad` is the identity on the whole state;
* `cleanCuts` / `CleanCuts`: `PersistClean` at every cut of the uninterrupted run;
* `chain_eq_gen`: the chain equals the uninterrupted run.
-/
import SnowModel.Core.L2Hyp
import SnowModel.Proofs.L2Ext
import SnowModel.Proofs.C04

namespace SnowModel.L2

/-! ### no top-level variables: the top-level context is constant -/


theorem execStmts_ctx (fuel : Nat) : ∀ (c : Ctx) (sts : List Stmt) (cont : Bool) (s : St) (c' : Ctx) (s' : St),
    noVarStmts sts = true → execStmts fuel c sts cont s = .ok (c', s') → c' = c := by
  induction fuel with
  | zero => intro c sts cont s c' s' _ h; rw [execStmts_zero] at h; cases h
  | succ fuel ih =>
    intro c sts cont s c' s' hv h
    cases sts with
    | nil =>
      rw [execStmts_nil] at h
      simp only [Except.ok.injEq, Prod.mk.injEq] at h
      exact h.1.symm
    | cons st rest =>
      cases st with
      | var name fd => simp [noVarStmts] at hv
      | obj t =>
        have hv' : noVarStmts rest = true := by
          simp only [noVarStmts, List.all_cons, Bool.and_eq_true] at hv ⊢
          exact hv.2
        rw [execStmts_obj] at h
        split at h
        · exact ih _ _ _ _ _ _ hv' h
        · split at h
          · cases h
          · exact ih _ _ _ _ _ _ hv' h

/-- without top-level variables a run started with no variables keeps its top-level context -/
theorem iterations_ctx (fuel : Nat) (r : Recipe) (hv : NoTopVars r) (k : Nat) :
    ∀ (c : Ctx) (cont : Bool) (s : St) (c' : Ctx) (s' : St), c.vars = [] →
      iterations fuel r k c cont s = .ok (c', s') → c' = c := by
  induction k with
  | zero =>
    intro c cont s c' s' _ h
    simp only [iterations, Except.ok.injEq, Prod.mk.injEq] at h
    exact h.1.symm
  | succ k ih =>
    intro c cont s c' s' hc h
    rw [iterations_succ] at h
    split at h
    · cases h
    · next c1 s1 hs =>
      have h1 : c1 = c := execStmts_ctx fuel _ _ _ _ _ _ hv hs
      subst h1
      split at h
      · cases h
      · have hcc : ({ c1 with vars := c1.vars.map (fun p => (p.1, freezeVal s1 p.2)) } : Ctx) = c1 := by
          cases c1; simp_all
        rw [hcc] at h
        exact ih _ _ _ _ _ hc h

/-! ### iteration boundaries -/

/-- the shape of a state between two iterations: no per-iteration binding, all slots fresh, no live
    slot value in any stored row -/
structure Boundary (s : St) : Prop where
  nick : s.nick = []
  seen : s.seen = []
  slots : s.slots = s.names.map (fun p => (p.1, SlotSt.unused))
  rows : ∀ r ∈ s.rows, ∀ p ∈ r.values, ∀ n, p.2 ≠ .slot n

theorem freezeVal_ne_slot (s : St) (v : Val) (n : String) : freezeVal s v ≠ .slot n := by
  cases v <;> simp [freezeVal]

theorem freezeVal_of_ne_slot (s : St) {v : Val} (h : ∀ n, v ≠ .slot n) : freezeVal s v = v := by
  cases v <;> simp_all [freezeVal]

theorem freezeRows_noSlot (s : St) : ∀ r ∈ freezeRows s, ∀ p ∈ r.values, ∀ n, p.2 ≠ .slot n := by
  intro r hr p hp n
  simp only [freezeRows, List.mem_map] at hr
  obtain ⟨r0, -, rfl⟩ := hr
  simp only [List.mem_map] at hp
  obtain ⟨p0, -, rfl⟩ := hp
  exact freezeVal_ne_slot s p0.2 n

/-- freezing a state whose rows hold no live slot changes nothing -/
theorem freezeRows_of_noSlot {s : St} (h : ∀ r ∈ s.rows, ∀ p ∈ r.values, ∀ n, p.2 ≠ .slot n) :
    freezeRows s = s.rows := by
  unfold freezeRows
  conv => rhs; rw [← List.map_id s.rows]
  apply List.map_congr_left
  intro r hr
  have hv : r.values.map (fun p => (p.1, freezeVal s p.2)) = r.values := by
    conv => rhs; rw [← List.map_id r.values]
    apply List.map_congr_left
    intro p hp
    rw [freezeVal_of_ne_slot s (h r hr p hp)]
    rfl
  rw [hv]
  rfl

theorem resetSlots_boundary (s : St) : Boundary (resetSlots s) :=
  ⟨rfl, rfl, rfl, freezeRows_noSlot s⟩

theorem initSt_boundary (r : Recipe) : Boundary (initSt r) :=
  ⟨rfl, rfl, rfl, by intro r hr; simp [initSt] at hr⟩

/-- a run leaves a boundary state (if it starts from one, or makes at least one iteration) -/
theorem iterations_boundary (fuel : Nat) (r : Recipe) (k : Nat) :
    ∀ (c : Ctx) (cont : Bool) (s : St) (c' : Ctx) (s' : St),
      iterations fuel r k c cont s = .ok (c', s') → (0 < k ∨ Boundary s) → Boundary s' := by
  induction k with
  | zero =>
    intro c cont s c' s' h hb
    simp only [iterations, Except.ok.injEq, Prod.mk.injEq] at h
    obtain ⟨-, rfl⟩ := h
    rcases hb with hb | hb
    · omega
    · exact hb
  | succ k ih =>
    intro c cont s c' s' h _
    rw [iterations_succ] at h
    split at h
    · cases h
    · next c1 s1 hs =>
      split at h
      · cases h
      · exact ih _ _ _ _ _ h (Or.inr (resetSlots_boundary s1))

/-- the literal form: after at least one iteration the state is a `resetSlots` image -/
theorem iterations_resetSlots (fuel : Nat) (r : Recipe) (k : Nat) :
    ∀ (c : Ctx) (cont : Bool) (s : St) (c' : Ctx) (s' : St),
      iterations fuel r (k + 1) c cont s = .ok (c', s') → ∃ s0, s' = resetSlots s0 := by
  induction k with
  | zero =>
    intro c cont s c' s' h
    rw [iterations_succ] at h
    split at h
    · cases h
    · next c1 s1 hs =>
      split at h
      · cases h
      · simp only [iterations, Except.ok.injEq, Prod.mk.injEq] at h
        exact ⟨s1, h.2.symm⟩
  | succ k ih =>
    intro c cont s c' s' h
    rw [iterations_succ] at h
    split at h
    · cases h
    · split at h
      · cases h
      · exact ih _ _ _ _ _ h

/-! ### persistent rows without row / slot values -/


theorem PersistClean.iff {s : St} : PersistClean s ↔
    ∀ p ∈ s.pNick ++ s.pTable, ∀ q ∈ (rowData s p.2).values,
      (∀ h, q.2 ≠ .row h) ∧ (∀ n, q.2 ≠ .slot n) ∧ (∀ t i, q.2 ≠ .deadSlot t i) := by
  unfold PersistClean persistClean
  simp only [List.all_eq_true]
  constructor
  · intro h p hp q hq
    have := h p hp q hq
    cases hq2 : q.2 <;> simp_all [plainVal]
  · intro h p hp q hq
    obtain ⟨h1, h2, h3⟩ := h p hp q hq
    cases hq2 : q.2 <;> simp_all [plainVal]

/-- saving a state whose persistent rows are clean cannot fail -/
theorem saveFails_of_clean {s : St} (h : PersistClean s) : saveFails s = false := by
  rw [PersistClean.iff] at h
  unfold saveFails
  rw [Bool.eq_false_iff]
  intro hf
  simp only [List.any_eq_true] at hf
  obtain ⟨p, hp, q, hq, hm⟩ := hf
  obtain ⟨-, h2, h3⟩ := h p hp q hq
  cases hq2 : q.2 <;> simp_all

theorem dropRowVals_of_noRow {r : RowData} (h : ∀ q ∈ r.values, ∀ k, q.2 ≠ .row k) : dropRowVals r = r := by
  obtain ⟨t, i, vs⟩ := r
  simp only [dropRowVals, RowData.mk.injEq, true_and]
  rw [List.filter_eq_self]
  intro q hq
  have := h q hq
  cases hq2 : q.2 <;> simp_all

/-- **the continuation file loses nothing**: at an iteration boundary, a state whose persistent rows
    hold plain values only is reproduced exactly by saving and loading -/
theorem saveLoad_eq_self {s : St} (hb : Boundary s) (hp : PersistClean s) : saveLoad s = s := by
  rw [PersistClean.iff] at hp
  have hrows : (freezeRows s).mapIdx (fun h r => if isPersistent s h then dropRowVals r else r) = s.rows := by
    rw [freezeRows_of_noSlot hb.rows]
    apply List.ext_getElem
    · simp
    · intro i h1 h2
      simp only [List.getElem_mapIdx]
      split
      · next hper =>
        apply dropRowVals_of_noRow
        simp only [isPersistent, List.any_eq_true, beq_iff_eq] at hper
        obtain ⟨p, hp1, hp2⟩ := hper
        intro q hq k
        have hrd : rowData s p.2 = s.rows[i] := by
          unfold rowData
          rw [hp2]
          simp [List.getD_eq_getElem?_getD, h2]
        exact (hp p hp1 q (by rw [hrd]; exact hq)).1 k
      · rfl
  obtain ⟨hn, hs, hsl, -⟩ := hb
  unfold saveLoad
  rw [hrows, ← hsl]
  cases s
  simp only at hn hs
  subst hn hs
  rfl

/-- in the literal form asked for: a `resetSlots` image with clean persistent rows -/
theorem saveLoad_resetSlots {s0 : St} (hp : PersistClean (resetSlots s0)) :
    saveLoad (resetSlots s0) = resetSlots s0 :=
  saveLoad_eq_self (resetSlots_boundary s0) hp

theorem saveLoad_boundary (s : St) : Boundary (saveLoad s) := by
  refine ⟨rfl, rfl, rfl, ?_⟩
  intro r hr p hp n
  simp only [saveLoad] at hr
  obtain ⟨i, hi, rfl⟩ := List.mem_mapIdx.1 hr
  have hmem : (freezeRows s)[i] ∈ freezeRows s := List.getElem_mem _
  split at hp
  · simp only [dropRowVals, List.mem_filter] at hp
    exact freezeRows_noSlot s _ hmem p hp.1 n
  · exact freezeRows_noSlot s _ hmem p hp n

/-! ### clean cuts -/


theorem CleanCuts.cons {fuel : Nat} {r : Recipe} {fs : Bool} {k : Nat} {ks : List Nat} {cont : Bool} {s : St}
    (h : CleanCuts fuel r fs (k :: ks) cont s) {c1 : Ctx} {s1 : St}
    (hi : iterations fuel r k { obj := none, vars := [] } cont s = .ok (c1, s1))
    (hne : ks ≠ [] ∨ fs = true) : PersistClean s1 ∧ CleanCuts fuel r fs ks true s1 := by
  unfold CleanCuts at h
  rw [cleanCuts, hi] at h
  simp only [Bool.or_eq_true, Bool.and_eq_true, Bool.not_eq_true', List.isEmpty_iff] at h
  rcases h with ⟨h1, h2⟩ | h
  · rcases hne with hne | hne
    · exact absurd h1 hne
    · rw [hne] at h2; cases h2
  · exact h

/-- the Prop reading of `CleanCuts` -/
theorem CleanCuts.iff_cons (fuel : Nat) (r : Recipe) (fs : Bool) (k : Nat) (ks : List Nat) (cont : Bool) (s : St) :
    CleanCuts fuel r fs (k :: ks) cont s ↔
      ∀ c1 s1, iterations fuel r k { obj := none, vars := [] } cont s = .ok (c1, s1) →
        (ks = [] ∧ fs = false) ∨ (PersistClean s1 ∧ CleanCuts fuel r fs ks true s1) := by
  unfold CleanCuts PersistClean
  rw [cleanCuts]
  cases hi : iterations fuel r k { obj := none, vars := [] } cont s with
  | error e => simp
  | ok p =>
    obtain ⟨c1, s1⟩ := p
    simp [List.isEmpty_iff]

/-! ### the chain is the uninterrupted run -/

theorem chain_single (fuel : Nat) (r : Recipe) (k : Nat) (cont : Bool) (s : St) :
    chain fuel r false [k] cont s =
      (iterations fuel r k { obj := none, vars := [] } cont s).map (fun p => saveLoad p.2) := by
  simp only [chain]
  cases iterations fuel r k { obj := none, vars := [] } cont s with
  | error e => rfl
  | ok p => obtain ⟨c1, s1⟩ := p; simp [Except.map]

theorem iterations_add' (fuel : Nat) (r : Recipe) (a b : Nat) (ha : 0 < a) (c : Ctx) (cont : Bool) (s : St) :
    iterations fuel r (a + b) c cont s =
      (match iterations fuel r a c cont s with
       | .error e => .error e
       | .ok (c1, s1) => iterations fuel r b c1 true s1) := by
  obtain ⟨k, rfl⟩ : ∃ k, a = k + 1 := ⟨a - 1, by omega⟩
  exact iterations_add_succ fuel r k b c cont s

/-- general form, for both values of `finalSave` -/
theorem chain_eq_gen (fuel : Nat) (r : Recipe) (fs : Bool) (hv : NoTopVars r) (parts : List Nat) :
    ∀ (cont : Bool) (s : St), parts ≠ [] → (∀ k ∈ parts, 0 < k) → CleanCuts fuel r fs parts cont s →
      chain fuel r fs parts cont s =
        (iterations fuel r parts.sum { obj := none, vars := [] } cont s).map (fun p => saveLoad p.2) := by
  induction parts with
  | nil => intro cont s hne; exact absurd rfl hne
  | cons k ks ih =>
    intro cont s _ hpos hc
    have hk : 0 < k := hpos k (List.mem_cons_self ..)
    have hpos' : ∀ k' ∈ ks, 0 < k' := fun k' hk' => hpos k' (List.mem_cons_of_mem _ hk')
    rw [List.sum_cons, iterations_add' fuel r k ks.sum hk]
    simp only [chain]
    cases hi : iterations fuel r k { obj := none, vars := [] } cont s with
    | error e => rfl
    | ok p =>
      obtain ⟨c1, s1⟩ := p
      have hc1 : c1 = { obj := none, vars := [] } := iterations_ctx fuel r hv k _ _ _ _ _ rfl hi
      subst hc1
      simp only
      by_cases hks : ks = []
      · subst hks
        cases fs with
        | false => simp [chain, iterations, Except.map]
        | true =>
          have hcl := (hc.cons hi (Or.inr rfl)).1
          simp [chain, iterations, Except.map, saveFails_of_clean hcl]
      · obtain ⟨hcl, hrest⟩ := hc.cons hi (Or.inl hks)
        have hb : Boundary s1 := iterations_boundary fuel r k _ _ _ _ _ hi (Or.inl hk)
        rw [saveFails_of_clean hcl, saveLoad_eq_self hb hcl, Bool.and_false]
        exact ih true s1 hks hpos' hrest

/-- requiring a clean final state as well is the stronger hypothesis -/
theorem CleanCuts.mono (fuel : Nat) (r : Recipe) (parts : List Nat) :
    ∀ (cont : Bool) (s : St), CleanCuts fuel r true parts cont s → CleanCuts fuel r false parts cont s := by
  induction parts with
  | nil => intro cont s _; rfl
  | cons k ks ih =>
    intro cont s h
    rw [CleanCuts.iff_cons] at h ⊢
    intro c1 s1 hi
    rcases h c1 s1 hi with ⟨-, h⟩ | ⟨h1, h2⟩
    · cases h
    · exact Or.inr ⟨h1, ih _ _ h2⟩

/-- with `finalSave`, `CleanCuts` makes the final state of the uninterrupted run a clean boundary -/
theorem CleanCuts.final (fuel : Nat) (r : Recipe) (hv : NoTopVars r) (parts : List Nat) :
    ∀ (cont : Bool) (s : St), parts ≠ [] → (∀ k ∈ parts, 0 < k) → CleanCuts fuel r true parts cont s →
      ∀ c' s', iterations fuel r parts.sum { obj := none, vars := [] } cont s = .ok (c', s') →
        PersistClean s' ∧ Boundary s' := by
  induction parts with
  | nil => intro cont s hne; exact absurd rfl hne
  | cons k ks ih =>
    intro cont s _ hpos hc c' s' hsum
    have hk : 0 < k := hpos k (List.mem_cons_self ..)
    have hpos' : ∀ k' ∈ ks, 0 < k' := fun k' hk' => hpos k' (List.mem_cons_of_mem _ hk')
    rw [List.sum_cons, iterations_add' fuel r k ks.sum hk] at hsum
    cases hi : iterations fuel r k { obj := none, vars := [] } cont s with
    | error e => rw [hi] at hsum; cases hsum
    | ok p =>
      obtain ⟨c1, s1⟩ := p
      rw [hi] at hsum
      simp only at hsum
      have hc1 : c1 = { obj := none, vars := [] } := iterations_ctx fuel r hv k _ _ _ _ _ rfl hi
      subst hc1
      obtain ⟨hcl, hrest⟩ := hc.cons hi (Or.inr rfl)
      by_cases hks : ks = []
      · subst hks
        simp only [List.sum_nil, iterations, Except.ok.injEq, Prod.mk.injEq] at hsum
        obtain ⟨-, rfl⟩ := hsum
        exact ⟨hcl, iterations_boundary fuel r k _ _ _ _ _ hi (Or.inl hk)⟩
      · exact ih true s1 hks hpos' hrest c' s' hsum

theorem CleanCuts.single {fuel : Nat} {r : Recipe} {n : Nat} {cont : Bool} {s : St}
    (h : ∀ c' s', iterations fuel r n { obj := none, vars := [] } cont s = .ok (c', s') → PersistClean s') :
    CleanCuts fuel r true [n] cont s := by
  rw [CleanCuts.iff_cons]
  intro c1 s1 hi
  exact Or.inr ⟨h c1 s1 hi, rfl⟩

/-- under `CleanCuts … true` the final `saveLoad` is the identity too -/
theorem chain_eq_final (fuel : Nat) (r : Recipe) (fs : Bool) (hv : NoTopVars r) (parts : List Nat)
    (cont : Bool) (s : St) (hne : parts ≠ []) (hpos : ∀ k ∈ parts, 0 < k)
    (hc : CleanCuts fuel r true parts cont s) :
    chain fuel r fs parts cont s =
      (iterations fuel r parts.sum { obj := none, vars := [] } cont s).map (fun p => p.2) := by
  have hc' : CleanCuts fuel r fs parts cont s := by
    cases fs
    · exact CleanCuts.mono fuel r parts cont s hc
    · exact hc
  rw [chain_eq_gen fuel r fs hv parts cont s hne hpos hc']
  have hfin := CleanCuts.final fuel r hv parts cont s hne hpos hc
  cases hi : iterations fuel r parts.sum { obj := none, vars := [] } cont s with
  | error e => rfl
  | ok p =>
    obtain ⟨c', s'⟩ := p
    obtain ⟨h1, h2⟩ := hfin c' s' hi
    simp only [Except.map, saveLoad_eq_self h2 h1]

end SnowModel.L2
