/-
Helper lemmas for C01L2, part 3: the simultaneous induction on fuel (`trAll`: every function of the
mutual block keeps the invariant and relates written ids to created rows, for syntax without a field
called `id`), then whole runs (`iterations`, `saveLoad`, `chain`, `initSt`).
-/
import SnowModel.Proofs.L2Ids2

namespace SnowModel.L2

/-- "no field is called `id`", abstractly: four predicates closed under taking sub-terms.
    (`Props/C01L2` instantiates them with its boolean functions.) -/
structure NoIdP where
  fd : FieldDef → Prop
  t : Template → Prop
  fs : List (String × FieldDef) → Prop
  st : List Stmt → Prop
  fd_nested : ∀ {t'}, fd (.nested t') → t t'
  t_count : ∀ {t' fd'}, t t' → t'.count = some fd' → fd fd'
  t_fields : ∀ {t'}, t t' → fs t'.fields
  t_friends : ∀ {t'}, t t' → st t'.friends
  fs_cons : ∀ {n d rest}, fs ((n, d) :: rest) → n ≠ "id" ∧ fd d ∧ fs rest
  st_var : ∀ {n d rest}, st (.var n d :: rest) → fd d ∧ st rest
  st_obj : ∀ {t' rest}, st (.obj t' :: rest) → t t' ∧ st rest

/-- all six statements for one amount of fuel -/
def TrAll (P : NoIdP) (fuel : Nat) : Prop :=
  (∀ c fd s v s', P.fd fd → renderFd fuel c fd s = .ok (v, s') → Tr s s') ∧
  (∀ c t s r s', P.t t → execTemplate fuel c t s = .ok (r, s') → Tr s s') ∧
  (∀ c t i n last s r s', P.t t → execRows fuel c t i n last s = .ok (r, s') → Tr s s') ∧
  (∀ c t i s r s', P.t t → execRow fuel c t i s = .ok (r, s') → Tr s s') ∧
  (∀ c h fs s u s', P.fs fs → execFields fuel c h fs s = .ok (u, s') → Tr s s') ∧
  (∀ c sts cont s c' s', P.st sts → execStmts fuel c sts cont s = .ok (c', s') → Tr s s')

theorem trAll (P : NoIdP) (fuel : Nat) : TrAll P fuel := by
  induction fuel with
  | zero =>
    refine ⟨?_, ?_, ?_, ?_, ?_, ?_⟩
    · intro c fd s v s' _ h; rw [renderFd_zero] at h; cases h
    · intro c t s r s' _ h; rw [execTemplate_zero] at h; cases h
    · intro c t i n last s r s' _ h; rw [execRows_zero] at h; cases h
    · intro c t i s r s' _ h; rw [execRow_zero] at h; cases h
    · intro c hd fs s u s' _ h; rw [execFields_zero] at h; cases h
    · intro c sts cont s c' s' _ h; rw [execStmts_zero] at h; cases h
  | succ fuel ih =>
    obtain ⟨ihFd, ihT, ihRows, ihRow, ihF, ihS⟩ := ih
    refine ⟨?_, ?_, ?_, ?_, ?_, ?_⟩
    · intro c fd s v s' hP h
      cases fd with
      | lit l =>
        cases l with
        | str x =>
          simp only [renderFd] at h
          split at h
          · simp only [Except.ok.injEq, Prod.mk.injEq] at h
            obtain ⟨-, rfl⟩ := h; exact Tr.refl _
          · split at h
            · simp only [Except.ok.injEq, Prod.mk.injEq] at h
              obtain ⟨-, rfl⟩ := h; exact Tr.refl _
            · cases h
        | int n =>
          simp only [renderFd, Except.ok.injEq, Prod.mk.injEq] at h
          obtain ⟨-, rfl⟩ := h; exact Tr.refl _
        | bool b =>
          simp only [renderFd, Except.ok.injEq, Prod.mk.injEq] at h
          obtain ⟨-, rfl⟩ := h; exact Tr.refl _
        | null =>
          simp only [renderFd, Except.ok.injEq, Prod.mk.injEq] at h
          obtain ⟨-, rfl⟩ := h; exact Tr.refl _
      | tmpl parts =>
        simp only [renderFd] at h
        exact (renderTmpl_pres h).tr
      | ref path =>
        simp only [renderFd] at h
        exact (renderRef_pres h).tr
      | nested t =>
        have hPt := P.fd_nested hP
        simp only [renderFd] at h
        split at h
        · cases h
        · next s1 ht =>
          simp only [Except.ok.injEq, Prod.mk.injEq] at h
          obtain ⟨-, rfl⟩ := h; exact ihT _ _ _ _ _ hPt ht
        · next hh s1 ht =>
          simp only [Except.ok.injEq, Prod.mk.injEq] at h
          obtain ⟨-, rfl⟩ := h; exact ihT _ _ _ _ _ hPt ht
    · intro c t s r s' hP h
      rw [execTemplate_succ] at h
      split at h
      · cases h
      · next n s1 hcnt =>
        have h1 : Tr s s1 := by
          split at hcnt
          · simp only [Except.ok.injEq, Prod.mk.injEq] at hcnt
            obtain ⟨-, rfl⟩ := hcnt; exact Tr.refl _
          · next fd0 hc0 =>
            split at hcnt
            · cases hcnt
            · next v s2 hfd =>
              split at hcnt
              · cases hcnt
              · simp only [Except.ok.injEq, Prod.mk.injEq] at hcnt
                obtain ⟨-, rfl⟩ := hcnt; exact ihFd _ _ _ _ _ (P.t_count hP hc0) hfd
        exact h1.trans (ihRows _ _ _ _ _ _ _ _ hP h)
    · intro c t i n last s r s' hP h
      rw [execRows_succ] at h
      split at h
      · simp only [Except.ok.injEq, Prod.mk.injEq] at h
        obtain ⟨-, rfl⟩ := h; exact Tr.refl _
      · split at h
        · cases h
        · next hh c2 s1 hrow =>
          exact (ihRow _ _ _ _ _ _ hP hrow).trans (ihRows _ _ _ _ _ _ _ _ hP h)
    · intro c t i s r s' hP h
      rw [execRow_succ] at h
      split at h
      · cases h
      · next u6 s6 hf =>
        split at h
        · cases h
        · next u8 s8 hw =>
          split at h
          · cases h
          · next c2 s9 hs =>
            simp only [Except.ok.injEq, Prod.mk.injEq] at h
            obtain ⟨-, rfl⟩ := h
            intro hg
            have hgA := regState_good t i hg
            obtain ⟨hg6, rel6⟩ := ihF _ _ _ _ _ _ (P.t_fields hP) hf hgA
            obtain ⟨w1, w2, w3⟩ := writeRow_spec hw
            have hg8 := w1 hg6
            obtain ⟨hg9, rel9⟩ := ihS _ _ _ _ _ _ (P.t_friends hP) hs hg8
            refine ⟨hg9, ?_⟩
            exact execRow_rel (regState_sigs s t i) (regState_out s t i) rel6
              (by unfold sigs; rw [w2]) w3 rel9
    · intro c hd fs s u s' hP h
      cases fs with
      | nil =>
        rw [execFields_nil] at h
        simp only [Except.ok.injEq, Prod.mk.injEq] at h
        obtain ⟨-, rfl⟩ := h; exact Tr.refl _
      | cons p rest =>
        obtain ⟨name, fd⟩ := p
        obtain ⟨hne, hPfd, hPrest⟩ := P.fs_cons hP
        rw [execFields_cons] at h
        split at h
        · cases h
        · next v s1 hfd =>
          exact (ihFd _ _ _ _ _ hPfd hfd).trans
            ((setRowValue_tr s1 hd hne v).trans (ihF _ _ _ _ _ _ hPrest h))
    · intro c sts cont s c' s' hP h
      cases sts with
      | nil =>
        rw [execStmts_nil] at h
        simp only [Except.ok.injEq, Prod.mk.injEq] at h
        obtain ⟨-, rfl⟩ := h; exact Tr.refl _
      | cons st rest =>
        cases st with
        | var name fd =>
          obtain ⟨hPfd, hPrest⟩ := P.st_var hP
          rw [execStmts_var] at h
          split at h
          · cases h
          · next v s1 hfd => exact (ihFd _ _ _ _ _ hPfd hfd).trans (ihS _ _ _ _ _ _ hPrest h)
        | obj t =>
          obtain ⟨hPt, hPrest⟩ := P.st_obj hP
          rw [execStmts_obj] at h
          split at h
          · exact ihS _ _ _ _ _ _ hPrest h
          · split at h
            · cases h
            · next r s1 ht => exact (ihT _ _ _ _ _ hPt ht).trans (ihS _ _ _ _ _ _ hPrest h)

theorem stmts_tr (P : NoIdP) {fuel : Nat} {c c' : Ctx} {sts : List Stmt} {cont : Bool} {s s' : St}
    (hP : P.st sts) (h : execStmts fuel c sts cont s = .ok (c', s')) : Tr s s' :=
  (trAll P fuel).2.2.2.2.2 _ _ _ _ _ _ hP h

/-! ### whole runs -/

/-- no slot holds a reserved id -/
def NoAlloc (s : St) : Prop := ∀ T, aIdsOf s.names s.slots T = []

theorem notFilled_noAlloc {s : St} (h : notFilled s = []) : NoAlloc s := by
  intro T
  unfold notFilled at h
  rw [List.map_eq_nil_iff, List.filter_eq_nil_iff] at h
  unfold aIdsOf
  rw [List.filterMap_eq_nil_iff]
  intro p hp
  have := h p hp
  split
  · next i hi => rw [hi] at this; simp at this
  · rfl

theorem aget_map_val {α β : Type} (f : α → β) (l : AList α) (k : String) :
    aget (l.map (fun p => (p.1, f p.2))) k = (aget l k).map f := by
  induction l with
  | nil => rfl
  | cons q l ih =>
    obtain ⟨a, b⟩ := q
    rw [List.map_cons, aget_cons, aget_cons]
    by_cases hk : k = a
    · rw [if_pos hk, if_pos hk]; rfl
    · rw [if_neg hk, if_neg hk]; exact ih

/-- freezing the slot values of a row does not touch its id -/
theorem idNat_freeze (s : St) (r : RowData) :
    idNat { r with values := r.values.map (fun p => (p.1, freezeVal s p.2)) } = idNat r := by
  have e := aget_map_val (freezeVal s) r.values "id"
  unfold aget at e
  simp only [idNat, e]
  cases hl : List.lookup "id" r.values with
  | none => rfl
  | some v => cases v <;> rfl

theorem freezeRows_sigs (s : St) : (freezeRows s).map sig = s.rows.map sig := by
  unfold freezeRows
  rw [List.map_map]
  apply List.map_congr_left
  intro r _
  exact congrArg (Prod.mk r.table) (idNat_freeze s r)

theorem resetSlots_sigs (s : St) : sigs (resetSlots s) = sigs s := freezeRows_sigs s

theorem resetSlots_good {s : St} (hg : Good s) (hz : NoAlloc s) :
    Good (resetSlots s) ∧ NoAlloc (resetSlots s) :=
  ⟨GoodF_rows (rows := s.rows) (freezeRows_sigs s) (GoodF_reset hg hz), fun T => aIdsOf_unused _ _ T⟩

theorem aget_filter {α : Type} (p : String × α → Bool) (l : AList α) {k : String} {v : α}
    (h : aget l k = some v) (hp : p (k, v) = true) : aget (l.filter p) k = some v := by
  induction l with
  | nil => simp [aget] at h
  | cons q l ih =>
    obtain ⟨a, b⟩ := q
    rw [aget_cons] at h
    by_cases hk : k = a
    · subst hk
      rw [if_pos rfl] at h
      simp only [Option.some.injEq] at h
      subst h
      rw [List.filter_cons_of_pos hp, aget_cons, if_pos rfl]
    · rw [if_neg hk] at h
      by_cases hq : p (a, b) = true
      · rw [List.filter_cons_of_pos hq, aget_cons, if_neg hk]; exact ih h
      · rw [List.filter_cons_of_neg hq]; exact ih h

theorem idNat_dropRows {r : RowData} (h : (idNat r).isSome) :
    idNat { r with values := r.values.filter (fun p => match p.2 with | .row _ => false | _ => true) } =
      idNat r := by
  obtain ⟨n, hn⟩ := Option.isSome_iff_exists.1 h
  obtain ⟨i, hi, -⟩ := idNat_some hn
  have e := aget_filter (fun p => match p.2 with | .row _ => false | _ => true) r.values hi rfl
  unfold aget at e hi
  simp only [idNat, e, hi]

theorem saveLoad_sigs {s : St} (hg : Good s) : sigs (saveLoad s) = sigs s := by
  have hf : sigs (resetSlots s) = sigs s := freezeRows_sigs s
  unfold sigs at hf ⊢
  simp only [resetSlots] at hf
  rw [← hf]
  simp only [saveLoad]
  apply List.ext_getElem
  · simp
  · intro i h1 h2
    simp only [List.getElem_map, List.getElem_mapIdx]
    split
    · have hi : i < (freezeRows s).length := by simpa using h2
      have hr' : (freezeRows s)[i] ∈ freezeRows s := List.getElem_mem hi
      obtain ⟨r0, hr0, hr0e⟩ := List.mem_map.1 hr'
      rw [← hr0e]
      have h1 : (idNat { r0 with values := r0.values.map (fun p => (p.1, freezeVal s p.2)) }).isSome := by
        rw [idNat_freeze]; exact hg.2.2.1 r0 hr0
      exact congrArg (Prod.mk r0.table) (idNat_dropRows h1)
    · rfl

theorem saveLoad_good {s : St} (hg : Good s) (hz : NoAlloc s) :
    Good (saveLoad s) ∧ NoAlloc (saveLoad s) ∧ Rel s (saveLoad s) :=
  ⟨GoodF_rows (rows := s.rows) (saveLoad_sigs hg) (GoodF_reset hg hz),
   fun T => aIdsOf_unused _ _ T, Rel.of_eq (saveLoad_sigs hg) rfl⟩

theorem iterations_tr (P : NoIdP) (fuel : Nat) (r : Recipe) (hP : P.st r.statements) (k : Nat) :
    ∀ (c : Ctx) (cont : Bool) (s : St) (c' : Ctx) (s' : St),
      iterations fuel r k c cont s = .ok (c', s') → Good s → NoAlloc s →
      Good s' ∧ NoAlloc s' ∧ Rel s s' := by
  induction k with
  | zero =>
    intro c cont s c' s' h hg hz
    simp only [iterations, Except.ok.injEq, Prod.mk.injEq] at h
    obtain ⟨-, rfl⟩ := h; exact ⟨hg, hz, Rel.refl _⟩
  | succ k ih =>
    intro c cont s c' s' h hg hz
    simp only [iterations] at h
    split at h
    · cases h
    · next c1 s1 hs =>
      split at h
      · cases h
      · next hnf =>
        obtain ⟨hg1, rel1⟩ := stmts_tr P hP hs hg
        obtain ⟨hg2, hz2⟩ := resetSlots_good hg1 (notFilled_noAlloc hnf)
        obtain ⟨hg3, hz3, rel3⟩ := ih _ _ _ _ _ h hg2 hz2
        exact ⟨hg3, hz3, rel1.trans ((Rel.of_eq (s := s1) (s' := resetSlots s1) (resetSlots_sigs s1) rfl).trans rel3)⟩

theorem chain_tr (P : NoIdP) (fuel : Nat) (r : Recipe) (hP : P.st r.statements) (fs : Bool)
    (parts : List Nat) : ∀ (cont : Bool) (s s' : St),
      chain fuel r fs parts cont s = .ok s' → Good s → NoAlloc s →
      Good s' ∧ NoAlloc s' ∧ Rel s s' := by
  induction parts with
  | nil =>
    intro cont s s' h hg hz
    simp only [chain, Except.ok.injEq] at h
    subst h; exact ⟨hg, hz, Rel.refl _⟩
  | cons k ks ih =>
    intro cont s s' h hg hz
    simp only [chain] at h
    split at h
    · cases h
    · next c1 s1 hi =>
      split at h
      · cases h
      · obtain ⟨hg1, hz1, rel1⟩ := iterations_tr P fuel r hP k _ _ _ _ _ hi hg hz
        obtain ⟨hg2, hz2, rel2⟩ := saveLoad_good hg1 hz1
        obtain ⟨hg3, hz3, rel3⟩ := ih _ _ _ h hg2 hz2
        exact ⟨hg3, hz3, rel1.trans (rel2.trans rel3)⟩

/-! ### the initial state -/

theorem foldl_nodup (f : AList String → Stmt → AList String)
    (hf : ∀ acc st, (acc.map Prod.fst).Nodup → ((f acc st).map Prod.fst).Nodup) :
    ∀ (sts : List Stmt) (acc : AList String), (acc.map Prod.fst).Nodup →
      ((sts.foldl f acc).map Prod.fst).Nodup := by
  intro sts
  induction sts with
  | nil => intro acc h; exact h
  | cons st sts ih => intro acc h; exact ih _ (hf acc st h)

theorem topNames_nodup (sts : List Stmt) : ((topNames sts).map Prod.fst).Nodup := by
  unfold topNames
  apply foldl_nodup
  · intro acc st h
    cases st with
    | var n fd => exact h
    | obj t => exact aset_keys_nodup h _ _
  · apply foldl_nodup
    · intro acc st h
      cases st with
      | var n fd => exact h
      | obj t =>
        simp only
        cases t.nick with
        | none => exact h
        | some n => exact aset_keys_nodup h _ _
    · exact List.nodup_nil

theorem initSt_good (r : Recipe) : Good (initSt r) ∧ NoAlloc (initSt r) := by
  refine ⟨⟨topNames_nodup _, ?_, ?_, ?_⟩, fun T => aIdsOf_unused _ _ T⟩
  · simp only [initSt, List.map_map]; rfl
  · intro r hr; simp [initSt] at hr
  · intro T
    simp only [initSt, aIdsOf_unused]
    exact List.Perm.refl _

theorem initSt_sigs (r : Recipe) : sigs (initSt r) = [] := rfl

theorem initSt_out (r : Recipe) : (initSt r).out = [] := rfl

/-! ### conclusions for a completed chain -/

theorem dense_of_good {s : St} (hg : Good s) (hz : NoAlloc s) (T : String) :
    (rIdsOf s.rows T).Perm (List.range' 1 (rIdsOf s.rows T).length) ∧
      lastOfL s.lastUsed T = (rIdsOf s.rows T).length := by
  have h := hg.2.2.2 T
  rw [hz T, List.append_nil] at h
  have hl : (rIdsOf s.rows T).length = lastOfL s.lastUsed T := by
    rw [h.length_eq, List.length_range']
  rw [hl]
  exact ⟨h, rfl⟩

theorem chain_dense (P : NoIdP) (fuel : Nat) (r : Recipe) (hP : P.st r.statements) (fs : Bool)
    (parts : List Nat) (s : St) (h : chain fuel r fs parts false (initSt r) = .ok s) (T : String) :
    (rIdsOf s.rows T).Perm (List.range' 1 (rIdsOf s.rows T).length) ∧
      lastOfL s.lastUsed T = (rIdsOf s.rows T).length := by
  obtain ⟨hg, hz, -⟩ := chain_tr P fuel r hP fs parts _ _ _ h (initSt_good r).1 (initSt_good r).2
  exact dense_of_good hg hz T

theorem chain_out (P : NoIdP) (fuel : Nat) (r : Recipe) (hP : P.st r.statements) (fs : Bool)
    (parts : List Nat) (s : St) (h : chain fuel r fs parts false (initSt r) = .ok s) (T : String)
    (hvis : T.startsWith "__" = false) : (outIds s.out T).Perm (rIdsOf s.rows T) := by
  obtain ⟨-, -, eR, eO, e1, e2, p⟩ :=
    chain_tr P fuel r hP fs parts _ _ _ h (initSt_good r).1 (initSt_good r).2
  rw [initSt_sigs, List.nil_append] at e1
  rw [initSt_out, List.nil_append] at e2
  rw [rIdsOf_eq_sigIds, e2]
  unfold sigs at e1
  rw [e1]
  exact p T hvis

end SnowModel.L2
