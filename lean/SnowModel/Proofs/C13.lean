/-
C13 — helper lemmas, part 1: digit strings (octal parts joined with the separator 9, decimal
value, base-N codes).  Uses `Nat.digits` from Mathlib as the reference for `digitsLE`.
-/
import SnowModel.Core.Uid
import Mathlib.Data.Nat.Digits.Lemmas

namespace SnowModel.Proofs.C13
open SnowModel.Uid

/-- most-significant-first value in base `b` -/
def ofBE (b : Nat) (l : List Nat) : Nat := l.foldl (fun a d => a * b + d) 0

theorem decVal_eq : decVal = ofBE 10 := rfl

theorem digitsFuel_eq (b : Nat) (hb : 2 ≤ b) : ∀ (fuel n : Nat), n ≤ fuel → digitsFuel b fuel n = Nat.digits b n
  | 0, n, h => by
    have : n = 0 := by omega
    subst this
    simp [digitsFuel]
  | fuel + 1, n, h => by
    unfold digitsFuel
    by_cases hn : n = 0
    · subst hn; simp
    · rw [if_neg hn, Nat.digits_def' (by omega) (by omega)]
      have hlt : n / b < n := Nat.div_lt_self (by omega) (by omega)
      rw [digitsFuel_eq b hb fuel (n / b) (by omega)]

theorem digitsLE_eq (b : Nat) (hb : 2 ≤ b) (n : Nat) : digitsLE b n = Nat.digits b n :=
  digitsFuel_eq b hb n n (Nat.le_refl n)

theorem foldl_acc (b : Nat) (l : List Nat) (a : Nat) :
    l.foldl (fun a d => a * b + d) a = a * b ^ l.length + ofBE b l := by
  induction l generalizing a with
  | nil => simp [ofBE]
  | cons d l ih =>
    simp only [List.foldl_cons, List.length_cons, ofBE]
    rw [ih, ih (0 * b + d)]
    ring

theorem ofBE_cons (b d : Nat) (l : List Nat) : ofBE b (d :: l) = d * b ^ l.length + ofBE b l := by
  simp only [ofBE, List.foldl_cons]
  rw [foldl_acc]
  simp [ofBE]

theorem ofBE_zero_cons (b : Nat) (l : List Nat) : ofBE b (0 :: l) = ofBE b l := by
  rw [ofBE_cons]; simp

theorem ofBE_append (b : Nat) (l m : List Nat) : ofBE b (l ++ m) = ofBE b l * b ^ m.length + ofBE b m := by
  simp only [ofBE, List.foldl_append]
  rw [foldl_acc]
  simp [ofBE]

theorem ofBE_replicate_zero (b k : Nat) : ofBE b (List.replicate k 0) = 0 := by
  induction k with
  | zero => rfl
  | succ k ih => rw [List.replicate_succ, ofBE_zero_cons, ih]

theorem ofBE_reverse (b : Nat) (l : List Nat) : ofBE b l.reverse = Nat.ofDigits b l := by
  induction l with
  | nil => rfl
  | cons d l ih =>
    rw [List.reverse_cons, ofBE_append, ih, Nat.ofDigits_cons]
    simp [ofBE]
    ring

/-- value of the printed digits -/
theorem ofBE_baseDigits (b : Nat) (hb : 2 ≤ b) (n : Nat) : ofBE b (baseDigits b n) = n := by
  unfold baseDigits
  split
  · subst_vars; simp [ofBE]
  · rw [ofBE_reverse, digitsLE_eq b hb, Nat.ofDigits_digits]

theorem baseDigits_lt (b : Nat) (hb : 2 ≤ b) (n : Nat) : ∀ d ∈ baseDigits b n, d < b := by
  unfold baseDigits
  split
  · intro d hd; simp at hd; omega
  · intro d hd
    rw [List.mem_reverse, digitsLE_eq b hb] at hd
    exact Nat.digits_lt_base (by omega) hd

theorem baseDigits_ne_nil (b n : Nat) (hb : 2 ≤ b) : baseDigits b n ≠ [] := by
  unfold baseDigits
  split
  · simp
  · rename_i h
    rw [digitsLE_eq b hb]
    simpa [Nat.digits_ne_nil_iff_ne_zero] using h

theorem baseDigits_injective (b : Nat) (hb : 2 ≤ b) (n m : Nat) (h : baseDigits b n = baseDigits b m) :
    n = m := by
  have := congrArg (ofBE b) h
  rwa [ofBE_baseDigits b hb, ofBE_baseDigits b hb] at this

/-- a positive number prints with a non-zero leading digit -/
theorem baseDigits_pos (b : Nat) (hb : 2 ≤ b) (n : Nat) (hn : n ≠ 0) :
    ∃ h t, baseDigits b n = h :: t ∧ h ≠ 0 ∧ h < b ∧ ∀ d ∈ t, d < b := by
  have hlt := baseDigits_lt b hb n
  have hne : Nat.digits b n ≠ [] := Nat.digits_ne_nil_iff_ne_zero.mpr hn
  have hlast := Nat.getLast_digit_ne_zero b hn
  have e : baseDigits b n = (Nat.digits b n).reverse := by
    unfold baseDigits; rw [if_neg hn, digitsLE_eq b hb]
  rw [e] at hlt ⊢
  cases hr : (Nat.digits b n).reverse with
  | nil => simp at hr; exact absurd hr hne
  | cons h t =>
    refine ⟨h, t, rfl, ?_, ?_, ?_⟩
    · have : (Nat.digits b n).getLast hne = h := by
        have h2 : Nat.digits b n = (h :: t).reverse := by rw [← hr, List.reverse_reverse]
        simp [h2]
      rw [this] at hlast; exact hlast
    · rw [hr] at hlt; exact hlt h (by simp)
    · rw [hr] at hlt; intro d hd; exact hlt d (by simp [hd])

/-- canonical decimal strings (no leading zero) are determined by their value -/
theorem canon_inj (l l' : List Nat) (h1 : ∀ d ∈ l, d < 10) (h2 : ∀ d ∈ l', d < 10)
    (c1 : l.head? ≠ some 0) (c2 : l'.head? ≠ some 0) (h : decVal l = decVal l') : l = l' := by
  have key : ∀ m : List Nat, (∀ d ∈ m, d < 10) → m.head? ≠ some 0 →
      Nat.digits 10 (decVal m) = m.reverse := by
    intro m hm hc
    have : decVal m = Nat.ofDigits 10 m.reverse := by
      rw [decVal_eq, ← ofBE_reverse, List.reverse_reverse]
    rw [this]
    apply Nat.digits_ofDigits 10 (by omega)
    · intro d hd; exact hm d (List.mem_reverse.mp hd)
    · intro hne
      rw [List.getLast_reverse]
      intro h0
      apply hc
      cases m with
      | nil => simp at hne
      | cons a t => simp at h0; simp [h0]
  have e1 := key l h1 c1
  have e2 := key l' h2 c2
  rw [h] at e1
  have := e1.symm.trans e2
  exact List.reverse_injective this

end SnowModel.Proofs.C13
