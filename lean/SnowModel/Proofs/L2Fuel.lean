/-
Fuel adequacy for the L2 interpreter: fuel is only a termination device.

If one of the six mutually recursive functions returns anything other than `.error .fuel` with
`fuel`, it returns the same result with `fuel + 1` (`FuelAll`, `fuelAll`: one simultaneous induction
on fuel), hence with every `fuel' ≥ fuel` (`*_fuel_le`).  Lifted to `iterations` and `chain`.
-/
import SnowModel.Proofs.L2Out

namespace SnowModel.L2

/-- all six statements for one amount of fuel: a result that is not "out of fuel" is kept with one
    more unit of fuel -/
def FuelAll (fuel : Nat) : Prop :=
  (∀ c fd s, renderFd fuel c fd s ≠ .error .fuel →
      renderFd (fuel + 1) c fd s = renderFd fuel c fd s) ∧
  (∀ c t s, execTemplate fuel c t s ≠ .error .fuel →
      execTemplate (fuel + 1) c t s = execTemplate fuel c t s) ∧
  (∀ c t i n last s, execRows fuel c t i n last s ≠ .error .fuel →
      execRows (fuel + 1) c t i n last s = execRows fuel c t i n last s) ∧
  (∀ c t i s, execRow fuel c t i s ≠ .error .fuel →
      execRow (fuel + 1) c t i s = execRow fuel c t i s) ∧
  (∀ c h fs s, execFields fuel c h fs s ≠ .error .fuel →
      execFields (fuel + 1) c h fs s = execFields fuel c h fs s) ∧
  (∀ c sts cont s, execStmts fuel c sts cont s ≠ .error .fuel →
      execStmts (fuel + 1) c sts cont s = execStmts fuel c sts cont s)

theorem renderFd_nested (fuel : Nat) (c : Ctx) (t : Template) (s : St) :
    renderFd (fuel + 1) c (.nested t) s =
      (match execTemplate fuel c t s with
       | .error e => .error e
       | .ok (none, s1) => .ok (.null, s1)
       | .ok (some h, s1) => .ok (.row h, s1)) := by
  simp only [renderFd]
  rfl

theorem fuelAll (fuel : Nat) : FuelAll fuel := by
  induction fuel with
  | zero =>
    refine ⟨?_, ?_, ?_, ?_, ?_, ?_⟩
    · intro c fd s h; exact absurd (renderFd_zero c fd s) h
    · intro c t s h; exact absurd (execTemplate_zero c t s) h
    · intro c t i n last s h; exact absurd (execRows_zero c t i n last s) h
    · intro c t i s h; exact absurd (execRow_zero c t i s) h
    · intro c hd fs s h; exact absurd (execFields_zero c hd fs s) h
    · intro c sts cont s h; exact absurd (execStmts_zero c sts cont s) h
  | succ fuel ih =>
    obtain ⟨ihFd, ihT, ihRows, ihRow, ihF, ihS⟩ := ih
    refine ⟨?_, ?_, ?_, ?_, ?_, ?_⟩
    · -- renderFd
      intro c fd s h
      cases fd with
      | lit l => cases l <;> simp only [renderFd]
      | tmpl parts => simp only [renderFd]
      | ref path => simp only [renderFd]
      | nested t =>
        rw [renderFd_nested fuel] at h
        rw [renderFd_nested (fuel + 1), renderFd_nested fuel]
        have h1 : execTemplate fuel c t s ≠ .error .fuel := by
          intro e; rw [e] at h; exact h rfl
        rw [ihT _ _ _ h1]
    · -- execTemplate
      intro c t s h
      rw [execTemplate_succ fuel] at h
      rw [execTemplate_succ (fuel + 1), execTemplate_succ fuel]
      generalize t.count = oc at h ⊢
      cases oc with
      | none => exact ihRows _ _ _ _ _ _ h
      | some fd =>
        have h1 : renderFd fuel { obj := none, vars := c.vars } fd s ≠ .error .fuel := by
          intro e; simp only [e] at h; exact h rfl
        simp only [ihFd _ _ _ h1] at h ⊢
        generalize renderFd fuel { obj := none, vars := c.vars } fd s = x at h ⊢
        cases x with
        | error e => rfl
        | ok p =>
          obtain ⟨v, s1⟩ := p
          simp only at h ⊢
          generalize countOf s1 v = y at h ⊢
          cases y with
          | error e => rfl
          | ok n => exact ihRows _ _ _ _ _ _ h
    · -- execRows
      intro c t i n last s h
      rw [execRows_succ fuel] at h
      rw [execRows_succ (fuel + 1), execRows_succ fuel]
      by_cases hin : i ≥ n
      · simp only [hin, if_true]
      · simp only [hin, if_false] at h ⊢
        have h1 : execRow fuel { c with vars := aset c.vars "child_index" (.int i) } t i s
            ≠ .error .fuel := by
          intro e; rw [e] at h; exact h rfl
        rw [ihRow _ _ _ _ h1]
        generalize execRow fuel { c with vars := aset c.vars "child_index" (.int i) } t i s = x at h ⊢
        cases x with
        | error e => rfl
        | ok p =>
          obtain ⟨⟨hh, c2⟩, s1⟩ := p
          exact ihRows _ _ _ _ _ _ h
    · -- execRow
      intro c t i s h
      rw [execRow_succ fuel] at h
      rw [execRow_succ (fuel + 1), execRow_succ fuel]
      have h1 : execFields fuel { c with obj := some s.rows.length } s.rows.length t.fields
          (regState s t i) ≠ .error .fuel := by
        intro e; rw [e] at h; exact h rfl
      rw [ihF _ _ _ _ h1]
      generalize execFields fuel { c with obj := some s.rows.length } s.rows.length t.fields
          (regState s t i) = x at h ⊢
      cases x with
      | error e => rfl
      | ok p =>
        obtain ⟨u6, s6⟩ := p
        simp only at h ⊢
        generalize writeRow t s.rows.length s6 = y at h ⊢
        cases y with
        | error e => rfl
        | ok q =>
          obtain ⟨u8, s8⟩ := q
          simp only at h ⊢
          have h2 : execStmts fuel { c with obj := some s.rows.length } t.friends true s8
              ≠ .error .fuel := by
            intro e; rw [e] at h; exact h rfl
          rw [ihS _ _ _ _ h2]
    · -- execFields
      intro c hd fs s h
      cases fs with
      | nil => rw [execFields_nil, execFields_nil]
      | cons p rest =>
        obtain ⟨name, fd⟩ := p
        rw [execFields_cons fuel] at h
        rw [execFields_cons (fuel + 1), execFields_cons fuel]
        have h1 : renderFd fuel c fd s ≠ .error .fuel := by
          intro e; rw [e] at h; exact h rfl
        rw [ihFd _ _ _ h1]
        generalize renderFd fuel c fd s = x at h ⊢
        cases x with
        | error e => rfl
        | ok p =>
          obtain ⟨v, s1⟩ := p
          exact ihF _ _ _ _ h
    · -- execStmts
      intro c sts cont s h
      cases sts with
      | nil => rw [execStmts_nil, execStmts_nil]
      | cons st rest =>
        cases st with
        | var name fd =>
          rw [execStmts_var fuel] at h
          rw [execStmts_var (fuel + 1), execStmts_var fuel]
          have h1 : renderFd fuel { obj := none, vars := c.vars } fd s ≠ .error .fuel := by
            intro e; rw [e] at h; exact h rfl
          rw [ihFd _ _ _ h1]
          generalize renderFd fuel { obj := none, vars := c.vars } fd s = x at h ⊢
          cases x with
          | error e => rfl
          | ok p =>
            obtain ⟨v, s1⟩ := p
            exact ihS _ _ _ _ h
        | obj t =>
          rw [execStmts_obj fuel] at h
          rw [execStmts_obj (fuel + 1), execStmts_obj fuel]
          by_cases hj : t.justOnce = true ∧ cont = true
          · simp only [hj, and_self, if_true] at h ⊢
            exact ihS _ _ _ _ h
          · simp only [hj, if_false] at h ⊢
            have h1 : execTemplate fuel c t s ≠ .error .fuel := by
              intro e; rw [e] at h; exact h rfl
            rw [ihT _ _ _ h1]
            generalize execTemplate fuel c t s = x at h ⊢
            cases x with
            | error e => rfl
            | ok p =>
              obtain ⟨o, s1⟩ := p
              exact ihS _ _ _ _ h

/-! ### one step, per function -/

theorem renderFd_fuel_succ {fuel : Nat} {c : Ctx} {fd : FieldDef} {s : St}
    (h : renderFd fuel c fd s ≠ .error .fuel) :
    renderFd (fuel + 1) c fd s = renderFd fuel c fd s := (fuelAll fuel).1 c fd s h

theorem execTemplate_fuel_succ {fuel : Nat} {c : Ctx} {t : Template} {s : St}
    (h : execTemplate fuel c t s ≠ .error .fuel) :
    execTemplate (fuel + 1) c t s = execTemplate fuel c t s := (fuelAll fuel).2.1 c t s h

theorem execRows_fuel_succ {fuel : Nat} {c : Ctx} {t : Template} {i n : Nat} {last : Option Nat} {s : St}
    (h : execRows fuel c t i n last s ≠ .error .fuel) :
    execRows (fuel + 1) c t i n last s = execRows fuel c t i n last s :=
  (fuelAll fuel).2.2.1 c t i n last s h

theorem execRow_fuel_succ {fuel : Nat} {c : Ctx} {t : Template} {i : Nat} {s : St}
    (h : execRow fuel c t i s ≠ .error .fuel) :
    execRow (fuel + 1) c t i s = execRow fuel c t i s := (fuelAll fuel).2.2.2.1 c t i s h

theorem execFields_fuel_succ {fuel : Nat} {c : Ctx} {hd : Nat} {fs : List (String × FieldDef)} {s : St}
    (h : execFields fuel c hd fs s ≠ .error .fuel) :
    execFields (fuel + 1) c hd fs s = execFields fuel c hd fs s := (fuelAll fuel).2.2.2.2.1 c hd fs s h

theorem execStmts_fuel_succ {fuel : Nat} {c : Ctx} {sts : List Stmt} {cont : Bool} {s : St}
    (h : execStmts fuel c sts cont s ≠ .error .fuel) :
    execStmts (fuel + 1) c sts cont s = execStmts fuel c sts cont s :=
  (fuelAll fuel).2.2.2.2.2 c sts cont s h

/-! ### any larger amount of fuel -/

/-- from one step to any `fuel' ≥ fuel` -/
theorem fuel_le_of_succ {α : Type} (f : Nat → Except Err α)
    (hstep : ∀ n, f n ≠ .error .fuel → f (n + 1) = f n) {fuel fuel' : Nat}
    (h : f fuel ≠ .error .fuel) (hle : fuel ≤ fuel') : f fuel' = f fuel := by
  induction hle with
  | refl => rfl
  | step _ ih => rw [hstep _ (by rw [ih]; exact h), ih]

theorem renderFd_fuel_mono {fuel fuel' : Nat} {c : Ctx} {fd : FieldDef} {s : St}
    (h : renderFd fuel c fd s ≠ .error .fuel) (hle : fuel ≤ fuel') :
    renderFd fuel' c fd s = renderFd fuel c fd s :=
  fuel_le_of_succ (fun n => renderFd n c fd s) (fun _ hn => renderFd_fuel_succ hn) h hle

theorem execTemplate_fuel_mono {fuel fuel' : Nat} {c : Ctx} {t : Template} {s : St}
    (h : execTemplate fuel c t s ≠ .error .fuel) (hle : fuel ≤ fuel') :
    execTemplate fuel' c t s = execTemplate fuel c t s :=
  fuel_le_of_succ (fun n => execTemplate n c t s) (fun _ hn => execTemplate_fuel_succ hn) h hle

theorem execRows_fuel_mono {fuel fuel' : Nat} {c : Ctx} {t : Template} {i n : Nat} {last : Option Nat}
    {s : St} (h : execRows fuel c t i n last s ≠ .error .fuel) (hle : fuel ≤ fuel') :
    execRows fuel' c t i n last s = execRows fuel c t i n last s :=
  fuel_le_of_succ (fun m => execRows m c t i n last s) (fun _ hn => execRows_fuel_succ hn) h hle

theorem execRow_fuel_mono {fuel fuel' : Nat} {c : Ctx} {t : Template} {i : Nat} {s : St}
    (h : execRow fuel c t i s ≠ .error .fuel) (hle : fuel ≤ fuel') :
    execRow fuel' c t i s = execRow fuel c t i s :=
  fuel_le_of_succ (fun n => execRow n c t i s) (fun _ hn => execRow_fuel_succ hn) h hle

theorem execFields_fuel_mono {fuel fuel' : Nat} {c : Ctx} {hd : Nat} {fs : List (String × FieldDef)}
    {s : St} (h : execFields fuel c hd fs s ≠ .error .fuel) (hle : fuel ≤ fuel') :
    execFields fuel' c hd fs s = execFields fuel c hd fs s :=
  fuel_le_of_succ (fun n => execFields n c hd fs s) (fun _ hn => execFields_fuel_succ hn) h hle

theorem execStmts_fuel_mono {fuel fuel' : Nat} {c : Ctx} {sts : List Stmt} {cont : Bool} {s : St}
    (h : execStmts fuel c sts cont s ≠ .error .fuel) (hle : fuel ≤ fuel') :
    execStmts fuel' c sts cont s = execStmts fuel c sts cont s :=
  fuel_le_of_succ (fun n => execStmts n c sts cont s) (fun _ hn => execStmts_fuel_succ hn) h hle

/-! ### whole runs -/

theorem iterations_fuel_succ (fuel : Nat) (r : Recipe) (k : Nat) : ∀ (c : Ctx) (cont : Bool) (s : St),
    iterations fuel r k c cont s ≠ .error .fuel →
    iterations (fuel + 1) r k c cont s = iterations fuel r k c cont s := by
  induction k with
  | zero => intro c cont s _; simp only [iterations]
  | succ k ih =>
    intro c cont s h
    simp only [iterations] at h ⊢
    have h1 : execStmts fuel c r.statements cont s ≠ .error .fuel := by
      intro e; rw [e] at h; exact h rfl
    rw [execStmts_fuel_succ h1]
    generalize execStmts fuel c r.statements cont s = x at h ⊢
    cases x with
    | error e => rfl
    | ok p =>
      obtain ⟨c1, s1⟩ := p
      simp only at h ⊢
      cases hn : notFilled s1 with
      | cons a l => rfl
      | nil =>
        simp only [hn] at h ⊢
        exact ih _ _ _ h

theorem iterations_fuel_mono {fuel fuel' : Nat} {r : Recipe} {k : Nat} {c : Ctx} {cont : Bool} {s : St}
    (h : iterations fuel r k c cont s ≠ .error .fuel) (hle : fuel ≤ fuel') :
    iterations fuel' r k c cont s = iterations fuel r k c cont s :=
  fuel_le_of_succ (fun n => iterations n r k c cont s)
    (fun n hn => iterations_fuel_succ n r k c cont s hn) h hle

theorem chain_fuel_succ (fuel : Nat) (r : Recipe) (fs : Bool) (parts : List Nat) :
    ∀ (cont : Bool) (s : St), chain fuel r fs parts cont s ≠ .error .fuel →
    chain (fuel + 1) r fs parts cont s = chain fuel r fs parts cont s := by
  induction parts with
  | nil => intro cont s _; simp only [chain]
  | cons k ks ih =>
    intro cont s h
    simp only [chain] at h ⊢
    have h1 : iterations fuel r k { obj := none, vars := [] } cont s ≠ .error .fuel := by
      intro e; rw [e] at h; exact h rfl
    rw [iterations_fuel_succ fuel r k _ _ _ h1]
    generalize iterations fuel r k { obj := none, vars := [] } cont s = x at h ⊢
    cases x with
    | error e => rfl
    | ok p =>
      obtain ⟨c1, s1⟩ := p
      simp only at h ⊢
      split
      · rfl
      · next hsf =>
        simp only [hsf] at h
        exact ih _ _ h

theorem chain_fuel_mono {fuel fuel' : Nat} {r : Recipe} {fs : Bool} {parts : List Nat} {cont : Bool}
    {s : St} (h : chain fuel r fs parts cont s ≠ .error .fuel) (hle : fuel ≤ fuel') :
    chain fuel' r fs parts cont s = chain fuel r fs parts cont s :=
  fuel_le_of_succ (fun n => chain n r fs parts cont s)
    (fun n hn => chain_fuel_succ n r fs parts cont s hn) h hle

/-- `runChain` reports "fuel" exactly when the chain ran out of fuel -/
theorem runChain_status_fuel_of_chain {fuel : Nat} {r : Recipe} {parts : List Nat} {fs : Bool}
    (h : chain fuel r fs parts false (initSt r) = .error .fuel) :
    (runChain fuel r parts fs).status = "fuel" := by
  unfold runChain; rw [h]

theorem chain_ne_fuel_of_status {fuel : Nat} {r : Recipe} {parts : List Nat} {fs : Bool}
    (h : (runChain fuel r parts fs).status ≠ "fuel") :
    chain fuel r fs parts false (initSt r) ≠ .error .fuel :=
  fun e => h (runChain_status_fuel_of_chain e)

theorem runChain_congr_chain {fuel fuel' : Nat} {r : Recipe} {parts : List Nat} {fs : Bool}
    (h : chain fuel' r fs parts false (initSt r) = chain fuel r fs parts false (initSt r)) :
    runChain fuel' r parts fs = runChain fuel r parts fs := by
  unfold runChain; rw [h]

/-! ### the status strings are distinct -/

theorem outside_take (m : String) : ("outside:" ++ m).toList.take 2 = ['o', 'u'] := by
  rw [String.toList_append]
  have : "outside:".toList = 'o' :: 'u' :: "tside:".toList := by decide
  rw [this]; rfl

theorem outside_ne_fuel (m : String) : "outside:" ++ m ≠ "fuel" := by
  intro h
  have h2 := outside_take m
  rw [h] at h2
  revert h2
  decide

theorem outside_ne_ok (m : String) : "outside:" ++ m ≠ "ok" := by
  intro h
  have h2 := outside_take m
  rw [h] at h2
  revert h2
  decide

/-- the status is "fuel" iff the chain ran out of fuel -/
theorem runChain_status_fuel_iff (fuel : Nat) (r : Recipe) (parts : List Nat) (fs : Bool) :
    (runChain fuel r parts fs).status = "fuel" ↔
      chain fuel r fs parts false (initSt r) = .error .fuel := by
  constructor
  · intro h
    unfold runChain at h
    split at h
    · exact absurd h (show "ok" ≠ "fuel" by decide)
    · exact absurd h (show "recipe_error" ≠ "fuel" by decide)
    · exact absurd h (outside_ne_fuel _)
    · assumption
  · exact runChain_status_fuel_of_chain

/-- the status is "ok" iff the chain completed; the outcome then carries the output of its state -/
theorem runChain_status_ok_iff (fuel : Nat) (r : Recipe) (parts : List Nat) (fs : Bool) :
    (runChain fuel r parts fs).status = "ok" ↔
      ∃ s, chain fuel r fs parts false (initSt r) = .ok s := by
  constructor
  · intro h
    unfold runChain at h
    split at h
    · next s hs => exact ⟨s, hs⟩
    · exact absurd h (show "recipe_error" ≠ "ok" by decide)
    · exact absurd h (outside_ne_ok _)
    · exact absurd h (show "fuel" ≠ "ok" by decide)
  · rintro ⟨s, hs⟩
    unfold runChain; rw [hs]

theorem runChain_out_of_ok {fuel : Nat} {r : Recipe} {parts : List Nat} {fs : Bool} {s : St}
    (h : chain fuel r fs parts false (initSt r) = .ok s) :
    (runChain fuel r parts fs).out = s.out := by
  unfold runChain; rw [h]

end SnowModel.L2
