/-
Helper lemmas for `Props/C02L2` (no dangling references through the L2 interpreter):
* `L2Refs1` — the invariant `J` (every id that can become a reference cell is an issued id of its
  table), `slotId`, name lookup and the non-recursive evaluators;
* `L2Refs2` — `regState` / `setRowValue` / `writeRow`, the simultaneous induction on fuel, whole runs.
-/
import SnowModel.Core.L2
import SnowModel.Proofs.L2Refs1
import SnowModel.Proofs.L2Refs2
