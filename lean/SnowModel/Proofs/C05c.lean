/-
C05 — helper lemmas, part 3: the whole file.
-/
import SnowModel.Proofs.C05b

namespace SnowModel.Persist

/-- the six top-level keys in the order `yaml.dump` writes them -/
theorem sortD_getstate (g : G) : sortD (getstate g) =
    [(kIdm, .idm [(kLastUsed, g.lastUsed)]),
     (kDeps, .deps (g.deps.map depGetstate)),
     (kNames, .names g.nickTable),
     (kNick, .rows (mapD rowGetstate g.pNick)),
     (kTable, .rows (mapD rowGetstate g.pTable)),
     (kToday, .sc (.sc g.today))] := by
  have a1 : (kNames ≤ kDeps) = False := by decide
  have a2 : (kToday ≤ kNames) = False := by decide
  have a3 : (kToday ≤ kDeps) = False := by decide
  have a4 : (kIdm ≤ kDeps) = True := by decide
  have a5 : (kTable ≤ kIdm) = False := by decide
  have a6 : (kTable ≤ kDeps) = False := by decide
  have a7 : (kTable ≤ kNames) = False := by decide
  have a8 : (kTable ≤ kToday) = True := by decide
  have a9 : (kNick ≤ kIdm) = False := by decide
  have a10 : (kNick ≤ kDeps) = False := by decide
  have a11 : (kNick ≤ kNames) = False := by decide
  have a12 : (kNick ≤ kTable) = True := by decide
  simp [getstate, sortD, insertD, a1, a2, a3, a4, a5, a6, a7, a8, a9, a10, a11, a12]

/-- the file, when it can be written -/
theorem saveFile_eq {τ : Type} (Y : Yaml τ) (g : G) : saveFile Y g =
    match dumpRows Y (mapD rowGetstate (sortD g.pNick)), dumpRows Y (mapD rowGetstate (sortD g.pTable)) with
    | .error e, _ => .error e
    | .ok _, .error e => .error e
    | .ok rn, .ok rt =>
      .ok [(kIdm, .idm [(kLastUsed, sortD g.lastUsed)]),
           (kDeps, .deps (g.deps.map (fun d => sortD (depGetstate d)))),
           (kNames, .names (sortD g.nickTable)),
           (kNick, .rows rn),
           (kTable, .rows rt),
           (kToday, .sc (Y.dump g.today))] := by
  unfold saveFile yamlDump
  rw [sortD_getstate]
  simp only [dumpTops, dumpTop, sortD_mapD, represent, List.map_map, Function.comp_def]
  have h1 : mapD sortD (sortD [(kLastUsed, g.lastUsed)]) = [(kLastUsed, sortD g.lastUsed)] := by
    simp [mapD, sortD, insertD]
  rw [h1]
  cases dumpRows Y (mapD rowGetstate (sortD g.pNick)) <;>
    cases dumpRows Y (mapD rowGetstate (sortD g.pTable)) <;> rfl

theorem lookups_doc (σ : Type) (a b c d e f : Top σ) :
    let doc : StateOf σ := [(kIdm, a), (kDeps, b), (kNames, c), (kNick, d), (kTable, e), (kToday, f)]
    lookupD kLegacyNick doc = none ∧ lookupD kNick doc = some d ∧ lookupD kNames doc = some c ∧
    lookupD kIdm doc = some a ∧ lookupD kDeps doc = some b ∧ lookupD kToday doc = some f ∧
    lookupD kTable doc = some e := by
  have e1 : (kLegacyNick = kIdm) = False := by decide
  have e2 : (kLegacyNick = kDeps) = False := by decide
  have e3 : (kLegacyNick = kNames) = False := by decide
  have e4 : (kLegacyNick = kNick) = False := by decide
  have e5 : (kLegacyNick = kTable) = False := by decide
  have e6 : (kLegacyNick = kToday) = False := by decide
  have f1 : (kNick = kIdm) = False := by decide
  have f2 : (kNick = kDeps) = False := by decide
  have f3 : (kNick = kNames) = False := by decide
  have g1 : (kNames = kIdm) = False := by decide
  have g2 : (kNames = kDeps) = False := by decide
  have h1 : (kDeps = kIdm) = False := by decide
  have i1 : (kToday = kIdm) = False := by decide
  have i2 : (kToday = kDeps) = False := by decide
  have i3 : (kToday = kNames) = False := by decide
  have i4 : (kToday = kNick) = False := by decide
  have i5 : (kToday = kTable) = False := by decide
  have j1 : (kTable = kIdm) = False := by decide
  have j2 : (kTable = kDeps) = False := by decide
  have j3 : (kTable = kNames) = False := by decide
  have j4 : (kTable = kNick) = False := by decide
  simp [lookupD, e1, e2, e3, e4, e5, e6, f1, f2, f3, g1, g2, h1, i1, i2, i3, i4, i5, j1, j2, j3, j4]

/-- loading a document of the written shape -/
theorem loadFile_doc {τ : Type} (Y : Yaml τ) (lu : Dict Int) (dl : List (Dict String)) (names : Dict String)
    (rn rt : Dict (Dict (RowEntry τ))) (td : τ) :
    loadFile Y [(kIdm, .idm [(kLastUsed, lu)]), (kDeps, .deps dl), (kNames, .names names),
                (kNick, .rows rn), (kTable, .rows rt), (kToday, .sc td)] =
      match rowsSetstate (mapD (mapD (parseRowEntry Y)) rn) with
      | .error e => .error e
      | .ok pNick =>
        match depsSetstate [] dl with
        | .error e => .error e
        | .ok deps =>
          match rowsSetstate (mapD (mapD (parseRowEntry Y)) rt) with
          | .error e => .error e
          | .ok pTable =>
            .ok { lastUsed := lu, startIds := mapD startIdOf lu, pNick := pNick, pTable := pTable,
                  nickTable := names, today := Y.load td, deps := deps } := by
  obtain ⟨l0, l1, l2, l3, l4, l5, l6⟩ := lookups_doc Sc (.idm [(kLastUsed, lu)]) (.deps dl) (.names names)
    (.rows (mapD (mapD (parseRowEntry Y)) rn)) (.rows (mapD (mapD (parseRowEntry Y)) rt)) (.sc (Y.load td))
  have hl : lookupD kLastUsed [(kLastUsed, lu)] = some lu := by simp [lookupD]
  unfold loadFile
  simp only [yamlLoad, mapD, List.map_cons, List.map_nil, parseTop] at *
  simp only [setstate, getRows, getDeps, l0, l1, l2, l3, l4, l5, l6, hl]
  cases rowsSetstate (List.map (fun kv => (kv.1, List.map (fun kv => (kv.1, parseRowEntry Y kv.2)) kv.2)) rn) with
  | error e => rfl
  | ok a =>
    simp only
    cases depsSetstate [] dl with
    | error e => rfl
    | ok b =>
      simp only
      cases rowsSetstate (List.map (fun kv => (kv.1, List.map (fun kv => (kv.1, parseRowEntry Y kv.2)) kv.2)) rt) <;> rfl

end SnowModel.Persist
