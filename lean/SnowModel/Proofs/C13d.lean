/-
C13 — helper lemmas, part 5: the process (create / draw sequences): context numbers are pairwise
distinct, a generator's static configuration never changes, its counter only grows.
-/
import SnowModel.Proofs.C13c

namespace SnowModel.Proofs.C13
open SnowModel.Uid

/-- context numbers of the generators are pairwise distinct and below the next one -/
def GoodCtx (p : Proc) : Prop :=
  (p.gens.map (fun g => g.cfg.ctx)).Pairwise (· ≠ ·) ∧ ∀ g ∈ p.gens, g.cfg.ctx < p.nextCtx

/-- `q` extends `p`: every generator of `p` is still there with the same static configuration and
    a counter that is not smaller -/
@[reducible] def Ext (p q : Proc) : Prop :=
  ∀ (g : Nat) (gen : Gen), p.gens[g]? = some gen →
    ∃ gen' : Gen, q.gens[g]? = some gen' ∧ gen'.kind = gen.kind ∧ gen'.cfg = gen.cfg ∧ gen'.start = gen.start ∧ gen.counter ≤ gen'.counter

theorem Ext.refl (p : Proc) : Ext p p := fun _ gen h => ⟨gen, h, rfl, rfl, rfl, Nat.le_refl _⟩

theorem Ext.trans {p q r : Proc} (h1 : Ext p q) (h2 : Ext q r) : Ext p r := by
  intro g gen h
  obtain ⟨gen', hq, k1, c1, s1, n1⟩ := h1 g gen h
  obtain ⟨gen'', hr, k2, c2, s2, n2⟩ := h2 g gen' hq
  exact ⟨gen'', hr, k2.trans k1, c2.trans c1, s2.trans s1, Nat.le_trans n1 n2⟩

theorem ext_append (p : Proc) (x : Gen) (n : Nat) : Ext p { nextCtx := n, gens := p.gens ++ [x] } := by
  intro g gen h
  refine ⟨gen, ?_, rfl, rfl, rfl, Nat.le_refl _⟩
  have hlt : g < p.gens.length := by
    rcases Nat.lt_or_ge g p.gens.length with h' | h'
    · exact h'
    · rw [List.getElem?_eq_none h'] at h; cases h
  simp only
  rw [List.getElem?_append_left hlt]
  exact h

theorem ext_same_gens (p : Proc) (n : Nat) : Ext p { p with nextCtx := n } :=
  fun _ gen h => ⟨gen, h, rfl, rfl, rfl, Nat.le_refl _⟩

theorem ext_set (p : Proc) (i : Nat) (g0 : Gen) (h0 : p.gens[i]? = some g0) :
    Ext p { p with gens := p.gens.set i { g0 with counter := g0.counter + 1 } } := by
  intro g gen h
  simp only
  by_cases e : i = g
  · subst e
    rw [h0] at h
    cases h
    have hlt : i < p.gens.length := by
      rcases Nat.lt_or_ge i p.gens.length with h' | h'
      · exact h'
      · rw [List.getElem?_eq_none h'] at h0; cases h0
    refine ⟨{ g0 with counter := g0.counter + 1 }, ?_, rfl, rfl, rfl, Nat.le_succ _⟩
    rw [List.getElem?_set_self hlt]
  · refine ⟨gen, ?_, rfl, rfl, rfl, Nat.le_refl _⟩
    rw [List.getElem?_set_ne e]
    exact h

theorem step_ext (lg : Nat → Nat) (mask : Nat → Nat → Nat) (p : Proc) (op : Op) :
    Ext p (step lg mask p op).1 := by
  cases op with
  | newNumeric parts pidParts r => exact ext_append p _ _
  | restore sv pidParts => exact ext_append p _ _
  | newAlpha parts pidParts alphabet mc r =>
    simp only [step]
    split
    · exact ext_same_gens p _
    · exact ext_append p _ _
  | burn => exact ext_same_gens p _
  | draw i =>
    simp only [step]
    split
    · exact Ext.refl p
    · rename_i g0 h0
      split <;> exact ext_set p i g0 h0

theorem run_ext (lg : Nat → Nat) (mask : Nat → Nat → Nat) (ops : List Op) (p : Proc) :
    Ext p (run lg mask p ops).1 := by
  induction ops generalizing p with
  | nil => exact Ext.refl p
  | cons op ops ih =>
    simp only [run]
    exact Ext.trans (step_ext lg mask p op) (ih _)

/-! #### context numbers -/

theorem goodCtx_append (p : Proc) (x : Gen) (hx : x.cfg.ctx = p.nextCtx) (h : GoodCtx p) :
    GoodCtx { nextCtx := p.nextCtx + 1, gens := p.gens ++ [x] } := by
  obtain ⟨h1, h2⟩ := h
  constructor
  · simp only [List.map_append, List.map_cons, List.map_nil]
    rw [List.pairwise_append]
    refine ⟨h1, by simp, ?_⟩
    intro a ha b hb
    simp only [List.mem_singleton] at hb
    subst hb
    rw [List.mem_map] at ha
    obtain ⟨g, hg, rfl⟩ := ha
    have := h2 g hg
    omega
  · intro g hg
    simp only [List.mem_append, List.mem_singleton] at hg
    rcases hg with hg | hg
    · have := h2 g hg; simp only; omega
    · subst hg; simp only; omega

theorem goodCtx_bump (p : Proc) (h : GoodCtx p) : GoodCtx { p with nextCtx := p.nextCtx + 1 } :=
  ⟨h.1, fun g hg => Nat.lt_succ_of_lt (h.2 g hg)⟩

theorem map_ctx_set (l : List Gen) (i : Nat) (g0 : Gen) (h0 : l[i]? = some g0) (c : Nat) :
    (l.set i { g0 with counter := c }).map (fun g => g.cfg.ctx) = l.map (fun g => g.cfg.ctx) := by
  apply List.ext_getElem?
  intro n
  simp only [List.getElem?_map]
  by_cases e : i = n
  · subst e
    have hlt : i < l.length := by
      rcases Nat.lt_or_ge i l.length with h' | h'
      · exact h'
      · rw [List.getElem?_eq_none h'] at h0; cases h0
    rw [List.getElem?_set_self hlt, h0]
    rfl
  · rw [List.getElem?_set_ne e]

theorem goodCtx_set (p : Proc) (i : Nat) (g0 : Gen) (h0 : p.gens[i]? = some g0) (h : GoodCtx p) :
    GoodCtx { p with gens := p.gens.set i { g0 with counter := g0.counter + 1 } } := by
  obtain ⟨h1, h2⟩ := h
  constructor
  · simp only
    rw [map_ctx_set p.gens i g0 h0]
    exact h1
  · intro g hg
    simp only at hg ⊢
    rcases List.mem_or_eq_of_mem_set hg with hg | hg
    · exact h2 g hg
    · subst hg
      exact h2 g0 (List.mem_of_getElem? h0)

theorem step_goodCtx (lg : Nat → Nat) (mask : Nat → Nat → Nat) (p : Proc) (op : Op) (h : GoodCtx p) :
    GoodCtx (step lg mask p op).1 := by
  cases op with
  | newNumeric parts pidParts r => exact goodCtx_append p _ rfl h
  | restore sv pidParts => exact goodCtx_append p _ rfl h
  | newAlpha parts pidParts alphabet mc r =>
    simp only [step]
    split
    · exact goodCtx_bump p h
    · exact goodCtx_append p _ rfl h
  | burn => exact goodCtx_bump p h
  | draw i =>
    simp only [step]
    split
    · exact h
    · rename_i g0 h0
      split <;> exact goodCtx_set p i g0 h0 h

theorem run_goodCtx (lg : Nat → Nat) (mask : Nat → Nat → Nat) (ops : List Op) (p : Proc) (h : GoodCtx p) :
    GoodCtx (run lg mask p ops).1 := by
  induction ops generalizing p with
  | nil => exact h
  | cons op ops ih =>
    simp only [run]
    exact ih _ (step_goodCtx lg mask p op h)

theorem goodCtx_init (c0 : Nat) : GoodCtx (Proc.init c0) := by
  constructor <;> simp [Proc.init]

/-- in a good state two different generator slots hold different context numbers -/
theorem goodCtx_ne (p : Proc) (h : GoodCtx p) (g1 g2 : Nat) (a b : Gen) (hne : g1 ≠ g2)
    (ha : p.gens[g1]? = some a) (hb : p.gens[g2]? = some b) : a.cfg.ctx ≠ b.cfg.ctx := by
  have hp := h.1
  rw [List.pairwise_iff_getElem] at hp
  have l1 : g1 < p.gens.length := by
    rcases Nat.lt_or_ge g1 p.gens.length with h' | h'
    · exact h'
    · rw [List.getElem?_eq_none h'] at ha; cases ha
  have l2 : g2 < p.gens.length := by
    rcases Nat.lt_or_ge g2 p.gens.length with h' | h'
    · exact h'
    · rw [List.getElem?_eq_none h'] at hb; cases hb
  have ea : p.gens[g1] = a := by
    have := List.getElem?_eq_getElem l1; rw [this] at ha; exact Option.some.inj ha
  have eb : p.gens[g2] = b := by
    have := List.getElem?_eq_getElem l2; rw [this] at hb; exact Option.some.inj hb
  rcases Nat.lt_or_gt_of_ne hne with hlt | hlt
  · have := hp g1 g2 (by simpa using l1) (by simpa using l2) hlt
    simpa [ea, eb] using this
  · have := hp g2 g1 (by simpa using l2) (by simpa using l1) hlt
    simp only [List.getElem_map, ea, eb] at this
    exact fun e => this e.symm

/-! #### what a draw reports -/

/-- a `value` output of one step: it was a draw from generator `g`, whose counter was `i`, and
    the value is that generator's value at `i`; afterwards the counter is `i + 1` -/
theorem step_value (lg : Nat → Nat) (mask : Nat → Nat → Nat) (p : Proc) (op : Op) (g i : Nat) (v : Val)
    (h : (step lg mask p op).2 = .value g i v) :
    ∃ gen, p.gens[g]? = some gen ∧ gen.counter = i ∧ genValue lg mask gen = .ok v ∧
      ∃ gen', (step lg mask p op).1.gens[g]? = some gen' ∧ gen'.counter = i + 1 := by
  cases op with
  | newNumeric parts pidParts r => simp [step] at h
  | restore sv pidParts => simp [step] at h
  | newAlpha parts pidParts alphabet mc r =>
    simp only [step] at h
    split at h <;> simp at h
  | burn => simp [step] at h
  | draw j =>
    simp only [step] at h ⊢
    split at h
    · simp at h
    · rename_i g0 h0
      split at h
      · simp at h
      · rename_i v0 hv
        simp only [Out.value.injEq] at h
        obtain ⟨rfl, rfl, rfl⟩ := h
        have hlt : j < p.gens.length := by
          rcases Nat.lt_or_ge j p.gens.length with h' | h'
          · exact h'
          · rw [List.getElem?_eq_none h'] at h0; cases h0
        refine ⟨g0, h0, rfl, hv, ?_⟩
        simp only [h0, hv]
        exact ⟨_, List.getElem?_set_self hlt, rfl⟩

/-- every later draw from a generator reports an index that is at least its current counter -/
theorem run_value_ge (lg : Nat → Nat) (mask : Nat → Nat → Nat) (ops : List Op) (p : Proc) (g i : Nat) (v : Val)
    (h : Out.value g i v ∈ (run lg mask p ops).2) (gen : Gen) (hg : p.gens[g]? = some gen) :
    gen.counter ≤ i := by
  induction ops generalizing p gen with
  | nil => simp [run] at h
  | cons op ops ih =>
    simp only [run, List.mem_cons] at h
    rcases h with h | h
    · obtain ⟨gen0, h0, hc, _, _⟩ := step_value lg mask p op g i v h.symm
      rw [hg] at h0
      cases h0
      omega
    · obtain ⟨gen', hq, _, _, _, hn⟩ := step_ext lg mask p op g gen hg
      have := ih _ h gen' hq
      omega

/-- every reported value is the value of the (static) generator found in the final state -/
theorem run_value_sound (lg : Nat → Nat) (mask : Nat → Nat → Nat) (ops : List Op) (p : Proc) (g i : Nat) (v : Val)
    (h : Out.value g i v ∈ (run lg mask p ops).2) :
    ∃ gen, (run lg mask p ops).1.gens[g]? = some gen ∧
      genValue lg mask { gen with counter := i } = .ok v := by
  induction ops generalizing p with
  | nil => simp [run] at h
  | cons op ops ih =>
    simp only [run, List.mem_cons] at h ⊢
    rcases h with h | h
    · obtain ⟨gen0, h0, hc, hv, gen1, h1, _⟩ := step_value lg mask p op g i v h.symm
      obtain ⟨gen1', e1, k1, c1, s1, _⟩ := step_ext lg mask p op g gen0 h0
      obtain ⟨gen2, e2, k2, c2, s2, _⟩ := run_ext lg mask ops _ g gen1' e1
      refine ⟨gen2, e2, ?_⟩
      have e : ({ gen2 with counter := i } : Gen) = gen0 := by
        cases gen0; cases gen2; simp_all
      rw [e]
      exact hv
    · exact ih _ h

end SnowModel.Proofs.C13
