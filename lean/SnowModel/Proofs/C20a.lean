/-
C20 — helper lemmas, part 2: no document gets the parser stuck (templates, fields, function calls,
macros).  The only hypotheses are the guards of the callers (`obj.get("object")`, `obj.get("var")`).
-/
import SnowModel.Proofs.C20

namespace SnowModel.ParseCheck

abbrev NS {α : Type} (r : Res α) : Prop := Safe (fun _ => False) (fun _ => True) r

structure AllNS (fuel : Nat) : Prop where
  fv : ∀ m ex v, NS (parseFieldValue fuel m ex v)
  st : ∀ m ex kvs, NS (parseStructured fuel m ex kvs)
  args : ∀ m ex a, NS (parseArgs fuel m ex a)
  fields : ∀ m ex kvs, NS (parseFields fuel m ex kvs)
  stmts : ∀ m ex top xs, NS (parseStmts fuel m ex top xs)
  var : ∀ m ex kvs, getTruthy kvs "var" = true → NS (parseVar fuel m ex kvs)
  fe : ∀ m ex kvs, NS (parseForEach fuel m ex kvs)
  incs : ∀ m ex names parents, NS (parseInclusions fuel m ex names parents)
  mac : ∀ m ex name parents, NS (includeMacro fuel m ex name parents)
  tmpl : ∀ m ex top kvs, getTruthy kvs "object" = true → NS (parseTemplate fuel m ex top kvs)

theorem allNS_zero : AllNS 0 := by
  constructor
  all_goals
    intros
    simp only [parseFieldValue, parseStructured, parseArgs, parseFields,
      parseStmts, parseVar, parseForEach, parseInclusions, includeMacro, parseTemplate]
    exact safe_fuel

/-- a truthy key that `parse_element` accepted as the element type is a string -/
theorem truthy_elem_str {kvs : KVs} {et : String} {m o : KeyTable} {u : Unit} {refs : List Ref}
    (hpe : parseElement kvs et m o = .ok u refs) {v : Y} (hl : lookup kvs et = some v) :
    ∃ s, v = .str s := by
  obtain ⟨tys, ht1, ht2⟩ := parseElement_ok_lookup hpe hl
  simp only [expectedTy, beq_self_eq_true, ↓reduceIte, Option.some.injEq] at ht1
  subst ht1
  cases v <;> simp [hasTy] at ht2
  exact ⟨_, rfl⟩

section step
variable {fuel : Nat} (ih : AllNS fuel)
include ih

theorem fv_step (m : Macros) (ex : List String) (v : Y) : NS (parseFieldValue (fuel + 1) m ex v) := by
  simp only [parseFieldValue]
  split
  · exact ih.fv m ex _
  · exact safe_err _
  · split
    · rename_i hobj; exact ih.tmpl m ex false _ hobj
    · exact ih.st m ex _
  · exact safe_ok_nil _

theorem st_step (m : Macros) (ex : List String) (kvs : KVs) : NS (parseStructured (fuel + 1) m ex kvs) := by
  simp only [parseStructured]
  split
  · exact safe_err _
  · split
    · split
      · exact safe_err _
      · simp only [bind_eq, pure_eq]
        apply safe_bind (ih.args m ex _)
        intro pa _ _
        split
        · exact safe_ok_one _ _ trivial
        · exact safe_ok_nil _
    · exact safe_err _

theorem args_step (m : Macros) (ex : List String) (a : Y) : NS (parseArgs (fuel + 1) m ex a) := by
  have hscalar : ∀ s : Y,
      NS ((parseFieldValue fuel m ex s).bind fun x => (Res.ok ([x], []) [] : Res Ref)) := by
    intro s
    apply safe_bind (ih.fv m ex s)
    intro _ _ _; exact safe_ok_nil _
  cases a with
  | map kvs =>
    simp only [parseArgs, bind_eq, pure_eq]
    apply safe_bind
    · apply safe_mapR
      intro p _
      apply safe_bind
      · cases p.1 <;> simp only [coerceKey, pure_eq] <;> first | exact safe_ok_nil _ | exact safe_err _
      · intro k _ _
        apply safe_bind (ih.fv m ex _)
        intro _ _ _
        exact safe_ok_nil _
    · intro _ _ _; exact safe_ok_nil _
  | list xs =>
    simp only [parseArgs, bind_eq, pure_eq]
    apply safe_bind
    · apply safe_mapR
      intro x _
      exact ih.fv m ex _
    · intro _ _ _; exact safe_ok_nil _
  | null => simp only [parseArgs, bind_eq, pure_eq]; exact hscalar _
  | bool _ => simp only [parseArgs, bind_eq, pure_eq]; exact hscalar _
  | int _ => simp only [parseArgs, bind_eq, pure_eq]; exact hscalar _
  | float _ => simp only [parseArgs, bind_eq, pure_eq]; exact hscalar _
  | str _ => simp only [parseArgs, bind_eq, pure_eq]; exact hscalar _
  | date _ => simp only [parseArgs, bind_eq, pure_eq]; exact hscalar _

theorem fields_step (m : Macros) (ex : List String) (kvs : KVs) : NS (parseFields (fuel + 1) m ex kvs) := by
  simp only [parseFields]
  apply safe_mapR
  intro p _
  split
  · split
    · exact safe_err _
    · simp only [bind_eq, pure_eq]
      apply safe_bind (ih.fv m ex _)
      intro _ _ _; exact safe_ok_nil _
  · exact safe_err _

theorem stmts_step (m : Macros) (ex : List String) (top : Bool) (xs : List Y) :
    NS (parseStmts (fuel + 1) m ex top xs) := by
  simp only [parseStmts]
  apply safe_mapR
  intro x _
  split
  · split
    · rename_i hobj; exact ih.tmpl m ex top _ hobj
    · split
      · rename_i hvar; exact ih.var m ex _ hvar
      · exact safe_err _
  · exact safe_err _

theorem var_step (m : Macros) (ex : List String) (kvs : KVs) (hv : getTruthy kvs "var" = true) :
    NS (parseVar (fuel + 1) m ex kvs) := by
  simp only [parseVar, bind_eq, pure_eq]
  apply safe_bind (parseElement_safe ..)
  intro _ _ hpe
  split
  · apply safe_bind (ih.fv m ex _)
    intro _ _ _; exact safe_ok_nil _
  · rename_i hno
    exfalso
    -- `var` is present (truthy) and a string; `value` is mandatory
    have hmand := (parseElement_ok hpe).2
    simp only [varMandatory, List.all_cons, List.all_nil, Bool.and_true] at hmand
    unfold getTruthy at hv
    cases hl : lookup kvs "var" with
    | none => simp [hl] at hv
    | some v =>
      obtain ⟨name, rfl⟩ := truthy_elem_str hpe hl
      cases hl2 : lookup kvs "value" with
      | none => simp [hl2] at hmand
      | some value => exact hno name value hl hl2

theorem fe_step (m : Macros) (ex : List String) (kvs : KVs) : NS (parseForEach (fuel + 1) m ex kvs) := by
  simp only [parseForEach, bind_eq, pure_eq]
  apply safe_bind (parseElement_safe ..)
  intro _ _ hpe
  split
  · apply safe_bind (ih.fv m ex _)
    intro _ _ _; exact safe_ok_nil _
  · rename_i hno
    exfalso
    -- `var` and `value` are mandatory, and `var` is the element type: a string
    have hmand := (parseElement_ok hpe).2
    simp only [forEachMandatory, List.all_cons, List.all_nil, Bool.and_true, Bool.and_eq_true] at hmand
    cases hl : lookup kvs "var" with
    | none => simp [hl] at hmand
    | some v =>
      obtain ⟨name, rfl⟩ := truthy_elem_str hpe hl
      cases hl2 : lookup kvs "value" with
      | none => simp [hl2] at hmand
      | some value => exact hno name value hl hl2

theorem incs_step (m : Macros) (ex names parents : List String) :
    NS (parseInclusions (fuel + 1) m ex names parents) := by
  simp only [parseInclusions, bind_eq, pure_eq]
  apply safe_bind
  · apply safe_mapR
    intro n _
    exact ih.mac m ex n parents
  · intro _ _ _; exact safe_ok_nil _

theorem mac_step (m : Macros) (ex : List String) (name : String) (parents : List String) :
    NS (includeMacro (fuel + 1) m ex name parents) := by
  simp only [includeMacro]
  split
  · exact safe_err _
  · simp only [bind_eq, pure_eq]
    apply safe_bind (parseElement_safe ..)
    intro _ _ _
    split
    · exact safe_err _
    · apply safe_bind (ih.incs m _ _ _)
      intro inc _ _
      apply safe_bind (safe_onMap (fun f _ => ih.fields m _ f))
      intro fields _ _
      apply safe_bind (safe_onList (fun f _ => ih.stmts m _ false f))
      intro _ _ _; exact safe_ok_nil _

theorem tmpl_step (m : Macros) (ex : List String) (top : Bool) (kvs : KVs)
    (hobj : getTruthy kvs "object" = true) : NS (parseTemplate (fuel + 1) m ex top kvs) := by
  simp only [parseTemplate, bind_eq, pure_eq]
  apply safe_bind (parseElement_safe ..)
  intro _ _ hpe
  split
  · exact safe_err _
  · split
    · apply safe_bind (ih.incs m ex _ _)
      intro inc _ _
      apply safe_bind (safe_onMap (fun f _ => ih.fields m ex f))
      intro fields _ _
      apply safe_bind (safe_onList (fun f _ => ih.stmts m ex false f))
      intro friends _ _
      apply safe_bind (safe_optR (fun c _ => ih.fv m ex c))
      intro count _ _
      apply safe_bind (safe_optMapR (fun fe _ => ih.fe m ex fe))
      intro forEach _ _
      split
      · exact safe_err _
      · exact safe_ok_nil _
    · rename_i hno
      exfalso
      unfold getTruthy at hobj
      cases hl : lookup kvs "object" with
      | none => simp [hl] at hobj
      | some v =>
        obtain ⟨t, rfl⟩ := truthy_elem_str hpe hl
        exact hno _ hl

end step

theorem allNS : ∀ fuel, AllNS fuel
  | 0 => allNS_zero
  | n + 1 =>
    have ih := allNS n
    { fv := fv_step ih, st := st_step ih, args := args_step ih, fields := fields_step ih,
      stmts := stmts_step ih, var := var_step ih, fe := fe_step ih, incs := incs_step ih,
      mac := mac_step ih, tmpl := tmpl_step ih }

end SnowModel.ParseCheck
