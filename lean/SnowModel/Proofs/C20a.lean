/-
C20 — helper lemmas, part 2: documents that avoid the known holes never get stuck.
-/
import SnowModel.Proofs.C20

namespace SnowModel.ParseCheck

/-! ### facts about the `ok…` predicates -/

/-- the per-entry condition of `okNode` -/
def entryOk (k v : Y) : Bool :=
  if keyStr k == "fields" then okFieldsY v
  else if keyStr k == "friends" then okStmtsY v
  else if keyStr k == "for_each" then okForEachY v
  else if keyStr k == "count" || keyStr k == "value" then okFV v
  else true

theorem okNode_cons (k v : Y) (rest : KVs) :
    okNode ((k, v) :: rest) = (entryOk k v && okNode rest) := by
  simp only [okNode, entryOk]

theorem okNode_mem {kvs : KVs} (h : okNode kvs = true) : ∀ p ∈ kvs, entryOk p.1 p.2 = true := by
  induction kvs with
  | nil => intro p hp; cases hp
  | cons q rest ih =>
    obtain ⟨k, v⟩ := q
    rw [okNode_cons, Bool.and_eq_true] at h
    intro p hp
    rcases List.mem_cons.mp hp with hp | hp
    · subst hp; exact h.1
    · exact ih h.2 p hp

theorem okNode_fields {kvs f : KVs} (h : okNode kvs = true) (hl : lookup kvs "fields" = some (.map f)) :
    okFields f = true := by
  have := okNode_mem h _ (lookup_mem hl)
  simpa [entryOk, keyStr, okFieldsY] using this

theorem okNode_friends {kvs : KVs} {xs : List Y} (h : okNode kvs = true)
    (hl : lookup kvs "friends" = some (.list xs)) : okStmts xs = true := by
  have := okNode_mem h _ (lookup_mem hl)
  simpa [entryOk, keyStr, okStmtsY] using this

theorem okNode_count {kvs : KVs} {v : Y} (h : okNode kvs = true)
    (hl : lookup kvs "count" = some v) : okFV v = true := by
  have := okNode_mem h _ (lookup_mem hl)
  simpa [entryOk, keyStr] using this

theorem okNode_value {kvs : KVs} {v : Y} (h : okNode kvs = true)
    (hl : lookup kvs "value" = some v) : okFV v = true := by
  have := okNode_mem h _ (lookup_mem hl)
  simpa [entryOk, keyStr] using this

theorem okNode_forEach {kvs fe : KVs} (h : okNode kvs = true)
    (hl : lookup kvs "for_each" = some (.map fe)) :
    (lookup fe "var").isSome = true ∧ okNode fe = true := by
  have := okNode_mem h _ (lookup_mem hl)
  simpa [entryOk, keyStr, okForEachY] using this

/-! ### `random_reference` arguments -/

def goodRef (r : Ref) : Prop := (checkRef r).isStuck = false

def isSimple : Ast → Bool
  | .simple _ => true
  | _ => false

theorem fv_scalar {fuel : Nat} {m : Macros} {v : Y} {a : Ast} {r : List Ref}
    (hs : isScalar v = true) (h : parseFieldValue fuel m v = .ok a r) : isSimple a = true := by
  cases fuel with
  | zero => simp [parseFieldValue] at h
  | succ n =>
    cases v <;> simp [isScalar] at hs <;> simp [parseFieldValue] at h <;> (rw [← h.1]; rfl)

theorem goodRef_pos {x : Ast} {rest : List Ast} {kw : List (String × Ast)} (h : isSimple x = true) :
    goodRef (x :: rest, kw) := by
  cases x with
  | simple s => cases s <;> rfl
  | struct _ _ _ => cases h
  | tmpl _ _ _ _ _ _ _ _ => cases h
  | var _ _ => cases h

theorem goodRef_kw {kw : List (String × Ast)} {x : Ast} (hl : kw.lookup "to" = some x)
    (h : isSimple x = true) : goodRef ([], kw) := by
  cases kw with
  | nil => cases hl
  | cons p rest =>
    unfold goodRef checkRef
    simp only [hl]
    cases x with
    | simple s => cases s <;> rfl
    | struct _ _ _ => cases h
    | tmpl _ _ _ _ _ _ _ _ => cases h
    | var _ _ => cases h

theorem parseArgs_goodRef {fuel : Nat} {m : Macros} {a : Y} {pa : Ref} {refs : List Ref}
    (h : parseArgs fuel m a = .ok pa refs) (hok : refArgsOk a = true) : goodRef pa := by
  cases fuel with
  | zero => simp [parseArgs] at h
  | succ n =>
    cases a with
    | map kvs =>
      simp only [parseArgs, bind_eq, pure_eq] at h
      obtain ⟨kw, r1, r2, h1, h2, _⟩ := bind_ok_inv h
      simp only [Res.ok.injEq] at h2
      rw [← h2.1]
      simp only [refArgsOk, Bool.and_eq_true, List.any_eq_true, List.all_eq_true] at hok
      obtain ⟨⟨p, hp, hpto⟩, hall⟩ := hok
      -- a keyword named "to" exists in kw and every such keyword is simple
      have hex : ∃ q ∈ kw, q.1 = "to" := by
        obtain ⟨q, hq, r, hfq⟩ := mapR_ok_mem' h1 p hp
        refine ⟨q, hq, ?_⟩
        obtain ⟨k, r3, r4, h3, h4, _⟩ := bind_ok_inv hfq
        obtain ⟨x, r5, r6, h5, h6, _⟩ := bind_ok_inv h4
        simp only [Res.ok.injEq] at h6
        rw [← h6.1]
        simp only [keyIsTo, h3] at hpto
        simpa using hpto
      have hall' : ∀ q ∈ kw, q.1 = "to" → isSimple q.2 = true := by
        intro q hq hk
        obtain ⟨p', hp', r, hfq⟩ := mapR_ok_mem h1 q hq
        obtain ⟨k, r3, r4, h3, h4, _⟩ := bind_ok_inv hfq
        obtain ⟨x, r5, r6, h5, h6, _⟩ := bind_ok_inv h4
        simp only [Res.ok.injEq] at h6
        have hkq : k = q.1 := by rw [← h6.1]
        have hxq : x = q.2 := by rw [← h6.1]
        have hto : keyIsTo p'.1 = true := by
          simp only [keyIsTo, h3]; rw [hkq, hk]; rfl
        have hsc := hall p' hp'
        simp only [hto, Bool.not_true, Bool.false_or] at hsc
        rw [← hxq]
        exact fv_scalar hsc h5
      obtain ⟨x, hx1, hx2⟩ := dedupe_lookup (P := fun a => isSimple a = true) "to" kw hex hall'
      exact goodRef_kw hx1 hx2
    | list xs =>
      cases xs with
      | nil => simp [refArgsOk] at hok
      | cons x rest =>
        simp only [parseArgs, bind_eq, pure_eq] at h
        obtain ⟨pos, r1, r2, h1, h2, _⟩ := bind_ok_inv h
        simp only [Res.ok.injEq] at h2
        rw [← h2.1]
        obtain ⟨b, bs', r3, r4, h3, h4, _⟩ := mapR_cons_ok h1
        rw [h3]
        simp only [refArgsOk] at hok
        exact goodRef_pos (fv_scalar hok h4)
    | null =>
      simp only [parseArgs, bind_eq, pure_eq] at h
      obtain ⟨x, r1, r2, h1, h2, _⟩ := bind_ok_inv h
      simp only [Res.ok.injEq] at h2
      rw [← h2.1]; exact goodRef_pos (fv_scalar rfl h1)
    | bool _ =>
      simp only [parseArgs, bind_eq, pure_eq] at h
      obtain ⟨x, r1, r2, h1, h2, _⟩ := bind_ok_inv h
      simp only [Res.ok.injEq] at h2
      rw [← h2.1]; exact goodRef_pos (fv_scalar rfl h1)
    | int _ =>
      simp only [parseArgs, bind_eq, pure_eq] at h
      obtain ⟨x, r1, r2, h1, h2, _⟩ := bind_ok_inv h
      simp only [Res.ok.injEq] at h2
      rw [← h2.1]; exact goodRef_pos (fv_scalar rfl h1)
    | float _ =>
      simp only [parseArgs, bind_eq, pure_eq] at h
      obtain ⟨x, r1, r2, h1, h2, _⟩ := bind_ok_inv h
      simp only [Res.ok.injEq] at h2
      rw [← h2.1]; exact goodRef_pos (fv_scalar rfl h1)
    | str _ =>
      simp only [parseArgs, bind_eq, pure_eq] at h
      obtain ⟨x, r1, r2, h1, h2, _⟩ := bind_ok_inv h
      simp only [Res.ok.injEq] at h2
      rw [← h2.1]; exact goodRef_pos (fv_scalar rfl h1)
    | date _ =>
      simp only [parseArgs, bind_eq, pure_eq] at h
      obtain ⟨x, r1, r2, h1, h2, _⟩ := bind_ok_inv h
      simp only [Res.ok.injEq] at h2
      rw [← h2.1]; exact goodRef_pos (fv_scalar rfl h1)

/-! ### the main induction -/

abbrev NS {α : Type} (r : Res α) : Prop := Safe (fun _ => False) goodRef r

def MacOk (m : Macros) : Prop := ∀ p ∈ m, okNode p.2 = true

theorem lookupMacro_mem {m : Macros} {name : String} {mk : KVs} (h : lookupMacro m name = some mk) :
    ∃ p ∈ m, p.2 = mk := by
  unfold lookupMacro at h
  split at h
  · rename_i p hp
    have hm := List.mem_of_getLast? hp
    simp only [Option.some.injEq] at h
    exact ⟨p, (List.mem_filter.mp hm).1, h⟩
  · cases h

structure AllNS (fuel : Nat) : Prop where
  fv : ∀ m v, MacOk m → okFV v = true → NS (parseFieldValue fuel m v)
  st : ∀ m kvs, MacOk m → okStruct kvs = true → NS (parseStructured fuel m kvs)
  args : ∀ m a, MacOk m → okArgs a = true → NS (parseArgs fuel m a)
  fields : ∀ m kvs, MacOk m → okFields kvs = true → NS (parseFields fuel m kvs)
  stmts : ∀ m top xs, MacOk m → okStmts xs = true → NS (parseStmts fuel m top xs)
  var : ∀ m kvs, MacOk m → okNode kvs = true → getTruthy kvs "var" = true → NS (parseVar fuel m kvs)
  fe : ∀ m kvs, MacOk m → okNode kvs = true → (lookup kvs "var").isSome = true →
    NS (parseForEach fuel m kvs)
  incs : ∀ m names parents, MacOk m → NS (parseInclusions fuel m names parents)
  mac : ∀ m name parents, MacOk m → NS (includeMacro fuel m name parents)
  tmpl : ∀ m top kvs, MacOk m → okNode kvs = true → getTruthy kvs "object" = true →
    NS (parseTemplate fuel m top kvs)
  incsNames : ∀ m names parents inc refs, MacOk m →
    parseInclusions fuel m names parents = .ok inc refs → ∀ q ∈ inc.1, q.1.isStr = true
  macNames : ∀ m name parents r refs, MacOk m →
    includeMacro fuel m name parents = .ok r refs → ∀ q ∈ r.1, q.1.isStr = true

theorem allNS_zero : AllNS 0 := by
  constructor
  case incsNames => intro m names parents inc refs _ h; simp [parseInclusions] at h
  case macNames => intro m name parents r refs _ h; simp [includeMacro] at h
  all_goals
    intros
    simp only [parseFieldValue, parseStructured, parseArgs, parseFields,
      parseStmts, parseVar, parseForEach, parseInclusions, includeMacro, parseTemplate]
    exact safe_fuel

theorem okVals_mem {kvs : KVs} (h : okVals kvs = true) : ∀ p ∈ kvs, okFV p.2 = true := by
  induction kvs with
  | nil => intro p hp; cases hp
  | cons q rest ih =>
    obtain ⟨k, v⟩ := q
    simp only [okVals, Bool.and_eq_true] at h
    intro p hp
    rcases List.mem_cons.mp hp with hp | hp
    · subst hp; exact h.1
    · exact ih h.2 p hp

theorem okFVs_mem {xs : List Y} (h : okFVs xs = true) : ∀ x ∈ xs, okFV x = true := by
  induction xs with
  | nil => intro p hp; cases hp
  | cons q rest ih =>
    simp only [okFVs, Bool.and_eq_true] at h
    intro p hp
    rcases List.mem_cons.mp hp with hp | hp
    · subst hp; exact h.1
    · exact ih h.2 p hp

theorem okFields_mem {kvs : KVs} (h : okFields kvs = true) :
    ∀ p ∈ kvs, p.1.truthy = true ∧ p.1.isStr = true ∧ okFV p.2 = true := by
  induction kvs with
  | nil => intro p hp; cases hp
  | cons q rest ih =>
    obtain ⟨k, v⟩ := q
    simp only [okFields, Bool.and_eq_true] at h
    intro p hp
    rcases List.mem_cons.mp hp with hp | hp
    · subst hp; exact ⟨h.1.1.1, h.1.1.2, h.1.2⟩
    · exact ih h.2 p hp

theorem okStmts_mem {xs : List Y} (h : okStmts xs = true) :
    ∀ x ∈ xs, ∃ kvs, x = .map kvs ∧ okNode kvs = true ∧
      (getTruthy kvs "object" || getTruthy kvs "var" || kvs.all (fun p => p.1.isStr)) = true := by
  induction xs with
  | nil => intro p hp; cases hp
  | cons q rest ih =>
    cases q <;> simp only [okStmts, Bool.and_eq_true] at h <;> try (cases h; done)
    rename_i kvs
    intro p hp
    rcases List.mem_cons.mp hp with hp | hp
    · subst hp; exact ⟨kvs, rfl, h.1.2, h.1.1⟩
    · exact ih h.2 p hp

/-- the names that `parse_fields` returns are the keys of the mapping -/
theorem parseFields_names {m : Macros} {n : Nat} {kvs : KVs} {l : List (Y × Ast)} {refs : List Ref}
    (h : parseFields n m kvs = .ok l refs) : ∀ q ∈ l, ∃ p ∈ kvs, p.1 = q.1 := by
  cases n with
  | zero => simp [parseFields] at h
  | succ n =>
    simp only [parseFields] at h
    intro q hq
    obtain ⟨p, hp, r, hf⟩ := mapR_ok_mem h q hq
    refine ⟨p, hp, ?_⟩
    split at hf
    · cases hf
    · simp only [bind_eq, pure_eq] at hf
      obtain ⟨x, r1, r2, h1, h2, _⟩ := bind_ok_inv hf
      simp only [Res.ok.injEq] at h2
      rw [← h2.1]

/-- all raw field names returned for a template / macro are strings -/
def NamesStr (l : List (Y × Ast)) : Prop := ∀ q ∈ l, q.1.isStr = true

theorem parseFields_namesStr {m : Macros} {n : Nat} {kvs : KVs} {l : List (Y × Ast)} {refs : List Ref}
    (hk : okFields kvs = true) (h : parseFields n m kvs = .ok l refs) : NamesStr l := by
  intro q hq
  obtain ⟨p, hp, he⟩ := parseFields_names h q hq
  rw [← he]; exact (okFields_mem hk p hp).2.1

theorem onMap_fields_namesStr {m : Macros} {n : Nat} {v : Option Y} {l : List (Y × Ast)} {refs : List Ref}
    (hk : ∀ f, v = some (.map f) → okFields f = true)
    (h : onMap v (parseFields n m) [] = .ok l refs) : NamesStr l := by
  unfold onMap at h
  split at h
  · exact parseFields_namesStr (hk _ rfl) h
  · simp only [pure_eq, Res.ok.injEq] at h
    rw [← h.1]; intro q hq; cases hq

section step
variable {fuel : Nat} (ih : AllNS fuel)
include ih

theorem fv_step (m : Macros) (v : Y) (hm : MacOk m) (hv : okFV v = true) :
    NS (parseFieldValue (fuel + 1) m v) := by
  simp only [parseFieldValue]
  split
  · rename_i kvs
    apply ih.fv m _ hm
    simpa only [okFV] using hv
  · rename_i xs hne
    cases xs with
    | nil => simp [okFV] at hv
    | cons x rest =>
      cases rest with
      | nil =>
        cases x <;> simp [okFV] at hv
        exact absurd rfl (hne _)
      | cons y ys => cases x <;> simp [okFV] at hv
  · rename_i kvs
    simp only [okFV] at hv
    split
    · rename_i hobj
      simp only [hobj, ↓reduceIte] at hv
      exact ih.tmpl m false kvs hm hv hobj
    · rename_i hobj
      simp only [hobj, Bool.false_eq_true, ↓reduceIte] at hv
      exact ih.st m kvs hm hv
  · exact safe_ok_nil _

theorem st_step (m : Macros) (kvs : KVs) (hm : MacOk m) (hk : okStruct kvs = true) :
    NS (parseStructured (fuel + 1) m kvs) := by
  simp only [parseStructured]
  split
  · exact safe_err _
  · rename_i k a rest
    simp only [okStruct, Bool.and_eq_true] at hk
    obtain ⟨hk1, hk2⟩ := hk
    cases k <;> simp only [Bool.false_eq_true] at hk1
    rename_i fn
    simp only [Bool.and_eq_true, decide_eq_true_eq, Bool.or_eq_true, bne_iff_ne, ne_eq] at hk1
    have hdots : ¬ (countDots fn ≥ 2) := by omega
    simp only [hdots, ↓reduceIte, bind_eq, pure_eq]
    have hargs : okArgs (if rest.isEmpty = true then a else Y.map rest) = true := by
      split
      · rename_i he; simpa only [he, ↓reduceIte] using hk2
      · rename_i he
        simp only [he, Bool.false_eq_true, ↓reduceIte] at hk2
        simpa only [okArgs] using hk2
    apply safe_bind (ih.args m _ hm hargs)
    intro pa refs hpa
    split
    · rename_i hfn
      have hfn' : fn = "random_reference" := by simpa using hfn
      apply safe_ok_one
      rcases hk1.2 with h | h
      · exact absurd hfn' h
      · exact parseArgs_goodRef hpa h
    · exact safe_ok_nil _

theorem args_step (m : Macros) (a : Y) (hm : MacOk m) (ha : okArgs a = true) :
    NS (parseArgs (fuel + 1) m a) := by
  have hscalar : ∀ s : Y, isScalar s = true →
      NS ((parseFieldValue fuel m s).bind fun x => (Res.ok ([x], []) [] : Res Ref)) := by
    intro s hs
    apply safe_bind
    · apply ih.fv m _ hm
      cases s <;> first | rfl | cases hs
    · intro _ _ _; exact safe_ok_nil _
  cases a with
  | map kvs =>
    simp only [okArgs] at ha
    simp only [parseArgs, bind_eq, pure_eq]
    apply safe_bind
    · apply safe_mapR
      intro p hp
      apply safe_bind
      · cases p.1 <;> simp only [coerceKey, pure_eq] <;> first | exact safe_ok_nil _ | exact safe_err _
      · intro k _ _
        apply safe_bind (ih.fv m _ hm (okVals_mem ha p hp))
        intro _ _ _
        exact safe_ok_nil _
    · intro _ _ _; exact safe_ok_nil _
  | list xs =>
    simp only [okArgs] at ha
    simp only [parseArgs, bind_eq, pure_eq]
    apply safe_bind
    · apply safe_mapR
      intro x hx
      exact ih.fv m _ hm (okFVs_mem ha x hx)
    · intro _ _ _; exact safe_ok_nil _
  | null => simp only [parseArgs, bind_eq, pure_eq]; exact hscalar _ rfl
  | bool _ => simp only [parseArgs, bind_eq, pure_eq]; exact hscalar _ rfl
  | int _ => simp only [parseArgs, bind_eq, pure_eq]; exact hscalar _ rfl
  | float _ => simp only [parseArgs, bind_eq, pure_eq]; exact hscalar _ rfl
  | str _ => simp only [parseArgs, bind_eq, pure_eq]; exact hscalar _ rfl
  | date _ => simp only [parseArgs, bind_eq, pure_eq]; exact hscalar _ rfl

theorem fields_step (m : Macros) (kvs : KVs) (hm : MacOk m) (hk : okFields kvs = true) :
    NS (parseFields (fuel + 1) m kvs) := by
  simp only [parseFields]
  apply safe_mapR
  intro p hp
  obtain ⟨h1, h2, h3⟩ := okFields_mem hk p hp
  simp only [h1, Bool.not_true, Bool.false_eq_true, ↓reduceIte, bind_eq, pure_eq]
  apply safe_bind (ih.fv m _ hm h3)
  intro _ _ _; exact safe_ok_nil _

theorem stmts_step (m : Macros) (top : Bool) (xs : List Y) (hm : MacOk m) (hx : okStmts xs = true) :
    NS (parseStmts (fuel + 1) m top xs) := by
  simp only [parseStmts]
  apply safe_mapR
  intro x hxm
  obtain ⟨kvs, rfl, h1, h2⟩ := okStmts_mem hx x hxm
  simp only
  split
  · rename_i hobj; exact ih.tmpl m top kvs hm h1 hobj
  · split
    · rename_i hvar; exact ih.var m kvs hm h1 hvar
    · rename_i hobj hvar
      simp only [hobj, hvar, Bool.or_self, Bool.false_or] at h2
      simp only [h2, ↓reduceIte]
      exact safe_err _

theorem var_step (m : Macros) (kvs : KVs) (hm : MacOk m) (hk : okNode kvs = true)
    (hv : getTruthy kvs "var" = true) : NS (parseVar (fuel + 1) m kvs) := by
  simp only [parseVar, bind_eq, pure_eq]
  apply safe_bind (parseElement_safe ..)
  intro _ _ hpe
  split
  · rename_i name value h1 h2
    apply safe_bind (ih.fv m _ hm (okNode_value hk h2))
    intro _ _ _; exact safe_ok_nil _
  · rename_i hno
    exfalso
    -- `var` is present (truthy) and a string; `value` is mandatory
    have hmand := (parseElement_ok hpe).2
    simp only [varMandatory, List.all_cons, List.all_nil, Bool.and_true] at hmand
    unfold getTruthy at hv
    cases hl : lookup kvs "var" with
    | none => simp [hl] at hv
    | some v =>
      obtain ⟨tys, ht1, ht2⟩ := parseElement_ok_lookup hpe hl
      simp only [expectedTy, beq_self_eq_true, ↓reduceIte, Option.some.injEq] at ht1
      subst ht1
      cases v <;> simp [hasTy] at ht2
      rename_i name
      cases hl2 : lookup kvs "value" with
      | none => simp [hl2] at hmand
      | some value => exact hno name value hl hl2

theorem fe_step (m : Macros) (kvs : KVs) (hm : MacOk m) (hk : okNode kvs = true)
    (hv : (lookup kvs "var").isSome = true) : NS (parseForEach (fuel + 1) m kvs) := by
  simp only [parseForEach, bind_eq, pure_eq]
  apply safe_bind (parseElement_safe ..)
  intro _ _ hpe
  split
  · rename_i name value h1 h2
    apply safe_bind (ih.fv m _ hm (okNode_value hk h2))
    intro _ _ _; exact safe_ok_nil _
  · rename_i hno
    exfalso
    have hmand := (parseElement_ok hpe).2
    simp only [forEachMandatory, List.all_cons, List.all_nil, Bool.and_true] at hmand
    cases hl : lookup kvs "var" with
    | none => simp [hl] at hv
    | some v =>
      obtain ⟨tys, ht1, ht2⟩ := parseElement_ok_lookup hpe hl
      simp only [expectedTy, beq_self_eq_true, ↓reduceIte, Option.some.injEq] at ht1
      subst ht1
      cases v <;> simp [hasTy] at ht2
      rename_i name
      cases hl2 : lookup kvs "value" with
      | none => simp [hl2] at hmand
      | some value => exact hno name value hl hl2

theorem incs_step (m : Macros) (names parents : List String) (hm : MacOk m) :
    NS (parseInclusions (fuel + 1) m names parents) := by
  simp only [parseInclusions, bind_eq, pure_eq]
  apply safe_bind
  · apply safe_mapR
    intro n _
    exact ih.mac m n parents hm
  · intro _ _ _; exact safe_ok_nil _

theorem mac_step (m : Macros) (name : String) (parents : List String) (hm : MacOk m) :
    NS (includeMacro (fuel + 1) m name parents) := by
  simp only [includeMacro]
  split
  · exact safe_err _
  · rename_i mk hmk
    obtain ⟨p, hp, rfl⟩ := lookupMacro_mem hmk
    have hok := hm p hp
    simp only [bind_eq, pure_eq]
    apply safe_bind (parseElement_safe ..)
    intro _ _ _
    split
    · exact safe_err _
    · apply safe_bind (ih.incs m _ _ hm)
      intro inc _ _
      apply safe_bind (safe_onMap (fun f hf => ih.fields m f hm (okNode_fields hok hf)))
      intro fields _ _
      apply safe_bind (safe_onList (fun f hf => ih.stmts m false f hm (okNode_friends hok hf)))
      intro _ _ _; exact safe_ok_nil _

theorem tmpl_step (m : Macros) (top : Bool) (kvs : KVs) (hm : MacOk m) (hk : okNode kvs = true)
    (hobj : getTruthy kvs "object" = true) :
    NS (parseTemplate (fuel + 1) m top kvs) := by
  simp only [parseTemplate, bind_eq, pure_eq]
  apply safe_bind (parseElement_safe ..)
  intro _ _ hpe
  split
  · exact safe_err _
  · split
    · rename_i table htable
      apply safe_bind (ih.incs m _ _ hm)
      intro inc _ hinc
      apply safe_bind (safe_onMap (fun f hf => ih.fields m f hm (okNode_fields hk hf)))
      intro fields _ hfields
      apply safe_bind (safe_onList (fun f hf => ih.stmts m false f hm (okNode_friends hk hf)))
      intro friends _ _
      apply safe_bind (safe_optR (fun c hc => ih.fv m c hm (okNode_count hk hc)))
      intro count _ _
      apply safe_bind (safe_optMapR (fun fe hfe => ih.fe m fe hm (okNode_forEach hk hfe).2 (okNode_forEach hk hfe).1))
      intro forEach _ _
      split
      · exact safe_err _
      · split
        · exact safe_ok_nil _
        · rename_i hnot
          exfalso
          apply hnot
          rw [List.all_eq_true]
          intro q hq
          rcases List.mem_append.mp hq with hq | hq
          · exact ih.incsNames m _ _ _ _ hm hinc q hq
          · exact onMap_fields_namesStr (fun f hf => okNode_fields hk hf) hfields q hq
    · rename_i hno
      exfalso
      unfold getTruthy at hobj
      cases hl : lookup kvs "object" with
      | none => simp [hl] at hobj
      | some v =>
        obtain ⟨tys, ht1, ht2⟩ := parseElement_ok_lookup hpe hl
        simp only [expectedTy, beq_self_eq_true, ↓reduceIte, Option.some.injEq] at ht1
        subst ht1
        cases v <;> simp [hasTy] at ht2
        exact hno _ hl

theorem incsNames_step (m : Macros) (names parents : List String) (inc : List (Y × Ast) × List Ast)
    (refs : List Ref) (hm : MacOk m) (h : parseInclusions (fuel + 1) m names parents = .ok inc refs) :
    ∀ q ∈ inc.1, q.1.isStr = true := by
  simp only [parseInclusions, bind_eq, pure_eq] at h
  obtain ⟨rs, r1, r2, h1, h2, _⟩ := bind_ok_inv h
  simp only [Res.ok.injEq] at h2
  rw [← h2.1]
  intro q hq
  simp only [List.mem_flatMap] at hq
  obtain ⟨r, hr, hqr⟩ := hq
  obtain ⟨n, _, r', hn⟩ := mapR_ok_mem h1 r hr
  exact ih.macNames m n parents r r' hm hn q hqr

theorem macNames_step (m : Macros) (name : String) (parents : List String)
    (r : List (Y × Ast) × List Ast) (refs : List Ref) (hm : MacOk m)
    (h : includeMacro (fuel + 1) m name parents = .ok r refs) : ∀ q ∈ r.1, q.1.isStr = true := by
  simp only [includeMacro] at h
  split at h
  · cases h
  · rename_i mk hmk
    obtain ⟨p, hp, rfl⟩ := lookupMacro_mem hmk
    have hok := hm p hp
    simp only [bind_eq, pure_eq] at h
    obtain ⟨_, r1, r2, h1, h2, _⟩ := bind_ok_inv h
    split at h2
    · cases h2
    · obtain ⟨inc, r3, r4, h3, h4, _⟩ := bind_ok_inv h2
      obtain ⟨fields, r5, r6, h5, h6, _⟩ := bind_ok_inv h4
      obtain ⟨friends, r7, r8, h7, h8, _⟩ := bind_ok_inv h6
      simp only [Res.ok.injEq] at h8
      rw [← h8.1]
      intro q hq
      rcases List.mem_append.mp hq with hq | hq
      · exact ih.incsNames m _ _ _ _ hm h3 q hq
      · exact onMap_fields_namesStr (fun f hf => okNode_fields hok hf) h5 q hq

end step

theorem allNS : ∀ fuel, AllNS fuel
  | 0 => allNS_zero
  | n + 1 =>
    have ih := allNS n
    { fv := fv_step ih, st := st_step ih, args := args_step ih, fields := fields_step ih,
      stmts := stmts_step ih, var := var_step ih, fe := fe_step ih, incs := incs_step ih,
      mac := mac_step ih, tmpl := tmpl_step ih, incsNames := incsNames_step ih,
      macNames := macNames_step ih }

end SnowModel.ParseCheck
