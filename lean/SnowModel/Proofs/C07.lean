/-
C07 — helper lemmas about `SnowModel.Stop.loop` (core Lean only).
-/
import SnowModel.Core.Stop

namespace SnowModel.Proofs.C07
open SnowModel.Stop

/-- the target names a table (neither the repetition marker nor the empty name) -/
def RowsMode (c : Crit) : Prop := c.tablename ≠ COUNT_REPS ∧ c.tablename ≠ ""

instance (c : Crit) : Decidable (RowsMode c) := by unfold RowsMode; exact inferInstance

/-! ### arithmetic of `cum`, `startId`, `finishedRows` -/

theorem cum_succ (r : Nat → Nat) (i : Nat) : cum r (i + 1) = cum r i + r i := rfl

theorem cum_mono (r : Nat → Nat) {a b : Nat} (h : a ≤ b) : cum r a ≤ cum r b := by
  induction b with
  | zero => have : a = 0 := by omega
            subst this; exact Nat.le_refl _
  | succ b ih =>
    by_cases hab : a = b + 1
    · subst hab; exact Nat.le_refl _
    · have := ih (by omega); rw [cum_succ]; omega

/-- if every iteration in `[a, b)` creates a row, `b - a` rows at least are created there -/
theorem cum_ge (r : Nat → Nat) (a : Nat) : ∀ b, a ≤ b → (∀ j, a ≤ j → j < b → 1 ≤ r j) →
    cum r a + (b - a) ≤ cum r b := by
  intro b
  induction b with
  | zero => intro h _; have : a = 0 := by omega
            subst this; simp
  | succ b ih =>
    intro h hr
    by_cases hab : a = b + 1
    · subst hab; simp
    · have h1 := ih (by omega) (fun j h1 h2 => hr j h1 (by omega))
      have h2 := hr b (by omega) (by omega)
      rw [cum_succ]; omega

theorem startId_eq (cont : Cont) : startId cont = last0 cont + 1 := by
  cases cont <;> rfl

/-- relative counting: with `start = L0 + 1` the test is "at least `N` rows since the run started" -/
theorem finishedRows_rel (L0 N x : Nat) : finishedRows (L0 + 1) N (L0 + x) = decide (N ≤ x) := by
  simp only [finishedRows, targetId, ge_iff_le, decide_eq_decide]
  omega

/-! ### one boundary / one iteration in rows mode -/

@[simp] theorem sidOf_some (start x rc : Nat) : sidOf start ⟨some x, rc⟩ = x := rfl
@[simp] theorem sidOf_init (start : Nat) : sidOf start App.init = start - 1 := rfl


theorem truthy_rows (c : Crit) (h : RowsMode c) : truthy (stoppingTablename c) = true := by
  simp [stoppingTablename, h.1, truthy, h.2]

theorem boundary_rows (c : Crit) (start : Nat) (app : App) (last : Nat) (h : RowsMode c) :
    boundary c start app last =
      if last = sidOf start app then none
      else some (⟨some last, app.repCount + 1⟩, finishedRows start c.count last) := by
  simp only [boundary, ensureProgress, checkIfFinished, truthy_rows c h, h.1]
  by_cases hl : last = sidOf start app <;> simp [hl]

theorem loop_step_stall (c : Crit) (start : Nat) (r : Nat → Nat) (h : RowsMode c) (f i last : Nat)
    (app : App) (hs : last + r i = sidOf start app) :
    loop c start r (f + 1) i last app = .noProgress (i + 1) (last + r i) := by
  simp [loop, boundary_rows c start app _ h, hs]

theorem loop_step_finish (c : Crit) (start : Nat) (r : Nat → Nat) (h : RowsMode c) (f i last : Nat)
    (app : App) (hs : last + r i ≠ sidOf start app)
    (hf : finishedRows start c.count (last + r i) = true) :
    loop c start r (f + 1) i last app = .finished (i + 1) (last + r i) ⟨some (last + r i), app.repCount + 1⟩ := by
  simp [loop, boundary_rows c start app _ h, hs, hf]

theorem loop_step_continue (c : Crit) (start : Nat) (r : Nat → Nat) (h : RowsMode c) (f i last : Nat)
    (app : App) (hs : last + r i ≠ sidOf start app)
    (hf : finishedRows start c.count (last + r i) = false) :
    loop c start r (f + 1) i last app =
      loop c start r f (i + 1) (last + r i) ⟨some (last + r i), app.repCount + 1⟩ := by
  simp [loop, boundary_rows c start app _ h, hs, hf]

/-- `k` iterations that each make progress and do not reach the target are simply executed. -/
theorem loop_skip (c : Crit) (start : Nat) (r : Nat → Nat) (h : RowsMode c) (L0 i : Nat) (app : App)
    (hsid : sidOf start app ≤ L0 + cum r i) :
    ∀ k f,
      (∀ j, i ≤ j → j < i + k → 1 ≤ r j ∧ finishedRows start c.count (L0 + cum r (j + 1)) = false) →
      ∃ app' : App, sidOf start app' ≤ L0 + cum r (i + k) ∧ app'.repCount = app.repCount + k ∧
        (0 < k → app'.startingId = some (L0 + cum r (i + k))) ∧ (k = 0 → app' = app) ∧
        loop c start r (k + f) i (L0 + cum r i) app = loop c start r f (i + k) (L0 + cum r (i + k)) app' := by
  intro k
  induction k with
  | zero => intro f _; exact ⟨app, by simpa using hsid, by simp, by simp, by simp, by simp⟩
  | succ k ih =>
    intro f hk
    obtain ⟨app1, h1, h2, _, _, h5⟩ := ih (f + 1) (fun j hj1 hj2 => hk j hj1 (by omega))
    obtain ⟨hr, hnf⟩ := hk (i + k) (by omega) (by omega)
    have e : L0 + cum r (i + k) + r (i + k) = L0 + cum r (i + (k + 1)) := by
      rw [← Nat.add_assoc i k 1, cum_succ]; omega
    refine ⟨⟨some (L0 + cum r (i + (k + 1))), app1.repCount + 1⟩, Nat.le_refl _, by simp [h2]; omega,
      fun _ => rfl, by omega, ?_⟩
    have e2 : k + 1 + f = k + (f + 1) := by omega
    rw [e2, h5, loop_step_continue c start r h f (i + k) _ app1 (by omega) (by rw [e]; exact hnf), e]
    rfl

/-! ### soundness of the two ways a rows-mode loop can end -/

/-- A loop that ends normally ends at the first boundary (after its starting point) where the
    finish test holds, having executed whole iterations only. -/
theorem loop_finished_sound (c : Crit) (start : Nat) (r : Nat → Nat) (h : RowsMode c) (L0 : Nat) :
    ∀ fuel i last app n last' app', last = L0 + cum r i →
      loop c start r fuel i last app = .finished n last' app' →
      i < n ∧ last' = L0 + cum r n ∧ finishedRows start c.count (L0 + cum r n) = true ∧
      (∀ j, i < j → j < n → finishedRows start c.count (L0 + cum r j) = false) ∧
      app'.repCount = app.repCount + (n - i) ∧ app'.startingId = some last' := by
  intro fuel
  induction fuel with
  | zero => intro i last app n last' app' _ hl; simp [loop] at hl
  | succ fuel ih =>
    intro i last app n last' app' hlast hl
    have e : last + r i = L0 + cum r (i + 1) := by rw [cum_succ]; omega
    by_cases hs : last + r i = sidOf start app
    · rw [loop_step_stall c start r h fuel i last app hs] at hl; simp at hl
    · cases hf : finishedRows start c.count (last + r i) with
      | true =>
        rw [loop_step_finish c start r h fuel i last app hs hf] at hl
        injection hl with h1 h2 h3
        subst h1; subst h2; subst h3
        refine ⟨by omega, e, by rw [← e]; exact hf, fun j h1 h2 => by omega, by simp, rfl⟩
      | false =>
        rw [loop_step_continue c start r h fuel i last app hs hf] at hl
        obtain ⟨g1, g2, g3, g4, g5, g6⟩ := ih (i + 1) _ _ n last' app' e hl
        refine ⟨by omega, g2, g3, ?_, by simp at g5; omega, g6⟩
        intro j h1 h2
        by_cases hj : j = i + 1
        · subst hj; rw [← e]; exact hf
        · exact g4 j (by omega) h2

/-- The progress error is raised only at the end of an iteration that created no row. -/
theorem loop_noProgress_sound (c : Crit) (start : Nat) (r : Nat → Nat) (h : RowsMode c) :
    ∀ fuel i last app n last', sidOf start app ≤ last →
      loop c start r fuel i last app = .noProgress n last' →
      i < n ∧ r (n - 1) = 0 := by
  intro fuel
  induction fuel with
  | zero => intro i last app n last' _ hl; simp [loop] at hl
  | succ fuel ih =>
    intro i last app n last' hsid hl
    by_cases hs : last + r i = sidOf start app
    · rw [loop_step_stall c start r h fuel i last app hs] at hl
      injection hl with h1 h2
      subst h1
      exact ⟨by omega, by simp; omega⟩
    · cases hf : finishedRows start c.count (last + r i) with
      | true =>
        rw [loop_step_finish c start r h fuel i last app hs hf] at hl; simp at hl
      | false =>
        rw [loop_step_continue c start r h fuel i last app hs hf] at hl
        obtain ⟨g1, g2⟩ := ih (i + 1) (last + r i) ⟨some (last + r i), app.repCount + 1⟩ n last'
          (Nat.le_refl _) hl
        exact ⟨by omega, g2⟩

/-! ### termination -/

/-- Once `starting_id` is in step with the id counter, every iteration either ends the run or brings
    the counter strictly closer to the target id. -/
theorem loop_terminates_synced (c : Crit) (start : Nat) (r : Nat → Nat) (h : RowsMode c) :
    ∀ fuel i last app, sidOf start app = last → 1 ≤ fuel → targetId start c.count - last ≤ fuel →
      ∀ n, loop c start r fuel i last app ≠ .outOfFuel n := by
  intro fuel
  induction fuel with
  | zero => intro i last app _ h1; omega
  | succ fuel ih =>
    intro i last app hsid _ hd n
    by_cases hs : last + r i = sidOf start app
    · rw [loop_step_stall c start r h fuel i last app hs]; simp
    · cases hf : finishedRows start c.count (last + r i) with
      | true => rw [loop_step_finish c start r h fuel i last app hs hf]; simp
      | false =>
        rw [loop_step_continue c start r h fuel i last app hs hf]
        have hlt : last + r i < targetId start c.count := by
          simp [finishedRows] at hf; exact hf
        exact ih (i + 1) (last + r i) ⟨some (last + r i), app.repCount + 1⟩ rfl (by omega) (by omega) n

theorem loop_terminates (c : Crit) (start : Nat) (r : Nat → Nat) (h : RowsMode c)
    (fuel last : Nat) (app : App) (hf : targetId start c.count - last + 2 ≤ fuel) :
    ∀ n, loop c start r fuel 0 last app ≠ .outOfFuel n := by
  intro n
  obtain ⟨f, rfl⟩ : ∃ f, fuel = f + 1 := ⟨fuel - 1, by omega⟩
  by_cases hs : last + r 0 = sidOf start app
  · rw [loop_step_stall c start r h f 0 last app hs]; simp
  · cases hfin : finishedRows start c.count (last + r 0) with
    | true => rw [loop_step_finish c start r h f 0 last app hs hfin]; simp
    | false =>
      rw [loop_step_continue c start r h f 0 last app hs hfin]
      have hlt : last + r 0 < targetId start c.count := by
        simp [finishedRows] at hfin; exact hfin
      exact loop_terminates_synced c start r h f 1 (last + r 0) ⟨some (last + r 0), app.repCount + 1⟩ rfl
        (by omega) (by omega) n

/-- more fuel never changes a result that was reached -/
theorem loop_fuel_mono (c : Crit) (start : Nat) (r : Nat → Nat) :
    ∀ fuel g i last app, (∀ n, loop c start r fuel i last app ≠ .outOfFuel n) →
      loop c start r (fuel + g) i last app = loop c start r fuel i last app := by
  intro fuel
  induction fuel with
  | zero => intro g i last app hn; exact absurd rfl (hn i)
  | succ fuel ih =>
    intro g i last app hn
    have e : fuel + 1 + g = (fuel + g) + 1 := by omega
    rw [e]
    simp only [loop] at hn ⊢
    cases hb : boundary c start app (last + r i) with
    | none => rfl
    | some p =>
      obtain ⟨app', b⟩ := p
      cases b with
      | true => rfl
      | false =>
        simp only [hb] at hn
        exact ih g (i + 1) _ app' hn

/-- `k` progressing, non-finishing iterations followed by one that reaches the target -/
theorem loop_complete (c : Crit) (start : Nat) (r : Nat → Nat) (h : RowsMode c) (L0 i : Nat) (app : App)
    (hsid : sidOf start app ≤ L0 + cum r i) (k f : Nat)
    (hk : ∀ j, i ≤ j → j < i + k → 1 ≤ r j ∧ finishedRows start c.count (L0 + cum r (j + 1)) = false)
    (hr : 1 ≤ r (i + k)) (hfin : finishedRows start c.count (L0 + cum r (i + k + 1)) = true) :
    loop c start r (k + (f + 1)) i (L0 + cum r i) app =
      .finished (i + k + 1) (L0 + cum r (i + k + 1)) ⟨some (L0 + cum r (i + k + 1)), app.repCount + k + 1⟩ := by
  obtain ⟨app1, h1, h2, _, _, h5⟩ := loop_skip c start r h L0 i app hsid k (f + 1) hk
  have e : L0 + cum r (i + k) + r (i + k) = L0 + cum r (i + k + 1) := by rw [cum_succ]; omega
  rw [h5, loop_step_finish c start r h f (i + k) _ app1 (by omega) (by rw [e]; exact hfin), e, h2]

/-- `k` progressing, non-finishing iterations followed by one that creates no row: the error is
    raised there, provided `starting_id` is in step with the counter (always, after one iteration). -/
theorem loop_stalls (c : Crit) (start : Nat) (r : Nat → Nat) (h : RowsMode c) (L0 i : Nat) (app : App)
    (hsid : sidOf start app ≤ L0 + cum r i) (k f : Nat)
    (hk : ∀ j, i ≤ j → j < i + k → 1 ≤ r j ∧ finishedRows start c.count (L0 + cum r (j + 1)) = false)
    (hr : r (i + k) = 0) (hsync : 0 < k ∨ sidOf start app = L0 + cum r i) :
    loop c start r (k + (f + 1)) i (L0 + cum r i) app = .noProgress (i + k + 1) (L0 + cum r (i + k)) := by
  obtain ⟨app1, h1, h2, h3, h4, h5⟩ := loop_skip c start r h L0 i app hsid k (f + 1) hk
  have hs3 : 0 < k → sidOf start app1 = L0 + cum r (i + k) := by
    intro hk0; simp [sidOf, h3 hk0]
  have hs : L0 + cum r (i + k) + r (i + k) = sidOf start app1 := by
    rw [hr]
    rcases hsync with hk0 | hk0
    · rw [hs3 hk0]; rfl
    · by_cases hk1 : 0 < k
      · rw [hs3 hk1]; rfl
      · have : k = 0 := by omega
        subst this; rw [h4 rfl, hk0]; rfl
  rw [h5, loop_step_stall c start r h f (i + k) _ app1 hs, hr]; rfl

/-! ### repetition counting -/

theorem boundary_reps (c : Crit) (start : Nat) (app : App) (last : Nat) (h : c.tablename = COUNT_REPS) :
    boundary c start app last =
      some (⟨app.startingId, app.repCount + 1⟩, decide (app.repCount + 1 ≥ c.count)) := by
  simp [boundary, ensureProgress, checkIfFinished, stoppingTablename, truthy, h]

theorem loop_reps (c : Crit) (start : Nat) (r : Nat → Nat) (h : c.tablename = COUNT_REPS) (L0 : Nat) :
    ∀ d fuel i app, app.repCount + d + 1 = max c.count 1 → d + 1 ≤ fuel →
      loop c start r fuel i (L0 + cum r i) app =
        .finished (i + d + 1) (L0 + cum r (i + d + 1)) ⟨app.startingId, max c.count 1⟩ := by
  intro d
  induction d with
  | zero =>
    intro fuel i app hk hf
    obtain ⟨f, rfl⟩ : ∃ f, fuel = f + 1 := ⟨fuel - 1, by omega⟩
    have hfin : decide (app.repCount + 1 ≥ c.count) = true := by simp; omega
    have e : L0 + cum r i + r i = L0 + cum r (i + 0 + 1) := by simp [cum_succ]; omega
    simp only [loop, boundary_reps c start app _ h, hfin, e]
    have : app.repCount + 1 = max c.count 1 := by omega
    simp [this]
  | succ d ih =>
    intro fuel i app hk hf
    obtain ⟨f, rfl⟩ : ∃ f, fuel = f + 1 := ⟨fuel - 1, by omega⟩
    have hfin : decide (app.repCount + 1 ≥ c.count) = false := by simp; omega
    have e : L0 + cum r i + r i = L0 + cum r (i + 1) := by simp [cum_succ]; omega
    simp only [loop, boundary_reps c start app _ h, hfin, e]
    have := ih f (i + 1) ⟨app.startingId, app.repCount + 1⟩ (by simp; omega) (by omega)
    rw [this]
    have e2 : i + 1 + d + 1 = i + (d + 1) + 1 := by omega
    simp [e2]

/-! ### the validation in `Interpreter.__init__` -/

theorem rejects_of_contains (tables : List String) (c : Crit) (h : tables.contains c.tablename = true) :
    rejects tables c = false := by
  unfold rejects; rw [h]; simp

/-- any name other than the repetition marker — the empty name included — that no template creates -/
theorem rejects_unknown (tables : List String) (c : Crit) (hT : c.tablename ≠ COUNT_REPS)
    (h : tables.contains c.tablename = false) : rejects tables c = true := by
  unfold rejects; rw [h]; simp [stoppingTablename, hT]

theorem rejects_reps (tables : List String) (c : Crit) (h : c.tablename = COUNT_REPS) :
    rejects tables c = false := by
  simp [rejects, stoppingTablename, h]

/-- the loop itself never produces `rejected` -/
theorem loop_ne_rejected (c : Crit) (start : Nat) (r : Nat → Nat) :
    ∀ fuel i last app, loop c start r fuel i last app ≠ .rejected := by
  intro fuel
  induction fuel with
  | zero => intro i last app; simp [loop]
  | succ fuel ih =>
    intro i last app
    simp only [loop]
    cases boundary c start app (last + r i) with
    | none => simp
    | some p =>
      obtain ⟨a, b⟩ := p
      cases b with
      | true => simp
      | false => exact ih _ _ _

end SnowModel.Proofs.C07
