/-
C20 — helper lemmas, part 5: termination.  For every document and every set of include files there
is a recursion budget beyond which the validation layer never runs out of fuel: include files and
macros are guarded by explicit stacks (fixes 70277f6, 97f2c27), everything else recurses on a
strictly smaller sub-value.
-/
import SnowModel.Proofs.C20c

namespace SnowModel.ParseCheck

/-- the step did not run out of fuel -/
def NF {α : Type} (r : Res α) : Prop := r ≠ .fuel

section nf
variable {α β : Type}

theorem nf_ok (a : α) (refs : List Ref) : NF (.ok a refs : Res α) := by intro h; cases h
theorem nf_err (e : Err) : NF (.recipeError e : Res α) := by intro h; cases h
theorem nf_stuck (s : Site) : NF (.stuck s : Res α) := by intro h; cases h

theorem nf_bind {r : Res α} {f : α → Res β} (hr : NF r)
    (hf : ∀ a refs, r = .ok a refs → NF (f a)) : NF (r.bind f) := by
  intro h
  cases r with
  | ok a r1 =>
    have := hf a r1 rfl
    simp only [Res.bind] at h
    cases hfa : f a with
    | ok b r2 => rw [hfa] at h; cases h
    | recipeError e => rw [hfa] at h; cases h
    | stuck s => rw [hfa] at h; cases h
    | fuel => exact this hfa
  | recipeError e => cases h
  | stuck s => cases h
  | fuel => exact hr rfl

theorem nf_mapR {f : α → Res β} {l : List α} (h : ∀ x ∈ l, NF (f x)) : NF (mapR f l) := by
  induction l with
  | nil => exact nf_ok _ _
  | cons x xs ih =>
    simp only [mapR, bind_eq, pure_eq]
    apply nf_bind (h x (List.mem_cons_self ..))
    intro b _ _
    apply nf_bind (ih (fun y hy => h y (List.mem_cons_of_mem _ hy)))
    intro bs _ _
    exact nf_ok _ _

theorem nf_forR {f : α → Res Unit} {l : List α} (h : ∀ x ∈ l, NF (f x)) : NF (forR f l) := by
  induction l with
  | nil => exact nf_ok _ _
  | cons x xs ih =>
    simp only [forR, bind_eq]
    apply nf_bind (h x (List.mem_cons_self ..))
    intro _ _ _
    exact ih (fun y hy => h y (List.mem_cons_of_mem _ hy))

theorem nf_onMap {v : Option Y} {f : KVs → Res α} {d : α}
    (h : ∀ kvs, v = some (.map kvs) → NF (f kvs)) : NF (onMap v f d) := by
  unfold onMap
  split
  · exact h _ rfl
  · exact nf_ok _ _

theorem nf_onList {v : Option Y} {f : List Y → Res α} {d : α}
    (h : ∀ xs, v = some (.list xs) → NF (f xs)) : NF (onList v f d) := by
  unfold onList
  split
  · exact h _ rfl
  · exact nf_ok _ _

theorem nf_optR {v : Option Y} {f : Y → Res α} (h : ∀ c, v = some c → NF (f c)) : NF (optR v f) := by
  unfold optR
  split
  · simp only [bind_eq, pure_eq]
    apply nf_bind (h _ rfl)
    intro _ _ _; exact nf_ok _ _
  · exact nf_ok _ _

theorem nf_optMapR {v : Option Y} {f : KVs → Res α}
    (h : ∀ kvs, v = some (.map kvs) → NF (f kvs)) : NF (optMapR v f) := by
  unfold optMapR
  split
  · simp only [bind_eq, pure_eq]
    apply nf_bind (h _ rfl)
    intro _ _ _; exact nf_ok _ _
  · exact nf_ok _ _

end nf

theorem checkKeys_nf (et : String) (m o : KeyTable) (kvs : KVs) : NF (checkKeys et m o kvs) := by
  induction kvs with
  | nil => exact nf_ok _ _
  | cons p rest ih =>
    obtain ⟨k, v⟩ := p
    cases k <;> simp only [checkKeys] <;> try exact nf_err _
    split
    · exact nf_err _
    · split
      · exact ih
      · exact nf_err _

theorem parseElement_nf (kvs : KVs) (et : String) (m o : KeyTable) : NF (parseElement kvs et m o) := by
  simp only [parseElement, bind_eq, pure_eq]
  apply nf_bind (checkKeys_nf _ _ _ _)
  intro _ _ _
  split
  · exact nf_ok _ _
  · exact nf_err _

theorem coerceKey_nf (k : Y) : NF (coerceKey k) := by
  cases k <;> simp only [coerceKey, pure_eq] <;> first | exact nf_ok _ _ | exact nf_err _

/-! ### sizes -/

theorem size_mem_kvs {kvs : KVs} {p : Y × Y} (h : p ∈ kvs) : sizeOf p.2 + 1 < sizeOf kvs := by
  have h1 := List.sizeOf_lt_of_mem h
  have h2 : sizeOf p = 1 + sizeOf p.1 + sizeOf p.2 := by cases p; rfl
  omega

theorem size_lookup {kvs : KVs} {k : String} {v : Y} (h : lookup kvs k = some v) :
    sizeOf v + 1 < sizeOf kvs :=
  size_mem_kvs (lookup_mem h)

theorem size_mem_list {xs : List Y} {x : Y} (h : x ∈ xs) : sizeOf x < sizeOf xs :=
  List.sizeOf_lt_of_mem h

/-! ### the macro level -/

/-- macro names (from the static universe `U` of declared names) that can still be expanded -/
def avail (U : List String) (ex : List String) : Nat := (U.filter (fun n => !ex.contains n)).length

theorem lookupMacro_key {m : Macros} {name : String} {mk : KVs} (h : lookupMacro m name = some mk) :
    ∃ p ∈ m, p.1 = name ∧ p.2 = mk := by
  unfold lookupMacro at h
  split at h
  · rename_i p hp
    have hm := List.mem_of_getLast? hp
    simp only [Option.some.injEq] at h
    have := List.mem_filter.mp hm
    exact ⟨p, this.1, by simpa using this.2, h⟩
  · cases h

theorem filter_length_lt {α : Type} {p q : α → Bool} {l : List α} (hpq : ∀ x, q x = true → p x = true)
    {a : α} (ha : a ∈ l) (hpa : p a = true) (hqa : q a = false) :
    (l.filter q).length < (l.filter p).length := by
  induction l with
  | nil => cases ha
  | cons x xs ih =>
    simp only [List.filter_cons]
    rcases List.mem_cons.mp ha with rfl | hx
    · simp only [hpa, hqa, ↓reduceIte, Bool.false_eq_true, List.length_cons]
      have : (xs.filter q).length ≤ (xs.filter p).length := by
        clear ih ha
        induction xs with
        | nil => simp
        | cons y ys ihy =>
          simp only [List.filter_cons]
          by_cases hq : q y = true
          · simp only [hq, hpq y hq, ↓reduceIte, List.length_cons]; omega
          · simp only [hq, Bool.false_eq_true, ↓reduceIte]
            split
            · simp only [List.length_cons]; omega
            · exact ihy
      omega
    · have := ih hx
      by_cases hq : q x = true
      · simp only [hq, hpq x hq, ↓reduceIte, List.length_cons]; omega
      · simp only [hq, Bool.false_eq_true, ↓reduceIte]
        split
        · simp only [List.length_cons]; omega
        · exact this

theorem avail_drop {U : List String} {ex : List String} {name : String}
    (h : name ∈ U) (hex : ex.contains name = false) :
    avail U (ex ++ [name]) < avail U ex := by
  unfold avail
  apply filter_length_lt (a := name) _ h
  · have : name ∉ ex := by simpa using hex
    simp [this]
  · simp
  · intro x hx
    simp only [Bool.not_eq_true', List.contains_append, Bool.or_eq_false_iff] at hx ⊢
    simpa using hx.1

/-- cost of one macro level: enough for a macro body of size ≤ `S` -/
def lev (U : List String) (S : Nat) (ex : List String) : Nat := avail U ex * (3 * S + 8)

theorem lev_drop {U : List String} {S : Nat} {ex : List String} {name : String}
    (h : name ∈ U) (hex : ex.contains name = false) :
    lev U S (ex ++ [name]) + (3 * S + 8) ≤ lev U S ex := by
  have := avail_drop h hex
  unfold lev
  calc avail U (ex ++ [name]) * (3 * S + 8) + (3 * S + 8)
      = (avail U (ex ++ [name]) + 1) * (3 * S + 8) := by rw [Nat.add_mul, Nat.one_mul]
    _ ≤ avail U ex * (3 * S + 8) := Nat.mul_le_mul_right _ this

/-- every macro body has size ≤ `S` and every macro name is in `U` -/
def MacBound (m : Macros) (U : List String) (S : Nat) : Prop := ∀ p ∈ m, sizeOf p.2 ≤ S ∧ p.1 ∈ U

theorem sizeOf_Y_pos (v : Y) : 1 ≤ sizeOf v := by
  cases v <;> simp <;> omega

theorem sizeOf_list_pos {α : Type} [SizeOf α] (l : List α) : 1 ≤ sizeOf l := by
  cases l <;> simp <;> omega

structure AllNF (m : Macros) (U : List String) (S : Nat) (fuel : Nat) : Prop where
  fv : ∀ ex v, lev U S ex + 3 * sizeOf v ≤ fuel → NF (parseFieldValue fuel m ex v)
  st : ∀ ex kvs, lev U S ex + 3 * sizeOf kvs + 2 ≤ fuel → NF (parseStructured fuel m ex kvs)
  args : ∀ ex a, lev U S ex + 3 * sizeOf a + 1 ≤ fuel → NF (parseArgs fuel m ex a)
  fields : ∀ ex kvs, lev U S ex + 3 * sizeOf kvs + 2 ≤ fuel → NF (parseFields fuel m ex kvs)
  stmts : ∀ ex top xs B, (∀ x ∈ xs, sizeOf x ≤ B) → lev U S ex + 3 * B + 2 ≤ fuel →
    NF (parseStmts fuel m ex top xs)
  var : ∀ ex kvs, lev U S ex + 3 * sizeOf kvs + 2 ≤ fuel → NF (parseVar fuel m ex kvs)
  fe : ∀ ex kvs, lev U S ex + 3 * sizeOf kvs + 2 ≤ fuel → NF (parseForEach fuel m ex kvs)
  incs : ∀ ex names parents, lev U S ex + 2 ≤ fuel → NF (parseInclusions fuel m ex names parents)
  mac : ∀ ex name parents, lev U S ex + 1 ≤ fuel → NF (includeMacro fuel m ex name parents)
  tmpl : ∀ ex top kvs, lev U S ex + 3 * sizeOf kvs + 2 ≤ fuel → NF (parseTemplate fuel m ex top kvs)

theorem allNF_zero (m : Macros) (U : List String) (S : Nat) : AllNF m U S 0 := by
  constructor
  case fv => intro ex v h; have := sizeOf_Y_pos v; omega
  all_goals
    intros
    omega

section step
variable {m : Macros} {U : List String} {S : Nat} (hm : MacBound m U S) {fuel : Nat} (ih : AllNF m U S fuel)
include ih

theorem nf_fv_step (ex : List String) (v : Y) (h : lev U S ex + 3 * sizeOf v ≤ fuel + 1) :
    NF (parseFieldValue (fuel + 1) m ex v) := by
  simp only [parseFieldValue]
  split
  · rename_i kvs
    apply ih.fv
    simp at h ⊢; omega
  · exact nf_err _
  · rename_i kvs
    simp at h
    split
    · apply ih.tmpl; omega
    · apply ih.st; omega
  · exact nf_ok _ _

theorem nf_st_step (ex : List String) (kvs : KVs) (h : lev U S ex + 3 * sizeOf kvs + 2 ≤ fuel + 1) :
    NF (parseStructured (fuel + 1) m ex kvs) := by
  simp only [parseStructured]
  split
  · exact nf_err _
  · rename_i k a rest
    have hargs : sizeOf (if rest.isEmpty = true then a else Y.map rest) + 1 ≤ sizeOf ((k, a) :: rest) := by
      have hp : sizeOf (k, a) = 1 + sizeOf k + sizeOf a := rfl
      have hk := sizeOf_Y_pos k
      have ha := sizeOf_Y_pos a
      split
      · simp; omega
      · simp; omega
    split
    · split
      · exact nf_err _
      · simp only [bind_eq, pure_eq]
        apply nf_bind
        · apply ih.args
          omega
        · intro pa _ _
          split
          · exact nf_ok _ _
          · exact nf_ok _ _
    · exact nf_err _

theorem nf_args_step (ex : List String) (a : Y) (h : lev U S ex + 3 * sizeOf a + 1 ≤ fuel + 1) :
    NF (parseArgs (fuel + 1) m ex a) := by
  have hscalar : ∀ s : Y, lev U S ex + 3 * sizeOf s ≤ fuel →
      NF ((parseFieldValue fuel m ex s).bind fun x => (Res.ok ([x], []) [] : Res Ref)) := by
    intro s hs
    apply nf_bind (ih.fv ex s hs)
    intro _ _ _; exact nf_ok _ _
  cases a with
  | map kvs =>
    simp only [parseArgs, bind_eq, pure_eq]
    simp at h
    apply nf_bind
    · apply nf_mapR
      intro p hp
      apply nf_bind (coerceKey_nf _)
      intro k _ _
      apply nf_bind
      · apply ih.fv
        have := size_mem_kvs hp
        omega
      · intro _ _ _; exact nf_ok _ _
    · intro _ _ _; exact nf_ok _ _
  | list xs =>
    simp only [parseArgs, bind_eq, pure_eq]
    simp at h
    apply nf_bind
    · apply nf_mapR
      intro x hx
      apply ih.fv
      have := size_mem_list hx
      omega
    · intro _ _ _; exact nf_ok _ _
  | null => simp only [parseArgs, bind_eq, pure_eq]; exact hscalar _ (by omega)
  | bool _ => simp only [parseArgs, bind_eq, pure_eq]; exact hscalar _ (by omega)
  | int _ => simp only [parseArgs, bind_eq, pure_eq]; exact hscalar _ (by omega)
  | float _ => simp only [parseArgs, bind_eq, pure_eq]; exact hscalar _ (by omega)
  | str _ => simp only [parseArgs, bind_eq, pure_eq]; exact hscalar _ (by omega)
  | date _ => simp only [parseArgs, bind_eq, pure_eq]; exact hscalar _ (by omega)

theorem nf_fields_step (ex : List String) (kvs : KVs) (h : lev U S ex + 3 * sizeOf kvs + 2 ≤ fuel + 1) :
    NF (parseFields (fuel + 1) m ex kvs) := by
  simp only [parseFields]
  apply nf_mapR
  intro p hp
  split
  · split
    · exact nf_err _
    · simp only [bind_eq, pure_eq]
      apply nf_bind
      · apply ih.fv
        have := size_mem_kvs hp
        omega
      · intro _ _ _; exact nf_ok _ _
  · exact nf_err _

theorem nf_stmts_step (ex : List String) (top : Bool) (xs : List Y) (B : Nat)
    (hB : ∀ x ∈ xs, sizeOf x ≤ B) (h : lev U S ex + 3 * B + 2 ≤ fuel + 1) :
    NF (parseStmts (fuel + 1) m ex top xs) := by
  simp only [parseStmts]
  apply nf_mapR
  intro x hx
  have hxB := hB x hx
  split
  · rename_i kvs
    simp at hxB
    split
    · apply ih.tmpl; omega
    · split
      · apply ih.var; omega
      · exact nf_err _
  · exact nf_err _

theorem nf_var_step (ex : List String) (kvs : KVs) (h : lev U S ex + 3 * sizeOf kvs + 2 ≤ fuel + 1) :
    NF (parseVar (fuel + 1) m ex kvs) := by
  simp only [parseVar, bind_eq, pure_eq]
  apply nf_bind (parseElement_nf _ _ _ _)
  intro _ _ _
  split
  · rename_i name value h1 h2
    apply nf_bind
    · apply ih.fv
      have := size_lookup h2
      omega
    · intro _ _ _; exact nf_ok _ _
  · exact nf_stuck _

theorem nf_fe_step (ex : List String) (kvs : KVs) (h : lev U S ex + 3 * sizeOf kvs + 2 ≤ fuel + 1) :
    NF (parseForEach (fuel + 1) m ex kvs) := by
  simp only [parseForEach, bind_eq, pure_eq]
  apply nf_bind (parseElement_nf _ _ _ _)
  intro _ _ _
  split
  · rename_i name value h1 h2
    apply nf_bind
    · apply ih.fv
      have := size_lookup h2
      omega
    · intro _ _ _; exact nf_ok _ _
  · exact nf_stuck _

theorem nf_incs_step (ex names parents : List String) (h : lev U S ex + 2 ≤ fuel + 1) :
    NF (parseInclusions (fuel + 1) m ex names parents) := by
  simp only [parseInclusions, bind_eq, pure_eq]
  apply nf_bind
  · apply nf_mapR
    intro n _
    apply ih.mac
    omega
  · intro _ _ _; exact nf_ok _ _

include hm in
theorem nf_mac_step (ex : List String) (name : String) (parents : List String)
    (h : lev U S ex + 1 ≤ fuel + 1) : NF (includeMacro (fuel + 1) m ex name parents) := by
  simp only [includeMacro]
  split
  · exact nf_err _
  · rename_i mk hmk
    simp only [bind_eq, pure_eq]
    apply nf_bind (parseElement_nf _ _ _ _)
    intro _ _ _
    split
    · exact nf_err _
    · rename_i hnot
      have hex : ex.contains name = false := by
        simp only [Bool.or_eq_true, not_or, Bool.not_eq_true] at hnot
        exact hnot.2
      obtain ⟨p, hp, hpn, hpk⟩ := lookupMacro_key hmk
      have hS : sizeOf mk ≤ S := by rw [← hpk]; exact (hm p hp).1
      have hd := lev_drop (S := S) (by rw [← hpn]; exact (hm p hp).2) hex
      apply nf_bind
      · apply ih.incs; omega
      · intro inc _ _
        apply nf_bind
        · apply nf_onMap
          intro f hf
          apply ih.fields
          have := size_lookup hf
          simp at this
          omega
        · intro fields _ _
          apply nf_bind
          · apply nf_onList
            intro f hf
            apply ih.stmts _ _ _ (sizeOf f) (fun x hx => Nat.le_of_lt (size_mem_list hx))
            have := size_lookup hf
            simp at this
            omega
          · intro _ _ _; exact nf_ok _ _

theorem nf_tmpl_step (ex : List String) (top : Bool) (kvs : KVs)
    (h : lev U S ex + 3 * sizeOf kvs + 2 ≤ fuel + 1) : NF (parseTemplate (fuel + 1) m ex top kvs) := by
  have hk := sizeOf_list_pos kvs
  simp only [parseTemplate, bind_eq, pure_eq]
  apply nf_bind (parseElement_nf _ _ _ _)
  intro _ _ _
  split
  · exact nf_err _
  · split
    · apply nf_bind
      · apply ih.incs; omega
      · intro inc _ _
        apply nf_bind
        · apply nf_onMap
          intro f hf
          apply ih.fields
          have := size_lookup hf
          simp at this
          omega
        · intro fields _ _
          apply nf_bind
          · apply nf_onList
            intro f hf
            apply ih.stmts _ _ _ (sizeOf f) (fun x hx => Nat.le_of_lt (size_mem_list hx))
            have := size_lookup hf
            simp at this
            omega
          · intro friends _ _
            apply nf_bind
            · apply nf_optR
              intro c hc
              apply ih.fv
              have := size_lookup hc
              omega
            · intro count _ _
              apply nf_bind
              · apply nf_optMapR
                intro fe hfe
                apply ih.fe
                have := size_lookup hfe
                simp at this
                omega
              · intro forEach _ _
                split
                · exact nf_err _
                · exact nf_ok _ _
    · exact nf_stuck _

end step

theorem allNF (m : Macros) (U : List String) (S : Nat) (hm : MacBound m U S) : ∀ fuel, AllNF m U S fuel
  | 0 => allNF_zero m U S
  | n + 1 =>
    have ih := allNF m U S hm n
    { fv := nf_fv_step ih, st := nf_st_step ih, args := nf_args_step ih, fields := nf_fields_step ih,
      stmts := nf_stmts_step ih, var := nf_var_step ih, fe := nf_fe_step ih, incs := nf_incs_step ih,
      mac := nf_mac_step hm ih, tmpl := nf_tmpl_step ih }

/-! ### files -/

theorem nf_foldlM {σ α : Type} {f : σ → α → Res σ} :
    ∀ (l : List α) (init : σ), (∀ s x, x ∈ l → NF (f s x)) → NF (l.foldlM f init) := by
  intro l
  induction l with
  | nil => intro init _; simp only [List.foldlM_nil, pure_eq]; exact nf_ok _ _
  | cons x xs ih =>
    intro init h
    simp only [List.foldlM_cons, bind_eq]
    apply nf_bind (h init x (List.mem_cons_self ..))
    intro s _ _
    exact ih s (fun s' y hy => h s' y (List.mem_cons_of_mem _ hy))

theorem list_lookup_key {β : Type} {l : List (String × β)} {k : String} {v : β}
    (h : l.lookup k = some v) : ∃ p ∈ l, p.1 = k ∧ p.2 = v := by
  induction l with
  | nil => cases h
  | cons p rest ih =>
    obtain ⟨a, b⟩ := p
    simp only [List.lookup] at h
    split at h
    · rename_i heq
      simp only [Option.some.injEq] at h
      exact ⟨(a, b), List.mem_cons_self .., (beq_iff_eq.mp heq).symm, h⟩
    · obtain ⟨q, hq, h1, h2⟩ := ih h
      exact ⟨q, List.mem_cons_of_mem _ hq, h1, h2⟩

/-- include files that can still be entered -/
def availF (env : Env) (stack : List String) : Nat := avail (env.files.map (·.1)) stack

theorem categorize_nf (o : Y) : NF (categorize o) := by
  unfold categorize
  split
  · split
    · exact nf_ok _ _
    · exact nf_err _
  · exact nf_err _

theorem declOk_nf (kind : String) (o : Y) : NF (declOk kind o) := by
  unfold declOk
  split
  · split
    · split
      · split
        · exact nf_ok _ _
        · exact nf_err _
      · exact nf_err _
    · split
      · exact nf_ok _ _
      · exact nf_err _
  · exact nf_err _

theorem registerMacros_nf : ∀ (l : List Y) (m : Macros), NF (registerMacros m l) := by
  intro l
  induction l with
  | nil => intro m; exact nf_ok _ _
  | cons o rest ih =>
    intro m
    simp only [registerMacros]
    split
    · exact ih _
    · split
      · exact ih _
      · exact nf_stuck _
    · exact ih _

theorem checkPlugin_nf (env : Env) (o : Y) : NF (checkPlugin env o) := by
  unfold checkPlugin
  split
  · split
    · exact nf_stuck _
    · split
      · exact nf_ok _ _
      · exact nf_err _
  · exact nf_stuck _

theorem parseVersion_nf (l : List Y) : NF (parseVersion l) := by
  unfold parseVersion
  split
  · exact nf_ok _ _
  · split
    · split
      · split
        · exact nf_ok _ _
        · exact nf_err _
      · exact nf_err _
    · exact nf_err _

theorem mergeVersion_nf (a b : Option Nat) : NF (mergeVersion a b) := by
  unfold mergeVersion
  split
  · exact nf_ok _ _
  · split
    · exact nf_ok _ _
    · split
      · exact nf_ok _ _
      · exact nf_err _

theorem loadFile_nf : ∀ (fuel : Nat) (env : Env) (stack : List String) (acc : Top) (doc : Y),
    availF env stack + 1 ≤ fuel → NF (loadFile fuel env stack acc doc) := by
  intro fuel
  induction fuel with
  | zero => intro env stack acc doc h; omega
  | succ n ih =>
    intro env stack acc doc h
    cases doc <;> simp only [loadFile] <;> try exact nf_err _
    rename_i data
    simp only [bind_eq, pure_eq]
    apply nf_bind
    · apply nf_forR
      intro o _
      apply nf_bind (categorize_nf o)
      intro _ _ _; exact nf_ok _ _
    · intro _ _ _
      apply nf_bind
      · apply nf_foldlM
        intro st inc _
        apply nf_bind (parseElement_nf _ _ _ _)
        intro _ _ _
        split
        · split
          · exact nf_err _
          · split
            · exact nf_err _
            · rename_i c hc
              split
              · exact nf_err _
              · rename_i hst
                split
                · exact nf_err _
                · apply nf_bind
                  · apply ih
                    obtain ⟨p, hp, hpk, _⟩ := list_lookup_key hc
                    have hmem := List.mem_map_of_mem (f := fun (q : String × FileContent) => q.1) hp
                    rw [hpk] at hmem
                    have := avail_drop hmem (by simpa using hst)
                    unfold availF at h ⊢
                    omega
                  · intro _ _ _; exact nf_ok _ _
        · exact nf_err _
      · intro r _ _
        apply nf_bind (nf_forR (fun o _ => declOk_nf _ o))
        intro _ _ _
        apply nf_bind (nf_forR (fun o _ => declOk_nf _ o))
        intro _ _ _
        apply nf_bind (nf_forR (fun o _ => declOk_nf _ o))
        intro _ _ _
        apply nf_bind (registerMacros_nf _ _)
        intro _ _ _
        apply nf_bind (nf_forR (fun o _ => checkPlugin_nf env o))
        intro _ _ _
        apply nf_bind (parseVersion_nf _)
        intro _ _ _
        apply nf_bind (mergeVersion_nf _ _)
        intro _ _ _; exact nf_ok _ _

/-! ### what `loadFile` returns is bounded by the sizes and the macro names of the documents -/

/-- the macro names a document declares -/
def macroNames : Y → List String
  | .list data => data.filterMap (fun o =>
      match lookup (kvsOf o) "macro" with
      | some (.str s) => some s
      | _ => none)
  | _ => []

theorem sizeOf_kvsOf (o : Y) : sizeOf (kvsOf o) ≤ sizeOf o := by
  cases o <;> simp [kvsOf] <;> omega

theorem registerMacros_bound {U : List String} {S : Nat} :
    ∀ (l : List Y) (m : Macros), MacBound m U S →
      (∀ o ∈ l, sizeOf o ≤ S ∧ ∀ s, lookup (kvsOf o) "macro" = some (.str s) → s ∈ U) →
      Post (fun m' => MacBound m' U S) (registerMacros m l) := by
  intro l
  induction l with
  | nil => intro m hm _; exact post_ok hm
  | cons o rest ih =>
    intro m hm hall
    have ho := hall o (List.mem_cons_self ..)
    have hrest := fun x hx => hall x (List.mem_cons_of_mem _ hx)
    simp only [registerMacros]
    split
    · rename_i s hs
      apply ih _ _ hrest
      intro p hp
      rcases List.mem_append.mp hp with hp | hp
      · exact hm p hp
      · simp only [List.mem_singleton] at hp
        rw [hp]
        exact ⟨Nat.le_trans (sizeOf_kvsOf o) ho.1, ho.2 s hs⟩
    · split
      · exact ih m hm hrest
      · exact post_stuck _
    · exact ih m hm hrest

/-- documents bounded by `S`, their macro names in `U` -/
def DocBound (U : List String) (S : Nat) (d : Y) : Prop := sizeOf d ≤ S ∧ ∀ n ∈ macroNames d, n ∈ U

def EnvBound (env : Env) (U : List String) (S : Nat) : Prop :=
  ∀ p ∈ env.files, ∀ d, p.2 = .doc d → DocBound U S d

theorem loadFile_bound {U : List String} {S : Nat} :
    ∀ (fuel : Nat) (env : Env) (stack : List String) (acc : Top) (doc : Y),
      EnvBound env U S → DocBound U S doc → MacBound acc.macros U S →
      Post (fun r => MacBound r.1.macros U S ∧ ∀ x ∈ r.2, sizeOf x ≤ S) (loadFile fuel env stack acc doc) := by
  intro fuel
  induction fuel with
  | zero => intro env stack acc doc _ _ _; simp only [loadFile]; exact post_fuel
  | succ n ih =>
    intro env stack acc doc henv hdoc hacc
    cases doc <;> simp only [loadFile] <;> try exact post_err _
    rename_i data
    have hdata : ∀ o ∈ data, sizeOf o ≤ S := by
      intro o ho
      have h1 := size_mem_list ho
      have h2 := hdoc.1
      simp at h2
      omega
    simp only [bind_eq, pure_eq]
    apply post_bind_eq; intro _ _ _
    have hfold : ∀ (l : List Y) (init : Top × List Y),
        (MacBound init.1.macros U S ∧ ∀ x ∈ init.2, sizeOf x ≤ S) →
        Post (fun r : Top × List Y => MacBound r.1.macros U S ∧ ∀ x ∈ r.2, sizeOf x ≤ S)
          (l.foldlM (fun (st : Top × List Y) (inc : Y) =>
            (parseElement (kvsOf inc) "include_file" [] []).bind fun _ =>
              match lookup (kvsOf inc) "include_file" with
              | some (Y.str rel) =>
                if startsWithSlash rel = true then Res.recipeError Err.syntax
                else
                  match List.lookup rel env.files with
                  | none => Res.recipeError Err.generic
                  | some c =>
                    if stack.contains rel = true then Res.recipeError Err.generic
                    else
                      match c with
                      | FileContent.yamlError => Res.recipeError Err.syntax
                      | FileContent.doc d =>
                        (loadFile n env (stack ++ [rel]) st.fst d).bind fun sub => Res.ok (sub.fst, st.snd ++ sub.snd) []
              | x => Res.recipeError Err.syntax) init) := by
      intro l
      induction l with
      | nil => intro init hinit; simp only [List.foldlM_nil, pure_eq]; exact post_ok hinit
      | cons x xs ihl =>
        intro init hinit
        simp only [List.foldlM_cons, bind_eq]
        apply post_bind (P' := fun r : Top × List Y => MacBound r.1.macros U S ∧ ∀ x ∈ r.2, sizeOf x ≤ S)
        · apply post_bind_eq; intro _ _ _
          split
          · split
            · exact post_err _
            · split
              · exact post_err _
              · rename_i c hc
                split
                · exact post_err _
                · split
                  · exact post_err _
                  · rename_i d
                    obtain ⟨p, hp, _, hpv⟩ := list_lookup_key hc
                    have hd := henv p hp d hpv
                    apply post_bind (ih env _ init.1 d henv hd hinit.1)
                    intro sub hsub
                    apply post_ok
                    refine ⟨hsub.1, ?_⟩
                    intro y hy
                    rcases List.mem_append.mp hy with hy | hy
                    · exact hinit.2 y hy
                    · exact hsub.2 y hy
          · exact post_err _
        · intro r hr; exact ihl r hr
    apply post_bind (hfold _ (acc, []) ⟨hacc, fun x hx => by cases hx⟩)
    intro r hr
    apply post_bind_eq; intro _ _ _
    apply post_bind_eq; intro _ _ _
    apply post_bind_eq; intro _ _ _
    apply post_bind (registerMacros_bound _ _ hr.1 (by
      intro o ho
      have hod := (List.mem_filter.mp ho).1
      refine ⟨hdata o hod, ?_⟩
      intro s hs
      apply hdoc.2
      simp only [macroNames, List.mem_filterMap]
      exact ⟨o, hod, by rw [hs]⟩))
    intro macros hmacros
    apply post_bind_eq; intro _ _ _
    apply post_bind_eq; intro _ _ _
    apply post_bind_eq; intro _ _ _
    apply post_ok
    refine ⟨hmacros, ?_⟩
    intro y hy
    rcases List.mem_append.mp hy with hy | hy
    · exact hr.2 y hy
    · exact hdata y (List.mem_filter.mp hy).1

/-! ### the theorem -/

def allMacroNames (env : Env) (doc : Y) : List String :=
  macroNames doc ++ env.files.flatMap (fun p =>
    match p.2 with
    | .doc d => macroNames d
    | .yamlError => [])

noncomputable def bigSize (env : Env) (doc : Y) : Nat := sizeOf doc + sizeOf env.files

/-- a recursion budget that is enough for `doc` with the include files of `env` -/
noncomputable def budget (env : Env) (doc : Y) : Nat :=
  (availF env [] + 1) + (lev (allMacroNames env doc) (bigSize env doc) [] + 3 * bigSize env doc + 2)

theorem forR_nf_of {α : Type} {f : α → Res Unit} (l : List α) (h : ∀ x, NF (f x)) : NF (forR f l) :=
  nf_forR (fun x _ => h x)

theorem checkOption_nf (o : KVs) : NF (checkOption o) := by
  unfold checkOption
  split
  · split
    · exact nf_stuck _
    · split
      · exact nf_ok _ _
      · exact nf_err _
  · exact nf_err _

theorem checkRef_nf (r : Ref) : NF (checkRef r) := by
  unfold checkRef
  simp only
  split
  · exact nf_ok _ _
  · exact nf_err _

theorem parseRecipe_nf (env : Env) (doc : Y) (fuel : Nat) (h : budget env doc ≤ fuel) :
    NF (parseRecipe fuel env doc) := by
  have hS : DocBound (allMacroNames env doc) (bigSize env doc) doc := by
    constructor
    · unfold bigSize; omega
    · intro n hn; exact List.mem_append_left _ hn
  have henv : EnvBound env (allMacroNames env doc) (bigSize env doc) := by
    intro p hp d hd
    constructor
    · have h1 := List.sizeOf_lt_of_mem hp
      have h2 : sizeOf p = 1 + sizeOf p.1 + sizeOf p.2 := by cases p; rfl
      have h3 : sizeOf p.2 = 1 + sizeOf d := by rw [hd]; rfl
      unfold bigSize; omega
    · intro n hn
      apply List.mem_append_right
      simp only [List.mem_flatMap]
      exact ⟨p, hp, by rw [hd]; exact hn⟩
  unfold budget at h
  simp only [parseRecipe, bind_eq, pure_eq]
  apply nf_bind (loadFile_nf fuel env [] {} doc (by omega))
  intro r refs hr
  have hb := (loadFile_bound fuel env [] {} doc henv hS (by intro p hp; cases hp)).out r refs hr
  apply nf_bind
  · exact (allNF r.1.macros _ _ hb.1 fuel).stmts [] true r.2 (bigSize env doc) hb.2 (by omega)
  · intro _ _ _; exact nf_ok _ _

/-- beyond `budget env doc` the validation layer never runs out of fuel -/
theorem check_terminates (env : Env) (doc : Y) (fuel : Nat) (h : budget env doc ≤ fuel) :
    check fuel env doc ≠ .fuel := by
  have hp := parseRecipe_nf env doc fuel h
  unfold check
  cases hr : parseRecipe fuel env doc with
  | ok p refs =>
    simp only
    have h1 : NF (forR checkOption p.options) := forR_nf_of _ checkOption_nf
    have h2 : NF (forR checkRef refs) := forR_nf_of _ checkRef_nf
    cases ho : forR checkOption p.options with
    | ok _ _ =>
      simp only
      cases hf : forR checkRef refs with
      | ok _ _ => intro h; cases h
      | recipeError _ => intro h; cases h
      | stuck s => intro h; cases h
      | fuel => exact (h2 hf).elim
    | recipeError _ => intro h; cases h
    | stuck s => intro h; cases h
    | fuel => exact (h1 ho).elim
  | recipeError _ => intro h; cases h
  | stuck s => intro h; cases h
  | fuel => exact (hp hr).elim

end SnowModel.ParseCheck
