/-
C19 — helper lemmas about the process model (`SnowModel.Proc`).
-/
import SnowModel.Core.Proc

namespace SnowModel.Proc

/-! ### one operation: what it returns and what it leaves depend on `readsOf` only -/

theorem step_obs_agree (a b : St) (o : Op) (h : ∀ cell ∈ readsOf o, Agree cell a b) :
    (step a o).2 = (step b o).2 := by
  cases o with
  | newGenerator =>
    have := h .ctx (by simp [readsOf]); simp only [Agree] at this; simp [step, this]
  | lookup c k v =>
    have := h (.cache c) (by simp [readsOf]); simp only [Agree] at this; simp [step, this]
  | draw v => simp [step]
  | clock v => simp [step]
  | setHistory n => simp [step]
  | getHistory =>
    have := h .history (by simp [readsOf]); simp only [Agree] at this; simp [step, this]
  | enterDir d => simp [step]
  | leaveDir =>
    have := h .dirs (by simp [readsOf]); simp only [Agree] at this
    simp only [step, this]; cases b.dirs <;> simp
  | setSetting i v => simp [step]
  | getSetting i =>
    have := h (.setting i) (by simp [readsOf]); simp only [Agree] at this; simp [step, this]

/-- a written cell is determined by the cells the operation reads -/
theorem step_agree_written (a b : St) (o : Op) (h : ∀ cell ∈ readsOf o, Agree cell a b)
    (cell : Cell) (hw : cell ∈ writesOf o) : Agree cell (step a o).1 (step b o).1 := by
  cases o with
  | newGenerator =>
    have h1 := h .ctx (by simp [readsOf]); simp only [Agree] at h1
    simp only [writesOf, List.mem_singleton] at hw; subst hw; simp [Agree, step, h1]
  | lookup c k v =>
    have h1 := h (.cache c) (by simp [readsOf]); simp only [Agree] at h1
    simp only [writesOf, List.mem_singleton] at hw; subst hw
    simp [Agree, step, Proc.setCache, h1]
  | draw v =>
    have h1 := h .rng (by simp [readsOf]); simp only [Agree] at h1
    simp only [writesOf, List.mem_singleton] at hw; subst hw; simp [Agree, step, h1]
  | clock v => simp [writesOf] at hw
  | setHistory n =>
    simp only [writesOf, List.mem_singleton] at hw; subst hw; simp [Agree, step]
  | getHistory => simp [writesOf] at hw
  | enterDir d =>
    have h1 := h .cwd (by simp [readsOf]); have h2 := h .dirs (by simp [readsOf])
    simp only [Agree] at h1 h2
    simp only [writesOf, List.mem_cons, List.not_mem_nil, or_false] at hw
    rcases hw with hw | hw <;> subst hw <;> simp [Agree, step, h1, h2]
  | leaveDir =>
    have h1 := h .cwd (by simp [readsOf]); have h2 := h .dirs (by simp [readsOf])
    simp only [Agree] at h1 h2
    simp only [writesOf, List.mem_cons, List.not_mem_nil, or_false] at hw
    rcases hw with hw | hw <;> subst hw <;> simp only [Agree, step, h2] <;> cases b.dirs <;> simp [h1, h2]
  | setSetting i v =>
    simp only [writesOf, List.mem_singleton] at hw; subst hw; simp [Agree, step]
  | getSetting i => simp [writesOf] at hw

/-- a cell the operation does not write keeps its value -/
theorem step_unwritten (a : St) (o : Op) (cell : Cell) (hw : cell ∉ writesOf o) :
    Agree cell (step a o).1 a := by
  cases o with
  | newGenerator => cases cell <;> simp_all [Agree, step, writesOf]
  | lookup c k v =>
    cases cell with
    | cache c' =>
      have : c' ≠ c := by intro e; apply hw; simp [writesOf, e]
      simp [Agree, step, Proc.setCache, this]
    | _ => simp [Agree, step, Proc.setCache]
  | draw v => cases cell <;> simp_all [Agree, step, writesOf]
  | clock v => cases cell <;> simp [Agree, step]
  | setHistory n => cases cell <;> simp_all [Agree, step, writesOf]
  | getHistory => cases cell <;> simp [Agree, step]
  | enterDir d => cases cell <;> simp_all [Agree, step, writesOf]
  | leaveDir =>
    cases cell <;> simp_all [Agree, step, writesOf] <;> cases a.dirs <;> simp
  | setSetting i v =>
    cases cell with
    | setting j =>
      have : j ≠ i := by intro e; apply hw; simp [writesOf, e]
      simp [Agree, step, this]
    | _ => simp [Agree, step]
  | getSetting i => cases cell <;> simp [Agree, step]

theorem Agree.symm' {cell : Cell} {a b : St} (h : Agree cell a b) : Agree cell b a := by
  cases cell <;> simp_all [Agree]

theorem Agree.trans' {cell : Cell} {a b c : St} (h1 : Agree cell a b) (h2 : Agree cell b c) : Agree cell a c := by
  cases cell <;> simp_all [Agree]

theorem step_agree_unwritten (a b : St) (o : Op) (cell : Cell) (hw : cell ∉ writesOf o)
    (h : Agree cell a b) : Agree cell (step a o).1 (step b o).1 :=
  (step_unwritten a o cell hw).trans' (h.trans' (step_unwritten b o cell hw).symm')

/-! ### caches -/

theorem mem_of_mem_eraseP {α : Type} {p : α → Bool} {l : List α} {x : α} (h : x ∈ l.eraseP p) : x ∈ l :=
  (List.eraseP_subset) h

theorem mem_of_mem_dropLast {α : Type} {l : List α} {x : α} (h : x ∈ l.dropLast) : x ∈ l :=
  (List.dropLast_subset l) h

/-- entries after a lookup: the old ones, or the freshly computed one -/
theorem lookup_entries (ms : Option Nat) (c : Cache) (k : Key) (v : Val) (e : Key × Val)
    (he : e ∈ (c.lookup ms k v).2.2.entries) : e ∈ c.entries ∨ (e = (k, v) ∧ (c.lookup ms k v).1 = v) := by
  unfold Cache.lookup at he ⊢
  cases hf : c.entries.find? (fun e => e.1.pyEq k) with
  | some e0 =>
    simp only [hf, List.mem_cons] at he
    rcases he with he | he
    · left; subst he; exact List.mem_of_find?_eq_some hf
    · left; exact mem_of_mem_eraseP he
  | none =>
    simp only [hf, List.mem_cons] at he
    rcases he with he | he
    · right; simp [he]
    · left
      split at he
      · exact mem_of_mem_dropLast he
      · exact he

/-- what a lookup returns: a stored value whose key is Python-equal to `k`, or the computed value -/
theorem lookup_value (ms : Option Nat) (c : Cache) (k : Key) (v : Val) :
    (∃ e ∈ c.entries, e.1.pyEq k = true ∧ (c.lookup ms k v).1 = e.2) ∨ (c.lookup ms k v).1 = v := by
  unfold Cache.lookup
  cases hf : c.entries.find? (fun e => e.1.pyEq k) with
  | some e0 =>
    left
    exact ⟨e0, List.mem_of_find?_eq_some hf, by simpa using List.find?_some hf, rfl⟩
  | none => right; rfl

theorem lookup_counts (ms : Option Nat) (c : Cache) (k : Key) (v : Val) :
    (c.lookup ms k v).2.2.hits + (c.lookup ms k v).2.2.misses = c.hits + c.misses + 1 := by
  unfold Cache.lookup
  cases hf : c.entries.find? (fun e => e.1.pyEq k) <;> simp <;> omega

theorem lookup_size (m : Nat) (hm : 1 ≤ m) (c : Cache) (k : Key) (v : Val) (h : c.entries.length ≤ m) :
    (c.lookup (some m) k v).2.2.entries.length ≤ m := by
  unfold Cache.lookup
  cases hf : c.entries.find? (fun e => e.1.pyEq k) with
  | some e0 =>
    have hmem : e0 ∈ c.entries := List.mem_of_find?_eq_some hf
    have hp : (fun x : Key × Val => x.1.pyEq k) e0 = true := by simpa using List.find?_some hf
    have := List.length_eraseP_of_mem (p := fun x : Key × Val => x.1.pyEq k) hmem hp
    have hpos : 0 < c.entries.length := List.length_pos_of_mem hmem
    simp only [List.length_cons, this]; omega
  | none =>
    simp only [List.length_cons, Cache.full]
    by_cases hfull : m ≤ c.entries.length
    · simp only [hfull, decide_true, ite_true, List.length_dropLast]; omega
    · simp only [hfull, decide_false]; simp; omega

/-! ### consistency of the caches -/

theorem consistent_step (F : CacheId → Key → Val) (P : CacheId → Key → Bool) (st : St) (o : Op)
    (hc : Consistent F P st.proc)
    (ho : ∀ c k v, o = .lookup c k v → P c k = true → v = F c k) : Consistent F P (step st o).1.proc := by
  cases o with
  | lookup c k v =>
    intro c' e he hP
    by_cases hcc : c' = c
    · subst hcc
      simp only [step, Proc.setCache, if_true] at he
      rcases lookup_entries _ _ _ _ _ he with h | ⟨h, _⟩
      · exact hc _ e h hP
      · subst h; exact ho _ k v rfl hP
    · simp only [step, Proc.setCache, hcc, if_false] at he
      exact hc c' e he hP
  | newGenerator => exact hc
  | draw v => exact hc
  | clock v => exact hc
  | setHistory n => exact hc
  | getHistory => exact hc
  | enterDir d => exact hc
  | leaveDir =>
    intro c' e he hP
    simp only [step] at he
    cases hd : st.dirs with
    | nil => simp only [hd] at he; exact hc c' e he hP
    | cons s r => simp only [hd] at he; exact hc c' e he hP
  | setSetting i v => exact hc
  | getSetting i => exact hc

theorem consistent_run (F : CacheId → Key → Val) (P : CacheId → Key → Bool) (p : Prog) (ht : Tame F P p) :
    ∀ st : St, Consistent F P st.proc → Consistent F P (run st p).st.proc := by
  induction ht with
  | done => intro st h; exact h
  | fail => intro st h; exact h
  | emit _ ih => intro st h; exact ih st h
  | lookup hv _ ih =>
    intro st h
    simp only [run]
    apply ih
    apply consistent_step F P st _ h
    intro c k v e hP
    cases e; exact hv hP
  | other hne _ ih =>
    intro st h
    simp only [run]
    apply ih
    apply consistent_step F P st _ h
    intro c k v e; exact absurd e (hne c k v)

/-- a deterministic program is tame -/
theorem Det.tame {F : CacheId → Key → Val} {P : CacheId → Key → Bool} {V : CacheId → Val → Val} {h : Bool} {p : Prog}
    (hd : Det F P V h p) : Tame F P p := by
  induction hd with
  | done => exact .done
  | fail => exact .fail
  | emit _ ih => exact .emit ih
  | lookup _ hv _ _ ih => exact .lookup (fun _ => hv) ih
  | setHistory _ ih => exact .other (by intro c k v e; cases e) ih
  | getHistory _ ih => exact .other (by intro c k v e; cases e) ih
  | enterDir _ ih => exact .other (by intro c k v e; cases e) ih
  | leaveDir _ ih => exact .other (by intro c k v e; cases e) ih
  | getSetting _ ih => exact .other (by intro c k v e; cases e) ih

/-- with consistent caches a lookup of a `P`-key returns, seen through the view, `F c k` — hit or miss -/
theorem lookup_consistent_value (F : CacheId → Key → Val) (P : CacheId → Key → Bool) (V : CacheId → Val → Val)
    (hcomp : Compat F P V) (p : Proc) (hc : Consistent F P p) (c : CacheId) (k : Key) (hP : P c k = true) :
    V c ((p.caches c).lookup (maxsize c) k (F c k)).1 = V c (F c k) := by
  rcases lookup_value (maxsize c) (p.caches c) k (F c k) with ⟨e, he, heq, hv⟩ | h
  · obtain ⟨hPe, hF⟩ := hcomp c e.1 k hP heq
    rw [hv, hc c e he hPe, hF]
  · rw [h]

/-- the core of the frame theorem for deterministic programs -/
theorem det_core (F : CacheId → Key → Val) (P : CacheId → Key → Bool) (V : CacheId → Val → Val)
    (hcomp : Compat F P V) {h : Bool} {p : Prog} (hd : Det F P V h p) :
    ∀ a b : St, Consistent F P a.proc → Consistent F P b.proc → a.dirs.length = b.dirs.length →
      (h = true → a.proc.history = b.proc.history) → a.proc.settings = b.proc.settings →
      (run a p).out = (run b p).out := by
  induction hd with
  | done => intro a b _ _ _ _ _; rfl
  | fail => intro a b _ _ _ _ _; rfl
  | emit _ ih =>
    intro a b ha hb hl hh hs
    have := ih a b ha hb hl hh hs
    simp only [run, Result.out, Prod.mk.injEq] at this ⊢
    exact ⟨by rw [this.1], this.2⟩
  | @lookup h c k v kont hP hv hinv hk ih =>
    intro a b ha hb hl hh hs
    subst hv
    have ea := lookup_consistent_value F P V hcomp a.proc ha c k hP
    have eb := lookup_consistent_value F P V hcomp b.proc hb c k hP
    simp only [run, step]
    rw [hinv (.val ((a.proc.caches c).lookup (maxsize c) k (F c k)).1)
             (.val ((b.proc.caches c).lookup (maxsize c) k (F c k)).1) (by simp only [Obs.view]; rw [ea, eb])]
    apply ih
    · exact consistent_step F P a (.lookup c k (F c k)) ha (by intro c' k' v' e _; cases e; rfl)
    · exact consistent_step F P b (.lookup c k (F c k)) hb (by intro c' k' v' e _; cases e; rfl)
    · exact hl
    · intro e; simpa [Proc.setCache] using hh e
    · simpa [Proc.setCache] using hs
  | setHistory hk ih =>
    intro a b ha hb hl hh hs
    simp only [run, step]
    apply ih
    · exact ha
    · exact hb
    · exact hl
    · intro _; rfl
    · exact hs
  | getHistory hk ih =>
    intro a b ha hb hl hh hs
    simp only [run, step, hh rfl]
    exact ih _ a b ha hb hl hh hs
  | enterDir hk ih =>
    intro a b ha hb hl hh hs
    simp only [run, step]
    apply ih
    · exact ha
    · exact hb
    · simp [hl]
    · exact hh
    · exact hs
  | leaveDir hk ih =>
    intro a b ha hb hl hh hs
    simp only [run, step]
    cases hda : a.dirs with
    | nil =>
      have hdb : b.dirs = [] := by
        rw [hda] at hl; exact List.length_eq_zero_iff.mp hl.symm
      simp only [hdb]
      exact ih _ a b ha hb (by rw [hda, hdb]) hh hs
    | cons s r =>
      cases hdb : b.dirs with
      | nil => rw [hda, hdb] at hl; simp at hl
      | cons s' r' =>
        simp only []
        apply ih
        · exact ha
        · exact hb
        · rw [hda, hdb] at hl; simpa using hl
        · exact hh
        · exact hs
  | getSetting hk ih =>
    intro a b ha hb hl hh hs
    simp only [run, step, hs]
    exact ih _ a b ha hb hl hh hs

/-- a run that contains no setter leaves every process-wide setting as it was -/
theorem settings_kept {p : Prog} (hk : KeepsSettings p) : ∀ st : St, (run st p).st.proc.settings = st.proc.settings := by
  induction hk with
  | done => intro st; rfl
  | fail => intro st; rfl
  | emit _ ih => intro st; simpa [run] using ih st
  | @op o kont hne _ ih =>
    intro st
    simp only [run]
    rw [ih]
    cases o with
    | setSetting i v => exact absurd rfl (hne i v)
    | leaveDir => simp only [step]; cases st.dirs <;> rfl
    | lookup c k v => simp [step, Proc.setCache]
    | newGenerator => rfl
    | draw v => rfl
    | clock v => rfl
    | setHistory n => rfl
    | getHistory => rfl
    | enterDir d => rfl
    | getSetting i => rfl

/-- the identity view: every continuation is invariant -/
theorem Obs.view_id (o : Obs) : o.view id = o := by cases o <;> rfl

/-! ### the identity generator -/

theorem ctx_after_run (p : Prog) : ∀ st : St, (run st p).st.proc.ctx = st.proc.ctx + gens st p := by
  induction p with
  | done => intro st; simp [run, gens]
  | fail m => intro st; simp [run, gens]
  | emit r p ih => intro st; simpa [run, gens] using ih st
  | op o k ih =>
    intro st
    simp only [run, gens]
    rw [ih]
    cases o <;> simp [step, Proc.setCache] <;> try omega
    cases st.dirs <;> simp

theorem ctxIds_eq (p : Prog) : ∀ st : St, ctxIds st p = List.range' st.proc.ctx (gens st p) := by
  induction p with
  | done => intro st; simp [ctxIds, gens]
  | fail m => intro st; simp [ctxIds, gens]
  | emit r p ih => intro st; simpa [ctxIds, gens] using ih st
  | op o k ih =>
    intro st
    simp only [ctxIds, gens]
    rw [ih]
    by_cases ho : o = .newGenerator
    · subst ho
      simp only [if_true, step]
      rw [Nat.add_comm 1, List.range'_succ]
      rfl
    · simp only [ho, if_false, List.nil_append, Nat.zero_add]
      congr 1
      cases o <;> simp_all [step, Proc.setCache]
      cases st.dirs <;> simp

/-! ### the working directory -/

/-- the directory the process was in before the outermost active `chdir` -/
def base (st : St) : String := (st.dirs.getLast?).getD st.proc.cwd

theorem step_base (st : St) (o : Op) : base (step st o).1 = base st := by
  cases o with
  | enterDir d =>
    simp only [base, step]
    cases hd : st.dirs with
    | nil => simp
    | cons s r => simp [List.getLast?_cons]
  | leaveDir =>
    simp only [base, step]
    cases hd : st.dirs with
    | nil => simp [hd]
    | cons s r =>
      cases r with
      | nil => simp
      | cons s2 r2 => simp [List.getLast?_cons]
  | newGenerator => rfl
  | lookup c k v => simp [base, step, Proc.setCache]
  | draw v => rfl
  | clock v => rfl
  | setHistory n => rfl
  | getHistory => rfl
  | setSetting i v => rfl
  | getSetting i => rfl

theorem run_base (p : Prog) : ∀ st : St, base (run st p).st = base st := by
  induction p with
  | done => intro st; rfl
  | fail m => intro st; rfl
  | emit r p ih => intro st; simpa [run] using ih st
  | op o k ih => intro st; simp only [run]; rw [ih, step_base]

theorem bal_dirs {n : Nat} {p : Prog} (hb : Bal n p) :
    ∀ st : St, st.dirs.length = n → (run st p).st.dirs = [] := by
  induction hb with
  | done => intro st h; simpa [run] using List.length_eq_zero_iff.mp h
  | fail => intro st h; simpa [run] using List.length_eq_zero_iff.mp h
  | emit _ ih => intro st h; simpa [run] using ih st h
  | enter _ ih => intro st h; simp only [run]; apply ih; simp [step, h]
  | leave _ ih =>
    intro st h
    simp only [run]
    apply ih
    cases hd : st.dirs with
    | nil => rw [hd] at h; simp at h
    | cons s r => rw [hd] at h; simp only [step, hd]; simpa using h
  | @other n o kont hne hnl _ ih =>
    intro st h
    simp only [run]
    apply ih
    cases o with
    | enterDir d => exact absurd rfl (hne d)
    | leaveDir => exact absurd rfl hnl
    | lookup c k v => simpa [step] using h
    | newGenerator => simpa [step] using h
    | draw v => simpa [step] using h
    | clock v => simpa [step] using h
    | setHistory m => simpa [step] using h
    | getHistory => simpa [step] using h
    | setSetting i v => simpa [step] using h
    | getSetting i => simpa [step] using h

end SnowModel.Proc
