/-
"Hidden is a projection", part 9: a concrete renaming (a permutation that swaps two hidden names
with two fresh visible ones), a concrete recipe satisfying all hypotheses, and the recipe that
refutes the statement without the safety hypothesis.
-/
import SnowModel.Proofs.L2Ren8

namespace SnowModel.L2

/-- swaps `__H ↔ H` and `__x ↔ x`; the identity elsewhere; its own inverse -/
def swapρ (n : String) : String :=
  if n = "__H" then "H" else if n = "H" then "__H" else if n = "__x" then "x" else if n = "x" then "__x" else n

theorem swapρ_inv (n : String) : swapρ (swapρ n) = n := by
  unfold swapρ
  by_cases h1 : n = "__H"
  · subst h1; decide +kernel
  · by_cases h2 : n = "H"
    · subst h2; decide +kernel
    · by_cases h3 : n = "__x"
      · subst h3; decide +kernel
      · by_cases h4 : n = "x"
        · subst h4; decide +kernel
        · simp only [h1, h2, h3, h4, if_false]

theorem swapρ_fix : ∀ n ∈ specialNames, swapρ n = n := by decide +kernel

theorem swapρ_ren : Ren swapρ swapρ := ⟨swapρ_inv, swapρ_fix⟩

instance (ρ : String → String) (n : String) : Decidable (VisOK ρ n) := by
  unfold VisOK; exact inferInstance

theorem attrOK_of_fixed {ρ : String → String} {f : String} (h : ρ f = f) : AttrOK ρ f :=
  ⟨by rw [h]; exact id, by rw [h]; exact id, by rw [h]; exact id⟩

/-- a hidden table `__H` (with a visible friend `K`), and a visible table `A` with a hidden field
    `__x` that reads `__H.v`, a visible field `y` that reads `__x`, and a reference to `__H` -/
def demoRen : Recipe :=
  { v3 := true, options := [],
    statements :=
      [.obj (.mk "__H" none false none [("v", .lit (.int 5))] [.obj (.mk "K" none false none [] [])]),
       .obj (.mk "A" none false none
          [("__x", .tmpl [.expr (.attr (.name "__H") "v")]), ("y", .tmpl [.expr (.add (.name "__x") (.int 1))]),
           ("r", .ref ["__H"])] [])] }

theorem demoRen_ok : OkStmts swapρ demoRen.v3 true demoRen.statements := by
  simp only [demoRen, OkStmts, OkStmt, OkT, OkFields, OkFd, OkOFd, OkPart, OkExpr, fdSafe,
    List.mem_cons, or_false, forall_eq, List.tail_cons, and_true, true_and, implies_true,
    List.not_mem_nil, false_implies, or_true]
  refine ⟨⟨?_, ?_, ?_⟩, ?_, ?_, ?_, ?_, ?_⟩
  all_goals first | decide +kernel | exact attrOK_of_fixed (by decide +kernel)

/-- the counterexample: in the v3 dialect the hidden field `__x` holds the slot of table `B`, which
    nobody ever asks for an id — until the twin writes the un-hidden field `x` -/
def cexRen : Recipe :=
  { v3 := true, options := [],
    statements :=
      [.obj (.mk "A" none false none [("__x", .tmpl [.expr (.name "B")])] []),
       .obj (.mk "B" none false (some (.lit (.int 0))) [] [])] }

/-- the name conditions hold for the counterexample (dialect flag `false` switches the safety
    condition off) -/
theorem cexRen_names : OkStmts swapρ false false cexRen.statements := by
  simp only [cexRen, OkStmts, OkStmt, OkT, OkFields, OkFd, OkOFd, OkPart, OkExpr, fdSafe,
    List.mem_cons, or_false, forall_eq, and_true, true_and, implies_true, List.not_mem_nil]
  decide +kernel

/-- the original leaves the fragment, the twin does not: a hidden attribute name on a *slot*
    (`B` is a forward reference) is an underscore name for the original only -/
def exSlotAttr : Recipe :=
  { v3 := true, options := [],
    statements :=
      [.obj (.mk "A" none false none [("y", .tmpl [.expr (.attr (.name "B") "__x")])] []),
       .obj (.mk "B" none false none [] [])] }

theorem attrOK_of_plain {ρ : String → String} {f : String} (h1 : (ρ f).startsWith "_" = false)
    (h2 : (ρ f).startsWith "yaml" = false) (h3 : (ρ f).startsWith "__" = false) : AttrOK ρ f :=
  ⟨fun hh => (by rw [h3] at hh; cases hh.1), fun hh => (by rw [h1] at hh; cases hh),
   fun hh => (by rw [h2] at hh; cases hh)⟩

theorem exSlotAttr_ok : OkStmts swapρ exSlotAttr.v3 false exSlotAttr.statements := by
  simp only [exSlotAttr, OkStmts, OkStmt, OkT, OkFields, OkFd, OkOFd, OkPart, OkExpr, fdSafe,
    List.mem_cons, or_false, forall_eq, and_true, true_and, List.not_mem_nil]
  refine ⟨⟨?_, ?_, ?_, ?_⟩, ?_⟩
  · decide +kernel
  · decide +kernel
  · intro hp
    rcases hp with hp | hp | hp
    · cases hp
    · exact absurd hp.1 (by decide +kernel)
    · exact absurd hp.1 (by decide +kernel)
  · exact attrOK_of_plain (by decide +kernel) (by decide +kernel) (by decide +kernel)
  · decide +kernel

/-- the twin leaves the fragment, the original does not: the un-hidden field `x` holds a row whose
    `id` field was overwritten by a string, and only the twin has to write a reference to it -/
def exRowId : Recipe :=
  { v3 := true, options := [],
    statements :=
      [.obj (.mk "B" none false none [("id", .lit (.str "foo"))] []),
       .obj (.mk "A" none false none [("__x", .ref ["B"])] [])] }

theorem exRowId_ok : OkStmts swapρ exRowId.v3 false exRowId.statements := by
  simp only [exRowId, OkStmts, OkStmt, OkT, OkFields, OkFd, OkOFd, fdSafe,
    and_true, true_and, implies_true, List.not_mem_nil, List.tail_cons, false_implies]
  decide +kernel

theorem not_outside_of_short {st m : String} (h : st = "outside:" ++ m) : 8 ≤ st.length := by
  rw [h, String.length_append]
  have : "outside:".length = 8 := by decide +kernel
  omega

end SnowModel.L2
