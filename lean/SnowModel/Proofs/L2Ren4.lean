/-
"Hidden is a projection", part 4: what the evaluators may do to the slots (`Step`: rows, output and
dialect untouched, allocated slots stay allocated), and the invariant that lets the un-hidden twin
write a formerly hidden field without side effect: a slot value stored under such a key is already
allocated.
-/
import SnowModel.Proofs.L2Ren3
import SnowModel.Proofs.L2Refs1

namespace SnowModel.L2

/-- the slot `n` holds an id -/
def Alloc (s : St) (n : String) : Prop :=
  ∃ i, aget s.slots n = some (.alloc i) ∨ aget s.slots n = some (.consumed i)

/-- if the value is a live slot, the slot holds an id -/
def AllocV (s : St) (v : Val) : Prop := ∀ n, v = .slot n → Alloc s n

structure Step (s s' : St) : Prop where
  rows : s'.rows = s.rows
  out : s'.out = s.out
  v3 : s'.v3 = s.v3
  mono : ∀ n, Alloc s n → Alloc s' n

theorem Step.refl (s : St) : Step s s := ⟨rfl, rfl, rfl, fun _ h => h⟩

theorem Step.trans {a b c : St} (h1 : Step a b) (h2 : Step b c) : Step a c :=
  ⟨h2.rows.trans h1.rows, h2.out.trans h1.out, h2.v3.trans h1.v3, fun n h => h2.mono n (h1.mono n h)⟩

theorem alloc_aset {s : St} {k n : String} {v : SlotSt}
    (hv : (∃ i, v = .alloc i) ∨ (∃ i, v = .consumed i))
    (h : Alloc s n) : ∃ i, aget (aset s.slots k v) n = some (.alloc i) ∨
      aget (aset s.slots k v) n = some (.consumed i) := by
  by_cases hk : n = k
  · subst hk
    rw [aget_aset_self]
    rcases hv with ⟨i, rfl⟩ | ⟨i, rfl⟩
    · exact ⟨i, Or.inl rfl⟩
    · exact ⟨i, Or.inr rfl⟩
  · rw [aget_aset_ne _ hk]; exact h

theorem slotId_step {s s' : St} {n : String} {i : Nat} (h : slotId s n = .ok (i, s')) : Step s s' := by
  unfold slotId at h
  split at h
  · cases h
  · simp only [freshId, Except.ok.injEq, Prod.mk.injEq] at h
    obtain ⟨-, rfl⟩ := h
    exact ⟨rfl, rfl, rfl, fun m hm => alloc_aset (Or.inl ⟨_, rfl⟩) hm⟩
  · simp only [Except.ok.injEq, Prod.mk.injEq] at h
    obtain ⟨-, rfl⟩ := h
    exact Step.refl _
  · simp only [Except.ok.injEq, Prod.mk.injEq] at h
    obtain ⟨-, rfl⟩ := h
    exact Step.refl _

/-- after `slotId` the slot holds an id -/
theorem slotId_alloc {s s' : St} {n : String} {i : Nat} (h : slotId s n = .ok (i, s')) : Alloc s' n := by
  unfold slotId at h
  split at h
  · cases h
  · simp only [freshId, Except.ok.injEq, Prod.mk.injEq] at h
    obtain ⟨-, rfl⟩ := h
    exact ⟨_, Or.inl (aget_aset_self _ _ _)⟩
  · next t j hn hs =>
    simp only [Except.ok.injEq, Prod.mk.injEq] at h
    obtain ⟨-, rfl⟩ := h
    cases hsl : aget s.slots n with
    | none => rw [hsl] at hs; cases hs
    | some v =>
      rw [hsl] at hs
      simp only [Option.getD_some] at hs
      subst hs
      exact ⟨j, Or.inl hsl⟩
  · next t j hn hs =>
    simp only [Except.ok.injEq, Prod.mk.injEq] at h
    obtain ⟨-, rfl⟩ := h
    cases hsl : aget s.slots n with
    | none => rw [hsl] at hs; cases hs
    | some v =>
      rw [hsl] at hs
      simp only [Option.getD_some] at hs
      subst hs
      exact ⟨j, Or.inr hsl⟩

/-- on an allocated slot `slotId` changes nothing -/
theorem slotId_noop {s s' : St} {n : String} {i : Nat} (ha : Alloc s n) (h : slotId s n = .ok (i, s')) :
    s' = s := by
  obtain ⟨j, hj⟩ := ha
  unfold slotId at h
  split at h
  · cases h
  · next t hn hs =>
    rcases hj with hj | hj <;> rw [hj] at hs <;> cases hs
  · simp only [Except.ok.injEq, Prod.mk.injEq] at h
    exact h.2.symm
  · simp only [Except.ok.injEq, Prod.mk.injEq] at h
    exact h.2.symm

theorem evalExpr_step (c : Ctx) (e : Expr) : ∀ {s s' : St} {v : Val},
    evalExpr c e s = .ok (v, s') → Step s s' := by
  induction e with
  | int n =>
    intro s s' v h
    simp only [evalExpr, Except.ok.injEq, Prod.mk.injEq] at h
    obtain ⟨-, rfl⟩ := h; exact Step.refl _
  | name n =>
    intro s s' v h
    simp only [evalExpr] at h
    split at h
    · cases h
    · simp only [Except.ok.injEq, Prod.mk.injEq] at h
      obtain ⟨-, rfl⟩ := h; exact Step.refl _
    · simp only [Except.ok.injEq, Prod.mk.injEq] at h
      obtain ⟨-, rfl⟩ := h; exact Step.refl _
  | attr e f ih =>
    intro s s' v h
    simp only [evalExpr] at h
    split at h
    · cases h
    · cases h
    · next h0 s1 he =>
      split at h
      · cases h
      · simp only [Except.ok.injEq, Prod.mk.injEq] at h
        obtain ⟨-, rfl⟩ := h; exact ih he
    · next n s1 he =>
      split at h
      · split at h
        · cases h
        · next i s2 hs =>
          simp only [Except.ok.injEq, Prod.mk.injEq] at h
          obtain ⟨-, rfl⟩ := h; exact (ih he).trans (slotId_step hs)
      · split at h
        · cases h
        · simp only [Except.ok.injEq, Prod.mk.injEq] at h
          obtain ⟨-, rfl⟩ := h; exact ih he
    · next tb i s1 he =>
      split at h
      · split at h
        · simp only [Except.ok.injEq, Prod.mk.injEq] at h
          obtain ⟨-, rfl⟩ := h; exact ih he
        · cases h
      · split at h
        · cases h
        · simp only [Except.ok.injEq, Prod.mk.injEq] at h
          obtain ⟨-, rfl⟩ := h; exact ih he
    · cases h
    · next v1 s1 _ _ _ _ _ he =>
      simp only [Except.ok.injEq, Prod.mk.injEq] at h
      obtain ⟨-, rfl⟩ := h; exact ih he
  | add a b iha ihb =>
    intro s s' v h
    simp only [evalExpr] at h
    split at h
    · cases h
    · next va s1 ha =>
      split at h
      · cases h
      · next vb s2 hb =>
        have := arithVals_eq h; subst this
        exact (iha ha).trans (ihb hb)
  | sub a b iha ihb =>
    intro s s' v h
    simp only [evalExpr] at h
    split at h
    · cases h
    · next va s1 ha =>
      split at h
      · cases h
      · next vb s2 hb =>
        have := arithVals_eq h; subst this
        exact (iha ha).trans (ihb hb)
  | mul a b iha ihb =>
    intro s s' v h
    simp only [evalExpr] at h
    split at h
    · cases h
    · next va s1 ha =>
      split at h
      · cases h
      · next vb s2 hb =>
        have := arithVals_eq h; subst this
        exact (iha ha).trans (ihb hb)

theorem renderParts_step (c : Ctx) (ps : List Part) : ∀ {s s' : St} {vs : List Val},
    renderParts c ps s = .ok (vs, s') → Step s s' := by
  induction ps with
  | nil =>
    intro s s' vs h
    simp only [renderParts, Except.ok.injEq, Prod.mk.injEq] at h
    obtain ⟨-, rfl⟩ := h; exact Step.refl _
  | cons p ps ih =>
    intro s s' vs h
    cases p with
    | text t =>
      simp only [renderParts] at h
      split at h
      · cases h
      · next vs1 s1 hp =>
        simp only [Except.ok.injEq, Prod.mk.injEq] at h
        obtain ⟨-, rfl⟩ := h; exact ih hp
    | expr e =>
      simp only [renderParts] at h
      split at h
      · cases h
      · next v s1 he =>
        split at h
        · cases h
        · next vs1 s2 hp =>
          simp only [Except.ok.injEq, Prod.mk.injEq] at h
          obtain ⟨-, rfl⟩ := h; exact (evalExpr_step c e he).trans (ih hp)

theorem renderTmpl_step {c : Ctx} {parts : List Part} {s s' : St} {v : Val}
    (h : renderTmpl c parts s = .ok (v, s')) : Step s s' := by
  unfold renderTmpl at h
  simp only at h
  split at h
  · split at h
    · simp only [Except.ok.injEq, Prod.mk.injEq] at h
      obtain ⟨-, rfl⟩ := h; exact Step.refl _
    · split at h
      · simp only [Except.ok.injEq, Prod.mk.injEq] at h
        obtain ⟨-, rfl⟩ := h; exact Step.refl _
      · cases h
  · split at h
    · split at h
      · split at h
        · cases h
        · cases h
        · next raw s1 he =>
          split at h
          · simp only [Except.ok.injEq, Prod.mk.injEq] at h
            obtain ⟨-, rfl⟩ := h; exact evalExpr_step _ _ he
          · cases h
        · next v1 s1 _ _ he =>
          simp only [Except.ok.injEq, Prod.mk.injEq] at h
          obtain ⟨-, rfl⟩ := h; exact evalExpr_step _ _ he
      · split at h
        · cases h
        · next vs s1 hp =>
          split at h
          · cases h
          · split at h
            · cases h
            · split at h
              · simp only [Except.ok.injEq, Prod.mk.injEq] at h
                obtain ⟨-, rfl⟩ := h; exact renderParts_step _ _ hp
              · cases h
    · split at h
      · cases h
      · next vs s1 hp =>
        split at h
        · cases h
        · split at h
          · simp only [Except.ok.injEq, Prod.mk.injEq] at h
            obtain ⟨-, rfl⟩ := h; exact renderParts_step _ _ hp
          · cases h

theorem renderRef_walk_step (ps : List String) : ∀ {t v : Val} {s s' : St},
    renderRef.walk t ps s = .ok (v, s') → Step s s' := by
  induction ps with
  | nil =>
    intro t v s s' h
    simp only [renderRef.walk, Except.ok.injEq, Prod.mk.injEq] at h
    obtain ⟨-, rfl⟩ := h; exact Step.refl _
  | cons p ps ih =>
    intro t v s s' h
    simp only [renderRef.walk] at h
    split at h
    · split at h
      · exact ih h
      · cases h
    · split at h
      · split at h
        · cases h
        · next i s1 hs => exact (slotId_step hs).trans (ih h)
      · split at h <;> cases h
    · split at h
      · split at h
        · exact ih h
        · cases h
      · split at h <;> cases h
    · cases h
    · cases h
    · cases h

theorem renderRef_step {c : Ctx} {path : List String} {s s' : St} {v : Val}
    (h : renderRef c path s = .ok (v, s')) : Step s s' := by
  unfold renderRef at h
  split at h
  · cases h
  · split at h
    · cases h
    · split at h
      · cases h
      · next t s1 hw =>
        have hws := renderRef_walk_step _ hw
        split at h
        · split at h
          · cases h
          · next i s2 hs =>
            simp only [Except.ok.injEq, Prod.mk.injEq] at h
            obtain ⟨-, rfl⟩ := h; exact hws.trans (slotId_step hs)
        · simp only [Except.ok.injEq, Prod.mk.injEq] at h
          obtain ⟨-, rfl⟩ := h; exact hws
        · split at h
          · simp only [Except.ok.injEq, Prod.mk.injEq] at h
            obtain ⟨-, rfl⟩ := h; exact hws
          · cases h
        · cases h
        · cases h
        · split at h <;> cases h
        · split at h <;> cases h
        · split at h <;> cases h

theorem canon_step {s s' : St} {v : Val} {o : OVal} (h : canon s v = .ok (o, s')) : Step s s' := by
  unfold canon at h
  split at h
  · simp only [Except.ok.injEq, Prod.mk.injEq] at h; obtain ⟨-, rfl⟩ := h; exact Step.refl _
  · simp only [Except.ok.injEq, Prod.mk.injEq] at h; obtain ⟨-, rfl⟩ := h; exact Step.refl _
  · simp only [Except.ok.injEq, Prod.mk.injEq] at h; obtain ⟨-, rfl⟩ := h; exact Step.refl _
  · simp only [Except.ok.injEq, Prod.mk.injEq] at h; obtain ⟨-, rfl⟩ := h; exact Step.refl _
  · cases h
  · split at h
    · simp only [Except.ok.injEq, Prod.mk.injEq] at h; obtain ⟨-, rfl⟩ := h; exact Step.refl _
    · cases h
  · split at h
    · cases h
    · next i s1 hs =>
      simp only [Except.ok.injEq, Prod.mk.injEq] at h; obtain ⟨-, rfl⟩ := h; exact slotId_step hs
  · split at h
    · simp only [Except.ok.injEq, Prod.mk.injEq] at h; obtain ⟨-, rfl⟩ := h; exact Step.refl _
    · cases h

theorem canonFields_step (vs : List (String × Val)) : ∀ {s s' : St} {os : List (String × OVal)},
    canonFields vs s = .ok (os, s') → Step s s' := by
  induction vs with
  | nil =>
    intro s s' os h
    simp only [canonFields, Except.ok.injEq, Prod.mk.injEq] at h
    obtain ⟨-, rfl⟩ := h; exact Step.refl _
  | cons p vs ih =>
    intro s s' os h
    obtain ⟨k, v⟩ := p
    simp only [canonFields] at h
    split at h
    · exact ih h
    · split at h
      · cases h
      · next o s1 hc =>
        split at h
        · cases h
        · next os1 s2 hr =>
          simp only [Except.ok.injEq, Prod.mk.injEq] at h
          obtain ⟨-, rfl⟩ := h; exact (canon_step hc).trans (ih hr)


theorem consume_step {s s' : St} {n t : String} {i : Nat} (h : consume s n t = some (i, s')) :
    Step s s' := by
  obtain ⟨-, -, rfl⟩ := consume_spec h
  exact ⟨rfl, rfl, rfl, fun m hm => alloc_aset (Or.inr ⟨_, rfl⟩) hm⟩

theorem generateId_step (s : St) (t : String) (nk : Option String) : Step s (generateId s t nk).2 := by
  rcases generateId_cases s t nk with ⟨n, i, -, -, e⟩ | e
  · rw [e]
    exact ⟨rfl, rfl, rfl, fun m hm => alloc_aset (Or.inr ⟨_, rfl⟩) hm⟩
  · rw [e]
    exact ⟨rfl, rfl, rfl, fun m hm => hm⟩

theorem AllocV.mono {s s' : St} {v : Val} (h : AllocV s v) (hm : ∀ n, Alloc s n → Alloc s' n) :
    AllocV s' v := fun n e => hm n (h n e)

theorem NotSlotV.allocV {v : Val} (h : NotSlotV v) (s : St) : AllocV s v :=
  fun n e => absurd e (h.1 n)

/-- writing a value whose slot (if any) is allocated does not change the state -/
theorem canon_noop {s s' : St} {v : Val} {o : OVal} (ha : AllocV s v) (h : canon s v = .ok (o, s')) :
    s' = s := by
  cases v with
  | slot n =>
    simp only [canon] at h
    split at h
    · cases h
    · next i s1 hs =>
      simp only [Except.ok.injEq, Prod.mk.injEq] at h
      rw [← h.2]
      exact slotId_noop (ha n rfl) hs
  | row hd =>
    simp only [canon] at h
    split at h
    · simp only [Except.ok.injEq, Prod.mk.injEq] at h; exact h.2.symm
    · cases h
  | deadSlot t i =>
    cases i with
    | none => cases h
    | some k => simp only [canon, Except.ok.injEq, Prod.mk.injEq] at h; exact h.2.symm
  | undef => cases h
  | null => simp only [canon, Except.ok.injEq, Prod.mk.injEq] at h; exact h.2.symm
  | bool b => simp only [canon, Except.ok.injEq, Prod.mk.injEq] at h; exact h.2.symm
  | int i => simp only [canon, Except.ok.injEq, Prod.mk.injEq] at h; exact h.2.symm
  | str x => simp only [canon, Except.ok.injEq, Prod.mk.injEq] at h; exact h.2.symm

/-- every error of `canon` leaves the modelled fragment -/
theorem canon_error {s : St} {v : Val} {e : Err} (h : canon s v = .error e) : ∃ m, e = .outside m := by
  cases v with
  | slot n =>
    simp only [canon] at h
    split at h
    · next e' hs =>
      cases h
      unfold slotId at hs
      split at hs
      · cases hs; exact ⟨_, rfl⟩
      · cases hs
      · cases hs
      · cases hs
    · cases h
  | row hd =>
    simp only [canon] at h
    split at h
    · cases h
    · cases h; exact ⟨_, rfl⟩
  | deadSlot t i =>
    cases i with
    | none => cases h; exact ⟨_, rfl⟩
    | some k => cases h
  | undef => cases h; exact ⟨_, rfl⟩
  | null => cases h
  | bool b => cases h
  | int i => cases h
  | str x => cases h

/-! ### which field definitions can never produce an unallocated slot -/

/-- every live slot stored in a row holds an id -/
def RowsAlloc (s : St) : Prop := ∀ rd ∈ s.rows, ∀ p ∈ rd.values, AllocV s p.2

/-- In the v3 dialect a template consisting of one bare name returns the value itself, which may be
    a slot that nobody has asked for an id yet.  A bare attribute access returns a stored field: it
    is safe when *all* stored fields are (mode `all`). -/
def fdSafe (v3 all : Bool) : FieldDef → Prop
  | .tmpl [.expr (.name _)] => v3 = false
  | .tmpl [.expr (.attr _ _)] => v3 = false ∨ all = true
  | _ => True

theorem RowsAlloc.step {s s' : St} (h : RowsAlloc s) (hs : Step s s') : RowsAlloc s' := by
  intro rd hrd p hp
  rw [hs.rows] at hrd
  exact (h rd hrd p hp).mono hs.mono

theorem evalExpr_attr_allocV {c : Ctx} {e : Expr} {f : String} {s s' : St} {v : Val}
    (hra : RowsAlloc s) (h : evalExpr c (.attr e f) s = .ok (v, s')) : AllocV s' v := by
  simp only [evalExpr] at h
  split at h
  · cases h
  · cases h
  · next h0 s1 he =>
    split at h
    · cases h
    · simp only [Except.ok.injEq, Prod.mk.injEq] at h
      obtain ⟨rfl, rfl⟩ := h
      have hra1 := hra.step (evalExpr_step c e he)
      cases hl : (rowData s1 h0).values.lookup f with
      | none => intro n hn; cases hn
      | some w =>
        have hm := aget_mem (l := (rowData s1 h0).values) hl
        rcases rowData_cases s1 h0 with hin | hnil
        · exact hra1 _ hin _ hm
        · rw [hnil] at hm; cases hm
  · next n s1 he =>
    split at h
    · split at h
      · cases h
      · simp only [Except.ok.injEq, Prod.mk.injEq] at h
        obtain ⟨rfl, -⟩ := h; intro n hn; cases hn
    · split at h
      · cases h
      · simp only [Except.ok.injEq, Prod.mk.injEq] at h
        obtain ⟨rfl, -⟩ := h; intro n hn; cases hn
  · next tb i s1 he =>
    split at h
    · split at h
      · simp only [Except.ok.injEq, Prod.mk.injEq] at h
        obtain ⟨rfl, -⟩ := h; intro n hn; cases hn
      · cases h
    · split at h
      · cases h
      · simp only [Except.ok.injEq, Prod.mk.injEq] at h
        obtain ⟨rfl, -⟩ := h; intro n hn; cases hn
  · cases h
  · simp only [Except.ok.injEq, Prod.mk.injEq] at h
    obtain ⟨rfl, -⟩ := h; intro n hn; cases hn

theorem evalExpr_int_notSlot {c : Ctx} {n : Int} {s s' : St} {v : Val}
    (h : evalExpr c (.int n) s = .ok (v, s')) : NotSlotV v := by
  simp only [evalExpr, Except.ok.injEq, Prod.mk.injEq] at h
  obtain ⟨rfl, -⟩ := h; nstriv

theorem evalExpr_add_notSlot {c : Ctx} {a b : Expr} {s s' : St} {v : Val}
    (h : evalExpr c (.add a b) s = .ok (v, s')) : NotSlotV v := by
  simp only [evalExpr] at h
  split at h
  · cases h
  · split at h
    · cases h
    · exact arithVals_notSlot h

theorem evalExpr_sub_notSlot {c : Ctx} {a b : Expr} {s s' : St} {v : Val}
    (h : evalExpr c (.sub a b) s = .ok (v, s')) : NotSlotV v := by
  simp only [evalExpr] at h
  split at h
  · cases h
  · split at h
    · cases h
    · exact arithVals_notSlot h

theorem evalExpr_mul_notSlot {c : Ctx} {a b : Expr} {s s' : St} {v : Val}
    (h : evalExpr c (.mul a b) s = .ok (v, s')) : NotSlotV v := by
  simp only [evalExpr] at h
  split at h
  · cases h
  · split at h
    · cases h
    · exact arithVals_notSlot h

theorem renderTmpl_allocV {c : Ctx} {parts : List Part} {s s' : St} {v : Val} {all : Bool}
    (hs : fdSafe s.v3 all (.tmpl parts)) (hra : all = true → RowsAlloc s)
    (h : renderTmpl c parts s = .ok (v, s')) : AllocV s' v := by
  unfold renderTmpl at h
  dsimp only at h
  split at h
  · split at h
    · simp only [Except.ok.injEq, Prod.mk.injEq] at h
      obtain ⟨rfl, -⟩ := h; intro n hn; cases hn
    · split at h
      · next hl =>
        simp only [Except.ok.injEq, Prod.mk.injEq] at h
        obtain ⟨rfl, -⟩ := h; exact (lookForNumber_notSlot hl).allocV _
      · cases h
  · split at h
    · next hv =>
      split at h
      · next e _ =>
        have hne : ∀ {v1 : Val} {s1 : St}, evalExpr c e s = .ok (v1, s1) → AllocV s1 v1 := by
          intro v1 s1 he
          cases e with
          | int n => exact (evalExpr_int_notSlot he).allocV _
          | name n => simp only [fdSafe] at hs; rw [hs] at hv; cases hv
          | attr e f =>
            simp only [fdSafe] at hs
            rcases hs with hs | hs
            · rw [hs] at hv; cases hv
            · exact evalExpr_attr_allocV (hra hs) he
          | add a b => exact (evalExpr_add_notSlot he).allocV _
          | sub a b => exact (evalExpr_sub_notSlot he).allocV _
          | mul a b => exact (evalExpr_mul_notSlot he).allocV _
        split at h
        · cases h
        · cases h
        · next raw s1 he =>
          split at h
          · next hl =>
            simp only [Except.ok.injEq, Prod.mk.injEq] at h
            obtain ⟨rfl, -⟩ := h; exact (nativeLiteral_notSlot hl).allocV _
          · cases h
        · next v1 s1 _ _ he =>
          simp only [Except.ok.injEq, Prod.mk.injEq] at h
          obtain ⟨rfl, rfl⟩ := h; exact hne he
      · split at h
        · cases h
        · split at h
          · cases h
          · split at h
            · cases h
            · split at h
              · next hl =>
                simp only [Except.ok.injEq, Prod.mk.injEq] at h
                obtain ⟨rfl, -⟩ := h; exact (nativeLiteral_notSlot hl).allocV _
              · cases h
    · split at h
      · cases h
      · split at h
        · cases h
        · split at h
          · next hl =>
            simp only [Except.ok.injEq, Prod.mk.injEq] at h
            obtain ⟨rfl, -⟩ := h; exact (lookForNumber_notSlot hl).allocV _
          · cases h

/-- a reference asks the slot for its id before it returns it -/
theorem renderRef_allocV {c : Ctx} {path : List String} {s s' : St} {v : Val}
    (h : renderRef c path s = .ok (v, s')) : AllocV s' v := by
  unfold renderRef at h
  split at h
  · cases h
  · split at h
    · cases h
    · split at h
      · cases h
      · next t s1 hw =>
        split at h
        · split at h
          · cases h
          · next i s2 hs =>
            simp only [Except.ok.injEq, Prod.mk.injEq] at h
            obtain ⟨rfl, rfl⟩ := h
            intro m hm
            cases hm
            exact slotId_alloc hs
        · simp only [Except.ok.injEq, Prod.mk.injEq] at h
          obtain ⟨rfl, -⟩ := h; intro m hm; cases hm
        · split at h
          · simp only [Except.ok.injEq, Prod.mk.injEq] at h
            obtain ⟨rfl, -⟩ := h; intro m hm; cases hm
          · cases h
        · cases h
        · cases h
        · split at h <;> cases h
        · split at h <;> cases h
        · split at h <;> cases h

end SnowModel.L2
