/-
"Hidden is a projection", part 7: the simultaneous induction on fuel — each of the six mutually
recursive functions, run on the renamed syntax in the renamed state, does what the original does
(up to runs that leave the modelled fragment), and the twin's output projects onto the original's.
-/
import SnowModel.Proofs.L2Ren6

namespace SnowModel.L2
variable {α β γ δ : Type} {ρ σ : String → String}

/-! ### one-step unfoldings in `bindR` form -/

def valOfRow : Option Nat → Val
  | none => .null
  | some h => .row h

theorem renderFd_nested (fuel : Nat) (c : Ctx) (t : Template) (s : St) :
    renderFd (fuel + 1) c (.nested t) s =
      bindR (execTemplate fuel c t s) (fun r s1 => .ok (valOfRow r, s1)) := by
  simp only [renderFd]
  cases execTemplate fuel c t s with
  | error e => rfl
  | ok q =>
    obtain ⟨r, s1⟩ := q
    cases r <;> rfl

def cntOf (fuel : Nat) (c0 : Ctx) (cnt : Option FieldDef) (s : St) : R Nat :=
  match cnt with
  | none => .ok (1, s)
  | some fd =>
    bindR (renderFd fuel c0 fd s) (fun v s1 =>
      match countOf s1 v with
      | .error e => .error e
      | .ok n => .ok (n, s1))

theorem execTemplate_bind (fuel : Nat) (parent : Ctx) (t : Template) (s : St) :
    execTemplate (fuel + 1) parent t s =
      bindR (cntOf fuel { obj := none, vars := parent.vars } t.count s)
        (fun n s1 => execRows fuel { obj := none, vars := parent.vars } t 0 n none s1) := by
  rw [execTemplate_succ]
  unfold cntOf
  cases t.count with
  | none => rfl
  | some fd =>
    simp only [bindR]
    cases renderFd fuel { obj := none, vars := parent.vars } fd s with
    | error e => rfl
    | ok q =>
      obtain ⟨v, s1⟩ := q
      simp only
      cases countOf s1 v <;> rfl

theorem execRows_bind (fuel : Nat) (c : Ctx) (t : Template) (i n : Nat) (last : Option Nat) (s : St) :
    execRows (fuel + 1) c t i n last s =
      (if i ≥ n then .ok (last, s) else
        bindR (execRow fuel { c with vars := aset c.vars "child_index" (.int i) } t i s)
          (fun p s1 => execRows fuel p.2 t (i + 1) n (some p.1) s1)) := by
  rw [execRows_succ]
  split
  · rfl
  · simp only [bindR]
    cases execRow fuel { c with vars := aset c.vars "child_index" (.int i) } t i s with
    | error e => rfl
    | ok q => rfl

theorem execRow_bind (fuel : Nat) (c : Ctx) (t : Template) (i : Nat) (s : St) :
    execRow (fuel + 1) c t i s =
      bindR (execFields fuel { c with obj := some s.rows.length } s.rows.length t.fields (regState s t i))
        (fun _ s6 => bindR (writeRow t s.rows.length s6)
          (fun _ s8 => bindR (execStmts fuel { c with obj := some s.rows.length } t.friends true s8)
            (fun c2 s9 => .ok ((s.rows.length, c2), s9)))) := by
  rw [execRow_succ]
  simp only [bindR]
  cases execFields fuel { c with obj := some s.rows.length } s.rows.length t.fields (regState s t i) with
  | error e => rfl
  | ok q =>
    obtain ⟨u, s6⟩ := q
    simp only
    cases writeRow t s.rows.length s6 with
    | error e => rfl
    | ok q2 =>
      obtain ⟨u2, s8⟩ := q2
      simp only
      cases execStmts fuel { c with obj := some s.rows.length } t.friends true s8 with
      | error e => rfl
      | ok q3 => rfl

theorem execFields_bind (fuel : Nat) (c : Ctx) (h : Nat) (name : String) (fd : FieldDef)
    (rest : List (String × FieldDef)) (s : St) :
    execFields (fuel + 1) c h ((name, fd) :: rest) s =
      bindR (renderFd fuel c fd s) (fun v s1 => execFields fuel c h rest (setRowValue s1 h name v)) := by
  rw [execFields_cons]
  simp only [bindR]
  cases renderFd fuel c fd s with
  | error e => rfl
  | ok q => rfl

theorem execStmts_var_bind (fuel : Nat) (c : Ctx) (name : String) (fd : FieldDef) (rest : List Stmt)
    (cont : Bool) (s : St) :
    execStmts (fuel + 1) c (.var name fd :: rest) cont s =
      bindR (renderFd fuel { obj := none, vars := c.vars } fd s)
        (fun v s1 => execStmts fuel { c with vars := aset c.vars name v } rest cont s1) := by
  rw [execStmts_var]
  simp only [bindR]
  cases renderFd fuel { obj := none, vars := c.vars } fd s with
  | error e => rfl
  | ok q => rfl

theorem execStmts_obj_bind (fuel : Nat) (c : Ctx) (t : Template) (rest : List Stmt)
    (cont : Bool) (s : St) :
    execStmts (fuel + 1) c (.obj t :: rest) cont s =
      (if t.justOnce ∧ cont then execStmts fuel c rest cont s else
        bindR (execTemplate fuel c t s) (fun _ s1 => execStmts fuel c rest cont s1)) := by
  rw [execStmts_obj]
  split
  · rfl
  · simp only [bindR]
    cases execTemplate fuel c t s with
    | error e => rfl
    | ok q => rfl

/-! ### contexts -/

theorem renCtx_setVar (h : Ren ρ σ) (c : Ctx) (k : String) (v : Val) :
    ({ renCtx ρ c with vars := aset (renCtx ρ c).vars (ρ k) (renVal ρ v) } : Ctx) =
      renCtx ρ { c with vars := aset c.vars k v } := by
  simp only [renCtx, aset_renA h]

theorem renCtx_childIndex (h : Ren ρ σ) (c : Ctx) (i : Nat) :
    ({ renCtx ρ c with vars := aset (renCtx ρ c).vars "child_index" (.int i) } : Ctx) =
      renCtx ρ { c with vars := aset c.vars "child_index" (.int i) } := by
  have := renCtx_setVar h c "child_index" (.int i)
  rw [h.fix_ci] at this
  exact this

theorem rowData_of_rowTab {s : St} {hd : Nat} {tb : String} (h : RowTab s hd tb) :
    rowData s hd ∈ s.rows ∧ (rowData s hd).table = tb := by
  obtain ⟨rd, h1, h2⟩ := h
  have : rowData s hd = rd := by
    unfold rowData
    simp [List.getD_eq_getElem?_getD, h1]
  rw [this]
  exact ⟨List.mem_of_getElem? h1, h2⟩

/-! ### the simulation -/

/-- all six statements for one amount of fuel -/
def SimAll (ρ σ : String → String) (v3 all : Bool) (fuel : Nat) : Prop :=
  (∀ c fd s o, OkFd ρ v3 all fd → s.v3 = v3 → RowsOK ρ all s → s.out = project σ o →
    RRm ρ σ (renVal ρ) (renderFd fuel c fd s)
      (renderFd fuel (renCtx ρ c) (renFd ρ fd) (renSt ρ o s))) ∧
  (∀ c t s o, OkT ρ v3 all t → s.v3 = v3 → RowsOK ρ all s → s.out = project σ o →
    RRm ρ σ id (execTemplate fuel c t s)
      (execTemplate fuel (renCtx ρ c) (renT ρ t) (renSt ρ o s))) ∧
  (∀ c t i n last s o, OkT ρ v3 all t → s.v3 = v3 → RowsOK ρ all s → s.out = project σ o →
    RRm ρ σ id (execRows fuel c t i n last s)
      (execRows fuel (renCtx ρ c) (renT ρ t) i n last (renSt ρ o s))) ∧
  (∀ c t i s o, OkT ρ v3 all t → s.v3 = v3 → RowsOK ρ all s → s.out = project σ o →
    RRm ρ σ (fun p => (p.1, renCtx ρ p.2)) (execRow fuel c t i s)
      (execRow fuel (renCtx ρ c) (renT ρ t) i (renSt ρ o s))) ∧
  (∀ c h tb fs s o, OkFields ρ v3 all tb fs → s.v3 = v3 → RowsOK ρ all s → RowTab s h tb →
    s.out = project σ o →
    RRm ρ σ id (execFields fuel c h fs s)
      (execFields fuel (renCtx ρ c) h (renFields ρ fs) (renSt ρ o s))) ∧
  (∀ c sts cont s o, OkStmts ρ v3 all sts → s.v3 = v3 → RowsOK ρ all s → s.out = project σ o →
    RRm ρ σ (renCtx ρ) (execStmts fuel c sts cont s)
      (execStmts fuel (renCtx ρ c) (renStmts ρ sts) cont (renSt ρ o s)))

theorem RRm.fuel {f : α → β} : RRm ρ σ f (.error .fuel : R α) (.error .fuel : R β) :=
  Or.inr (Or.inr (Or.inl ⟨_, rfl, rfl⟩))

theorem simAll (h : Ren ρ σ) (v3 all : Bool) (fuel : Nat) : SimAll ρ σ v3 all fuel := by
  induction fuel with
  | zero =>
    refine ⟨?_, ?_, ?_, ?_, ?_, ?_⟩
    · intro c fd s o _ _ _ _; rw [renderFd_zero, renderFd_zero]; exact RRm.fuel
    · intro c t s o _ _ _ _; rw [execTemplate_zero, execTemplate_zero]; exact RRm.fuel
    · intro c t i n last s o _ _ _ _; rw [execRows_zero, execRows_zero]; exact RRm.fuel
    · intro c t i s o _ _ _ _; rw [execRow_zero, execRow_zero]; exact RRm.fuel
    · intro c hd tb fs s o _ _ _ _ _; rw [execFields_zero, execFields_zero]; exact RRm.fuel
    · intro c sts cont s o _ _ _ _; rw [execStmts_zero, execStmts_zero]; exact RRm.fuel
  | succ fuel ih =>
    obtain ⟨ihFd, ihT, ihRows, ihRow, ihF, ihS⟩ := ih
    obtain ⟨ivFd, ivT, ivRows, ivRow, ivF, ivS⟩ := invAll h v3 all fuel
    refine ⟨?_, ?_, ?_, ?_, ?_, ?_⟩
    · -- renderFd
      intro c fd s o hok hv hr ho
      cases fd with
      | lit l =>
        cases l with
        | str x =>
          simp only [renFd, renderFd]
          by_cases hv3 : s.v3 = true
          · rw [if_pos hv3, if_pos (show (renSt ρ o s).v3 = true from hv3)]
            exact RRm.ok (f := renVal ρ) (a := .str x) ho
          · rw [if_neg hv3, if_neg (show ¬ (renSt ρ o s).v3 = true from hv3)]
            cases hl : lookForNumber x with
            | error e =>
              cases e with
              | outside m => exact Or.inl ⟨m, rfl⟩
              | recipe m => exact Or.inr (Or.inr (Or.inl ⟨_, rfl, rfl⟩))
              | fuel => exact Or.inr (Or.inr (Or.inl ⟨_, rfl, rfl⟩))
            | ok v =>
              have := RRm.ok (ρ := ρ) (f := renVal ρ) (a := v) ho
              rw [renVal_notSlot (lookForNumber_notSlot hl)] at this
              exact this
        | int n =>
          simp only [renFd, renderFd]
          exact RRm.ok (f := renVal ρ) (a := .int n) ho
        | bool b =>
          simp only [renFd, renderFd]
          exact RRm.ok (f := renVal ρ) (a := .bool b) ho
        | null =>
          simp only [renFd, renderFd]
          exact RRm.ok (f := renVal ρ) (a := .null) ho
      | tmpl parts =>
        simp only [renFd, renderFd]
        simp only [OkFd] at hok
        exact RRm.of_RRs (renderTmpl_ren h o c parts hok s)
          (fun a s1 hx => (renderTmpl_step hx).out) ho
      | ref path =>
        simp only [renFd, renderFd]
        simp only [OkFd] at hok
        exact RRm.of_RRs (renderRef_ren h o c path hok s)
          (fun a s1 hx => (renderRef_step hx).out) ho
      | nested t =>
        simp only [OkFd] at hok
        rw [renFd, renderFd_nested, renderFd_nested]
        refine RRm.bind (ihT c t s o hok hv hr ho) ?_
        intro r s1 o1 hx ho1
        have := RRm.ok (ρ := ρ) (f := renVal ρ) (a := valOfRow r) ho1
        cases r <;> exact this
    · -- execTemplate
      intro c t s o hok hv hr ho
      rw [execTemplate_bind, execTemplate_bind, renT_count]
      have hcnt : RRm ρ σ id (cntOf fuel { obj := none, vars := c.vars } t.count s)
          (cntOf fuel { obj := none, vars := (renCtx ρ c).vars } (renOFd ρ t.count) (renSt ρ o s)) := by
        have hokc := hok.count
        unfold cntOf
        cases hc : t.count with
        | none => exact RRm.ok ho
        | some fd =>
          rw [hc] at hokc
          simp only [OkOFd] at hokc
          simp only [renOFd]
          refine RRm.bind (ihFd { obj := none, vars := c.vars } fd s o hokc hv hr ho) ?_
          intro v s1 o1 hx ho1
          rw [countOf_ren]
          cases countOf s1 v with
          | error e =>
            cases e with
            | outside m => exact Or.inl ⟨m, rfl⟩
            | recipe m => exact Or.inr (Or.inr (Or.inl ⟨_, rfl, rfl⟩))
            | fuel => exact Or.inr (Or.inr (Or.inl ⟨_, rfl, rfl⟩))
          | ok n => exact RRm.ok ho1
      refine RRm.bind hcnt ?_
      intro n s1 o1 hx ho1
      have h1 : HTr ρ all s s1 := by
        unfold cntOf at hx
        have hokc := hok.count
        cases hc : t.count with
        | none =>
          rw [hc] at hx
          simp only [Except.ok.injEq, Prod.mk.injEq] at hx
          rw [← hx.2]; exact HTr.refl _
        | some fd =>
          rw [hc] at hx hokc
          simp only [OkOFd] at hokc
          simp only [bindR] at hx
          split at hx
          · cases hx
          · next v s2 hfd =>
            split at hx
            · cases hx
            · simp only [Except.ok.injEq, Prod.mk.injEq] at hx
              rw [← hx.2]
              exact (ivFd _ _ _ _ _ hokc hv hfd).1
      exact ihRows { obj := none, vars := c.vars } t 0 n none s1 o1 hok (h1.v3.trans hv) (h1.rows hr) ho1
    · -- execRows
      intro c t i n last s o hok hv hr ho
      rw [execRows_bind, execRows_bind]
      split
      · exact RRm.ok ho
      · rw [renCtx_childIndex h]
        refine RRm.bind (ihRow _ t i s o hok hv hr ho) ?_
        intro p s1 o1 hx ho1
        have h1 := ivRow _ _ _ _ _ _ hok hv hx
        exact ihRows p.2 t (i + 1) n (some p.1) s1 o1 hok (h1.v3.trans hv) (h1.rows hr) ho1
    · -- execRow
      intro c t i s o hok hv hr ho
      rw [execRow_bind, execRow_bind]
      simp only [renSt_rows, List.length_map, renT_fields, renT_friends, regState_ren h]
      have h0 : HTr ρ all s (regState s t i) := regState_htr h s t i
      have hrt0 := regState_rowTab s t i
      have ho0 : (regState s t i).out = project σ o := by rw [regState_out]; exact ho
      refine RRm.bind (f := id) (ihF { c with obj := some s.rows.length } s.rows.length t.table t.fields
        (regState s t i) o hok.fields (h0.v3.trans hv) (h0.rows hr) hrt0 ho0) ?_
      intro u6 s6 o6 hx6 ho6
      have h1 := ivF _ _ _ _ _ _ _ hok.fields (h0.v3.trans hv) hrt0 hx6
      have h01 := h0.trans h1
      have hr6 := h01.rows hr
      have hrt6 := hrt0.mono h1.tabs
      obtain ⟨hmem, htab⟩ := rowData_of_rowTab hrt6
      have hrows : ∀ p ∈ (rowData s6 s.rows.length).values,
          VisOK ρ p.1 ∧ (Hid ρ t.table ∨ Hid ρ p.1 → AllocV s6 p.2) := by
        intro p hp
        have := hr6 _ hmem p hp
        rw [htab] at this
        exact ⟨this.1, fun hh => this.2 (Or.inr hh)⟩
      refine RRm.bind (f := id) (writeRow_ren h o6 t hok.table s.rows.length s6 hrows ho6) ?_
      intro u8 s8 o8 hx8 ho8
      have h2 : HTr ρ all s6 s8 := writeRow_htr hx8
      have h012 := h01.trans h2
      refine RRm.bind (ihS { c with obj := some s.rows.length } t.friends true s8 o8 hok.friends
        (h012.v3.trans hv) (h012.rows hr) ho8) ?_
      intro c2 s9 o9 hx9 ho9
      exact RRm.ok (f := fun p : Nat × Ctx => (p.1, renCtx ρ p.2)) (a := (s.rows.length, c2)) ho9
    · -- execFields
      intro c hd tb fs s o hok hv hr hrt ho
      cases fs with
      | nil =>
        simp only [renFields]
        rw [execFields_nil, execFields_nil]
        exact RRm.ok ho
      | cons p rest =>
        obtain ⟨name, fd⟩ := p
        simp only [OkFields] at hok
        obtain ⟨hk, hsafe, hfdok, hrest⟩ := hok
        simp only [renFields]
        rw [execFields_bind, execFields_bind]
        refine RRm.bind (ihFd c fd s o hfdok hv hr ho) ?_
        intro v s1 o1 hx ho1
        obtain ⟨h1, hal⟩ := ivFd _ _ _ _ _ hfdok hv hx
        have hrt1 := hrt.mono h1.tabs
        have h2 : HTr ρ all s1 (setRowValue s1 hd name v) := by
          refine setRowValue_htr s1 hd hk (fun rd hrd hh => hal hr (hsafe ?_))
          obtain ⟨rd', hrd', e'⟩ := hrt1
          rw [hrd] at hrd'
          cases hrd'
          rw [← e']; exact hh
        have h12 := h1.trans h2
        rw [setRowValue_ren h]
        exact ihF c hd tb rest (setRowValue s1 hd name v) o1 hrest (h12.v3.trans hv) (h12.rows hr)
          (hrt.mono h12.tabs) ho1
    · -- execStmts
      intro c sts cont s o hok hv hr ho
      cases sts with
      | nil =>
        simp only [renStmts]
        rw [execStmts_nil, execStmts_nil]
        exact RRm.ok ho
      | cons st rest =>
        simp only [OkStmts] at hok
        obtain ⟨hst, hrest⟩ := hok
        cases st with
        | var name fd =>
          simp only [OkStmt] at hst
          simp only [renStmts, renStmt]
          rw [execStmts_var_bind, execStmts_var_bind]
          refine RRm.bind (ihFd { obj := none, vars := c.vars } fd s o hst hv hr ho) ?_
          intro v s1 o1 hx ho1
          have h1 := (ivFd _ _ _ _ _ hst hv hx).1
          rw [renCtx_setVar h]
          exact ihS _ rest cont s1 o1 hrest (h1.v3.trans hv) (h1.rows hr) ho1
        | obj t =>
          simp only [OkStmt] at hst
          simp only [renStmts, renStmt]
          rw [execStmts_obj_bind, execStmts_obj_bind, renT_justOnce]
          split
          · exact ihS c rest cont s o hrest hv hr ho
          · refine RRm.bind (ihT c t s o hst hv hr ho) ?_
            intro r s1 o1 hx ho1
            have h1 := ivT _ _ _ _ _ hst hv hx
            exact ihS c rest cont s1 o1 hrest (h1.v3.trans hv) (h1.rows hr) ho1

end SnowModel.L2
