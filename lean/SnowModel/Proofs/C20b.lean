/-
C20 — helper lemmas, part 3: files (`loadFile`), the static passes, the `_partial` theorem.
-/
import SnowModel.Proofs.C20a

namespace SnowModel.ParseCheck

def optOk (o : KVs) : Prop :=
  match lookup o "option" with
  | some v => v.hashable = true
  | none => True

def TopOk (t : Top) : Prop := (∀ o ∈ t.options, optOk o) ∧ MacOk t.macros

def StmtOk (s : Y) : Prop :=
  ∃ kvs, s = .map kvs ∧ okNode kvs = true ∧
    (getTruthy kvs "object" = true ∨ getTruthy kvs "var" = true)

def EnvOk (env : Env) : Prop :=
  ∀ p ∈ env.files, match p.2 with
    | .doc d => okDoc d = true
    | .yamlError => True

theorem lookup_list_mem {α β : Type} [BEq α] {l : List (α × β)} {k : α} {v : β}
    (h : l.lookup k = some v) : ∃ k', (k', v) ∈ l := by
  induction l with
  | nil => cases h
  | cons p rest ih =>
    obtain ⟨a, b⟩ := p
    simp only [List.lookup] at h
    split at h
    · cases h; exact ⟨a, List.mem_cons_self ..⟩
    · obtain ⟨k', hk⟩ := ih h; exact ⟨k', List.mem_cons_of_mem _ hk⟩

/-- `foldlM` with an invariant on the accumulator -/
theorem foldlM_inv {σ α : Type} {Q : Site → Prop} {G : Ref → Prop} {P : σ → Prop}
    {f : σ → α → Res σ} :
    ∀ (l : List α) (init : σ), P init →
      (∀ s x, x ∈ l → P s → Safe Q G (f s x) ∧ ∀ s' refs, f s x = .ok s' refs → P s') →
      Safe Q G (l.foldlM f init) ∧ ∀ s' refs, l.foldlM f init = .ok s' refs → P s' := by
  intro l
  induction l with
  | nil =>
    intro init hinit _
    simp only [List.foldlM_nil, pure_eq]
    refine ⟨safe_ok_nil _, ?_⟩
    intro s' refs h
    simp only [Res.ok.injEq] at h
    rw [← h.1]; exact hinit
  | cons x xs ih =>
    intro init hinit hstep
    simp only [List.foldlM_cons, bind_eq]
    have h1 := hstep init x (List.mem_cons_self ..) hinit
    constructor
    · apply safe_bind h1.1
      intro s refs hs
      exact (ih s (h1.2 s refs hs) (fun s' y hy hp => hstep s' y (List.mem_cons_of_mem _ hy) hp)).1
    · intro s' refs h
      obtain ⟨s, r1, r2, h2, h3, _⟩ := bind_ok_inv h
      exact (ih s (h1.2 s r1 h2) (fun s' y hy hp => hstep s' y (List.mem_cons_of_mem _ hy) hp)).2 s' r2 h3

/-! ### top-level elements -/

theorem okTopElem_map {kvs : KVs} (h : okTopElem (.map kvs) = true) :
    okNode kvs = true
    ∧ (∀ v, lookup kvs "macro" = some v → v.hashable = true)
    ∧ (∀ v, lookup kvs "option" = some v → v.hashable = true)
    ∧ (∀ v, lookup kvs "plugin" = some v → v.truthy = true → ∃ s, v = .str s ∧ countDots s ≠ 0)
    ∧ (∀ s, lookup kvs "include_file" = some (.str s) → startsWithSlash s = false) := by
  simp only [okTopElem, Bool.and_eq_true] at h
  obtain ⟨⟨⟨⟨h1, h2⟩, h3⟩, h4⟩, h5⟩ := h
  refine ⟨h1, ?_, ?_, ?_, ?_⟩
  · intro v hv; rw [hv] at h2; exact h2
  · intro v hv; rw [hv] at h3; exact h3
  · intro v hv ht
    rw [hv] at h4
    cases v <;> simp_all [Y.truthy]
  · intro s hs; rw [hs] at h5; simpa using h5

theorem hasCat_inv {cat : String} {o : Y} (h : hasCat cat o = true) :
    ∃ kvs r, o = .map kvs ∧ r ∈ collectionRules ∧ getTruthy kvs r.1 = true ∧ r.2 = cat := by
  unfold hasCat at h
  cases o <;> simp only [categorize, pure_eq] at h <;> try (cases h; done)
  rename_i kvs
  split at h
  · rename_i c refs hc
    split at hc
    · rename_i r hr
      simp only [Res.ok.injEq] at hc
      have hm : r ∈ collectionRules.filter (fun r => getTruthy kvs r.1) := by
        rw [hr]; exact List.mem_cons_self ..
      have := List.mem_filter.mp hm
      exact ⟨kvs, r, rfl, this.1, this.2, by rw [hc.1]; simpa using h⟩
    · cases hc
  · cases h

theorem hasCat_decl {cat : String} {o : Y} (h : hasCat cat o = true)
    (huniq : ∀ r ∈ collectionRules, r.2 = cat → r.1 = cat) :
    ∃ kvs, o = .map kvs ∧ getTruthy kvs cat = true := by
  obtain ⟨kvs, r, h1, h2, h3, h4⟩ := hasCat_inv h
  refine ⟨kvs, h1, ?_⟩
  rw [← huniq r h2 h4]; exact h3

theorem registerMacros_inv :
    ∀ (l : List Y) (m : Macros), MacOk m → (∀ o ∈ l, okTopElem o = true) →
      NS (registerMacros m l) ∧ ∀ m' refs, registerMacros m l = .ok m' refs → MacOk m' := by
  intro l
  induction l with
  | nil =>
    intro m hm _
    simp only [registerMacros, pure_eq]
    refine ⟨safe_ok_nil _, ?_⟩
    intro m' refs h
    simp only [Res.ok.injEq] at h
    rw [← h.1]; exact hm
  | cons o rest ih =>
    intro m hm hall
    have ho := hall o (List.mem_cons_self ..)
    have hrest : ∀ o ∈ rest, okTopElem o = true := fun x hx => hall x (List.mem_cons_of_mem _ hx)
    have hnomap : ∀ o' : Y, (∀ kvs, o' ≠ .map kvs) → registerMacros m (o' :: rest) = registerMacros m rest := by
      intro o' ho'
      cases o' <;> first | rfl | exact absurd rfl (ho' _)
    cases o with
    | map kvs =>
      simp only [registerMacros, kvsOf]
      split
      · rename_i s hs
        apply ih _ _ hrest
        intro p hp
        rcases List.mem_append.mp hp with hp | hp
        · exact hm p hp
        · simp only [List.mem_singleton] at hp
          rw [hp]
          exact (okTopElem_map ho).1
      · rename_i v hnot hv
        have := (okTopElem_map ho).2.1 v hv
        simp only [this, ↓reduceIte]
        exact ih m hm hrest
      · exact ih m hm hrest
    | null => rw [hnomap _ (by intro _ h; cases h)]; exact ih m hm hrest
    | bool _ => rw [hnomap _ (by intro _ h; cases h)]; exact ih m hm hrest
    | int _ => rw [hnomap _ (by intro _ h; cases h)]; exact ih m hm hrest
    | float _ => rw [hnomap _ (by intro _ h; cases h)]; exact ih m hm hrest
    | str _ => rw [hnomap _ (by intro _ h; cases h)]; exact ih m hm hrest
    | date _ => rw [hnomap _ (by intro _ h; cases h)]; exact ih m hm hrest
    | list _ => rw [hnomap _ (by intro _ h; cases h)]; exact ih m hm hrest

theorem parseVersion_safe {Q : Site → Prop} {G : Ref → Prop} (l : List Y) : Safe Q G (parseVersion l) := by
  unfold parseVersion
  split
  · exact safe_ok_nil _
  · split
    · split
      · split
        · exact safe_ok_nil _
        · exact safe_err _
      · exact safe_err _
    · exact safe_err _

theorem categorize_safe {Q : Site → Prop} {G : Ref → Prop} (o : Y) : Safe Q G (categorize o) := by
  unfold categorize
  split
  · split
    · exact safe_ok_nil _
    · exact safe_err _
  · exact safe_err _

theorem checkPlugin_safe (env : Env) (o : Y) (ho : okTopElem o = true) (hc : hasCat "plugin" o = true) :
    NS (checkPlugin env o) := by
  obtain ⟨kvs, rfl, ht⟩ := hasCat_decl hc (by
    intro r hr h
    simp only [collectionRules, List.mem_cons, List.not_mem_nil, or_false] at hr
    rcases hr with rfl | rfl | rfl | rfl | rfl | rfl | rfl <;> simp_all)
  unfold checkPlugin
  simp only [kvsOf]
  unfold getTruthy at ht
  cases hl : lookup kvs "plugin" with
  | none => simp [hl] at ht
  | some v =>
    simp only [hl] at ht
    obtain ⟨s, rfl, hd⟩ := (okTopElem_map ho).2.2.2.1 v hl ht
    simp only
    have : (countDots s == 0) = false := by simpa using hd
    simp only [this, Bool.false_eq_true, ↓reduceIte]
    split
    · exact safe_ok_nil _
    · exact safe_err _

theorem okDoc_mem {data : List Y} (h : okDoc (.list data) = true) : ∀ o ∈ data, okTopElem o = true := by
  simpa [okDoc, List.all_eq_true] using h

theorem kvsOf_truthy {o : Y} {k : String} (h : getTruthy (kvsOf o) k = true) : ∃ kvs, o = .map kvs := by
  cases o <;> simp [kvsOf, getTruthy, lookup] at h
  exact ⟨_, rfl⟩

theorem optOk_kvsOf {o : Y} (ho : okTopElem o = true) : optOk (kvsOf o) := by
  cases o <;> simp only [kvsOf, optOk, lookup] <;> try trivial
  rename_i kvs
  split
  · rename_i v hv; exact (okTopElem_map ho).2.2.1 v hv
  · trivial

/-! ### `loadFile` -/

theorem loadFile_inv : ∀ (fuel : Nat) (env : Env) (acc : Top) (doc : Y),
    EnvOk env → TopOk acc → okDoc doc = true →
    NS (loadFile fuel env acc doc) ∧
      ∀ r refs, loadFile fuel env acc doc = .ok r refs → TopOk r.1 ∧ ∀ s ∈ r.2.1, StmtOk s := by
  intro fuel
  induction fuel with
  | zero =>
    intro env acc doc _ _ _
    simp only [loadFile]
    exact ⟨safe_fuel, fun _ _ h => by cases h⟩
  | succ n ih =>
    intro env acc doc henv hacc hdoc
    cases doc with
    | list data =>
      have helem := okDoc_mem hdoc
      simp only [loadFile, bind_eq, pure_eq]
      -- the include fold, with its invariant
      have hfold := foldlM_inv (Q := fun _ => False) (G := goodRef)
        (P := fun (st : Top × List Y) => TopOk st.1 ∧ ∀ s ∈ st.2, StmtOk s)
        (f := fun (st : Top × List Y) (inc : Y) =>
          (parseElement (kvsOf inc) "include_file" [] []).bind fun _ =>
            match lookup (kvsOf inc) "include_file" with
            | some (Y.str rel) =>
              if startsWithSlash rel = true then Res.stuck Site.includeAbs
              else
                match List.lookup rel env.files with
                | none => Res.recipeError Err.generic
                | some FileContent.yamlError => Res.recipeError Err.syntax
                | some (FileContent.doc d) =>
                  (loadFile n env st.fst d).bind fun sub => Res.ok (sub.fst, st.snd ++ sub.snd.fst) []
            | x => Res.recipeError Err.syntax)
        (List.filter (fun o => getTruthy (kvsOf o) "include_file") data) (acc, [])
        ⟨hacc, fun s hs => by cases hs⟩
        (by
          intro st inc hinc hst
          have hin := List.mem_filter.mp hinc
          obtain ⟨kvs, rfl⟩ := kvsOf_truthy (by simpa using hin.2)
          have hok := okTopElem_map (helem _ hin.1)
          simp only [kvsOf]
          constructor
          · apply safe_bind (parseElement_safe ..)
            intro _ _ _
            split
            · rename_i rel hrel
              simp only [hok.2.2.2.2 rel hrel, Bool.false_eq_true, ↓reduceIte]
              split
              · exact safe_err _
              · exact safe_err _
              · rename_i d hd
                obtain ⟨k', hk'⟩ := lookup_list_mem hd
                have hdok : okDoc d = true := henv _ hk'
                apply safe_bind (ih env st.1 d henv hst.1 hdok).1
                intro _ _ _; exact safe_ok_nil _
            · exact safe_err _
          · intro s' refs h
            obtain ⟨_, r1, r2, h1, h2, _⟩ := bind_ok_inv h
            split at h2
            · rename_i rel hrel
              simp only [hok.2.2.2.2 rel hrel, Bool.false_eq_true, ↓reduceIte] at h2
              split at h2
              · cases h2
              · cases h2
              · rename_i d hd
                obtain ⟨k', hk'⟩ := lookup_list_mem hd
                have hdok : okDoc d = true := henv _ hk'
                obtain ⟨sub, r3, r4, h3, h4, _⟩ := bind_ok_inv h2
                simp only [Res.ok.injEq] at h4
                rw [← h4.1]
                have := (ih env st.1 d henv hst.1 hdok).2 sub r3 h3
                refine ⟨this.1, ?_⟩
                intro s hs
                rcases List.mem_append.mp hs with hs | hs
                · exact hst.2 s hs
                · exact this.2 s hs
            · cases h2)
      constructor
      · apply safe_bind
        · apply safe_forR
          intro o _
          apply safe_bind (categorize_safe o)
          intro _ _ _; exact safe_ok_nil _
        · intro _ _ _
          apply safe_bind hfold.1
          intro r refs hr
          have hr' := hfold.2 r refs hr
          have hmac := registerMacros_inv (data.filter (hasCat "macro")) r.1.macros hr'.1.2
            (fun o ho => helem o (List.mem_filter.mp ho).1)
          apply safe_bind hmac.1
          intro macros _ _
          apply safe_bind
          · apply safe_forR
            intro o ho
            have := List.mem_filter.mp ho
            exact checkPlugin_safe env o (helem o this.1) this.2
          · intro _ _ _
            apply safe_bind (parseVersion_safe _)
            intro _ _ _; exact safe_ok_nil _
      · intro res refs h
        obtain ⟨_, r1, r2, h1, h2, _⟩ := bind_ok_inv h
        obtain ⟨r, r3, r4, h3, h4, _⟩ := bind_ok_inv h2
        have hr' := hfold.2 r r3 h3
        have hmac := registerMacros_inv (data.filter (hasCat "macro")) r.1.macros hr'.1.2
          (fun o ho => helem o (List.mem_filter.mp ho).1)
        obtain ⟨macros, r5, r6, h5, h6, _⟩ := bind_ok_inv h4
        obtain ⟨_, r7, r8, h7, h8, _⟩ := bind_ok_inv h6
        obtain ⟨version, r9, r10, h9, h10, _⟩ := bind_ok_inv h8
        simp only [Res.ok.injEq] at h10
        rw [← h10.1]
        refine ⟨⟨?_, hmac.2 macros r5 h5⟩, ?_⟩
        · intro o ho
          rcases List.mem_append.mp ho with ho | ho
          · exact hr'.1.1 o ho
          · obtain ⟨x, hx, rfl⟩ := List.mem_map.mp ho
            exact optOk_kvsOf (helem x (List.mem_filter.mp hx).1)
        · intro s hs
          rcases List.mem_append.mp hs with hs | hs
          · exact hr'.2 s hs
          · have hs' := List.mem_filter.mp hs
            obtain ⟨kvs, r, rfl, hr1, hr2, hr3⟩ := hasCat_inv hs'.2
            refine ⟨kvs, rfl, (okTopElem_map (helem _ hs'.1)).1, ?_⟩
            simp only [collectionRules, List.mem_cons, List.not_mem_nil, or_false] at hr1
            rcases hr1 with rfl | rfl | rfl | rfl | rfl | rfl | rfl <;> simp_all
    | null => simp only [loadFile]; exact ⟨safe_err _, fun _ _ h => by cases h⟩
    | bool _ => simp only [loadFile]; exact ⟨safe_err _, fun _ _ h => by cases h⟩
    | int _ => simp only [loadFile]; exact ⟨safe_err _, fun _ _ h => by cases h⟩
    | float _ => simp only [loadFile]; exact ⟨safe_err _, fun _ _ h => by cases h⟩
    | str _ => simp only [loadFile]; exact ⟨safe_err _, fun _ _ h => by cases h⟩
    | date _ => simp only [loadFile]; exact ⟨safe_err _, fun _ _ h => by cases h⟩
    | map _ => simp only [loadFile]; exact ⟨safe_err _, fun _ _ h => by cases h⟩

/-! ### `parse_recipe` and the static passes -/

theorem okStmts_of_forall : ∀ (l : List Y), (∀ s ∈ l, StmtOk s) → okStmts l = true := by
  intro l
  induction l with
  | nil => intro _; rfl
  | cons x xs ih =>
    intro h
    obtain ⟨kvs, rfl, h1, h2⟩ := h x (List.mem_cons_self ..)
    simp only [okStmts, Bool.and_eq_true, Bool.or_eq_true]
    refine ⟨⟨?_, h1⟩, ih (fun s hs => h s (List.mem_cons_of_mem _ hs))⟩
    rcases h2 with h2 | h2
    · exact Or.inl (Or.inl h2)
    · exact Or.inl (Or.inr h2)

theorem envOk_of_avoids {env : Env} {doc : Y} (h : AvoidsKnownHoles env doc = true) :
    EnvOk env ∧ okDoc doc = true := by
  simp only [AvoidsKnownHoles, Bool.and_eq_true, List.all_eq_true] at h
  refine ⟨?_, h.1⟩
  intro p hp
  have := h.2 p hp
  cases hc : p.2 with
  | yamlError => trivial
  | doc d => simpa [hc] using this

theorem parseRecipe_inv (fuel : Nat) (env : Env) (doc : Y) (h : AvoidsKnownHoles env doc = true) :
    NS (parseRecipe fuel env doc) ∧
      ∀ p refs, parseRecipe fuel env doc = .ok p refs → ∀ o ∈ p.options, optOk o := by
  obtain ⟨henv, hdoc⟩ := envOk_of_avoids h
  have htop : TopOk {} := by
    constructor
    · intro o ho; cases ho
    · intro p hp; cases hp
  have hload := loadFile_inv fuel env {} doc henv htop hdoc
  simp only [parseRecipe, bind_eq, pure_eq]
  constructor
  · apply safe_bind hload.1
    intro r refs hr
    have hr' := hload.2 r refs hr
    apply safe_bind ((allNS fuel).stmts r.1.macros true r.2.1 hr'.1.2 (okStmts_of_forall _ hr'.2))
    intro _ _ _; exact safe_ok_nil _
  · intro p refs hp
    obtain ⟨r, r1, r2, h1, h2, _⟩ := bind_ok_inv hp
    obtain ⟨stmts, r3, r4, h3, h4, _⟩ := bind_ok_inv h2
    simp only [Res.ok.injEq] at h4
    rw [← h4.1]
    exact (hload.2 r r1 h1).1.1

theorem checkOption_not_stuck {o : KVs} (h : optOk o) : (checkOption o).isStuck = false := by
  unfold checkOption
  unfold optOk at h
  split
  · rename_i v hv
    rw [hv] at h
    simp only [h, Bool.not_true, Bool.false_eq_true, ↓reduceIte]
    split <;> rfl
  · rfl

/-- documents that avoid the known holes never get stuck -/
theorem check_not_stuck_of_avoids (fuel : Nat) (env : Env) (doc : Y)
    (h : AvoidsKnownHoles env doc = true) : (check fuel env doc).isStuck = false := by
  have hp := parseRecipe_inv fuel env doc h
  unfold check
  cases hr : parseRecipe fuel env doc with
  | ok p refs =>
    simp only
    have hopt : (forR checkOption p.options).isStuck = false :=
      forR_not_stuck (fun o ho => checkOption_not_stuck (hp.2 p refs hr o ho))
    have href : (forR checkRef refs).isStuck = false :=
      forR_not_stuck (fun x hx => hp.1.2 p refs hr x hx)
    cases ho : forR checkOption p.options with
    | ok _ _ =>
      simp only
      cases hf : forR checkRef refs with
      | ok _ _ => rfl
      | recipeError _ => rfl
      | stuck s => rw [hf] at href; cases href
      | fuel => rfl
    | recipeError _ => rfl
    | stuck s => rw [ho] at hopt; cases hopt
    | fuel => rfl
  | recipeError _ => rfl
  | stuck s => exact (hp.1.1 s hr).elim
  | fuel => rfl

end SnowModel.ParseCheck
