/-
C20 — helper lemmas, part 3: files (`loadFile`), the declaration loop as the guard of the later
unguarded operations, the static passes; `check` never gets stuck.
-/
import SnowModel.Proofs.C20a

namespace SnowModel.ParseCheck

/-- what `merge_options` relies on: the option name can be hashed -/
def optOk (o : KVs) : Prop :=
  match lookup o "option" with
  | some v => v.hashable = true
  | none => True

def TopOk (t : Top) : Prop := ∀ o ∈ t.options, optOk o

theorem lookup_list_mem {α β : Type} [BEq α] {l : List (α × β)} {k : α} {v : β}
    (h : l.lookup k = some v) : ∃ k', (k', v) ∈ l := by
  induction l with
  | nil => cases h
  | cons p rest ih =>
    obtain ⟨a, b⟩ := p
    simp only [List.lookup] at h
    split at h
    · cases h; exact ⟨a, List.mem_cons_self ..⟩
    · obtain ⟨k', hk⟩ := ih h; exact ⟨k', List.mem_cons_of_mem _ hk⟩

/-- `foldlM` with an invariant on the accumulator -/
theorem foldlM_inv {σ α : Type} {Q : Site → Prop} {G : Ref → Prop} {P : σ → Prop}
    {f : σ → α → Res σ} :
    ∀ (l : List α) (init : σ), P init →
      (∀ s x, x ∈ l → P s → Safe Q G (f s x) ∧ ∀ s' refs, f s x = .ok s' refs → P s') →
      Safe Q G (l.foldlM f init) ∧ ∀ s' refs, l.foldlM f init = .ok s' refs → P s' := by
  intro l
  induction l with
  | nil =>
    intro init hinit _
    simp only [List.foldlM_nil, pure_eq]
    refine ⟨safe_ok_nil _, ?_⟩
    intro s' refs h
    simp only [Res.ok.injEq] at h
    rw [← h.1]; exact hinit
  | cons x xs ih =>
    intro init hinit hstep
    simp only [List.foldlM_cons, bind_eq]
    have h1 := hstep init x (List.mem_cons_self ..) hinit
    constructor
    · apply safe_bind h1.1
      intro s refs hs
      exact (ih s (h1.2 s refs hs) (fun s' y hy hp => hstep s' y (List.mem_cons_of_mem _ hy) hp)).1
    · intro s' refs h
      obtain ⟨s, r1, r2, h2, h3, _⟩ := bind_ok_inv h
      exact (ih s (h1.2 s r1 h2) (fun s' y hy hp => hstep s' y (List.mem_cons_of_mem _ hy) hp)).2 s' r2 h3

/-! ### top-level elements -/

theorem hasCat_inv {cat : String} {o : Y} (h : hasCat cat o = true) :
    ∃ kvs r, o = .map kvs ∧ r ∈ collectionRules ∧ getTruthy kvs r.1 = true ∧ r.2 = cat := by
  unfold hasCat at h
  cases o <;> simp only [categorize, pure_eq] at h <;> try (cases h; done)
  rename_i kvs
  split at h
  · rename_i c refs hc
    split at hc
    · rename_i r hr
      simp only [Res.ok.injEq] at hc
      have hm : r ∈ collectionRules.filter (fun r => getTruthy kvs r.1) := by
        rw [hr]; exact List.mem_cons_self ..
      have := List.mem_filter.mp hm
      exact ⟨kvs, r, rfl, this.1, this.2, by rw [hc.1]; simpa using h⟩
    · cases hc
  · cases h

theorem hasCat_decl {cat : String} {o : Y} (h : hasCat cat o = true)
    (huniq : ∀ r ∈ collectionRules, r.2 = cat → r.1 = cat) :
    ∃ kvs, o = .map kvs ∧ getTruthy kvs cat = true := by
  obtain ⟨kvs, r, h1, h2, h3, h4⟩ := hasCat_inv h
  refine ⟨kvs, h1, ?_⟩
  rw [← huniq r h2 h4]; exact h3

theorem parseVersion_safe {Q : Site → Prop} {G : Ref → Prop} (l : List Y) : Safe Q G (parseVersion l) := by
  unfold parseVersion
  split
  · exact safe_ok_nil _
  · split
    · split
      · split
        · exact safe_ok_nil _
        · exact safe_err _
      · exact safe_err _
    · exact safe_err _

theorem categorize_safe {Q : Site → Prop} {G : Ref → Prop} (o : Y) : Safe Q G (categorize o) := by
  unfold categorize
  split
  · split
    · exact safe_ok_nil _
    · exact safe_err _
  · exact safe_err _

theorem kvsOf_truthy {o : Y} {k : String} (h : getTruthy (kvsOf o) k = true) : ∃ kvs, o = .map kvs := by
  cases o <;> simp [kvsOf, getTruthy, lookup] at h
  exact ⟨_, rfl⟩


/-! ### the declaration loop guards `registerMacros`, `checkPlugin`, `checkOption` -/

theorem declOk_safe {Q : Site → Prop} {G : Ref → Prop} (kind : String) (o : Y) : Safe Q G (declOk kind o) := by
  unfold declOk
  split
  · split
    · split
      · split
        · exact safe_ok_nil _
        · exact safe_err _
      · exact safe_err _
    · split
      · exact safe_ok_nil _
      · exact safe_err _
  · exact safe_err _

theorem declOk_option {o : Y} {u : Unit} {refs : List Ref} (h : declOk "option" o = .ok u refs) :
    optOk (kvsOf o) := by
  unfold declOk at h
  unfold optOk
  split at h
  · rename_i v hv
    rw [hv]
    simp only [show ("option" == "plugin") = false by decide, Bool.false_eq_true, ↓reduceIte] at h
    split at h
    · assumption
    · cases h
  · cases h

theorem declOk_macro {o : Y} {u : Unit} {refs : List Ref} (h : declOk "macro" o = .ok u refs) :
    ∀ v, lookup (kvsOf o) "macro" = some v → v.hashable = true := by
  unfold declOk at h
  intro v hv
  rw [hv] at h
  simp only [show ("macro" == "plugin") = false by decide, Bool.false_eq_true, ↓reduceIte] at h
  split at h
  · assumption
  · cases h

theorem pluginNameOk_dots {s : String} (h : pluginNameOk s = true) : countDots s ≠ 0 := by
  unfold pluginNameOk at h
  simp only [Bool.and_eq_true] at h
  have hc := h.2
  rw [List.contains_iff_mem] at hc
  have hm : '.' ∈ s.toList := by
    have := (List.dropWhile_suffix (fun c => c == '.') (l := s.toList.reverse)).subset hc
    exact List.mem_reverse.mp this
  unfold countDots
  intro h0
  have : '.' ∈ s.toList.filter (· == '.') := List.mem_filter.mpr ⟨hm, by simp⟩
  rw [List.length_eq_zero_iff] at h0
  rw [h0] at this
  cases this

theorem declOk_plugin {o : Y} {u : Unit} {refs : List Ref} (h : declOk "plugin" o = .ok u refs) :
    ∃ s, lookup (kvsOf o) "plugin" = some (.str s) ∧ countDots s ≠ 0 := by
  unfold declOk at h
  split at h
  · rename_i v hv
    simp only [beq_self_eq_true, ↓reduceIte] at h
    split at h
    · rename_i s
      split at h
      · rename_i hs; exact ⟨s, hv, pluginNameOk_dots hs⟩
      · cases h
    · cases h
  · cases h

theorem registerMacros_safe :
    ∀ (l : List Y) (m : Macros),
      (∀ o ∈ l, ∀ v, lookup (kvsOf o) "macro" = some v → v.hashable = true) →
      NS (registerMacros m l) := by
  intro l
  induction l with
  | nil => intro m _; exact safe_ok_nil _
  | cons o rest ih =>
    intro m hall
    have ho := hall o (List.mem_cons_self ..)
    have hrest : ∀ x ∈ rest, ∀ v, lookup (kvsOf x) "macro" = some v → v.hashable = true :=
      fun x hx => hall x (List.mem_cons_of_mem _ hx)
    simp only [registerMacros]
    split
    · exact ih _ hrest
    · rename_i v hnot hv
      simp only [ho v hv, ↓reduceIte]
      exact ih m hrest
    · exact ih m hrest

theorem checkPlugin_safe (env : Env) (o : Y) {u : Unit} {refs : List Ref}
    (h : declOk "plugin" o = .ok u refs) : NS (checkPlugin env o) := by
  obtain ⟨s, hs, hd⟩ := declOk_plugin h
  unfold checkPlugin
  rw [hs]
  simp only
  have : (countDots s == 0) = false := by simpa using hd
  simp only [this, Bool.false_eq_true, ↓reduceIte]
  split
  · exact safe_ok_nil _
  · exact safe_err _

theorem mergeVersion_safe {Q : Site → Prop} {G : Ref → Prop} (a b : Option Nat) : Safe Q G (mergeVersion a b) := by
  unfold mergeVersion
  split
  · exact safe_ok_nil _
  · split
    · exact safe_ok_nil _
    · split
      · exact safe_ok_nil _
      · exact safe_err _

/-! ### `loadFile` -/

theorem loadFile_inv : ∀ (fuel : Nat) (env : Env) (stack : List String) (acc : Top) (doc : Y),
    TopOk acc →
    NS (loadFile fuel env stack acc doc) ∧
      ∀ r refs, loadFile fuel env stack acc doc = .ok r refs → TopOk r.1 := by
  intro fuel
  induction fuel with
  | zero =>
    intro env stack acc doc _
    simp only [loadFile]
    exact ⟨safe_fuel, fun _ _ h => by cases h⟩
  | succ n ih =>
    intro env stack acc doc hacc
    cases doc with
    | list data =>
      simp only [loadFile, bind_eq, pure_eq]
      have hfold := foldlM_inv (Q := fun _ => False) (G := fun _ => True)
        (P := fun (st : Top × List Y) => TopOk st.1)
        (f := fun (st : Top × List Y) (inc : Y) =>
          (parseElement (kvsOf inc) "include_file" [] []).bind fun _ =>
            match lookup (kvsOf inc) "include_file" with
            | some (Y.str rel) =>
              if startsWithSlash rel = true then Res.recipeError Err.syntax
              else
                match List.lookup rel env.files with
                | none => Res.recipeError Err.generic
                | some c =>
                  if stack.contains rel = true then Res.recipeError Err.generic
                  else
                    match c with
                    | FileContent.yamlError => Res.recipeError Err.syntax
                    | FileContent.doc d =>
                      (loadFile n env (stack ++ [rel]) st.fst d).bind fun sub => Res.ok (sub.fst, st.snd ++ sub.snd) []
            | x => Res.recipeError Err.syntax)
        (List.filter (fun o => getTruthy (kvsOf o) "include_file") data) (acc, [])
        hacc
        (by
          intro st inc _ hst
          constructor
          · apply safe_bind (parseElement_safe ..)
            intro _ _ _
            split
            · split
              · exact safe_err _
              · split
                · exact safe_err _
                · split
                  · exact safe_err _
                  · split
                    · exact safe_err _
                    · apply safe_bind (ih env _ st.1 _ hst).1
                      intro _ _ _; exact safe_ok_nil _
            · exact safe_err _
          · intro s' refs h
            obtain ⟨_, r1, r2, h1, h2, _⟩ := bind_ok_inv h
            split at h2
            · split at h2
              · cases h2
              · split at h2
                · cases h2
                · split at h2
                  · cases h2
                  · split at h2
                    · cases h2
                    · obtain ⟨sub, r3, r4, h3, h4, _⟩ := bind_ok_inv h2
                      simp only [Res.ok.injEq] at h4
                      rw [← h4.1]
                      exact (ih env _ st.1 _ hst).2 sub r3 h3
            · cases h2)
      constructor
      · apply safe_bind
        · apply safe_forR
          intro o _
          apply safe_bind (categorize_safe o)
          intro _ _ _; exact safe_ok_nil _
        · intro _ _ _
          apply safe_bind hfold.1
          intro r refs hr
          apply safe_bind (safe_forR (fun o _ => declOk_safe "option" o))
          intro _ _ _
          apply safe_bind (safe_forR (fun o _ => declOk_safe "macro" o))
          intro _ _ hmac
          apply safe_bind (safe_forR (fun o _ => declOk_safe "plugin" o))
          intro _ _ hplug
          apply safe_bind
          · apply registerMacros_safe
            intro o ho
            obtain ⟨rr, hrr⟩ := forR_ok_mem hmac o ho
            exact declOk_macro hrr
          · intro macros _ _
            apply safe_bind
            · apply safe_forR
              intro o ho
              obtain ⟨rr, hrr⟩ := forR_ok_mem hplug o ho
              exact checkPlugin_safe env o hrr
            · intro _ _ _
              apply safe_bind (parseVersion_safe _)
              intro _ _ _
              apply safe_bind (mergeVersion_safe _ _)
              intro _ _ _; exact safe_ok_nil _
      · intro res refs h
        obtain ⟨_, r1, r2, h1, h2, _⟩ := bind_ok_inv h
        obtain ⟨r, r3, r4, h3, h4, _⟩ := bind_ok_inv h2
        have hr' := hfold.2 r r3 h3
        obtain ⟨_, r5, r6, h5, h6, _⟩ := bind_ok_inv h4
        obtain ⟨_, r7, r8, h7, h8, _⟩ := bind_ok_inv h6
        obtain ⟨_, r9, r10, h9, h10, _⟩ := bind_ok_inv h8
        obtain ⟨macros, r11, r12, h11, h12, _⟩ := bind_ok_inv h10
        obtain ⟨_, r13, r14, h13, h14, _⟩ := bind_ok_inv h12
        obtain ⟨own, r15, r16, h15, h16, _⟩ := bind_ok_inv h14
        obtain ⟨version, r17, r18, h17, h18, _⟩ := bind_ok_inv h16
        simp only [Res.ok.injEq] at h18
        rw [← h18.1]
        intro o ho
        rcases List.mem_append.mp ho with ho | ho
        · exact hr' o ho
        · obtain ⟨x, hx, rfl⟩ := List.mem_map.mp ho
          obtain ⟨rr, hrr⟩ := forR_ok_mem h5 x hx
          exact declOk_option hrr
    | null => simp only [loadFile]; exact ⟨safe_err _, fun _ _ h => by cases h⟩
    | bool _ => simp only [loadFile]; exact ⟨safe_err _, fun _ _ h => by cases h⟩
    | int _ => simp only [loadFile]; exact ⟨safe_err _, fun _ _ h => by cases h⟩
    | float _ => simp only [loadFile]; exact ⟨safe_err _, fun _ _ h => by cases h⟩
    | str _ => simp only [loadFile]; exact ⟨safe_err _, fun _ _ h => by cases h⟩
    | date _ => simp only [loadFile]; exact ⟨safe_err _, fun _ _ h => by cases h⟩
    | map _ => simp only [loadFile]; exact ⟨safe_err _, fun _ _ h => by cases h⟩

/-! ### `parse_recipe` and the static passes -/

theorem parseRecipe_inv (fuel : Nat) (env : Env) (doc : Y) :
    NS (parseRecipe fuel env doc) ∧
      ∀ p refs, parseRecipe fuel env doc = .ok p refs → ∀ o ∈ p.options, optOk o := by
  have htop : TopOk {} := by intro o ho; cases ho
  have hload := loadFile_inv fuel env [] {} doc htop
  simp only [parseRecipe, bind_eq, pure_eq]
  constructor
  · apply safe_bind hload.1
    intro r refs hr
    apply safe_bind ((allNS fuel).stmts r.1.macros [] true r.2)
    intro _ _ _; exact safe_ok_nil _
  · intro p refs hp
    obtain ⟨r, r1, r2, h1, h2, _⟩ := bind_ok_inv hp
    obtain ⟨stmts, r3, r4, h3, h4, _⟩ := bind_ok_inv h2
    simp only [Res.ok.injEq] at h4
    rw [← h4.1]
    exact hload.2 r r1 h1

theorem checkOption_not_stuck {o : KVs} (h : optOk o) : (checkOption o).isStuck = false := by
  unfold checkOption
  unfold optOk at h
  split
  · rename_i v hv
    rw [hv] at h
    simp only [h, Bool.not_true, Bool.false_eq_true, ↓reduceIte]
    split <;> rfl
  · rfl

theorem checkRef_not_stuck (r : Ref) : (checkRef r).isStuck = false := by
  unfold checkRef
  simp only
  split <;> rfl

/-- no document gets the validation layer stuck -/
theorem check_not_stuck (fuel : Nat) (env : Env) (doc : Y) : (check fuel env doc).isStuck = false := by
  have hp := parseRecipe_inv fuel env doc
  unfold check
  cases hr : parseRecipe fuel env doc with
  | ok p refs =>
    simp only
    have hopt : (forR checkOption p.options).isStuck = false :=
      forR_not_stuck (fun o ho => checkOption_not_stuck (hp.2 p refs hr o ho))
    have href : (forR checkRef refs).isStuck = false :=
      forR_not_stuck (fun x _ => checkRef_not_stuck x)
    cases ho : forR checkOption p.options with
    | ok _ _ =>
      simp only
      cases hf : forR checkRef refs with
      | ok _ _ => rfl
      | recipeError _ => rfl
      | stuck s => rw [hf] at href; cases href
      | fuel => rfl
    | recipeError _ => rfl
    | stuck s => rw [ho] at hopt; cases hopt
    | fuel => rfl
  | recipeError _ => rfl
  | stuck s => exact (hp.1.1 s hr).elim
  | fuel => rfl

end SnowModel.ParseCheck
