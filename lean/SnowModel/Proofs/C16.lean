/-
C16 — helper lemmas, part 1: the table sorter (`sortLoop`).
-/
import SnowModel.Core.Mapping
import Mathlib.Data.List.Basic
import Mathlib.Data.List.Nodup

namespace SnowModel.Proofs.C16
open SnowModel.Mapping

/-! ### cycle breaking -/

/-- what the loop needs of the cycle breaker: on a non-empty list it returns a non-empty list of
    members of that list -/
def GoodBreak (bc : List String → Option (List String)) : Prop :=
  ∀ l, l ≠ [] → ∃ r, bc l = some r ∧ r ≠ [] ∧ ∀ x ∈ r, x ∈ l

theorem minStr_mem : ∀ (l : List String), l ≠ [] → ∃ m, minStr l = some m ∧ m ∈ l
  | [], h => absurd rfl h
  | x :: xs, _ => by
    cases hxs : xs with
    | nil => exact ⟨x, by simp [minStr], by simp⟩
    | cons y ys =>
      obtain ⟨m, hm, hmem⟩ := minStr_mem (y :: ys) (by simp)
      simp only [minStr] at hm ⊢
      rw [hm]
      by_cases hlt : m < x
      · exact ⟨m, by simp [hlt], by simp [List.mem_cons] at hmem ⊢; tauto⟩
      · exact ⟨x, by simp [hlt], by simp⟩

theorem goodBreak_alphabetical : GoodBreak breakAlphabetical := by
  intro l hl
  obtain ⟨m, hm, hmem⟩ := minStr_mem l hl
  exact ⟨[m], by simp [breakAlphabetical, hm], by simp, by simpa using hmem⟩

/-! ### termination and membership -/

/-- the measure: number of remaining tables + number of remaining tables not yet in the output -/
def mu (tables sorted : List String) : Nat :=
  tables.length + (tables.filter (fun t => !sorted.contains t)).length

theorem filter_len_mono (l : List String) (p q : String → Bool) (h : ∀ a, p a = true → q a = true) :
    (l.filter p).length ≤ (l.filter q).length :=
  (List.monotone_filter_right l h).length_le

/-- one unfolding of the loop on a non-empty table list -/
theorem sortLoop_succ (deps : String → List Dep) (bc) (fuel : Nat) (tables sorted : List String)
    (hne : tables ≠ []) :
    sortLoop deps bc (fuel + 1) tables sorted =
      (let leaf := tables.filter (fun t => tableIsFree deps t sorted)
       let sorted1 := sorted ++ leaf
       let tables1 := tables.filter (fun t => !sorted1.contains t)
       if tables1.length == tables.length then
         match bc tables1 with
         | none => none
         | some extra => sortLoop deps bc fuel tables1 (sorted1 ++ extra)
       else sortLoop deps bc fuel tables1 sorted1) := by
  cases tables with
  | nil => exact absurd rfl hne
  | cons a as => rfl

/-- **Main loop lemma**: with fuel above the measure the loop returns, and returns exactly the
    already-sorted names plus the remaining tables, extending the already-sorted prefix. -/
theorem sortLoop_spec (deps : String → List Dep) (bc) (hbc : GoodBreak bc) :
    ∀ (fuel : Nat) (tables sorted : List String), mu tables sorted < fuel →
      ∃ r, sortLoop deps bc fuel tables sorted = some r ∧
        (∀ x, x ∈ r ↔ x ∈ sorted ∨ x ∈ tables) ∧ sorted <+: r := by
  intro fuel
  induction fuel with
  | zero => intro tables sorted h; omega
  | succ fuel ih =>
    intro tables sorted hmu
    by_cases hne : tables = []
    · subst hne
      exact ⟨sorted, by simp [sortLoop], by simp, List.prefix_refl _⟩
    · rw [sortLoop_succ deps bc fuel tables sorted hne]
      generalize hleaf : tables.filter (fun t => tableIsFree deps t sorted) = leaf
      have hleaf_sub : ∀ x ∈ leaf, x ∈ tables := by
        intro x hx; rw [← hleaf] at hx; exact (List.mem_filter.mp hx).1
      simp only
      generalize ht1 : tables.filter (fun t => !(sorted ++ leaf).contains t) = tables1
      have ht1_mem : ∀ x, x ∈ tables1 ↔ x ∈ tables ∧ x ∉ sorted ∧ x ∉ leaf := by
        intro x; rw [← ht1]; simp [List.mem_filter]
      have hlen_le : tables1.length ≤ tables.length := by rw [← ht1]; exact List.length_filter_le _ _
      by_cases hprog : tables1.length = tables.length
      · -- no progress
        have hall : ∀ a ∈ tables, (!(sorted ++ leaf).contains a) = true := by
          rw [← ht1] at hprog
          exact List.length_filter_eq_length_iff.mp hprog
        have ht1eq : tables1 = tables := by rw [← ht1]; exact List.filter_eq_self.mpr hall
        have hnotin : ∀ a ∈ tables, a ∉ sorted ∧ a ∉ leaf := by
          intro a ha; have := hall a ha; simpa using this
        obtain ⟨extra, hbce, hexne, hexsub⟩ := hbc tables1 (by rw [ht1eq]; exact hne)
        simp only [hprog, beq_self_eq_true, if_true, hbce]
        -- measure decreases
        have hmu' : mu tables1 (sorted ++ leaf ++ extra) < fuel := by
          obtain ⟨e, he⟩ := List.exists_mem_of_ne_nil extra hexne
          have he_t : e ∈ tables := by rw [← ht1eq]; exact hexsub e he
          have h1 : (tables.filter (fun t => !(sorted ++ leaf ++ extra).contains t)).length < tables.length := by
            apply List.length_filter_lt_length_iff_exists.mpr
            exact ⟨e, he_t, by simp [he]⟩
          have h2 : tables.length ≤ (tables.filter (fun t => !sorted.contains t)).length := by
            have : (tables.filter (fun t => !sorted.contains t)) = tables := by
              apply List.filter_eq_self.mpr
              intro a ha; simpa using (hnotin a ha).1
            rw [this]; exact Nat.le_refl _
          unfold mu at hmu ⊢
          rw [ht1eq]
          omega
        obtain ⟨r, hr, hmem, hpre⟩ := ih tables1 (sorted ++ leaf ++ extra) hmu'
        refine ⟨r, hr, ?_, ?_⟩
        · intro x
          rw [hmem x, ht1eq]
          constructor
          · rintro (h | h)
            · simp only [List.mem_append] at h
              rcases h with (h | h) | h
              · exact Or.inl h
              · exact Or.inr (hleaf_sub x h)
              · exact Or.inr (ht1eq ▸ hexsub x h)
            · exact Or.inr h
          · rintro (h | h)
            · exact Or.inl (by simp [h])
            · exact Or.inr h
        · exact List.IsPrefix.trans (by rw [List.append_assoc]; exact List.prefix_append _ _) hpre
      · -- progress
        have hb : (tables1.length == tables.length) = false := by simpa using hprog
        simp only [hb]
        have hlt : tables1.length < tables.length := by omega
        have hmu' : mu tables1 (sorted ++ leaf) < fuel := by
          have h1 : (tables1.filter (fun t => !(sorted ++ leaf).contains t)).length
              ≤ (tables.filter (fun t => !sorted.contains t)).length := by
            rw [← ht1, List.filter_filter]
            apply filter_len_mono
            intro a ha
            simp only [Bool.and_self] at ha
            simp only [List.contains_append, Bool.not_or, Bool.and_eq_true] at ha
            exact ha.1
          unfold mu at hmu ⊢
          omega
        obtain ⟨r, hr, hmem, hpre⟩ := ih tables1 (sorted ++ leaf) hmu'
        refine ⟨r, by simpa using hr, ?_, ?_⟩
        · intro x
          rw [hmem x, ht1_mem x]
          simp only [List.mem_append]
          constructor
          · rintro ((h | h) | h)
            · exact Or.inl h
            · exact Or.inr (hleaf_sub x h)
            · exact Or.inr h.1
          · rintro (h | h)
            · exact Or.inl (Or.inl h)
            · by_cases hs : x ∈ sorted
              · exact Or.inl (Or.inl hs)
              · by_cases hl : x ∈ leaf
                · exact Or.inl (Or.inr hl)
                · exact Or.inr ⟨h, hs, hl⟩
        · exact List.IsPrefix.trans (List.prefix_append _ _) hpre

theorem mu_nil_lt_sortFuel (tables : List String) : mu tables [] < sortFuel tables.length := by
  have : (tables.filter (fun t => !([] : List String).contains t)).length ≤ tables.length :=
    List.length_filter_le _ _
  unfold mu sortFuel
  omega

theorem goodBreak_declaredOnly (declared : List Dep) : GoodBreak (sortDeclaredOnly declared) := by
  intro l hl
  obtain ⟨r, hr, hmem, _⟩ :=
    sortLoop_spec (effDeps [] declared) breakAlphabetical goodBreak_alphabetical
      (sortFuel l.length) l [] (mu_nil_lt_sortFuel l)
  refine ⟨r, hr, ?_, ?_⟩
  · obtain ⟨e, he⟩ := List.exists_mem_of_ne_nil l hl
    intro hnil
    have := (hmem e).mpr (Or.inr he)
    rw [hnil] at this
    exact absurd this (List.not_mem_nil)
  · intro x hx
    rcases (hmem x).mp hx with h | h
    · exact absurd h (List.not_mem_nil)
    · exact h

theorem goodBreak_sortDependencies (b : Bool) (declared : List Dep) :
    GoodBreak (if b then sortDeclaredOnly declared else breakAlphabetical) := by
  cases b
  · exact goodBreak_alphabetical
  · exact goodBreak_declaredOnly declared

/-! ### no duplicates with the alphabetical cycle breaker -/

theorem tableIsFree_append_self (deps : String → List Dep) (m : String) (sorted : List String) :
    tableIsFree deps m (sorted ++ [m]) = tableIsFree deps m sorted := by
  unfold tableIsFree
  congr 1
  funext d
  by_cases h : d.to = m <;> simp [h]

/-- loop invariant for `Nodup` -/
structure NdInv (deps : String → List Dep) (tables sorted : List String) : Prop where
  snd : sorted.Nodup
  tnd : tables.Nodup
  stuck : ∀ t ∈ tables, t ∈ sorted → tableIsFree deps t sorted = false

theorem sortLoop_nodup (deps : String → List Dep) :
    ∀ (fuel : Nat) (tables sorted r : List String), NdInv deps tables sorted →
      sortLoop deps breakAlphabetical fuel tables sorted = some r → r.Nodup := by
  intro fuel
  induction fuel with
  | zero => intro tables sorted r _ h; simp [sortLoop] at h
  | succ fuel ih =>
    intro tables sorted r hinv h
    by_cases hne : tables = []
    · subst hne
      simp [sortLoop] at h
      subst h
      exact hinv.snd
    · rw [sortLoop_succ deps _ fuel tables sorted hne] at h
      generalize hleaf : tables.filter (fun t => tableIsFree deps t sorted) = leaf at h
      have hleaf_mem : ∀ x, x ∈ leaf ↔ x ∈ tables ∧ tableIsFree deps x sorted = true := by
        intro x; rw [← hleaf]; exact List.mem_filter
      have hleaf_nd : leaf.Nodup := by rw [← hleaf]; exact hinv.tnd.filter _
      have hs1 : (sorted ++ leaf).Nodup := by
        refine List.nodup_append.mpr ⟨hinv.snd, hleaf_nd, ?_⟩
        intro a ha b hb hab
        subst hab
        have := (hleaf_mem a).mp hb
        have hst := hinv.stuck a this.1 ha
        rw [this.2] at hst
        exact absurd hst (by simp)
      simp only at h
      generalize ht1 : tables.filter (fun t => !(sorted ++ leaf).contains t) = tables1 at h
      have ht1_mem : ∀ x, x ∈ tables1 ↔ x ∈ tables ∧ x ∉ sorted ∧ x ∉ leaf := by
        intro x; rw [← ht1]; simp [List.mem_filter]
      have ht1_nd : tables1.Nodup := by rw [← ht1]; exact hinv.tnd.filter _
      by_cases hprog : tables1.length = tables.length
      · have hall : ∀ a ∈ tables, (!(sorted ++ leaf).contains a) = true := by
          rw [← ht1] at hprog
          exact List.length_filter_eq_length_iff.mp hprog
        have ht1eq : tables1 = tables := by rw [← ht1]; exact List.filter_eq_self.mpr hall
        have hnotin : ∀ a ∈ tables, a ∉ sorted ∧ a ∉ leaf := by
          intro a ha; have := hall a ha; simpa using this
        have hleaf_nil : leaf = [] := by
          apply List.eq_nil_iff_forall_not_mem.mpr
          intro a ha
          exact (hnotin a ((hleaf_mem a).mp ha).1).2 ha
        obtain ⟨m, hm, hmem⟩ := minStr_mem tables1 (by rw [ht1eq]; exact hne)
        simp only [hprog, beq_self_eq_true, if_true, breakAlphabetical, hm, Option.map_some] at h
        apply ih tables1 (sorted ++ leaf ++ [m]) r _ h
        have hm_t : m ∈ tables := ht1eq ▸ hmem
        refine ⟨?_, ht1_nd, ?_⟩
        · refine List.nodup_append.mpr ⟨hs1, by simp, ?_⟩
          intro a ha b hb hab
          simp only [List.mem_singleton] at hb
          subst hb; subst hab
          simp only [List.mem_append] at ha
          rcases ha with ha | ha
          · exact (hnotin a hm_t).1 ha
          · exact (hnotin a hm_t).2 ha
        · intro t ht hts
          rw [ht1eq] at ht
          simp only [List.mem_append, List.mem_singleton] at hts
          rcases hts with (hts | hts) | hts
          · exact absurd hts (hnotin t ht).1
          · exact absurd hts (hnotin t ht).2
          · subst hts
            rw [hleaf_nil, List.append_nil, tableIsFree_append_self]
            by_contra hfree
            have hfree' : tableIsFree deps t sorted = true := by simpa using hfree
            have : t ∈ leaf := (hleaf_mem t).mpr ⟨ht, hfree'⟩
            rw [hleaf_nil] at this
            exact absurd this List.not_mem_nil
      · have hb : (tables1.length == tables.length) = false := by simpa using hprog
        simp only [hb] at h
        apply ih tables1 (sorted ++ leaf) r _ (by simpa using h)
        refine ⟨hs1, ht1_nd, ?_⟩
        intro t ht hts
        have := (ht1_mem t).mp ht
        simp only [List.mem_append] at hts
        rcases hts with hts | hts
        · exact absurd hts this.2.1
        · exact absurd hts this.2.2

/-! ### acyclic graphs: parents first -/

/-- every dependency of a table of `T0` is a self reference or goes to a table of `T0` of smaller rank -/
def Ranked (deps : String → List Dep) (T0 : List String) (rank : String → Nat) : Prop :=
  ∀ t ∈ T0, ∀ d ∈ deps t, d.to = t ∨ (d.to ∈ T0 ∧ rank d.to < rank t)

/-- the order property: every non-self dependency target precedes its source -/
def ParentsFirst (deps : String → List Dep) (s : List String) : Prop :=
  ∀ t ∈ s, ∀ d ∈ deps t, d.to ≠ t → s.idxOf d.to < s.idxOf t

theorem exists_min_rank (rank : String → Nat) : ∀ (l : List String), l ≠ [] →
    ∃ t ∈ l, ∀ u ∈ l, rank t ≤ rank u
  | [], h => absurd rfl h
  | x :: xs, _ => by
    by_cases hxs : xs = []
    · subst hxs; exact ⟨x, by simp, by simp⟩
    · obtain ⟨t, ht, hmin⟩ := exists_min_rank rank xs hxs
      by_cases hle : rank x ≤ rank t
      · refine ⟨x, by simp, ?_⟩
        intro u hu
        rcases List.mem_cons.mp hu with h | h
        · subst h; exact Nat.le_refl _
        · exact Nat.le_trans hle (hmin u h)
      · refine ⟨t, by simp [ht], ?_⟩
        intro u hu
        rcases List.mem_cons.mp hu with h | h
        · subst h; omega
        · exact hmin u h

structure TopoInv (deps : String → List Dep) (T0 tables sorted : List String) : Prop where
  cover : ∀ t ∈ T0, t ∈ sorted ∨ t ∈ tables
  disj : ∀ t ∈ tables, t ∉ sorted
  sub : ∀ t ∈ tables, t ∈ T0
  ssub : ∀ t ∈ sorted, t ∈ T0
  snd : sorted.Nodup
  tnd : tables.Nodup
  ord : ParentsFirst deps sorted

theorem sortLoop_topo (deps : String → List Dep) (bc) (T0 : List String) (rank : String → Nat)
    (hrank : Ranked deps T0 rank) :
    ∀ (fuel : Nat) (tables sorted r : List String), TopoInv deps T0 tables sorted →
      sortLoop deps bc fuel tables sorted = some r →
      r.Nodup ∧ (∀ x, x ∈ r ↔ x ∈ T0) ∧ ParentsFirst deps r := by
  intro fuel
  induction fuel with
  | zero => intro tables sorted r _ h; simp [sortLoop] at h
  | succ fuel ih =>
    intro tables sorted r hinv h
    by_cases hne : tables = []
    · subst hne
      simp [sortLoop] at h
      subst h
      refine ⟨hinv.snd, ?_, hinv.ord⟩
      intro x
      constructor
      · exact hinv.ssub x
      · intro hx
        rcases hinv.cover x hx with h | h
        · exact h
        · exact absurd h List.not_mem_nil
    · rw [sortLoop_succ deps _ fuel tables sorted hne] at h
      generalize hleaf : tables.filter (fun t => tableIsFree deps t sorted) = leaf at h
      have hleaf_mem : ∀ x, x ∈ leaf ↔ x ∈ tables ∧ tableIsFree deps x sorted = true := by
        intro x; rw [← hleaf]; exact List.mem_filter
      have hleaf_nd : leaf.Nodup := by rw [← hleaf]; exact hinv.tnd.filter _
      -- a table of minimal rank among the remaining ones is free
      obtain ⟨t0, ht0, hmin⟩ := exists_min_rank rank tables hne
      have ht0_free : tableIsFree deps t0 sorted = true := by
        unfold tableIsFree
        rw [List.all_eq_true]
        intro d hd
        rcases hrank t0 (hinv.sub t0 ht0) d hd with hself | ⟨hin, hlt⟩
        · simp [hself]
        · have hnt : d.to ∉ tables := by
            intro hc
            have := hmin d.to hc
            omega
          rcases hinv.cover d.to hin with hs | ht
          · simp [hs]
          · exact absurd ht hnt
      have ht0_leaf : t0 ∈ leaf := (hleaf_mem t0).mpr ⟨ht0, ht0_free⟩
      simp only at h
      generalize ht1 : tables.filter (fun t => !(sorted ++ leaf).contains t) = tables1 at h
      have ht1_mem : ∀ x, x ∈ tables1 ↔ x ∈ tables ∧ x ∉ sorted ∧ x ∉ leaf := by
        intro x; rw [← ht1]; simp [List.mem_filter]
      have hprog : tables1.length ≠ tables.length := by
        have : tables1.length < tables.length := by
          rw [← ht1]
          apply List.length_filter_lt_length_iff_exists.mpr
          exact ⟨t0, ht0, by simp [ht0_leaf]⟩
        omega
      have hb : (tables1.length == tables.length) = false := by simpa using hprog
      simp only [hb] at h
      apply ih tables1 (sorted ++ leaf) r _ (by simpa using h)
      refine ⟨?_, ?_, ?_, ?_, ?_, ?_, ?_⟩
      · intro t ht
        by_cases hs : t ∈ sorted
        · exact Or.inl (by simp [hs])
        · by_cases hl : t ∈ leaf
          · exact Or.inl (by simp [hl])
          · rcases hinv.cover t ht with h' | h'
            · exact absurd h' hs
            · exact Or.inr ((ht1_mem t).mpr ⟨h', hs, hl⟩)
      · intro t ht
        have := (ht1_mem t).mp ht
        simp only [List.mem_append, not_or]
        exact ⟨this.2.1, this.2.2⟩
      · intro t ht; exact hinv.sub t ((ht1_mem t).mp ht).1
      · intro t ht
        rcases List.mem_append.mp ht with h' | h'
        · exact hinv.ssub t h'
        · exact hinv.sub t ((hleaf_mem t).mp h').1
      · refine List.nodup_append.mpr ⟨hinv.snd, hleaf_nd, ?_⟩
        intro a ha b hb' hab
        subst hab
        exact hinv.disj a ((hleaf_mem a).mp hb').1 ha
      · rw [← ht1]; exact hinv.tnd.filter _
      · -- order
        intro t ht d hd hns
        rcases List.mem_append.mp ht with hts | htl
        · have h1 := hinv.ord t hts d hd hns
          have hto : d.to ∈ sorted := by
            have : sorted.idxOf d.to < sorted.length :=
              Nat.lt_trans h1 (List.idxOf_lt_length_iff.mpr hts)
            exact List.idxOf_lt_length_iff.mp this
          rw [List.idxOf_append_of_mem hto, List.idxOf_append_of_mem hts]
          exact h1
        · have hfree := ((hleaf_mem t).mp htl).2
          have htt := ((hleaf_mem t).mp htl).1
          unfold tableIsFree at hfree
          rw [List.all_eq_true] at hfree
          have hd' := hfree d hd
          have hto : d.to ∈ sorted := by
            simp only [Bool.or_eq_true, List.contains_iff_mem, beq_iff_eq] at hd'
            rcases hd' with h' | h'
            · exact h'
            · exact absurd h' hns
          have htns : t ∉ sorted := hinv.disj t htt
          rw [List.idxOf_append_of_mem hto, List.idxOf_append_of_notMem htns]
          have := List.idxOf_lt_length_iff.mpr hto
          omega

end SnowModel.Proofs.C16
