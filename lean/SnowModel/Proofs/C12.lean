import SnowModel.Core.RandRange
