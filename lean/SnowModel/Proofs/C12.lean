import SnowModel.Core.RandRange
import SnowModel.Proofs.C12a
import SnowModel.Proofs.C12b
