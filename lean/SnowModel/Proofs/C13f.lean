/-
C13 — helper lemmas, part 7: the template parser normalises each piece (`strip` + `lower`), so
spelling variants (blanks around the commas, letter case) are the same template.
-/
import SnowModel.Core.Uid

namespace SnowModel.Proofs.C13
open SnowModel.Uid

/-- what `_convert` receives for one piece of `parts.split(",")`: `part.strip().lower()` -/
def normPiece (p : List Char) : List Char := (strip p).map Char.toLower

theorem mapM_map_except {α β γ ε} (f : α → β) (g : β → Except ε γ) (l : List α) :
    (l.map f).mapM g = l.mapM (fun a => g (f a)) := by
  induction l with
  | nil => rfl
  | cons a l ih => simp only [List.map_cons, List.mapM_cons, ih]

theorem parseTemplate_eq (t : String) :
    parseTemplate t = ((splitComma t.toList).map normPiece).mapM convertPart := by
  unfold parseTemplate
  rw [mapM_map_except]
  rfl

/-! #### blanks -/

theorem dropWhile_space_append (ws x : List Char) (h : ∀ c ∈ ws, isSpace c = true) :
    (ws ++ x).dropWhile isSpace = x.dropWhile isSpace := by
  induction ws with
  | nil => rfl
  | cons c ws ih =>
    have hc := h c (by simp)
    simp only [List.cons_append, List.dropWhile_cons, hc, if_true]
    exact ih (fun d hd => h d (by simp [hd]))

theorem dropWhile_all_space (ws : List Char) (h : ∀ c ∈ ws, isSpace c = true) :
    ws.dropWhile isSpace = [] := by
  have := dropWhile_space_append ws [] h
  simpa using this

/-- removing leading blanks of `x ++ ws'` either leaves the trailing blanks in place or nothing -/
theorem dropWhile_append_space (x ws' : List Char) (h : ∀ c ∈ ws', isSpace c = true) :
    (x ++ ws').dropWhile isSpace = x.dropWhile isSpace ++ ws' ∨
      (x.dropWhile isSpace = [] ∧ (x ++ ws').dropWhile isSpace = []) := by
  induction x with
  | nil => right; exact ⟨rfl, by simpa using dropWhile_all_space ws' h⟩
  | cons c x ih =>
    by_cases hc : isSpace c = true
    · simp only [List.cons_append, List.dropWhile_cons, hc, if_true]
      exact ih
    · left
      simp only [List.cons_append, List.dropWhile_cons, hc]
      rfl

theorem strip_leading (ws x : List Char) (h : ∀ c ∈ ws, isSpace c = true) : strip (ws ++ x) = strip x := by
  unfold strip
  rw [dropWhile_space_append ws x h]

theorem strip_trailing (x ws' : List Char) (h : ∀ c ∈ ws', isSpace c = true) : strip (x ++ ws') = strip x := by
  unfold strip
  rcases dropWhile_append_space x ws' h with e | ⟨e1, e2⟩
  · rw [e, List.reverse_append,
      dropWhile_space_append ws'.reverse _ (fun c hc => h c (List.mem_reverse.mp hc))]
  · rw [e1, e2]

/-- blanks (space, tab, newline, carriage return) around a piece do not matter -/
theorem normPiece_pad (ws p ws' : List Char) (h : ∀ c ∈ ws, isSpace c = true) (h' : ∀ c ∈ ws', isSpace c = true) :
    normPiece (ws ++ p ++ ws') = normPiece p := by
  unfold normPiece
  rw [strip_trailing _ ws' h', strip_leading ws p h]

/-! #### letter case -/

theorem isSpace_toLower (c : Char) : isSpace c.toLower = isSpace c := by
  unfold Char.toLower
  split
  · rename_i h
    have h1 : c ≠ ' ' := by rintro rfl; simp at h
    have h2 : c ≠ '\t' := by rintro rfl; simp at h
    have h3 : c ≠ '\n' := by rintro rfl; simp at h
    have h4 : c ≠ '\r' := by rintro rfl; simp at h
    have hv : ∀ d : Char, d.val = c.val + ('a'.val - 'A'.val) → isSpace d = false := by
      intro d hd
      have g1 : d ≠ ' ' := by
        rintro rfl
        have := h.1; have := h.2
        simp only [Char.reduceVal, UInt32.le_iff_toNat_le, ge_iff_le] at *
        have e := congrArg UInt32.toNat hd
        simp at e
        simp only [UInt32.reduceToNat, Char.toNat] at *
        omega
      have g2 : d ≠ '\t' := by
        rintro rfl
        have := h.1; have := h.2
        simp only [Char.reduceVal, UInt32.le_iff_toNat_le, ge_iff_le] at *
        have e := congrArg UInt32.toNat hd
        simp at e
        simp only [UInt32.reduceToNat, Char.toNat] at *
        omega
      have g3 : d ≠ '\n' := by
        rintro rfl
        have := h.1; have := h.2
        simp only [Char.reduceVal, UInt32.le_iff_toNat_le, ge_iff_le] at *
        have e := congrArg UInt32.toNat hd
        simp at e
        simp only [UInt32.reduceToNat, Char.toNat] at *
        omega
      have g4 : d ≠ '\r' := by
        rintro rfl
        have := h.1; have := h.2
        simp only [Char.reduceVal, UInt32.le_iff_toNat_le, ge_iff_le] at *
        have e := congrArg UInt32.toNat hd
        simp at e
        simp only [UInt32.reduceToNat, Char.toNat] at *
        omega
      simp [isSpace, g1, g2, g3, g4]
    rw [hv _ rfl]
    simp [isSpace, h1, h2, h3, h4]
  · rfl

theorem dropWhile_map_toLower (l : List Char) :
    (l.map Char.toLower).dropWhile isSpace = (l.dropWhile isSpace).map Char.toLower := by
  induction l with
  | nil => rfl
  | cons c l ih =>
    simp only [List.map_cons, List.dropWhile_cons, isSpace_toLower]
    split
    · exact ih
    · rfl

theorem strip_map_toLower (l : List Char) : strip (l.map Char.toLower) = (strip l).map Char.toLower := by
  unfold strip
  rw [dropWhile_map_toLower, ← List.map_reverse, dropWhile_map_toLower, ← List.map_reverse]

theorem toLower_idem_list (l : List Char) (q : List Char) (h : l.map Char.toLower = q.map Char.toLower) :
    (strip l).map Char.toLower = (strip q).map Char.toLower := by
  rw [← strip_map_toLower, ← strip_map_toLower, h]

/-- two pieces that differ only in letter case (equal after lower-casing) normalise equally -/
theorem normPiece_case (p q : List Char) (h : p.map Char.toLower = q.map Char.toLower) :
    normPiece p = normPiece q :=
  toLower_idem_list p q h

end SnowModel.Proofs.C13
