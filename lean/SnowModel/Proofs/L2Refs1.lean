/-
Helper lemmas for C02L2, part 1.  The invariant `J`: on top of `Good` (C01L2), every id that can
become a reference cell lies in `1 .. lastUsed` of its table — ids of consumed slots, ids carried by
detached slot values (`.deadSlot t (some k)`) stored in rows / options / context variables, and the
reference cells already written.  (Together with `Good` — row ids plus reserved ids are exactly
`1 .. lastUsed` — and "no slot is allocated" at the end of a run this gives C02.)
This file: the definitions, `slotId`, name lookup, and all non-recursive evaluators.
-/
import SnowModel.Proofs.L2Ids3

namespace SnowModel.L2

/-- `i` is an issued id of table `t` -/
def InR (s : St) (t : String) (i : Nat) : Prop := 1 ≤ i ∧ i ≤ lastOfL s.lastUsed t

/-- a detached slot value carries an issued id -/
def ValOK (s : St) (v : Val) : Prop := ∀ t k, v = .deadSlot t (some k) → InR s t k

/-- a reference cell carries an issued id -/
def RefOK (s : St) (o : OVal) : Prop := ∀ t i, o = .ref t i → InR s t i

/-- id counters only grow -/
def Mono (s s' : St) : Prop := ∀ t, lastOfL s.lastUsed t ≤ lastOfL s'.lastUsed t

structure J (s : St) : Prop where
  good : Good s
  slots : ∀ n i t, aget s.slots n = some (.consumed i) → aget s.names n = some t → InR s t i
  rows : ∀ r ∈ s.rows, ∀ p ∈ r.values, ValOK s p.2
  out : ∀ o ∈ s.out, ∀ p ∈ o.fields, RefOK s p.2
  opts : ∀ p ∈ s.options, ValOK s p.2

def CtxOK (s : St) (c : Ctx) : Prop := ∀ p ∈ c.vars, ValOK s p.2

theorem Mono.refl (s : St) : Mono s s := fun _ => Nat.le_refl _

theorem Mono.trans {a b c : St} (h1 : Mono a b) (h2 : Mono b c) : Mono a c :=
  fun t => Nat.le_trans (h1 t) (h2 t)

theorem Mono.of_eq {s s' : St} (h : s'.lastUsed = s.lastUsed) : Mono s s' := by
  intro t; rw [h]; exact Nat.le_refl _

theorem InR.mono {s s' : St} {t : String} {i : Nat} (h : InR s t i) (hm : Mono s s') : InR s' t i :=
  ⟨h.1, Nat.le_trans h.2 (hm t)⟩

theorem ValOK.mono {s s' : St} {v : Val} (h : ValOK s v) (hm : Mono s s') : ValOK s' v :=
  fun t k e => (h t k e).mono hm

theorem RefOK.mono {s s' : St} {o : OVal} (h : RefOK s o) (hm : Mono s s') : RefOK s' o :=
  fun t k e => (h t k e).mono hm

theorem CtxOK.mono {s s' : St} {c : Ctx} (h : CtxOK s c) (hm : Mono s s') : CtxOK s' c :=
  fun p hp => (h p hp).mono hm

/-- closes `ValOK s v` / `RefOK s o` when `v` is visibly not a detached slot / reference -/
macro "vtriv" : tactic => `(tactic| (intro _ _ hh; cases hh))

theorem ValOK.int (s : St) (i : Int) : ValOK s (.int i) := by vtriv
theorem ValOK.undef (s : St) : ValOK s .undef := by vtriv
theorem ValOK.null (s : St) : ValOK s .null := by vtriv
theorem ValOK.str (s : St) (x : String) : ValOK s (.str x) := by vtriv
theorem ValOK.row (s : St) (h : Nat) : ValOK s (.row h) := by vtriv
theorem ValOK.slot (s : St) (n : String) : ValOK s (.slot n) := by vtriv
theorem ValOK.bool (s : St) (b : Bool) : ValOK s (.bool b) := by vtriv

/-! ### membership facts -/

theorem aget_mem {α : Type} {l : AList α} {k : String} {v : α} (h : aget l k = some v) : (k, v) ∈ l := by
  induction l with
  | nil => simp [aget] at h
  | cons p l ih =>
    obtain ⟨a, b⟩ := p
    rw [aget_cons] at h
    by_cases hk : k = a
    · subst hk
      rw [if_pos rfl] at h
      simp only [Option.some.injEq] at h
      subst h
      exact List.mem_cons_self
    · rw [if_neg hk] at h
      exact List.mem_cons_of_mem _ (ih h)

theorem mem_aset {α : Type} {l : AList α} {k : String} {v : α} {p : String × α} (h : p ∈ aset l k v) :
    p ∈ l ∨ p = (k, v) := by
  by_cases hm : k ∈ l.map Prod.fst
  · rw [aset_of_mem hm] at h
    obtain ⟨q, hq, rfl⟩ := List.mem_map.1 h
    unfold repl
    split
    · right; rfl
    · left; exact hq
  · rw [aset_of_not_mem hm] at h
    rcases List.mem_append.1 h with h | h
    · left; exact h
    · right; simpa using h

theorem inR_of_mem {s : St} (hg : Good s) {t : String} {i : Nat}
    (h : i ∈ rIdsOf s.rows t ++ aIdsOf s.names s.slots t) : InR s t i := by
  have := (hg.2.2.2 t).mem_iff.1 h
  rw [List.mem_range'_1] at this
  unfold InR
  omega

theorem inR_of_alloc {s : St} (hg : Good s) {n t : String} {i : Nat}
    (hs : aget s.slots n = some (.alloc i)) (hn : aget s.names n = some t) : InR s t i := by
  apply inR_of_mem hg
  apply List.mem_append_right
  unfold aIdsOf
  exact List.mem_filterMap.2 ⟨(n, .alloc i), aget_mem hs, by simp [hn]⟩

theorem inR_of_row {s : St} (hg : Good s) {r : RowData} (hr : r ∈ s.rows) {k : Nat}
    (hk : idNat r = some k) : InR s r.table k := by
  apply inR_of_mem hg
  apply List.mem_append_left
  unfold rIdsOf
  exact List.mem_filterMap.2 ⟨r, List.mem_filter.2 ⟨hr, by simp⟩, hk⟩

theorem rowData_cases (s : St) (h : Nat) : rowData s h ∈ s.rows ∨ (rowData s h).values = [] := by
  unfold rowData
  cases hr : s.rows[h]? with
  | none => right; simp [List.getD, hr]; rfl
  | some r => left; simp only [List.getD, hr, Option.getD_some]; exact List.mem_of_getElem? hr

theorem rowData_vals {s : St} (hj : J s) (h : Nat) : ∀ p ∈ (rowData s h).values, ValOK s p.2 := by
  rcases rowData_cases s h with hm | he
  · exact hj.rows _ hm
  · rw [he]; intro p hp; cases hp

theorem lookup_getD_ok {s : St} {l : List (String × Val)} (hl : ∀ p ∈ l, ValOK s p.2) (f : String) :
    ValOK s ((l.lookup f).getD .undef) := by
  cases h : l.lookup f with
  | none => exact ValOK.undef s
  | some v => exact hl _ (aget_mem (l := l) h)

/-! ### `Grow`: what an evaluator may do to the state -/

structure Grow (s s' : St) : Prop where
  mono : Mono s s'
  j : J s → J s'

theorem Grow.refl (s : St) : Grow s s := ⟨Mono.refl s, id⟩

theorem Grow.trans {a b c : St} (h1 : Grow a b) (h2 : Grow b c) : Grow a c :=
  ⟨h1.mono.trans h2.mono, fun h => h2.j (h1.j h)⟩

theorem mono_fresh (lu : AList Nat) (t T : String) :
    lastOfL lu T ≤ lastOfL (aset lu t (lastOfL lu t + 1)) T := by
  by_cases h : T = t
  · subst h; rw [lastOfL_aset_self]; exact Nat.le_succ _
  · rw [lastOfL_aset_ne lu h]; exact Nat.le_refl _

theorem slotId_grow {s s' : St} {n : String} {i : Nat} (h : slotId s n = .ok (i, s')) : Grow s s' := by
  have hp := slotId_pres h
  unfold slotId at h
  split at h
  · cases h
  · next t hn hs =>
    simp only [freshId, Except.ok.injEq, Prod.mk.injEq] at h
    obtain ⟨-, rfl⟩ := h
    have hm : Mono s { s with lastUsed := aset s.lastUsed t ((aget s.lastUsed t).getD 0 + 1),
                              slots := aset s.slots n (.alloc ((aget s.lastUsed t).getD 0 + 1)) } :=
      fun T => mono_fresh s.lastUsed t T
    refine ⟨hm, fun hj => ⟨hp.1 hj.good, ?_, ?_, ?_, ?_⟩⟩
    · intro m j t' hsl hnm
      by_cases hmn : m = n
      · subst hmn
        rw [show ({ s with lastUsed := aset s.lastUsed t ((aget s.lastUsed t).getD 0 + 1),
                           slots := aset s.slots m (.alloc ((aget s.lastUsed t).getD 0 + 1)) } : St).slots
              = aset s.slots m (.alloc ((aget s.lastUsed t).getD 0 + 1)) from rfl, aget_aset_self] at hsl
        cases hsl
      · rw [show ({ s with lastUsed := aset s.lastUsed t ((aget s.lastUsed t).getD 0 + 1),
                           slots := aset s.slots n (.alloc ((aget s.lastUsed t).getD 0 + 1)) } : St).slots
              = aset s.slots n (.alloc ((aget s.lastUsed t).getD 0 + 1)) from rfl,
            aget_aset_ne s.slots hmn] at hsl
        exact (hj.slots m j t' hsl hnm).mono hm
    · intro r hr p hp'; exact (hj.rows r hr p hp').mono hm
    · intro o ho p hp'; exact (hj.out o ho p hp').mono hm
    · intro p hp'; exact (hj.opts p hp').mono hm
  · simp only [Except.ok.injEq, Prod.mk.injEq] at h
    obtain ⟨-, rfl⟩ := h
    exact Grow.refl _
  · simp only [Except.ok.injEq, Prod.mk.injEq] at h
    obtain ⟨-, rfl⟩ := h
    exact Grow.refl _

/-- the id a slot hands out is an issued id of the slot's table -/
theorem slotId_inR {s s' : St} {n : String} {i : Nat} (hj : J s) (h : slotId s n = .ok (i, s')) :
    ∃ t, aget s'.names n = some t ∧ InR s' t i := by
  unfold slotId at h
  split at h
  · cases h
  · next t hn hs =>
    simp only [freshId, Except.ok.injEq, Prod.mk.injEq] at h
    obtain ⟨rfl, rfl⟩ := h
    refine ⟨t, hn, Nat.succ_le_succ (Nat.zero_le _), ?_⟩
    show _ ≤ lastOfL (aset s.lastUsed t ((aget s.lastUsed t).getD 0 + 1)) t
    rw [lastOfL_aset_self]
    exact Nat.le_refl _
  · next t j hn hs =>
    simp only [Except.ok.injEq, Prod.mk.injEq] at h
    obtain ⟨rfl, rfl⟩ := h
    cases hsl : aget s.slots n with
    | none => rw [hsl] at hs; cases hs
    | some v =>
      rw [hsl] at hs
      simp only [Option.getD_some] at hs
      subst hs
      exact ⟨t, hn, inR_of_alloc hj.good hsl hn⟩
  · next t j hn hs =>
    simp only [Except.ok.injEq, Prod.mk.injEq] at h
    obtain ⟨rfl, rfl⟩ := h
    cases hsl : aget s.slots n with
    | none => rw [hsl] at hs; cases hs
    | some v =>
      rw [hsl] at hs
      simp only [Option.getD_some] at hs
      subst hs
      exact ⟨t, hn, hj.slots n _ t hsl hn⟩

/-! ### name lookup -/

theorem objectName_ok {s : St} {n : String} {v : Val} (h : objectName s n = some v) : ValOK s v := by
  unfold objectName at h
  repeat' split at h
  all_goals (cases h <;> vtriv)

theorem rowId_ok {s : St} (hj : J s) (h : Nat) : ValOK s (rowId s h) :=
  lookup_getD_ok (rowData_vals hj h) "id"

theorem lookupName_ok {s : St} {c : Ctx} {n : String} {v : Val} (hj : J s) (hc : CtxOK s c)
    (h : lookupName s c n = .ok (some v)) : ValOK s v := by
  unfold lookupName at h
  split at h
  · cases h
  · split at h
    · next v0 hv =>
      simp only [Except.ok.injEq, Option.some.injEq] at h
      subst h
      exact hc _ (aget_mem hv)
    · split at h
      · next v0 hv =>
        simp only [Except.ok.injEq, Option.some.injEq] at h
        subst h
        cases ho : c.obj with
        | none => rw [ho] at hv; cases hv
        | some hh =>
          rw [ho] at hv
          simp only [Option.bind_some] at hv
          exact rowData_vals hj hh _ (aget_mem hv)
      · split at h
        · next v0 hv =>
          simp only [Except.ok.injEq, Option.some.injEq] at h
          subst h
          exact objectName_ok hv
        · split at h
          · next v0 hv =>
            simp only [Except.ok.injEq, Option.some.injEq] at h
            subst h
            exact hj.opts _ (aget_mem hv)
          · split at h
            · next hh ho =>
              split at h
              · simp only [Except.ok.injEq, Option.some.injEq] at h
                subst h; exact rowId_ok hj hh
              · split at h
                · simp only [Except.ok.injEq, Option.some.injEq] at h
                  subst h; vtriv
                · split at h
                  · simp only [Except.ok.injEq, Option.some.injEq] at h
                    subst h; vtriv
                  · cases h
            · split at h
              · simp only [Except.ok.injEq, Option.some.injEq] at h
                subst h; vtriv
              · cases h

/-! ### values of scalar computations -/

theorem arithVals_val {op : Nat} {va vb v : Val} {s s' : St} (h : arithVals op va vb s = .ok (v, s'))
    (s'' : St) : ValOK s'' v := by
  unfold arithVals at h
  split at h <;> (try split at h) <;> (cases h <;> vtriv)

theorem lookForNumber_val {a : String} {v : Val} (h : lookForNumber a = .ok v) (s : St) : ValOK s v := by
  unfold lookForNumber at h
  simp only at h
  repeat' split at h
  all_goals (cases h <;> vtriv)

theorem nativeLiteral_val {a : String} {v : Val} (h : nativeLiteral a = .ok v) (s : St) : ValOK s v := by
  unfold nativeLiteral at h
  simp only at h
  repeat' split at h
  all_goals (cases h <;> vtriv)

/-! ### the evaluators -/

theorem evalExpr_ok (c : Ctx) (e : Expr) : ∀ {s s' : St} {v : Val}, J s → CtxOK s c →
    evalExpr c e s = .ok (v, s') → Grow s s' ∧ ValOK s' v := by
  induction e with
  | int n =>
    intro s s' v hj hc h
    simp only [evalExpr, Except.ok.injEq, Prod.mk.injEq] at h
    obtain ⟨rfl, rfl⟩ := h; exact ⟨Grow.refl _, by vtriv⟩
  | name n =>
    intro s s' v hj hc h
    simp only [evalExpr] at h
    split at h
    · cases h
    · next v0 hl =>
      simp only [Except.ok.injEq, Prod.mk.injEq] at h
      obtain ⟨rfl, rfl⟩ := h; exact ⟨Grow.refl _, lookupName_ok hj hc hl⟩
    · simp only [Except.ok.injEq, Prod.mk.injEq] at h
      obtain ⟨rfl, rfl⟩ := h; exact ⟨Grow.refl _, by vtriv⟩
  | attr e f ih =>
    intro s s' v hj hc h
    simp only [evalExpr] at h
    split at h
    · cases h
    · cases h
    · next h0 s1 he =>
      obtain ⟨g1, -⟩ := ih hj hc he
      split at h
      · cases h
      · simp only [Except.ok.injEq, Prod.mk.injEq] at h
        obtain ⟨rfl, rfl⟩ := h
        exact ⟨g1, lookup_getD_ok (rowData_vals (g1.j hj) h0) f⟩
    · next n s1 he =>
      obtain ⟨g1, -⟩ := ih hj hc he
      split at h
      · split at h
        · cases h
        · next i s2 hs =>
          simp only [Except.ok.injEq, Prod.mk.injEq] at h
          obtain ⟨rfl, rfl⟩ := h; exact ⟨g1.trans (slotId_grow hs), by vtriv⟩
      · split at h
        · cases h
        · simp only [Except.ok.injEq, Prod.mk.injEq] at h
          obtain ⟨rfl, rfl⟩ := h; exact ⟨g1, by vtriv⟩
    · next tb i s1 he =>
      obtain ⟨g1, -⟩ := ih hj hc he
      split at h
      · split at h
        · simp only [Except.ok.injEq, Prod.mk.injEq] at h
          obtain ⟨rfl, rfl⟩ := h; exact ⟨g1, by vtriv⟩
        · cases h
      · split at h
        · cases h
        · simp only [Except.ok.injEq, Prod.mk.injEq] at h
          obtain ⟨rfl, rfl⟩ := h; exact ⟨g1, by vtriv⟩
    · cases h
    · next v1 s1 _ _ _ _ _ he =>
      simp only [Except.ok.injEq, Prod.mk.injEq] at h
      obtain ⟨rfl, rfl⟩ := h; exact ⟨(ih hj hc he).1, by vtriv⟩
  | add a b iha ihb =>
    intro s s' v hj hc h
    simp only [evalExpr] at h
    split at h
    · cases h
    · next va s1 ha =>
      split at h
      · cases h
      · next vb s2 hb =>
        obtain ⟨g1, -⟩ := iha hj hc ha
        obtain ⟨g2, -⟩ := ihb (g1.j hj) (hc.mono g1.mono) hb
        have := arithVals_eq h; subst this
        exact ⟨g1.trans g2, arithVals_val h _⟩
  | sub a b iha ihb =>
    intro s s' v hj hc h
    simp only [evalExpr] at h
    split at h
    · cases h
    · next va s1 ha =>
      split at h
      · cases h
      · next vb s2 hb =>
        obtain ⟨g1, -⟩ := iha hj hc ha
        obtain ⟨g2, -⟩ := ihb (g1.j hj) (hc.mono g1.mono) hb
        have := arithVals_eq h; subst this
        exact ⟨g1.trans g2, arithVals_val h _⟩
  | mul a b iha ihb =>
    intro s s' v hj hc h
    simp only [evalExpr] at h
    split at h
    · cases h
    · next va s1 ha =>
      split at h
      · cases h
      · next vb s2 hb =>
        obtain ⟨g1, -⟩ := iha hj hc ha
        obtain ⟨g2, -⟩ := ihb (g1.j hj) (hc.mono g1.mono) hb
        have := arithVals_eq h; subst this
        exact ⟨g1.trans g2, arithVals_val h _⟩

theorem renderParts_ok (c : Ctx) (ps : List Part) : ∀ {s s' : St} {vs : List Val}, J s → CtxOK s c →
    renderParts c ps s = .ok (vs, s') → Grow s s' := by
  induction ps with
  | nil =>
    intro s s' vs hj hc h
    simp only [renderParts, Except.ok.injEq, Prod.mk.injEq] at h
    obtain ⟨-, rfl⟩ := h; exact Grow.refl _
  | cons p ps ih =>
    intro s s' vs hj hc h
    cases p with
    | text t =>
      simp only [renderParts] at h
      split at h
      · cases h
      · next vs1 s1 hp =>
        simp only [Except.ok.injEq, Prod.mk.injEq] at h
        obtain ⟨-, rfl⟩ := h; exact ih hj hc hp
    | expr e =>
      simp only [renderParts] at h
      split at h
      · cases h
      · next v s1 he =>
        split at h
        · cases h
        · next vs1 s2 hp =>
          simp only [Except.ok.injEq, Prod.mk.injEq] at h
          obtain ⟨-, rfl⟩ := h
          obtain ⟨g1, -⟩ := evalExpr_ok c e hj hc he
          exact g1.trans (ih (g1.j hj) (hc.mono g1.mono) hp)

theorem renderTmpl_ok {c : Ctx} {parts : List Part} {s s' : St} {v : Val} (hj : J s) (hc : CtxOK s c)
    (h : renderTmpl c parts s = .ok (v, s')) : Grow s s' ∧ ValOK s' v := by
  unfold renderTmpl at h
  simp only at h
  split at h
  · split at h
    · simp only [Except.ok.injEq, Prod.mk.injEq] at h
      obtain ⟨rfl, rfl⟩ := h; exact ⟨Grow.refl _, by vtriv⟩
    · split at h
      · next v0 hl =>
        simp only [Except.ok.injEq, Prod.mk.injEq] at h
        obtain ⟨rfl, rfl⟩ := h; exact ⟨Grow.refl _, lookForNumber_val hl _⟩
      · cases h
  · split at h
    · split at h
      · split at h
        · cases h
        · cases h
        · next raw s1 he =>
          split at h
          · next v0 hl =>
            simp only [Except.ok.injEq, Prod.mk.injEq] at h
            obtain ⟨rfl, rfl⟩ := h; exact ⟨(evalExpr_ok _ _ hj hc he).1, nativeLiteral_val hl _⟩
          · cases h
        · next v1 s1 _ _ he =>
          simp only [Except.ok.injEq, Prod.mk.injEq] at h
          obtain ⟨rfl, rfl⟩ := h; exact evalExpr_ok _ _ hj hc he
      · split at h
        · cases h
        · next vs s1 hp =>
          split at h
          · cases h
          · split at h
            · cases h
            · split at h
              · next v0 hl =>
                simp only [Except.ok.injEq, Prod.mk.injEq] at h
                obtain ⟨rfl, rfl⟩ := h; exact ⟨renderParts_ok _ _ hj hc hp, nativeLiteral_val hl _⟩
              · cases h
    · split at h
      · cases h
      · next vs s1 hp =>
        split at h
        · cases h
        · split at h
          · next v0 hl =>
            simp only [Except.ok.injEq, Prod.mk.injEq] at h
            obtain ⟨rfl, rfl⟩ := h; exact ⟨renderParts_ok _ _ hj hc hp, lookForNumber_val hl _⟩
          · cases h

theorem renderRef_walk_ok (ps : List String) : ∀ {t v : Val} {s s' : St}, J s → ValOK s t →
    renderRef.walk t ps s = .ok (v, s') → Grow s s' ∧ ValOK s' v := by
  induction ps with
  | nil =>
    intro t v s s' hj ht h
    simp only [renderRef.walk, Except.ok.injEq, Prod.mk.injEq] at h
    obtain ⟨rfl, rfl⟩ := h; exact ⟨Grow.refl _, ht⟩
  | cons p ps ih =>
    intro t v s s' hj ht h
    simp only [renderRef.walk] at h
    split at h
    · next hh =>
      split at h
      · next v0 hv => exact ih hj (rowData_vals hj hh _ (aget_mem hv)) h
      · cases h
    · split at h
      · split at h
        · cases h
        · next i s1 hs =>
          have g1 := slotId_grow hs
          obtain ⟨g2, hv⟩ := ih (g1.j hj) (ValOK.int s1 i) h
          exact ⟨g1.trans g2, hv⟩
      · split at h <;> cases h
    · split at h
      · split at h
        · next k => exact ih hj (ValOK.int s k) h
        · cases h
      · split at h <;> cases h
    · cases h
    · cases h
    · cases h

theorem renderRef_ok {c : Ctx} {path : List String} {s s' : St} {v : Val} (hj : J s) (hc : CtxOK s c)
    (h : renderRef c path s = .ok (v, s')) : Grow s s' ∧ ValOK s' v := by
  unfold renderRef at h
  split at h
  · cases h
  · split at h
    · cases h
    · next v0 hl =>
      have hv0 : ValOK s (v0.getD .null) := by
        cases v0 with
        | none => exact ValOK.null s
        | some w => exact lookupName_ok hj hc hl
      split at h
      · cases h
      · next t s1 hw =>
        obtain ⟨g1, hv1⟩ := renderRef_walk_ok _ hj hv0 hw
        split at h
        · split at h
          · cases h
          · next i s2 hs =>
            simp only [Except.ok.injEq, Prod.mk.injEq] at h
            obtain ⟨rfl, rfl⟩ := h; exact ⟨g1.trans (slotId_grow hs), by vtriv⟩
        · simp only [Except.ok.injEq, Prod.mk.injEq] at h
          obtain ⟨rfl, rfl⟩ := h; exact ⟨g1, by vtriv⟩
        · split at h
          · simp only [Except.ok.injEq, Prod.mk.injEq] at h
            obtain ⟨rfl, rfl⟩ := h; exact ⟨g1, hv1⟩
          · cases h
        · cases h
        · cases h
        · split at h <;> cases h
        · split at h <;> cases h
        · split at h <;> cases h

/-! ### output encoding -/

theorem canon_ok {s s' : St} {v : Val} {o : OVal} (hj : J s) (hv : ValOK s v)
    (h : canon s v = .ok (o, s')) : Grow s s' ∧ RefOK s' o := by
  unfold canon at h
  split at h
  · simp only [Except.ok.injEq, Prod.mk.injEq] at h; obtain ⟨rfl, rfl⟩ := h; exact ⟨Grow.refl _, by vtriv⟩
  · simp only [Except.ok.injEq, Prod.mk.injEq] at h; obtain ⟨rfl, rfl⟩ := h; exact ⟨Grow.refl _, by vtriv⟩
  · simp only [Except.ok.injEq, Prod.mk.injEq] at h; obtain ⟨rfl, rfl⟩ := h; exact ⟨Grow.refl _, by vtriv⟩
  · simp only [Except.ok.injEq, Prod.mk.injEq] at h; obtain ⟨rfl, rfl⟩ := h; exact ⟨Grow.refl _, by vtriv⟩
  · cases h
  · next hh =>
    split at h
    · next i hi =>
      simp only [Except.ok.injEq, Prod.mk.injEq] at h; obtain ⟨rfl, rfl⟩ := h
      refine ⟨Grow.refl _, ?_⟩
      intro t k e
      simp only [OVal.ref.injEq] at e
      obtain ⟨rfl, rfl⟩ := e
      have hl : (rowData s hh).values.lookup "id" = some (.int i) := by
        unfold rowId at hi
        cases hlk : (rowData s hh).values.lookup "id" with
        | none => rw [hlk] at hi; cases hi
        | some w => rw [hlk] at hi; simp only [Option.getD_some] at hi; rw [hi]
      rcases rowData_cases s hh with hm | he
      · have hsome := hj.good.2.2.1 _ hm
        have hid : idNat (rowData s hh) = some i.toNat := by
          unfold idNat at hsome ⊢
          rw [hl] at hsome ⊢
          simp only at hsome ⊢
          split
          · rfl
          · next hneg => rw [if_neg hneg] at hsome; cases hsome
        exact inR_of_row hj.good hm hid
      · rw [he] at hl; cases hl
    · cases h
  · next n =>
    split at h
    · cases h
    · next i s1 hs =>
      simp only [Except.ok.injEq, Prod.mk.injEq] at h; obtain ⟨rfl, rfl⟩ := h
      refine ⟨slotId_grow hs, ?_⟩
      intro t k e
      simp only [OVal.ref.injEq] at e
      obtain ⟨rfl, rfl⟩ := e
      obtain ⟨t', hn, hr⟩ := slotId_inR hj hs
      rw [hn]; exact hr
  · next t i =>
    split at h
    · next k =>
      simp only [Except.ok.injEq, Prod.mk.injEq] at h; obtain ⟨rfl, rfl⟩ := h
      refine ⟨Grow.refl _, ?_⟩
      intro t' k' e
      simp only [OVal.ref.injEq] at e
      obtain ⟨rfl, rfl⟩ := e
      exact hv _ _ rfl
    · cases h

theorem canonFields_ok (vs : List (String × Val)) : ∀ {s s' : St} {os : List (String × OVal)},
    J s → (∀ p ∈ vs, ValOK s p.2) → canonFields vs s = .ok (os, s') →
    Grow s s' ∧ ∀ p ∈ os, RefOK s' p.2 := by
  induction vs with
  | nil =>
    intro s s' os hj hv h
    simp only [canonFields, Except.ok.injEq, Prod.mk.injEq] at h
    obtain ⟨rfl, rfl⟩ := h; exact ⟨Grow.refl _, fun p hp => by cases hp⟩
  | cons q vs ih =>
    intro s s' os hj hv h
    obtain ⟨k, v⟩ := q
    simp only [canonFields] at h
    split at h
    · exact ih hj (fun p hp => hv p (List.mem_cons_of_mem _ hp)) h
    · split at h
      · cases h
      · next o s1 hc =>
        split at h
        · cases h
        · next os1 s2 hr =>
          simp only [Except.ok.injEq, Prod.mk.injEq] at h
          obtain ⟨rfl, rfl⟩ := h
          obtain ⟨g1, ho⟩ := canon_ok hj (hv (k, v) List.mem_cons_self) hc
          obtain ⟨g2, hos⟩ := ih (g1.j hj)
            (fun p hp => (hv p (List.mem_cons_of_mem _ hp)).mono g1.mono) hr
          refine ⟨g1.trans g2, ?_⟩
          intro p hp
          rcases List.mem_cons.1 hp with rfl | hp
          · exact ho.mono g2.mono
          · exact hos p hp

end SnowModel.L2
