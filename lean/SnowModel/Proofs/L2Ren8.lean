/-
"Hidden is a projection", part 8: whole runs — slot reset between iterations, continuation files,
chains, the initial state.
-/
import SnowModel.Proofs.L2Ren7

namespace SnowModel.L2
variable {α β γ δ : Type} {ρ σ : String → String}

/-! ### freezing and resetting -/

theorem freezeVal_ren (h : Ren ρ σ) (o : List OutRow) (s : St) (v : Val) :
    freezeVal (renSt ρ o s) (renVal ρ v) = renVal ρ (freezeVal s v) := by
  cases v with
  | slot n =>
    simp only [renVal, freezeVal, renSt_names, renSt_slots]
    rw [aget_renA_id h, aget_renA h]
    congr 1
    cases aget s.names n with
    | none => simp only [Option.map_none, Option.getD_none, h.fix_empty]
    | some t => rfl
  | _ => rfl

theorem freezeRows_ren (h : Ren ρ σ) (o : List OutRow) (s : St) :
    freezeRows (renSt ρ o s) = (freezeRows s).map (renRow ρ) := by
  simp only [freezeRows, renSt_rows, List.map_map]
  apply List.map_congr_left
  intro r _
  simp only [Function.comp, renRow, renA, List.map_map]
  congr 1
  apply List.map_congr_left
  intro p _
  simp only [Function.comp, freezeVal_ren h]

theorem unusedSlots_ren (names : AList String) :
    (renA ρ ρ names).map (fun p => (p.1, SlotSt.unused)) =
      renA ρ id (names.map (fun p => (p.1, SlotSt.unused))) := by
  simp [renA]

theorem resetSlots_ren (h : Ren ρ σ) (o : List OutRow) (s : St) :
    resetSlots (renSt ρ o s) = renSt ρ o (resetSlots s) := by
  simp only [resetSlots, freezeRows_ren h, renSt_names, unusedSlots_ren]
  rfl

theorem notFilled_ren (o : List OutRow) (s : St) :
    notFilled (renSt ρ o s) = (notFilled s).map ρ := by
  simp only [notFilled, renSt_slots, renA, List.filter_map, List.map_map]
  rfl

theorem freezeVal_notSlot (s : St) (v : Val) (n : String) : freezeVal s v ≠ .slot n := by
  cases v <;> simp [freezeVal]

theorem rowsOK_of_noSlot {all : Bool} {s s' : St}
    (hk : ∀ rd' ∈ s'.rows, ∃ rd ∈ s.rows, ∀ p' ∈ rd'.values,
      (∃ p ∈ rd.values, p.1 = p'.1) ∧ ∀ n, p'.2 ≠ .slot n)
    (hr : RowsOK ρ all s) : RowsOK ρ all s' := by
  intro rd' hrd' p' hp'
  obtain ⟨rd, hrd, hall⟩ := hk rd' hrd'
  obtain ⟨⟨p, hp, e⟩, hns⟩ := hall p' hp'
  refine ⟨?_, fun _ n e' => absurd e' (hns n)⟩
  rw [← e]; exact (hr rd hrd p hp).1

theorem resetSlots_rowsOK {all : Bool} {s : St} (hr : RowsOK ρ all s) : RowsOK ρ all (resetSlots s) := by
  apply rowsOK_of_noSlot _ hr
  intro rd' hrd'
  simp only [resetSlots, freezeRows, List.mem_map] at hrd'
  obtain ⟨rd, hrd, rfl⟩ := hrd'
  refine ⟨rd, hrd, ?_⟩
  intro p' hp'
  simp only [List.mem_map] at hp'
  obtain ⟨p, hp, rfl⟩ := hp'
  exact ⟨⟨p, hp, rfl⟩, freezeVal_notSlot s p.2⟩

/-! ### iterations -/

theorem iterations_bind (fuel : Nat) (r : Recipe) (k : Nat) (c : Ctx) (cont : Bool) (s : St) :
    iterations fuel r (k + 1) c cont s =
      bindR (execStmts fuel c r.statements cont s) (fun c1 s1 =>
        match notFilled s1 with
        | _ :: _ => .error (.recipe "reference not fulfilled")
        | [] =>
          iterations fuel r k { c1 with vars := c1.vars.map (fun p => (p.1, freezeVal s1 p.2)) } true
            (resetSlots s1)) := by
  simp only [iterations, bindR]
  cases execStmts fuel c r.statements cont s with
  | error e => rfl
  | ok q => rfl

theorem freezeCtx_ren (h : Ren ρ σ) (o : List OutRow) (s1 : St) (c1 : Ctx) :
    ({ renCtx ρ c1 with vars := (renCtx ρ c1).vars.map (fun p => (p.1, freezeVal (renSt ρ o s1) p.2)) } : Ctx) =
      renCtx ρ { c1 with vars := c1.vars.map (fun p => (p.1, freezeVal s1 p.2)) } := by
  simp only [renCtx, renA, List.map_map]
  congr 1
  apply List.map_congr_left
  intro p _
  simp only [Function.comp, freezeVal_ren h]

/-- the invariant survives the iterations of a run -/
theorem iterations_inv (h : Ren ρ σ) (v3 all : Bool) (fuel : Nat) (r : Recipe)
    (hok : OkStmts ρ v3 all r.statements) (k : Nat) :
    ∀ (c : Ctx) (cont : Bool) (s : St) (c' : Ctx) (s' : St), s.v3 = v3 → RowsOK ρ all s →
      iterations fuel r k c cont s = .ok (c', s') → s'.v3 = v3 ∧ RowsOK ρ all s' := by
  induction k with
  | zero =>
    intro c cont s c' s' hv hr hi
    simp only [iterations, Except.ok.injEq, Prod.mk.injEq] at hi
    obtain ⟨-, rfl⟩ := hi; exact ⟨hv, hr⟩
  | succ k ih =>
    intro c cont s c' s' hv hr hi
    rw [iterations_bind] at hi
    simp only [bindR] at hi
    split at hi
    · cases hi
    · next c1 s1 hs =>
      have h1 := (invAll h v3 all fuel).2.2.2.2.2 _ _ _ _ _ _ hok hv hs
      split at hi
      · cases hi
      · exact ih _ _ (resetSlots s1) _ _ (h1.v3.trans hv) (resetSlots_rowsOK (h1.rows hr)) hi

theorem iterations_ren (h : Ren ρ σ) (v3 all : Bool) (fuel : Nat) (r : Recipe)
    (hok : OkStmts ρ v3 all r.statements) (k : Nat) :
    ∀ (c : Ctx) (cont : Bool) (s : St) (o : List OutRow), s.v3 = v3 → RowsOK ρ all s →
      s.out = project σ o →
      RRm ρ σ (renCtx ρ) (iterations fuel r k c cont s)
        (iterations fuel (renRecipe ρ r) k (renCtx ρ c) cont (renSt ρ o s)) := by
  induction k with
  | zero =>
    intro c cont s o hv hr ho
    simp only [iterations]
    exact RRm.ok ho
  | succ k ih =>
    intro c cont s o hv hr ho
    rw [iterations_bind, iterations_bind]
    have hst : (renRecipe ρ r).statements = renStmts ρ r.statements := rfl
    rw [hst]
    refine RRm.bind ((simAll h v3 all fuel).2.2.2.2.2 c r.statements cont s o hok hv hr ho) ?_
    intro c1 s1 o1 hx ho1
    have h1 := (invAll h v3 all fuel).2.2.2.2.2 _ _ _ _ _ _ hok hv hx
    rw [notFilled_ren]
    cases notFilled s1 with
    | cons a l => exact Or.inr (Or.inr (Or.inl ⟨_, rfl, rfl⟩))
    | nil =>
      simp only [List.map_nil]
      rw [freezeCtx_ren h, resetSlots_ren h]
      exact ih _ true (resetSlots s1) o1 (h1.v3.trans hv) (resetSlots_rowsOK (h1.rows hr)) ho1

/-! ### continuation files -/

theorem isPersistent_ren (o : List OutRow) (s : St) (hd : Nat) :
    isPersistent (renSt ρ o s) hd = isPersistent s hd := by
  simp only [isPersistent, renSt_pNick, renSt_pTable, renA, List.any_append, List.any_map]
  rfl

theorem dropRowVals_ren (r : RowData) : dropRowVals (renRow ρ r) = renRow ρ (dropRowVals r) := by
  simp only [dropRowVals, renRow, renA, List.filter_map]
  congr 2
  apply List.filter_congr
  intro p _
  obtain ⟨k, v⟩ := p
  cases v <;> rfl

theorem saveLoad_ren (h : Ren ρ σ) (o : List OutRow) (s : St) :
    saveLoad (renSt ρ o s) = renSt ρ o (saveLoad s) := by
  have hrows : (freezeRows (renSt ρ o s)).mapIdx
        (fun hd r => if isPersistent (renSt ρ o s) hd then dropRowVals r else r) =
      ((freezeRows s).mapIdx (fun hd r => if isPersistent s hd then dropRowVals r else r)).map
        (renRow ρ) := by
    rw [freezeRows_ren h]
    apply List.ext_getElem?
    intro i
    simp only [List.getElem?_mapIdx, List.getElem?_map, isPersistent_ren]
    cases (freezeRows s)[i]? with
    | none => rfl
    | some r =>
      simp only [Option.map_some]
      split
      · rw [dropRowVals_ren]
      · rfl
  simp only [saveLoad, hrows, renSt_names, unusedSlots_ren]
  rfl

def isSlotV : Val → Bool
  | .slot _ => true
  | .deadSlot _ _ => true
  | _ => false

theorem isSlotV_ren (v : Val) : isSlotV (renVal ρ v) = isSlotV v := by cases v <;> rfl

theorem saveFails_eq (s : St) : saveFails s =
    (s.pNick ++ s.pTable).any (fun p => (rowData s p.2).values.any (fun q => isSlotV q.2)) := rfl

theorem saveFails_ren (h : Ren ρ σ) (o : List OutRow) (s : St) :
    saveFails (renSt ρ o s) = saveFails s := by
  rw [saveFails_eq, saveFails_eq]
  simp only [renSt_pNick, renSt_pTable, renA, List.any_append, List.any_map, rowData_ren h,
    renRow_values, Function.comp_def, isSlotV_ren, id]

theorem saveLoad_rowsOK {all : Bool} {s : St} (hr : RowsOK ρ all s) : RowsOK ρ all (saveLoad s) := by
  apply rowsOK_of_noSlot _ hr
  intro rd' hrd'
  simp only [saveLoad, List.mem_mapIdx] at hrd'
  obtain ⟨i, hi, rfl⟩ := hrd'
  have hfm : (freezeRows s)[i] ∈ freezeRows s := List.getElem_mem hi
  simp only [freezeRows, List.mem_map] at hfm
  obtain ⟨rd, hrd, e⟩ := hfm
  refine ⟨rd, hrd, ?_⟩
  have hvals : ∀ p' ∈ ((freezeRows s)[i]).values, (∃ p ∈ rd.values, p.1 = p'.1) ∧ ∀ n, p'.2 ≠ .slot n := by
    intro p' hp'
    have e' : (freezeRows s)[i] = _ := e.symm
    rw [e'] at hp'
    simp only [List.mem_map] at hp'
    obtain ⟨p, hp, rfl⟩ := hp'
    exact ⟨⟨p, hp, rfl⟩, freezeVal_notSlot s p.2⟩
  intro p' hp'
  split at hp'
  · simp only [dropRowVals, List.mem_filter] at hp'
    exact hvals p' hp'.1
  · exact hvals p' hp'

/-! ### chains -/

/-- the same four-way relation for the final states of chains -/
def RRc (ρ σ : String → String) (x y : Except Err St) : Prop :=
  (∃ m, x = .error (.outside m)) ∨ (∃ m, y = .error (.outside m)) ∨
  (∃ e, x = .error e ∧ y = .error e) ∨
  (∃ s1 o1, x = .ok s1 ∧ y = .ok (renSt ρ o1 s1) ∧ s1.out = project σ o1)

theorem chain_cons (fuel : Nat) (r : Recipe) (fs : Bool) (k : Nat) (ks : List Nat) (cont : Bool) (s : St) :
    chain fuel r fs (k :: ks) cont s =
      match iterations fuel r k { obj := none, vars := [] } cont s with
      | .error e => .error e
      | .ok (_, s1) =>
        if (fs || !ks.isEmpty) && saveFails s1 then
          .error (.recipe "cannot represent a slot in the continuation file")
        else chain fuel r fs ks true (saveLoad s1) := by
  rfl

theorem chain_ren (h : Ren ρ σ) (v3 all : Bool) (fuel : Nat) (r : Recipe)
    (hok : OkStmts ρ v3 all r.statements) (fs : Bool) (parts : List Nat) :
    ∀ (cont : Bool) (s : St) (o : List OutRow), s.v3 = v3 → RowsOK ρ all s → s.out = project σ o →
      RRc ρ σ (chain fuel r fs parts cont s) (chain fuel (renRecipe ρ r) fs parts cont (renSt ρ o s)) := by
  induction parts with
  | nil =>
    intro cont s o hv hr ho
    simp only [chain]
    exact Or.inr (Or.inr (Or.inr ⟨s, o, rfl, rfl, ho⟩))
  | cons k ks ih =>
    intro cont s o hv hr ho
    rw [chain_cons, chain_cons]
    have hi : RRm ρ σ (renCtx ρ) (iterations fuel r k { obj := none, vars := [] } cont s)
        (iterations fuel (renRecipe ρ r) k { obj := none, vars := [] } cont (renSt ρ o s)) :=
      iterations_ren h v3 all fuel r hok k { obj := none, vars := [] } cont s o hv hr ho
    rcases hi with ⟨m, hm⟩ | ⟨m, hm⟩ | ⟨e, hx, hy⟩ | ⟨c1, s1, o1, hx, hy, ho1⟩
    · rw [hm]; exact Or.inl ⟨m, rfl⟩
    · rw [hm]; exact Or.inr (Or.inl ⟨m, rfl⟩)
    · rw [hx, hy]; exact Or.inr (Or.inr (Or.inl ⟨e, rfl, rfl⟩))
    · rw [hx, hy]
      simp only [saveFails_ren h]
      obtain ⟨hv1, hr1⟩ := iterations_inv h v3 all fuel r hok k _ _ _ _ _ hv hr hx
      split
      · exact Or.inr (Or.inr (Or.inl ⟨_, rfl, rfl⟩))
      · rw [saveLoad_ren h]
        exact ih true (saveLoad s1) o1 hv1 (saveLoad_rowsOK hr1) ho1

/-! ### the initial state -/

def nickStep (acc : AList String) (st : Stmt) : AList String :=
  match st with
  | .obj t => (match t.nick with | some n => aset acc n t.table | none => acc)
  | _ => acc

def tableStep (acc : AList String) (st : Stmt) : AList String :=
  match st with
  | .obj t => aset acc t.table t.table
  | _ => acc

theorem topNames_eq (sts : List Stmt) : topNames sts = sts.foldl tableStep (sts.foldl nickStep []) := rfl

theorem nickStep_ren (h : Ren ρ σ) (sts : List Stmt) : ∀ acc : AList String,
    (renStmts ρ sts).foldl nickStep (renA ρ ρ acc) = renA ρ ρ (sts.foldl nickStep acc) := by
  induction sts with
  | nil => intro acc; rfl
  | cons st sts ih =>
    intro acc
    simp only [renStmts, List.foldl_cons]
    cases st with
    | var n fd => simp only [renStmt, nickStep]; exact ih acc
    | obj t =>
      simp only [renStmt, nickStep, renT_nick, renT_table]
      cases t.nick with
      | none => exact ih acc
      | some n =>
        simp only [Option.map_some, aset_renA h]
        exact ih _

theorem tableStep_ren (h : Ren ρ σ) (sts : List Stmt) : ∀ acc : AList String,
    (renStmts ρ sts).foldl tableStep (renA ρ ρ acc) = renA ρ ρ (sts.foldl tableStep acc) := by
  induction sts with
  | nil => intro acc; rfl
  | cons st sts ih =>
    intro acc
    simp only [renStmts, List.foldl_cons]
    cases st with
    | var n fd => simp only [renStmt, tableStep]; exact ih acc
    | obj t =>
      simp only [renStmt, tableStep, renT_table, aset_renA h]
      exact ih _

theorem topNames_ren (h : Ren ρ σ) (sts : List Stmt) :
    topNames (renStmts ρ sts) = renA ρ ρ (topNames sts) := by
  rw [topNames_eq, topNames_eq]
  have := nickStep_ren h sts []
  rw [renA_nil] at this
  rw [this, tableStep_ren h]

theorem renVal_litVal (l : Lit) : renVal ρ (litVal l) = litVal l := by cases l <;> rfl

theorem initSt_ren (h : Ren ρ σ) (r : Recipe) : initSt (renRecipe ρ r) = renSt ρ [] (initSt r) := by
  simp only [initSt, renRecipe, topNames_ren h, renSt, renA, List.map_map, List.map_nil]
  congr 1
  apply List.map_congr_left
  intro p _
  simp only [Function.comp, renVal_litVal]

theorem initSt_rowsOK {all : Bool} (r : Recipe) : RowsOK ρ all (initSt r) := by
  intro rd hrd; cases hrd

/-! ### whole chains -/

theorem runChain_ren (h : Ren ρ σ) (all : Bool) (fuel : Nat) (r : Recipe)
    (hok : OkStmts ρ r.v3 all r.statements) (parts : List Nat) (fs : Bool) :
    (∃ m, (runChain fuel r parts fs).status = "outside:" ++ m) ∨
    (∃ m, (runChain fuel (renRecipe ρ r) parts fs).status = "outside:" ++ m) ∨
    ((runChain fuel (renRecipe ρ r) parts fs).status = (runChain fuel r parts fs).status ∧
      (runChain fuel r parts fs).out = project σ (runChain fuel (renRecipe ρ r) parts fs).out) := by
  unfold runChain
  rw [initSt_ren h]
  rcases chain_ren h r.v3 all fuel r hok fs parts false (initSt r) [] rfl (initSt_rowsOK r) rfl with
    ⟨m, hm⟩ | ⟨m, hm⟩ | ⟨e, hx, hy⟩ | ⟨s1, o1, hx, hy, ho1⟩
  · left; rw [hm]; exact ⟨m, rfl⟩
  · right; left; rw [hm]; exact ⟨m, rfl⟩
  · rw [hx, hy]
    cases e with
    | outside m => left; exact ⟨m, rfl⟩
    | recipe m => right; right; exact ⟨rfl, rfl⟩
    | fuel => right; right; exact ⟨rfl, rfl⟩
  · rw [hx, hy]
    right; right
    exact ⟨rfl, ho1⟩

/-- `ρ` (with inverse `σ`) is an acceptable renaming for the recipe `r`; `all` selects which of the
    two safety conditions is used for the v3 dialect -/
structure GoodRen (ρ σ : String → String) (all : Bool) (r : Recipe) : Prop where
  ren : Ren ρ σ
  ok : OkStmts ρ r.v3 all r.statements

end SnowModel.L2
