/-
Helper lemmas for C01L2, part 2: state-level facts.  `Pres s s'` (the invariant is kept, rows and
output untouched) holds for `slotId` and hence for all non-recursive evaluators; `regState`,
`setRowValue`, `writeRow`; the relation `Rel` between output ids and row ids and its algebra.
-/
import SnowModel.Proofs.L2Ids1

namespace SnowModel.L2

/-- the invariant is kept; rows and output are untouched -/
def Pres (s s' : St) : Prop := (Good s → Good s') ∧ s'.rows = s.rows ∧ s'.out = s.out

theorem Pres.refl (s : St) : Pres s s := ⟨id, rfl, rfl⟩

theorem Pres.trans {a b c : St} (h1 : Pres a b) (h2 : Pres b c) : Pres a c :=
  ⟨fun h => h2.1 (h1.1 h), h2.2.1.trans h1.2.1, h2.2.2.trans h1.2.2⟩

theorem slotId_pres {s s' : St} {n : String} {i : Nat} (h : slotId s n = .ok (i, s')) : Pres s s' := by
  unfold slotId at h
  split at h
  · cases h
  · next t hn hs =>
    simp only [freshId, Except.ok.injEq, Prod.mk.injEq] at h
    obtain ⟨-, rfl⟩ := h
    refine ⟨fun hg => ?_, rfl, rfl⟩
    have hmem : n ∈ s.slots.map Prod.fst := by rw [hg.2.1]; exact aget_mem_keys hn
    obtain ⟨v, hv⟩ := aget_of_mem_keys hmem
    rw [hv] at hs
    simp only [Option.getD_some] at hs
    subst hs
    exact GoodF_reserve hg hn hv
  · simp only [Except.ok.injEq, Prod.mk.injEq] at h
    obtain ⟨-, rfl⟩ := h
    exact Pres.refl _
  · simp only [Except.ok.injEq, Prod.mk.injEq] at h
    obtain ⟨-, rfl⟩ := h
    exact Pres.refl _

/-! ### the evaluators (same case analyses as the `*_same` lemmas of `L2Out`) -/

theorem evalExpr_pres (c : Ctx) (e : Expr) : ∀ {s s' : St} {v : Val},
    evalExpr c e s = .ok (v, s') → Pres s s' := by
  induction e with
  | int n =>
    intro s s' v h
    simp only [evalExpr, Except.ok.injEq, Prod.mk.injEq] at h
    obtain ⟨-, rfl⟩ := h; exact Pres.refl _
  | name n =>
    intro s s' v h
    simp only [evalExpr] at h
    split at h
    · cases h
    · simp only [Except.ok.injEq, Prod.mk.injEq] at h
      obtain ⟨-, rfl⟩ := h; exact Pres.refl _
    · simp only [Except.ok.injEq, Prod.mk.injEq] at h
      obtain ⟨-, rfl⟩ := h; exact Pres.refl _
  | attr e f ih =>
    intro s s' v h
    simp only [evalExpr] at h
    split at h
    · cases h
    · cases h
    · next h0 s1 he =>
      split at h
      · cases h
      · simp only [Except.ok.injEq, Prod.mk.injEq] at h
        obtain ⟨-, rfl⟩ := h; exact ih he
    · next n s1 he =>
      split at h
      · split at h
        · cases h
        · next i s2 hs =>
          simp only [Except.ok.injEq, Prod.mk.injEq] at h
          obtain ⟨-, rfl⟩ := h; exact (ih he).trans (slotId_pres hs)
      · split at h
        · cases h
        · simp only [Except.ok.injEq, Prod.mk.injEq] at h
          obtain ⟨-, rfl⟩ := h; exact ih he
    · next tb i s1 he =>
      split at h
      · split at h
        · simp only [Except.ok.injEq, Prod.mk.injEq] at h
          obtain ⟨-, rfl⟩ := h; exact ih he
        · cases h
      · split at h
        · cases h
        · simp only [Except.ok.injEq, Prod.mk.injEq] at h
          obtain ⟨-, rfl⟩ := h; exact ih he
    · cases h
    · next v1 s1 _ _ _ _ _ he =>
      simp only [Except.ok.injEq, Prod.mk.injEq] at h
      obtain ⟨-, rfl⟩ := h; exact ih he
  | add a b iha ihb =>
    intro s s' v h
    simp only [evalExpr] at h
    split at h
    · cases h
    · next va s1 ha =>
      split at h
      · cases h
      · next vb s2 hb =>
        have := arithVals_eq h; subst this
        exact (iha ha).trans (ihb hb)
  | sub a b iha ihb =>
    intro s s' v h
    simp only [evalExpr] at h
    split at h
    · cases h
    · next va s1 ha =>
      split at h
      · cases h
      · next vb s2 hb =>
        have := arithVals_eq h; subst this
        exact (iha ha).trans (ihb hb)
  | mul a b iha ihb =>
    intro s s' v h
    simp only [evalExpr] at h
    split at h
    · cases h
    · next va s1 ha =>
      split at h
      · cases h
      · next vb s2 hb =>
        have := arithVals_eq h; subst this
        exact (iha ha).trans (ihb hb)

theorem renderParts_pres (c : Ctx) (ps : List Part) : ∀ {s s' : St} {vs : List Val},
    renderParts c ps s = .ok (vs, s') → Pres s s' := by
  induction ps with
  | nil =>
    intro s s' vs h
    simp only [renderParts, Except.ok.injEq, Prod.mk.injEq] at h
    obtain ⟨-, rfl⟩ := h; exact Pres.refl _
  | cons p ps ih =>
    intro s s' vs h
    cases p with
    | text t =>
      simp only [renderParts] at h
      split at h
      · cases h
      · next vs1 s1 hp =>
        simp only [Except.ok.injEq, Prod.mk.injEq] at h
        obtain ⟨-, rfl⟩ := h; exact ih hp
    | expr e =>
      simp only [renderParts] at h
      split at h
      · cases h
      · next v s1 he =>
        split at h
        · cases h
        · next vs1 s2 hp =>
          simp only [Except.ok.injEq, Prod.mk.injEq] at h
          obtain ⟨-, rfl⟩ := h; exact (evalExpr_pres c e he).trans (ih hp)

theorem renderTmpl_pres {c : Ctx} {parts : List Part} {s s' : St} {v : Val}
    (h : renderTmpl c parts s = .ok (v, s')) : Pres s s' := by
  unfold renderTmpl at h
  simp only at h
  split at h
  · split at h
    · simp only [Except.ok.injEq, Prod.mk.injEq] at h
      obtain ⟨-, rfl⟩ := h; exact Pres.refl _
    · split at h
      · simp only [Except.ok.injEq, Prod.mk.injEq] at h
        obtain ⟨-, rfl⟩ := h; exact Pres.refl _
      · cases h
  · split at h
    · split at h
      · split at h
        · cases h
        · cases h
        · next raw s1 he =>
          split at h
          · simp only [Except.ok.injEq, Prod.mk.injEq] at h
            obtain ⟨-, rfl⟩ := h; exact evalExpr_pres _ _ he
          · cases h
        · next v1 s1 _ _ he =>
          simp only [Except.ok.injEq, Prod.mk.injEq] at h
          obtain ⟨-, rfl⟩ := h; exact evalExpr_pres _ _ he
      · split at h
        · cases h
        · next vs s1 hp =>
          split at h
          · cases h
          · split at h
            · cases h
            · split at h
              · simp only [Except.ok.injEq, Prod.mk.injEq] at h
                obtain ⟨-, rfl⟩ := h; exact renderParts_pres _ _ hp
              · cases h
    · split at h
      · cases h
      · next vs s1 hp =>
        split at h
        · cases h
        · split at h
          · simp only [Except.ok.injEq, Prod.mk.injEq] at h
            obtain ⟨-, rfl⟩ := h; exact renderParts_pres _ _ hp
          · cases h

theorem renderRef_walk_pres (ps : List String) : ∀ {t v : Val} {s s' : St},
    renderRef.walk t ps s = .ok (v, s') → Pres s s' := by
  induction ps with
  | nil =>
    intro t v s s' h
    simp only [renderRef.walk, Except.ok.injEq, Prod.mk.injEq] at h
    obtain ⟨-, rfl⟩ := h; exact Pres.refl _
  | cons p ps ih =>
    intro t v s s' h
    simp only [renderRef.walk] at h
    split at h
    · split at h
      · exact ih h
      · cases h
    · split at h
      · split at h
        · cases h
        · next i s1 hs => exact (slotId_pres hs).trans (ih h)
      · split at h <;> cases h
    · split at h
      · split at h
        · exact ih h
        · cases h
      · split at h <;> cases h
    · cases h
    · cases h
    · cases h

theorem renderRef_pres {c : Ctx} {path : List String} {s s' : St} {v : Val}
    (h : renderRef c path s = .ok (v, s')) : Pres s s' := by
  unfold renderRef at h
  split at h
  · cases h
  · split at h
    · cases h
    · split at h
      · cases h
      · next t s1 hw =>
        have hws := renderRef_walk_pres _ hw
        split at h
        · split at h
          · cases h
          · next i s2 hs =>
            simp only [Except.ok.injEq, Prod.mk.injEq] at h
            obtain ⟨-, rfl⟩ := h; exact hws.trans (slotId_pres hs)
        · simp only [Except.ok.injEq, Prod.mk.injEq] at h
          obtain ⟨-, rfl⟩ := h; exact hws
        · split at h
          · simp only [Except.ok.injEq, Prod.mk.injEq] at h
            obtain ⟨-, rfl⟩ := h; exact hws
          · cases h
        · cases h
        · cases h
        · split at h <;> cases h
        · split at h <;> cases h
        · split at h <;> cases h

theorem canon_pres {s s' : St} {v : Val} {o : OVal} (h : canon s v = .ok (o, s')) : Pres s s' := by
  unfold canon at h
  split at h
  · simp only [Except.ok.injEq, Prod.mk.injEq] at h; obtain ⟨-, rfl⟩ := h; exact Pres.refl _
  · simp only [Except.ok.injEq, Prod.mk.injEq] at h; obtain ⟨-, rfl⟩ := h; exact Pres.refl _
  · simp only [Except.ok.injEq, Prod.mk.injEq] at h; obtain ⟨-, rfl⟩ := h; exact Pres.refl _
  · simp only [Except.ok.injEq, Prod.mk.injEq] at h; obtain ⟨-, rfl⟩ := h; exact Pres.refl _
  · cases h
  · split at h
    · simp only [Except.ok.injEq, Prod.mk.injEq] at h; obtain ⟨-, rfl⟩ := h; exact Pres.refl _
    · cases h
  · split at h
    · cases h
    · next i s1 hs =>
      simp only [Except.ok.injEq, Prod.mk.injEq] at h; obtain ⟨-, rfl⟩ := h; exact slotId_pres hs
  · split at h
    · simp only [Except.ok.injEq, Prod.mk.injEq] at h; obtain ⟨-, rfl⟩ := h; exact Pres.refl _
    · cases h

theorem canonFields_pres (vs : List (String × Val)) : ∀ {s s' : St} {os : List (String × OVal)},
    canonFields vs s = .ok (os, s') → Pres s s' := by
  induction vs with
  | nil =>
    intro s s' os h
    simp only [canonFields, Except.ok.injEq, Prod.mk.injEq] at h
    obtain ⟨-, rfl⟩ := h; exact Pres.refl _
  | cons p vs ih =>
    intro s s' os h
    obtain ⟨k, v⟩ := p
    simp only [canonFields] at h
    split at h
    · exact ih h
    · split at h
      · cases h
      · next o s1 hc =>
        split at h
        · cases h
        · next os1 s2 hr =>
          simp only [Except.ok.injEq, Prod.mk.injEq] at h
          obtain ⟨-, rfl⟩ := h; exact (canon_pres hc).trans (ih hr)


/-! ### rows -/

theorem idNat_aset (r : RowData) {k : String} (hk : k ≠ "id") (v : Val) :
    idNat { r with values := aset r.values k v } = idNat r := by
  have e : (aset r.values k v).lookup "id" = r.values.lookup "id" :=
    aget_aset_ne r.values (Ne.symm hk) v
  simp only [idNat, e]

theorem setRowValue_sigs (s : St) (h : Nat) {k : String} (hk : k ≠ "id") (v : Val) :
    sigs (setRowValue s h k v) = sigs s := by
  unfold sigs setRowValue
  simp only
  apply List.ext_getElem
  · simp
  · intro i h1 h2
    simp only [List.getElem_map, List.getElem_mapIdx]
    split
    · simp only [sig, idNat_aset _ hk]
    · rfl

theorem setRowValue_good {s : St} (h : Nat) {k : String} (hk : k ≠ "id") (v : Val) (hg : Good s) :
    Good (setRowValue s h k v) :=
  GoodF_rows (rows := s.rows) (setRowValue_sigs s h hk v) hg

theorem setRowValue_out (s : St) (h : Nat) (k : String) (v : Val) : (setRowValue s h k v).out = s.out := rfl

theorem idNat_some {r : RowData} {n : Nat} (h : idNat r = some n) :
    ∃ i : Int, aget r.values "id" = some (.int i) ∧ i.toNat = n := by
  unfold idNat at h
  split at h
  · next i hl =>
    split at h
    · simp only [Option.some.injEq] at h
      exact ⟨i, hl, h⟩
    · cases h
  · cases h

/-! ### drawing an id and registering the new row -/

theorem consume_spec {s s' : St} {n table : String} {i : Nat} (h : consume s n table = some (i, s')) :
    aget s.names n = some table ∧ aget s.slots n = some (.alloc i) ∧
      s' = { s with slots := aset s.slots n (.consumed i) } := by
  unfold consume at h
  split at h
  · next t j hn hs =>
    split at h
    · next ht =>
      simp only [Option.some.injEq, Prod.mk.injEq] at h
      obtain ⟨rfl, rfl⟩ := h
      subst ht
      exact ⟨hn, hs, rfl⟩
    · cases h
  · cases h

theorem generateId_cases (s : St) (table : String) (nick : Option String) :
    (∃ n i, aget s.names n = some table ∧ aget s.slots n = some (.alloc i) ∧
        generateId s table nick = (i, { s with slots := aset s.slots n (.consumed i) })) ∨
      generateId s table nick = freshId s table := by
  generalize hg : generateId s table nick = g
  unfold generateId at hg
  split at hg
  · next r hr =>
    cases nick with
    | none => simp at hr
    | some n =>
      obtain ⟨i, s'⟩ := r
      obtain ⟨h1, h2, h3⟩ := consume_spec (by simpa using hr)
      left
      exact ⟨n, i, h1, h2, by rw [← hg, h3]⟩
  · split at hg
    · next r hr =>
      obtain ⟨i, s'⟩ := r
      obtain ⟨h1, h2, h3⟩ := consume_spec hr
      left
      exact ⟨table, i, h1, h2, by rw [← hg, h3]⟩
    · right; exact hg.symm

theorem generateId_rows (s : St) (table : String) (nick : Option String) :
    (generateId s table nick).2.rows = s.rows := by
  rcases generateId_cases s table nick with ⟨n, i, -, -, e⟩ | e
  · rw [e]
  · rw [e]; rfl

theorem generateId_good (s : St) (table : String) (nick : Option String) (idx : Nat) (hg : Good s) :
    GoodF (generateId s table nick).2.names (generateId s table nick).2.slots
      (generateId s table nick).2.lastUsed
      ((generateId s table nick).2.rows ++
        [{ table := table, idx := idx, values := [("id", Val.int (generateId s table nick).1)] }]) := by
  rcases generateId_cases s table nick with ⟨n, i, hn, hs, e⟩ | e
  · rw [e]
    exact GoodF_consume hg hn hs rfl (idNat_new _ _ _)
  · rw [e]
    exact GoodF_fresh hg rfl (idNat_new _ _ _)

theorem regState_fields (s : St) (t : Template) (i : Nat) :
    (regState s t i).names = (generateId s t.table t.nick).2.names ∧
    (regState s t i).slots = (generateId s t.table t.nick).2.slots ∧
    (regState s t i).lastUsed = (generateId s t.table t.nick).2.lastUsed ∧
    (regState s t i).rows = (generateId s t.table t.nick).2.rows ++
      [{ table := t.table, idx := i, values := [("id", Val.int (generateId s t.table t.nick).1)] }] := by
  unfold regState
  simp only
  generalize generateId s t.table t.nick = g
  cases t.nick <;> cases t.justOnce <;> simp

theorem regState_good {s : St} (t : Template) (i : Nat) (hg : Good s) : Good (regState s t i) := by
  obtain ⟨e1, e2, e3, e4⟩ := regState_fields s t i
  unfold Good
  rw [e1, e2, e3, e4]
  exact generateId_good s t.table t.nick i hg

theorem regState_sigs (s : St) (t : Template) (i : Nat) :
    sigs (regState s t i) = sigs s ++ [(t.table, some (generateId s t.table t.nick).1)] := by
  unfold sigs
  rw [(regState_fields s t i).2.2.2, generateId_rows]
  simp [sig, idNat_new]

/-! ### writing a row -/

theorem id_visible : "id".startsWith "__" = false := by
  rw [String.startsWith_string_eq_false_iff]; decide

theorem canonFields_id (vs : List (String × Val)) : ∀ {s s' : St} {os : List (String × OVal)} {i : Int},
    canonFields vs s = .ok (os, s') → aget vs "id" = some (.int i) → aget os "id" = some (.int i) := by
  induction vs with
  | nil =>
    intro s s' os i h hl
    simp [aget] at hl
  | cons p vs ih =>
    intro s s' os i h hl
    obtain ⟨k, v⟩ := p
    simp only [canonFields] at h
    rw [aget_cons] at hl
    by_cases hk : "id" = k
    · subst hk
      rw [if_pos rfl] at hl
      simp only [Option.some.injEq] at hl
      subst hl
      rw [id_visible] at h
      simp only [Bool.false_eq_true, if_false, canon] at h
      split at h
      · cases h
      · next os1 s2 hr =>
        simp only [Except.ok.injEq, Prod.mk.injEq] at h
        obtain ⟨rfl, -⟩ := h
        rw [aget_cons, if_pos rfl]
    · rw [if_neg hk] at hl
      split at h
      · exact ih h hl
      · split at h
        · cases h
        · next o s1 hc =>
          split at h
          · cases h
          · next os1 s2 hr =>
            simp only [Except.ok.injEq, Prod.mk.injEq] at h
            obtain ⟨rfl, -⟩ := h
            rw [aget_cons, if_neg hk]
            exact ih hr hl

theorem writeRow_spec {t : Template} {h : Nat} {s6 s8 : St} {u : Unit}
    (hw : writeRow t h s6 = .ok (u, s8)) :
    (Good s6 → Good s8) ∧ s8.rows = s6.rows ∧
    ((t.table.startsWith "__" = true ∧ s8.out = s6.out) ∨
     (t.table.startsWith "__" = false ∧ ∃ fs, s8.out = s6.out ++ [{ table := t.table, fields := fs }] ∧
        ∀ i : Int, aget (rowData s6 h).values "id" = some (.int i) → aget fs "id" = some (.int i))) := by
  unfold writeRow at hw
  split at hw
  · next hh =>
    simp only [Except.ok.injEq, Prod.mk.injEq] at hw
    obtain ⟨-, rfl⟩ := hw
    exact ⟨id, rfl, Or.inl ⟨hh, rfl⟩⟩
  · next hvis =>
    split at hw
    · cases hw
    · next fs s7 hc =>
      simp only [Except.ok.injEq, Prod.mk.injEq] at hw
      obtain ⟨-, rfl⟩ := hw
      obtain ⟨p1, p2, p3⟩ := canonFields_pres _ hc
      refine ⟨fun hg => p1 hg, p2, Or.inr ⟨by simpa using hvis, fs, ?_, ?_⟩⟩
      · simp [p3]
      · intro i hi
        exact canonFields_id _ hc hi

/-! ### output ids against row ids -/

def outId (o : OutRow) : Option Nat :=
  match o.fields.lookup "id" with
  | some (.int i) => some i.toNat
  | _ => none

def outIds (l : List OutRow) (T : String) : List Nat :=
  (l.filter (fun o => o.table = T)).filterMap outId

theorem outIds_append (a b : List OutRow) (T : String) : outIds (a ++ b) T = outIds a T ++ outIds b T := by
  simp [outIds]

theorem outIds_nil (T : String) : outIds [] T = [] := rfl

theorem outIds_single {fs : List (String × OVal)} {i : Int} (hf : aget fs "id" = some (.int i)) (t T : String) :
    outIds [{ table := t, fields := fs }] T = if t = T then [i.toNat] else [] := by
  have e : outId { table := t, fields := fs } = some i.toNat := by
    unfold aget at hf
    simp only [outId, hf]
  by_cases h : t = T
  · subst h; simp [outIds, e]
  · simp [outIds, h]

/-- rows are only appended (up to table and id), output is only appended, and for every visible
    table the ids written are, up to order, the ids of the appended rows -/
def Rel (s s' : St) : Prop :=
  ∃ extR extO, sigs s' = sigs s ++ extR ∧ s'.out = s.out ++ extO ∧
    ∀ T : String, T.startsWith "__" = false → (outIds extO T).Perm (sigIds extR T)

theorem Rel.refl (s : St) : Rel s s := ⟨[], [], by simp, by simp, fun _ _ => List.Perm.refl _⟩

theorem Rel.of_eq {s s' : St} (h1 : sigs s' = sigs s) (h2 : s'.out = s.out) : Rel s s' :=
  ⟨[], [], by simp [h1], by simp [h2], fun _ _ => List.Perm.refl _⟩

theorem Rel.trans {a b c : St} (h1 : Rel a b) (h2 : Rel b c) : Rel a c := by
  obtain ⟨r1, o1, e1, f1, p1⟩ := h1
  obtain ⟨r2, o2, e2, f2, p2⟩ := h2
  refine ⟨r1 ++ r2, o1 ++ o2, by rw [e2, e1, List.append_assoc], by rw [f2, f1, List.append_assoc], ?_⟩
  intro T hT
  rw [outIds_append, sigIds_append]
  exact (p1 T hT).append (p2 T hT)

/-- the invariant is kept and `Rel` holds -/
def Tr (s s' : St) : Prop := Good s → Good s' ∧ Rel s s'

theorem Tr.refl (s : St) : Tr s s := fun h => ⟨h, Rel.refl s⟩

theorem Tr.trans {a b c : St} (h1 : Tr a b) (h2 : Tr b c) : Tr a c := fun h =>
  ⟨(h2 (h1 h).1).1, (h1 h).2.trans (h2 (h1 h).1).2⟩

theorem Pres.tr {s s' : St} (h : Pres s s') : Tr s s' := fun hg =>
  ⟨h.1 hg, Rel.of_eq (by unfold sigs; rw [h.2.1]) h.2.2⟩

theorem setRowValue_tr (s : St) (h : Nat) {k : String} (hk : k ≠ "id") (v : Val) :
    Tr s (setRowValue s h k v) := fun hg =>
  ⟨setRowValue_good h hk v hg, Rel.of_eq (setRowValue_sigs s h hk v) rfl⟩

/-- the row `h` created by `regState` still has its table and id after more rows were appended -/
theorem row_after {s sA sB : St} {t : String} {rid : Nat}
    (hA : sigs sA = sigs s ++ [(t, some rid)]) {eR : List (String × Option Nat)}
    (hB : sigs sB = sigs sA ++ eR) :
    ∃ i : Int, aget (rowData sB s.rows.length).values "id" = some (.int i) ∧ i.toNat = rid := by
  have hlen : (sigs s).length = s.rows.length := by simp [sigs]
  have h1 : (sigs sB)[s.rows.length]? = some (t, some rid) := by
    rw [hB, hA, List.append_assoc, List.getElem?_append_right (by omega), hlen]
    simp
  unfold sigs at h1
  rw [List.getElem?_map] at h1
  cases hr : sB.rows[s.rows.length]? with
  | none => rw [hr] at h1; cases h1
  | some r =>
    rw [hr] at h1
    simp only [Option.map_some, Option.some.injEq, sig, Prod.mk.injEq] at h1
    have : rowData sB s.rows.length = r := by
      unfold rowData
      simp [List.getD, hr]
    rw [this]
    exact idNat_some h1.2

theorem execRow_rel {s sA sB sC sD : St} {t : String} {rid : Nat}
    (hA : sigs sA = sigs s ++ [(t, some rid)]) (hAo : sA.out = s.out)
    (hAB : Rel sA sB) (hCr : sigs sC = sigs sB)
    (hCo : (t.startsWith "__" = true ∧ sC.out = sB.out) ∨
      (t.startsWith "__" = false ∧ ∃ fs, sC.out = sB.out ++ [{ table := t, fields := fs }] ∧
        ∀ i : Int, aget (rowData sB s.rows.length).values "id" = some (.int i) → aget fs "id" = some (.int i)))
    (hCD : Rel sC sD) : Rel s sD := by
  obtain ⟨r1, o1, e1, f1, p1⟩ := hAB
  obtain ⟨r2, o2, e2, f2, p2⟩ := hCD
  obtain ⟨i, hi, hin⟩ := row_after hA e1
  rcases hCo with ⟨hhid, hout⟩ | ⟨hvis, fs, hout, hfs⟩
  · refine ⟨[(t, some rid)] ++ r1 ++ r2, o1 ++ o2, ?_, ?_, ?_⟩
    · rw [e2, hCr, e1, hA]; simp
    · rw [f2, hout, f1, hAo]; simp
    · intro T hT
      have hne : t ≠ T := by
        intro h; subst h; rw [hhid] at hT; cases hT
      rw [outIds_append, sigIds_append, sigIds_append, sigIds_single, if_neg hne]
      exact (p1 T hT).append (p2 T hT)
  · refine ⟨[(t, some rid)] ++ r1 ++ r2, o1 ++ [{ table := t, fields := fs }] ++ o2, ?_, ?_, ?_⟩
    · rw [e2, hCr, e1, hA]; simp
    · rw [f2, hout, f1, hAo]; simp
    · intro T hT
      rw [outIds_append, outIds_append, sigIds_append, sigIds_append, sigIds_single,
        outIds_single (hfs i hi), hin]
      have q1 := p1 T hT
      have q2 := p2 T hT
      rw [List.perm_iff_count] at q1 q2 ⊢
      intro a
      have := q1 a
      have := q2 a
      simp only [List.count_append]
      omega

end SnowModel.L2
