/-
C16 — helper lemmas, part 2: load steps, fields/lookups, after-directives, continuation.
-/
import SnowModel.Core.Mapping
import Mathlib.Data.List.Basic
import Mathlib.Data.List.Nodup
import Mathlib.Data.List.Perm.Basic
import Mathlib.Data.List.Forall2

namespace SnowModel.Proofs.C16
open SnowModel.Mapping

/-! ### `dedupFirst` (OrderedSet) -/

theorem mem_dedupFirst {α} [DecidableEq α] : ∀ (l : List α) (x : α), x ∈ dedupFirst l ↔ x ∈ l
  | [], x => by simp [dedupFirst]
  | a :: as, x => by
    simp only [dedupFirst, List.mem_cons, List.mem_filter, mem_dedupFirst as x, decide_eq_true_eq]
    by_cases h : x = a <;> simp [h]

theorem nodup_dedupFirst {α} [DecidableEq α] : ∀ (l : List α), (dedupFirst l).Nodup
  | [] => by simp [dedupFirst]
  | a :: as => by
    simp only [dedupFirst, List.nodup_cons, List.mem_filter, decide_eq_true_eq]
    exact ⟨fun h => h.2 rfl, (nodup_dedupFirst as).filter _⟩

theorem dedupFirst_append_of_nodup {α} [DecidableEq α] :
    ∀ (s o : List α), s.Nodup → dedupFirst (s ++ o) = s ++ (dedupFirst o).filter (fun x => decide (x ∉ s))
  | [], o, _ => by simp
  | a :: s, o, h => by
    have hnd := List.nodup_cons.mp h
    simp only [List.cons_append, dedupFirst, dedupFirst_append_of_nodup s o hnd.2, List.filter_append,
      List.filter_filter]
    congr 1
    congr 1
    · apply List.filter_eq_self.mpr
      intro x hx
      have : x ≠ a := fun e => hnd.1 (e ▸ hx)
      simpa using this
    · apply List.filter_congr
      intro x _
      simp only [List.mem_cons, not_or]
      by_cases h1 : x = a <;> by_cases h2 : x ∈ s <;> simp [h1, h2]

/-! ### `dictInsert` -/

theorem dictInsert_fresh {κ β} [DecidableEq κ] (k : κ) (v : β) :
    ∀ (acc : List (κ × β)), (∀ p ∈ acc, p.1 ≠ k) → dictInsert k v acc = acc ++ [(k, v)]
  | [], _ => rfl
  | (k', v') :: rest, h => by
    have h1 : k' ≠ k := h (k', v') (by simp)
    simp only [dictInsert, h1, if_false, List.cons_append]
    rw [dictInsert_fresh k v rest (fun p hp => h p (by simp [hp]))]

/-! ### the stable sort -/

theorem insertBy_perm {α} (key : α → Nat) (x : α) : ∀ (l : List α), (insertBy key x l).Perm (x :: l)
  | [] => by simp [insertBy]
  | y :: ys => by
    simp only [insertBy]
    split
    · exact ((insertBy_perm key x ys).cons y).trans (List.Perm.swap x y ys)
    · exact List.Perm.refl _

theorem stableSortBy_perm {α} (key : α → Nat) : ∀ (l : List α), (stableSortBy key l).Perm l
  | [] => by simp [stableSortBy]
  | x :: xs => by
    have ih := stableSortBy_perm key xs
    simp only [stableSortBy, List.foldr_cons] at ih ⊢
    exact (insertBy_perm key x _).trans (ih.cons x)

theorem insertBy_sorted {α} (key : α → Nat) (x : α) :
    ∀ (l : List α), l.Pairwise (fun a b => key a ≤ key b) →
      (insertBy key x l).Pairwise (fun a b => key a ≤ key b)
  | [], _ => by simp [insertBy]
  | y :: ys, h => by
    have hc := List.pairwise_cons.mp h
    simp only [insertBy]
    split
    · rename_i hlt
      refine List.pairwise_cons.mpr ⟨?_, insertBy_sorted key x ys hc.2⟩
      intro b hb
      rcases List.mem_cons.mp ((insertBy_perm key x ys).mem_iff.mp hb) with e | e
      · subst e; omega
      · exact hc.1 b e
    · rename_i hnlt
      refine List.pairwise_cons.mpr ⟨?_, h⟩
      intro b hb
      rcases List.mem_cons.mp hb with e | e
      · subst e; omega
      · have := hc.1 b e; omega

theorem stableSortBy_sorted {α} (key : α → Nat) :
    ∀ (l : List α), (stableSortBy key l).Pairwise (fun a b => key a ≤ key b)
  | [] => by simp [stableSortBy]
  | x :: xs => by
    have ih := stableSortBy_sorted key xs
    simp only [stableSortBy, List.foldr_cons] at ih ⊢
    exact insertBy_sorted key x _ ih

/-! ### load steps -/

theorem mem_rawSteps (tables : List TableInfo) (s : LoadStep) :
    s ∈ rawSteps tables ↔ ∃ t ∈ tables, ∃ k ∈ t.templates, s = ⟨t.name, k, t.fields⟩ := by
  simp only [rawSteps, mem_dedupFirst, List.mem_flatMap, List.mem_map]
  constructor
  · rintro ⟨t, ht, k, hk, e⟩; exact ⟨t, ht, k, hk, e.symm⟩
  · rintro ⟨t, ht, k, hk, e⟩; exact ⟨t, ht, k, hk, e.symm⟩

theorem loadSteps_spec (tables : List TableInfo) (order : List String) (steps : List LoadStep)
    (h : loadSteps tables order = .ok steps) :
    steps.Perm (rawSteps tables) ∧
      steps.Pairwise (fun a b => order.idxOf a.table ≤ order.idxOf b.table) ∧
      ∀ s ∈ steps, s.table ∈ order := by
  unfold loadSteps at h
  simp only at h
  split at h
  · exact absurd h (by simp)
  · rename_i hnone
    injection h with h
    subst h
    refine ⟨stableSortBy_perm _ _, stableSortBy_sorted _ _, ?_⟩
    intro s hs
    have hs' := (stableSortBy_perm _ _).mem_iff.mp hs
    have := List.find?_eq_none.mp hnone s hs'
    simpa using this

theorem loadSteps_total (tables : List TableInfo) (order : List String)
    (h : ∀ t ∈ tables, t.name ∈ order) : ∃ steps, loadSteps tables order = .ok steps := by
  unfold loadSteps
  simp only
  have hnone : (rawSteps tables).find? (fun s => !order.contains s.table) = none := by
    apply List.find?_eq_none.mpr
    intro s hs
    obtain ⟨t, ht, k, _, e⟩ := (mem_rawSteps tables s).mp hs
    subst e
    simpa using h t ht
  rw [hnone]
  exact ⟨_, rfl⟩

theorem loadSteps_error (tables : List TableInfo) (order : List String) (e : Err)
    (h : loadSteps tables order = .error e) : ∃ t ∈ tables, t.name ∉ order := by
  by_contra hc
  have hc' : ∀ t ∈ tables, t.name ∈ order := by
    intro t ht
    by_contra hn
    exact hc ⟨t, ht, hn⟩
  obtain ⟨steps, hs⟩ := loadSteps_total tables order hc'
  rw [hs] at h
  exact absurd h (by simp)

/-! ### one mapping -/

theorem mappingOfStep_ok (deps : List Dep) (all : List LoadStep) (s : LoadStep) (p : String × Mapping)
    (h : mappingOfStep deps all s = .ok p) :
    ∃ rt, findRecordTypeColumn s.table s.fields = .ok rt ∧ p.1 = stepName s ∧
      p.2.sfObject = sfObjectOf s.table ∧ p.2.table = s.table ∧
      p.2.fields = plainFields deps s.table s.fields rt ∧
      p.2.lookups = lookupsOf deps s.table s.fields := by
  unfold mappingOfStep at h
  split at h
  · exact absurd h (by simp)
  · rename_i rt hrt
    injection h with h
    subst h
    exact ⟨rt, hrt, rfl, rfl, rfl, rfl, rfl⟩

theorem mappingOfStep_error (deps : List Dep) (all : List LoadStep) (s : LoadStep) (e : Err)
    (h : mappingOfStep deps all s = .error e) : e = .multipleRecordTypes s.table := by
  unfold mappingOfStep at h
  split at h
  · rename_i e' he'
    injection h with h
    subst h
    unfold findRecordTypeColumn at he'
    split at he' <;> simp_all
  · exact absurd h (by simp)

theorem lookupsOf_fields (deps : List Dep) (table : String) :
    ∀ (fields : List String),
      (lookupsOf deps table fields).map Lookup.field = fields.filter (isRef deps table)
  | [] => by simp [lookupsOf]
  | f :: fs => by
    have ih := lookupsOf_fields deps table fs
    unfold lookupsOf at ih ⊢
    cases hr : refTarget deps table f with
    | none => simp [isRef, hr, ih]
    | some tgt => simp [isRef, hr, ih]

theorem lookupsOf_mem (deps : List Dep) (table : String) (fields : List String) (l : Lookup)
    (h : l ∈ lookupsOf deps table fields) :
    l.field ∈ fields ∧ refTarget deps table l.field = some l.table ∧ l.after = none := by
  unfold lookupsOf at h
  obtain ⟨f, hf, hm⟩ := List.mem_filterMap.mp h
  cases hr : refTarget deps table f with
  | none => rw [hr] at hm; simp at hm
  | some tgt =>
    rw [hr] at hm
    simp only [Option.map_some, Option.some.injEq] at hm
    subst hm
    exact ⟨hf, hr, rfl⟩

theorem recordType_unique (table : String) (fields : List String) (c : String)
    (h : findRecordTypeColumn table fields = .ok (some c)) :
    fields.filter isRecordTypeName = [c] := by
  unfold findRecordTypeColumn at h
  split at h <;> simp_all

theorem recordType_none (table : String) (fields : List String)
    (h : findRecordTypeColumn table fields = .ok none) :
    fields.filter isRecordTypeName = [] := by
  unfold findRecordTypeColumn at h
  split at h <;> simp_all

theorem isRecordTypeName_RecordTypeId : isRecordTypeName "RecordTypeId" = true := by decide

theorem plainFields_none (deps : List Dep) (table : String) (fields : List String) :
    plainFields deps table fields none =
      (fields.filter (fun f => !isRef deps table f)).map (fun f => (f, f)) := by
  unfold plainFields
  have h : ∀ f : String, (some f != (none : Option String)) = true := fun f => by simp
  simp [h]

theorem plainFields_some_ref (deps : List Dep) (table : String) (fields : List String) (c : String)
    (hc : isRef deps table c = true) :
    plainFields deps table fields (some c) =
      (fields.filter (fun f => !isRef deps table f)).map (fun f => (f, f)) := by
  unfold plainFields
  simp only [hc, if_true]
  congr 1
  apply List.filter_congr
  intro x _
  by_cases hx : x = c
  · subst hx; simp [hc]
  · have h1 : (some x != some c) = true := by simp [hx]
    rw [h1, Bool.and_true]

theorem plainFields_some (deps : List Dep) (table : String) (fields : List String) (c : String)
    (h : fields.filter isRecordTypeName = [c]) (hc : isRef deps table c = false) :
    plainFields deps table fields (some c) =
      (fields.filter (fun f => !isRef deps table f && f != c)).map (fun f => (f, f))
        ++ [("RecordTypeId", c)] := by
  unfold plainFields
  simp only [hc, Bool.false_eq_true, if_false]
  have hfilt : (fields.filter (fun f => !isRef deps table f && some f != some c))
      = fields.filter (fun f => !isRef deps table f && f != c) := by
    apply List.filter_congr
    intro x _
    by_cases hx : x = c
    · subst hx; simp
    · have h1 : (some x != some c) = true := by simp [hx]
      have h2 : (x != c) = true := by simp [hx]
      rw [h1, h2]
  rw [hfilt]
  apply dictInsert_fresh
  intro p hp
  obtain ⟨f, hf, e⟩ := List.mem_map.mp hp
  subst e
  intro hfe
  have hfe : f = "RecordTypeId" := hfe
  have hf' := List.mem_filter.mp hf
  have hin : f ∈ fields.filter isRecordTypeName :=
    List.mem_filter.mpr ⟨hf'.1, by rw [hfe]; exact isRecordTypeName_RecordTypeId⟩
  rw [h, List.mem_singleton] at hin
  have := hf'.2
  simp [hin] at this

theorem filter_eq_singleton_of_recordType (fields : List String) (c : String)
    (h : fields.filter isRecordTypeName = [c]) : fields.filter (fun f => f == c) = [c] := by
  have hc : isRecordTypeName c = true := by
    have : c ∈ fields.filter isRecordTypeName := by rw [h]; simp
    exact (List.mem_filter.mp this).2
  have : fields.filter (fun f => f == c) = (fields.filter isRecordTypeName).filter (fun f => f == c) := by
    rw [List.filter_filter]
    apply List.filter_congr
    intro x _
    by_cases hx : x = c <;> simp [hx, hc]
  rw [this, h]
  simp

/-- columns of the plain fields + lookup fields = the step's fields (as a multiset) -/
theorem partition_perm (deps : List Dep) (table : String) (fields : List String) (rt : Option String)
    (hrt : findRecordTypeColumn table fields = .ok rt) :
    ((plainFields deps table fields rt).map Prod.snd ++
        (lookupsOf deps table fields).map Lookup.field).Perm fields := by
  rw [lookupsOf_fields]
  have hmapid : ∀ l : List String, List.map (Prod.snd ∘ fun f => (f, f)) l = l := by
    intro l; simp [Function.comp_def]
  cases rt with
  | none =>
    rw [plainFields_none]
    simp only [List.map_map]
    rw [hmapid]
    exact (List.perm_append_comm).trans (List.filter_append_perm _ _)
  | some c =>
    have huniq := recordType_unique table fields c hrt
    cases hcn : isRef deps table c with
    | true =>
      rw [plainFields_some_ref deps table fields c hcn]
      simp only [List.map_map]
      rw [hmapid]
      exact (List.perm_append_comm).trans (List.filter_append_perm _ _)
    | false =>
      rw [plainFields_some deps table fields c huniq hcn]
      simp only [List.map_append, List.map_map, List.map_cons, List.map_nil]
      rw [hmapid]
      -- non-reference fields = (those ≠ c) ++ [c]
      have hsplit : (fields.filter (fun f => !isRef deps table f && f != c) ++ [c]).Perm
          (fields.filter (fun f => !isRef deps table f)) := by
        have hc := filter_eq_singleton_of_recordType fields c huniq
        have e2 : (fields.filter (fun f => !isRef deps table f)).filter (fun f => f == c) = [c] := by
          rw [List.filter_filter]
          rw [← hc]
          apply List.filter_congr
          intro x _
          by_cases hx : x = c <;> simp [hx, hcn]
        have e1 : (fields.filter (fun f => !isRef deps table f)).filter (fun f => !(f == c))
            = fields.filter (fun f => !isRef deps table f && f != c) := by
          rw [List.filter_filter]
          apply List.filter_congr
          intro x _
          cases h1 : (x == c) <;> cases h2 : isRef deps table x <;> simp [bne, h1]
        have := List.filter_append_perm (fun f => f == c) (fields.filter (fun f => !isRef deps table f))
        rw [e2, e1] at this
        exact (List.perm_append_comm).trans this
      exact ((hsplit.append_right _).trans
        ((List.perm_append_comm).trans (List.filter_append_perm _ _)))

theorem plainFields_mem (deps : List Dep) (table : String) (fields : List String) (rt : Option String)
    (hrt : findRecordTypeColumn table fields = .ok rt) (kv : String × String)
    (h : kv ∈ plainFields deps table fields rt) :
    (kv.1 = kv.2 ∧ kv.2 ∈ fields ∧ isRef deps table kv.2 = false) ∨
      (kv.1 = "RecordTypeId" ∧ rt = some kv.2 ∧ isRef deps table kv.2 = false) := by
  have hbase : ∀ p : String → Bool, kv ∈ (fields.filter (fun f => !isRef deps table f && p f)).map (fun f => (f, f)) →
      (kv.1 = kv.2 ∧ kv.2 ∈ fields ∧ isRef deps table kv.2 = false) := by
    intro p hkv
    obtain ⟨f, hf, e⟩ := List.mem_map.mp hkv
    subst e
    have := List.mem_filter.mp hf
    simp only [Bool.and_eq_true, Bool.not_eq_true'] at this
    exact ⟨rfl, this.1, this.2.1⟩
  cases rt with
  | none =>
    rw [plainFields_none] at h
    have h' : kv ∈ (fields.filter (fun f => !isRef deps table f && (fun _ => true) f)).map (fun f => (f, f)) := by
      simpa using h
    exact Or.inl (hbase _ h')
  | some c =>
    cases hcn : isRef deps table c with
    | true =>
      rw [plainFields_some_ref deps table fields c hcn] at h
      have h' : kv ∈ (fields.filter (fun f => !isRef deps table f && (fun _ => true) f)).map (fun f => (f, f)) := by
        simpa using h
      exact Or.inl (hbase _ h')
    | false =>
      rw [plainFields_some deps table fields c (recordType_unique table fields c hrt) hcn] at h
      rcases List.mem_append.mp h with h | h
      · exact Or.inl (hbase (fun f => f != c) h)
      · simp only [List.mem_singleton] at h
        subst h
        exact Or.inr ⟨rfl, rfl, hcn⟩

/-! ### the dict of mappings -/

theorem mappingsOfSteps_spec (deps : List Dep) (all : List LoadStep) :
    ∀ (steps : List LoadStep) (acc ms : List (String × Mapping)),
      (acc.map Prod.fst ++ steps.map stepName).Nodup →
      mappingsOfSteps deps all steps acc = .ok ms →
      ∃ new, ms = acc ++ new ∧ List.Forall₂ (fun s p => mappingOfStep deps all s = .ok p) steps new
  | [], acc, ms, _, h => by
    simp only [mappingsOfSteps, Except.ok.injEq] at h
    exact ⟨[], by simp [h], List.Forall₂.nil⟩
  | s :: rest, acc, ms, hnd, h => by
    unfold mappingsOfSteps at h
    split at h
    · exact absurd h (by simp)
    · rename_i n m hsm
      obtain ⟨rt, _, hname, _⟩ := mappingOfStep_ok deps all s (n, m) hsm
      simp only at hname
      have hfresh : ∀ p ∈ acc, p.1 ≠ n := by
        intro p hp e
        have hnd' := List.nodup_append.mp hnd
        exact hnd'.2.2 p.1 (List.mem_map.mpr ⟨p, hp, rfl⟩) (stepName s) (by simp) (by rw [e, hname])
      rw [dictInsert_fresh n m acc hfresh] at h
      have hnd2 : ((acc ++ [(n, m)]).map Prod.fst ++ rest.map stepName).Nodup := by
        simp only [List.map_append, List.map_cons, List.map_nil, List.append_assoc,
          List.singleton_append]
        rw [hname]
        simpa using hnd
      obtain ⟨new, hms, hf⟩ := mappingsOfSteps_spec deps all rest (acc ++ [(n, m)]) ms hnd2 h
      exact ⟨(n, m) :: new, by simp [hms], List.Forall₂.cons hsm hf⟩

theorem mappingsOfSteps_error (deps : List Dep) (all : List LoadStep) :
    ∀ (steps : List LoadStep) (acc : List (String × Mapping)) (e : Err),
      mappingsOfSteps deps all steps acc = .error e → ∃ s ∈ steps, e = .multipleRecordTypes s.table
  | [], acc, e, h => by simp [mappingsOfSteps] at h
  | s :: rest, acc, e, h => by
    unfold mappingsOfSteps at h
    split at h
    · rename_i e' he'
      injection h with h
      subst h
      exact ⟨s, by simp, mappingOfStep_error deps all s _ he'⟩
    · obtain ⟨s', hs', he⟩ := mappingsOfSteps_error deps all rest _ e h
      exact ⟨s', by simp [hs'], he⟩

/-! ### `add_after_statements` -/

/-- what `_index_by_sobject` looks at -/
def proj (p : String × Mapping) : String × String := (p.1, p.2.sfObject)

theorem firstInstance_congr (ms ms' : List (String × Mapping)) (h : ms.map proj = ms'.map proj)
    (sobj : String) : firstInstance ms sobj = firstInstance ms' sobj := by
  have e : ∀ l : List (String × Mapping),
      firstInstance l sobj = (l.map proj).findIdx? (fun q => q.2 == sobj) := by
    intro l
    unfold firstInstance
    rw [List.findIdx?_map]
    rfl
  rw [e, e, h]

theorem lastStepName_congr (ms ms' : List (String × Mapping)) (h : ms.map proj = ms'.map proj)
    (sobj : String) : lastStepName ms sobj = lastStepName ms' sobj := by
  have e : ∀ l : List (String × Mapping),
      lastStepName l sobj = (((l.map proj).reverse.find? (fun q => q.2 == sobj)).map (fun q => q.1)) := by
    intro l
    unfold lastStepName
    rw [← List.map_reverse, List.find?_map, Option.map_map]
    rfl
  rw [e, e, h]

/-- what the post-process does to one lookup (it cannot fail) -/
theorem addAfterLookup_spec (ms : List (String × Mapping)) (idx : Nat) (l : Lookup) :
    (addAfterLookup ms idx l).field = l.field ∧ (addAfterLookup ms idx l).table = l.table ∧
      (l.table ≠ "PersonContact" →
        ((firstInstance ms l.table = none ∨ lastStepName ms l.table = none) ∧
            addAfterLookup ms idx l = l) ∨
        ∃ fi ln, firstInstance ms l.table = some fi ∧ lastStepName ms l.table = some ln ∧
          (l.after = none → fi < idx ∨ (addAfterLookup ms idx l).after = some ln)) := by
  unfold addAfterLookup
  by_cases hpc : l.table = "PersonContact"
  · simp [hpc]
  · have hb : (l.table == "PersonContact") = false := by simpa using hpc
    simp only [hb, Bool.false_eq_true, if_false]
    cases hfi : firstInstance ms l.table with
    | none => exact ⟨rfl, rfl, fun _ => Or.inl ⟨Or.inl rfl, rfl⟩⟩
    | some fi =>
      cases hln : lastStepName ms l.table with
      | none => exact ⟨rfl, rfl, fun _ => Or.inl ⟨Or.inr rfl, rfl⟩⟩
      | some ln =>
        simp only
        by_cases hge : fi ≥ idx
        · simp only [hge, if_true]
          by_cases hsome : l.after.isSome
          · simp only [hsome, if_true]
            refine ⟨trivial, trivial, fun _ => Or.inr ⟨fi, ln, rfl, rfl, ?_⟩⟩
            intro hnone; rw [hnone] at hsome; exact absurd hsome (by simp)
          · simp only [hsome, Bool.false_eq_true, if_false]
            exact ⟨trivial, trivial, fun _ => Or.inr ⟨fi, ln, rfl, rfl, fun _ => Or.inr rfl⟩⟩
        · simp only [hge, if_false]
          have : fi < idx := by omega
          exact ⟨trivial, trivial, fun _ => Or.inr ⟨fi, ln, rfl, rfl, fun _ => Or.inl this⟩⟩

theorem addAfterFrom_spec (ms : List (String × Mapping)) :
    ∀ (l : List (String × Mapping)) (idx : Nat) (i : Nat),
      (addAfterFrom ms idx l)[i]? =
        (l[i]?).map (fun p => (p.1, { p.2 with lookups := p.2.lookups.map (addAfterLookup ms (idx + i)) }))
  | [], idx, i => by simp [addAfterFrom]
  | (n, m) :: rest, idx, i => by
    cases i with
    | zero => simp [addAfterFrom]
    | succ i =>
      have ih := addAfterFrom_spec ms rest (idx + 1) i
      have e : idx + (i + 1) = idx + 1 + i := by omega
      simp only [addAfterFrom, List.getElem?_cons_succ, ih, e]

theorem addAfterFrom_proj (ms : List (String × Mapping)) :
    ∀ (l : List (String × Mapping)) (idx : Nat), (addAfterFrom ms idx l).map proj = l.map proj
  | [], idx => rfl
  | (n, m) :: rest, idx => by
    simp only [addAfterFrom, List.map_cons, addAfterFrom_proj ms rest (idx + 1)]
    rfl

theorem firstInstance_none (ms : List (String × Mapping)) (sobj : String) :
    firstInstance ms sobj = none ↔ ∀ p ∈ ms, p.2.sfObject ≠ sobj := by
  unfold firstInstance
  rw [List.findIdx?_eq_none_iff]
  simp

theorem lastStepName_none (ms : List (String × Mapping)) (sobj : String) :
    lastStepName ms sobj = none ↔ ∀ p ∈ ms, p.2.sfObject ≠ sobj := by
  unfold lastStepName
  rw [Option.map_eq_none_iff, List.find?_eq_none]
  simp

/-! ### more glue -/

theorem dictInsert_mem {κ β} [DecidableEq κ] (k : κ) (v : β) :
    ∀ (acc : List (κ × β)) (p : κ × β), p ∈ dictInsert k v acc → p = (k, v) ∨ p ∈ acc
  | [], p, h => by simp [dictInsert] at h; exact Or.inl h
  | (k', v') :: rest, p, h => by
    simp only [dictInsert] at h
    split at h
    · rcases List.mem_cons.mp h with e | e
      · exact Or.inl e
      · exact Or.inr (by simp [e])
    · rcases List.mem_cons.mp h with e | e
      · exact Or.inr (by simp [e])
      · rcases dictInsert_mem k v rest p e with e' | e'
        · exact Or.inl e'
        · exact Or.inr (by simp [e'])

theorem mappingsOfSteps_mem (deps : List Dep) (all : List LoadStep) :
    ∀ (steps : List LoadStep) (acc ms : List (String × Mapping)),
      mappingsOfSteps deps all steps acc = .ok ms →
      ∀ p ∈ ms, p ∈ acc ∨ ∃ s ∈ steps, mappingOfStep deps all s = .ok p
  | [], acc, ms, h, p, hp => by
    simp only [mappingsOfSteps, Except.ok.injEq] at h
    subst h
    exact Or.inl hp
  | s :: rest, acc, ms, h, p, hp => by
    unfold mappingsOfSteps at h
    split at h
    · exact absurd h (by simp)
    · rename_i n m hsm
      rcases mappingsOfSteps_mem deps all rest _ ms h p hp with h1 | ⟨s', hs', h2⟩
      · rcases dictInsert_mem n m acc p h1 with e | e
        · exact Or.inr ⟨s, by simp, by rw [e]; exact hsm⟩
        · exact Or.inl e
      · exact Or.inr ⟨s', by simp [hs'], h2⟩

theorem forall2_mem_right {α β} {R : α → β → Prop} :
    ∀ {a : List α} {b : List β}, List.Forall₂ R a b → ∀ y ∈ b, ∃ x ∈ a, R x y
  | _, _, List.Forall₂.nil, y, hy => absurd hy List.not_mem_nil
  | _, _, List.Forall₂.cons h t, y, hy => by
    rcases List.mem_cons.mp hy with e | e
    · subst e; exact ⟨_, by simp, h⟩
    · obtain ⟨x, hx, hr⟩ := forall2_mem_right t y e
      exact ⟨x, by simp [hx], hr⟩

theorem forall2_comp {α β γ} {R : α → β → Prop} {S : β → γ → Prop} :
    ∀ {a : List α} {b : List β} {c : List γ}, List.Forall₂ R a b → List.Forall₂ S b c →
      List.Forall₂ (fun x z => ∃ y, R x y ∧ S y z) a c
  | _, _, _, List.Forall₂.nil, List.Forall₂.nil => List.Forall₂.nil
  | _, _, _, List.Forall₂.cons h t, List.Forall₂.cons h' t' =>
    List.Forall₂.cons ⟨_, h, h'⟩ (forall2_comp t t')

/-- index-free view of `add_after_statements`: only the `after` of lookups changes -/
def SameButAfter (p o : String × Mapping) : Prop :=
  o.1 = p.1 ∧ o.2.sfObject = p.2.sfObject ∧ o.2.table = p.2.table ∧ o.2.fields = p.2.fields ∧
    o.2.upsertKey = p.2.upsertKey ∧ o.2.filters = p.2.filters ∧
    o.2.lookups.map (fun l => (l.field, l.table)) = p.2.lookups.map (fun l => (l.field, l.table))

theorem addAfterLookups_keys (ms : List (String × Mapping)) (idx : Nat) (ls : List Lookup) :
    (ls.map (addAfterLookup ms idx)).map (fun l => (l.field, l.table)) = ls.map (fun l => (l.field, l.table)) := by
  rw [List.map_map]
  apply List.map_congr_left
  intro l _
  have := addAfterLookup_spec ms idx l
  simp only [Function.comp, this.1, this.2.1]

theorem addAfterFrom_same (ms : List (String × Mapping)) :
    ∀ (l : List (String × Mapping)) (idx : Nat), List.Forall₂ SameButAfter l (addAfterFrom ms idx l)
  | [], idx => List.Forall₂.nil
  | (n, m) :: rest, idx => by
    simp only [addAfterFrom]
    refine List.Forall₂.cons ?_ (addAfterFrom_same ms rest (idx + 1))
    exact ⟨rfl, rfl, rfl, rfl, rfl, rfl, addAfterLookups_keys ms idx _⟩

/-! ### the pipeline -/

theorem mappingFromRecipe_ok (tables : List TableInfo) (deps : List Dep) (decls : List Decl)
    (out : List (String × Mapping)) (h : mappingFromRecipe tables deps decls = .ok out) :
    ∃ order steps ms, preMapping tables deps decls = .ok (order, steps, ms) ∧
      addAfterStatements ms = out := by
  unfold mappingFromRecipe at h
  cases hp : preMapping tables deps decls with
  | error e => rw [hp] at h; simp at h
  | ok v =>
    obtain ⟨order, steps, ms⟩ := v
    rw [hp] at h
    simp only [Except.ok.injEq] at h
    exact ⟨order, steps, ms, rfl, h⟩

theorem preMapping_ok (tables : List TableInfo) (deps : List Dep) (decls : List Decl)
    (order : List String) (steps : List LoadStep) (ms : List (String × Mapping))
    (h : preMapping tables deps decls = .ok (order, steps, ms)) :
    tableOrder tables deps decls = some order ∧
      loadSteps (removePersonContactField tables) order = .ok steps ∧
      mappingsOfSteps deps steps steps [] = .ok ms := by
  unfold preMapping at h
  simp only at h
  cases ho : tableOrder tables deps decls with
  | none => rw [ho] at h; simp at h
  | some o =>
    rw [ho] at h
    simp only at h
    cases hs : loadSteps (removePersonContactField tables) o with
    | error e => rw [hs] at h; simp at h
    | ok st =>
      rw [hs] at h
      simp only at h
      cases hm : mappingsOfSteps deps st st [] with
      | error e => rw [hm] at h; simp at h
      | ok m =>
        rw [hm] at h
        simp only [Except.ok.injEq, Prod.mk.injEq] at h
        obtain ⟨rfl, rfl, rfl⟩ := h
        exact ⟨rfl, hs, hm⟩

theorem removePersonContactField_names (tables : List TableInfo) :
    (removePersonContactField tables).map (fun t => t.name) = tables.map (fun t => t.name) := by
  unfold removePersonContactField
  rw [List.map_map]
  apply List.map_congr_left
  intro t _
  simp only [Function.comp]
  split <;> rfl

/-! ### totality glue -/

theorem findRecordTypeColumn_ok_of_le_one (table : String) (fields : List String)
    (h : (fields.filter isRecordTypeName).length ≤ 1) :
    ∃ rt, findRecordTypeColumn table fields = .ok rt := by
  unfold findRecordTypeColumn
  cases hf : fields.filter isRecordTypeName with
  | nil => exact ⟨none, rfl⟩
  | cons c rest =>
    cases rest with
    | nil => exact ⟨some c, rfl⟩
    | cons d r => rw [hf] at h; simp at h

theorem mappingOfStep_total (deps : List Dep) (all : List LoadStep) (s : LoadStep)
    (h : (s.fields.filter isRecordTypeName).length ≤ 1) : ∃ p, mappingOfStep deps all s = .ok p := by
  obtain ⟨rt, hrt⟩ := findRecordTypeColumn_ok_of_le_one s.table s.fields h
  unfold mappingOfStep
  rw [hrt]
  exact ⟨_, rfl⟩

theorem mappingsOfSteps_total (deps : List Dep) (all : List LoadStep) :
    ∀ (steps : List LoadStep) (acc : List (String × Mapping)),
      (∀ s ∈ steps, (s.fields.filter isRecordTypeName).length ≤ 1) →
      ∃ ms, mappingsOfSteps deps all steps acc = .ok ms
  | [], acc, _ => ⟨acc, rfl⟩
  | s :: rest, acc, h => by
    obtain ⟨p, hp⟩ := mappingOfStep_total deps all s (h s (by simp))
    obtain ⟨n, m⟩ := p
    unfold mappingsOfSteps
    rw [hp]
    exact mappingsOfSteps_total deps all rest _ (fun s' hs' => h s' (by simp [hs']))

theorem removePersonContactField_fields (tables : List TableInfo) (t : TableInfo)
    (ht : t ∈ removePersonContactField tables) :
    ∃ t0 ∈ tables, t.name = t0.name ∧ t.fields.Sublist t0.fields := by
  unfold removePersonContactField at ht
  obtain ⟨t0, ht0, e⟩ := List.mem_map.mp ht
  refine ⟨t0, ht0, ?_⟩
  split at e
  · subst e; exact ⟨rfl, List.filter_sublist⟩
  · subst e; exact ⟨rfl, List.Sublist.refl _⟩

end SnowModel.Proofs.C16
