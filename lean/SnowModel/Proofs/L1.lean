import SnowModel.Core.IdMachine

/-!
Helper lemmas for the L1 id machine (Props/C01, C02, C06).
-/
namespace SnowModel.IdMachine

/-! ### `upd` -/

@[simp] theorem upd_same {α : Type} (f : Name → α) (k : Name) (v : α) : upd f k v k = v := by
  simp [upd]

theorem upd_ne {α : Type} (f : Name → α) {k x : Name} (v : α) (h : x ≠ k) : upd f k v x = f x := by
  simp [upd, h]

/-! ### `lookup` in the name list -/

theorem lookup_mem {ns : List (Name × Name)} {n t : Name} (h : ns.lookup n = some t) :
    (n, t) ∈ ns := by
  induction ns with
  | nil => simp at h
  | cons p ns ih =>
    obtain ⟨a, b⟩ := p
    by_cases hna : n = a
    · subst hna
      simp at h
      simp [h]
    · have : (n == a) = false := by simpa using hna
      simp [List.lookup_cons, this] at h
      exact List.mem_cons_of_mem _ (ih h)

theorem tableOf_mem {s : St} {n t : Name} (h : tableOf s n = some t) : (n, t) ∈ s.names :=
  lookup_mem h

/-! ### allocated ids as a function of the slot map -/

/-- contribution of one name (bound to table `t`, slot state `v`) to the allocated ids of `T` -/
def ent (v : SlotSt) (t T : Name) : List Nat :=
  if t = T then (match v with | .alloc i => [i] | _ => []) else []

def allocL (ns : List (Name × Name)) (slot : Name → SlotSt) (T : Name) : List Nat :=
  ns.filterMap (fun p =>
    if p.2 = T then (match slot p.1 with | .alloc i => some i | _ => none) else none)

theorem allocIds_eq (s : St) (T : Name) : allocIds s T = allocL s.names s.slot T := rfl

theorem allocL_cons (p : Name × Name) (ns : List (Name × Name)) (slot : Name → SlotSt) (T : Name) :
    allocL (p :: ns) slot T = ent (slot p.1) p.2 T ++ allocL ns slot T := by
  unfold allocL ent
  rw [List.filterMap_cons]
  by_cases h : p.2 = T
  · cases hv : slot p.1 <;> simp [h]
  · simp [h]

theorem allocL_upd_notin (ns : List (Name × Name)) (slot : Name → SlotSt) (n : Name) (v : SlotSt)
    (T : Name) (h : n ∉ ns.map Prod.fst) : allocL ns (upd slot n v) T = allocL ns slot T := by
  induction ns with
  | nil => rfl
  | cons p ns ih =>
    simp only [List.map_cons, List.mem_cons, not_or] at h
    rw [allocL_cons, allocL_cons, ih h.2, upd_ne _ _ (Ne.symm h.1)]

theorem allocL_upd_perm (ns : List (Name × Name)) (slot : Name → SlotSt) (n t : Name) (v : SlotSt)
    (T : Name) (hnd : (ns.map Prod.fst).Nodup) (hm : (n, t) ∈ ns) :
    (ent (slot n) t T ++ allocL ns (upd slot n v) T).Perm (ent v t T ++ allocL ns slot T) := by
  induction ns with
  | nil => simp at hm
  | cons p ns ih =>
    simp only [List.map_cons, List.nodup_cons] at hnd
    rw [allocL_cons, allocL_cons]
    rcases List.mem_cons.1 hm with hp | hm'
    · subst hp
      simp only [upd_same]
      rw [allocL_upd_notin _ _ _ _ _ hnd.1]
      exact List.perm_append_comm_assoc _ _ _
    · have hne : p.1 ≠ n := by
        intro he
        apply hnd.1
        rw [he]
        exact List.mem_map.2 ⟨(n, t), hm', rfl⟩
      rw [upd_ne _ _ hne]
      refine (List.perm_append_comm_assoc _ _ _).trans ?_
      refine (List.Perm.append_left _ (ih hnd.2 hm')).trans ?_
      exact List.perm_append_comm_assoc _ _ _

theorem mem_allocL {ns : List (Name × Name)} {slot : Name → SlotSt} {n t : Name} {i : Nat}
    (hm : (n, t) ∈ ns) (hs : slot n = .alloc i) : i ∈ allocL ns slot t := by
  unfold allocL
  rw [List.mem_filterMap]
  exact ⟨(n, t), hm, by simp [hs]⟩

theorem allocL_unused (ns : List (Name × Name)) (T : Name) :
    allocL ns (fun _ => SlotSt.unused) T = [] := by
  unfold allocL
  simp


theorem allocL_nil_of_notFilled {ns : List (Name × Name)} {slot : Name → SlotSt}
    (h : (ns.filter (fun p => match slot p.1 with | .alloc _ => true | _ => false)).map (·.1) = [])
    (T : Name) : allocL ns slot T = [] := by
  unfold allocL
  rw [List.filterMap_eq_nil_iff]
  intro p hp
  rw [List.map_eq_nil_iff, List.filter_eq_nil_iff] at h
  have := h p hp
  cases hv : slot p.1 <;> simp_all

theorem mem_notFilled {s : St} {n t : Name} {i : Nat} (hm : (n, t) ∈ s.names)
    (hs : s.slot n = .alloc i) : n ∈ notFilled s := by
  unfold notFilled
  rw [List.mem_map]
  exact ⟨(n, t), List.mem_filter.2 ⟨hm, by simp [hs]⟩, rfl⟩

/-! ### specifications of `consume`, `generateId` -/

theorem consume_spec {s : St} {n table : Name} {s1 : St} {i : Nat}
    (h : consume s n table = some (s1, i)) :
    tableOf s n = some table ∧ s.slot n = .alloc i ∧
      s1 = { s with slot := upd s.slot n (.consumed i) } := by
  unfold consume at h
  split at h
  · rename_i t j ht hsl
    split at h
    · rename_i htt
      simp only [Option.some.injEq, Prod.mk.injEq] at h
      obtain ⟨h1, h2⟩ := h
      subst h2 htt
      exact ⟨ht, hsl, h1.symm⟩
    · simp at h
  · simp at h

theorem consume_none_of_not_alloc {s : St} {n table : Name}
    (h : ∀ i, s.slot n ≠ .alloc i) : consume s n table = none := by
  unfold consume
  split
  · rename_i t j ht hsl
    exact absurd hsl (h j)
  · rfl

/-- `generateId` either consumes an ALLOCATED slot bound to `table` (the nickname's or the
    table's own) or issues a fresh id. -/
theorem generateId_spec (s : St) (table : Name) (nick : Option Name) :
    (∃ n, (nick = some n ∨ n = table) ∧ tableOf s n = some table ∧
        s.slot n = .alloc (generateId s table nick).2 ∧
        (generateId s table nick).1 =
          { s with slot := upd s.slot n (.consumed (generateId s table nick).2) })
    ∨ generateId s table nick = fresh s table := by
  unfold generateId
  split
  · rename_i r hr
    left
    cases nick with
    | none => simp at hr
    | some n =>
      simp only [Option.bind_some] at hr
      obtain ⟨s1, i⟩ := r
      obtain ⟨h1, h2, h3⟩ := consume_spec hr
      exact ⟨n, Or.inl rfl, h1, h2, h3⟩
  · split
    · rename_i r hr
      left
      obtain ⟨s1, i⟩ := r
      obtain ⟨h1, h2, h3⟩ := consume_spec hr
      exact ⟨table, Or.inr rfl, h1, h2, h3⟩
    · right; rfl


theorem generateId_cases {s s1 : St} {table : Name} {nick : Option Name} {i : Nat}
    (h : generateId s table nick = (s1, i)) :
    (∃ n, (nick = some n ∨ n = table) ∧ tableOf s n = some table ∧ s.slot n = .alloc i ∧
        s1 = { s with slot := upd s.slot n (.consumed i) })
    ∨ (s1 = { s with lastUsed := upd s.lastUsed table (s.lastUsed table + 1) } ∧
        i = s.lastUsed table + 1) := by
  have := generateId_spec s table nick
  rw [h] at this
  rcases this with h1 | h2
  · exact Or.inl h1
  · right
    unfold fresh at h2
    simp only [Prod.mk.injEq] at h2
    exact ⟨h2.1, h2.2⟩

/-! ### `register` and the `create` step -/

/-- the state after `create table nick justOnce` -/
def createSt (s : St) (table : Name) (nick : Option Name) (justOnce : Bool) : St :=
  let g := generateId s table nick
  let s2 := register g.1 ⟨table, g.2⟩ nick justOnce
  { s2 with created := s2.created ++ [⟨table, g.2⟩] }

theorem step_create (s : St) (table : Name) (nick : Option Name) (j : Bool) :
    step s (.create table nick j)
      = .ok (createSt s table nick j, .id (generateId s table nick).2) := rfl

theorem register_names (s r nick j) : (register s r nick j).names = s.names := by
  cases nick <;> cases j <;> rfl
theorem register_lastUsed (s r nick j) : (register s r nick j).lastUsed = s.lastUsed := by
  cases nick <;> cases j <;> rfl
theorem register_startIds (s r nick j) : (register s r nick j).startIds = s.startIds := by
  cases nick <;> cases j <;> rfl
theorem register_slot (s r nick j) : (register s r nick j).slot = s.slot := by
  cases nick <;> cases j <;> rfl
theorem register_created (s r nick j) : (register s r nick j).created = s.created := by
  cases nick <;> cases j <;> rfl
theorem register_handedOut (s r nick j) : (register s r nick j).handedOut = s.handedOut := by
  cases nick <;> cases j <;> rfl

theorem createSt_names (s t nick j) : (createSt s t nick j).names = (generateId s t nick).1.names :=
  register_names ..
theorem createSt_lastUsed (s t nick j) :
    (createSt s t nick j).lastUsed = (generateId s t nick).1.lastUsed := register_lastUsed ..
theorem createSt_startIds (s t nick j) :
    (createSt s t nick j).startIds = (generateId s t nick).1.startIds := register_startIds ..
theorem createSt_slot (s t nick j) : (createSt s t nick j).slot = (generateId s t nick).1.slot :=
  register_slot ..
theorem createSt_handedOut (s t nick j) :
    (createSt s t nick j).handedOut = (generateId s t nick).1.handedOut := register_handedOut ..
theorem createSt_created (s t nick j) :
    (createSt s t nick j).created
      = (generateId s t nick).1.created ++ [⟨t, (generateId s t nick).2⟩] := by
  unfold createSt
  simp only [register_created]

/-! ### the id invariant -/

def createdL (cr : List Row) (T : Name) : List Nat := (cr.filter (·.table = T)).map (·.id)

theorem createdIds_eq (s : St) (T : Name) : createdIds s T = createdL s.created T := rfl

theorem createdL_snoc (cr : List Row) (t : Name) (i : Nat) (T : Name) :
    createdL (cr ++ [⟨t, i⟩]) T = createdL cr T ++ ent (.alloc i) t T := by
  unfold createdL ent
  by_cases h : t = T <;> simp [List.filter_append, h]

theorem mem_createdL {cr : List Row} {r : Row} (h : r ∈ cr) : r.id ∈ createdL cr r.table := by
  unfold createdL
  rw [List.mem_map]
  exact ⟨r, List.mem_filter.2 ⟨h, by simp⟩, rfl⟩

/-- component form of the invariant -/
def GoodC (ns : List (Name × Name)) (slot : Name → SlotSt) (cr : List Row) (lu : Name → Nat) : Prop :=
  ∀ T, (createdL cr T ++ allocL ns slot T).Perm (List.range' 1 (lu T))

def GoodP (s : St) : Prop := ∀ T, (createdIds s T ++ allocIds s T).Perm (List.range' 1 (s.lastUsed T))

theorem goodP_iff (s : St) : GoodP s ↔ GoodC s.names s.slot s.created s.lastUsed := Iff.rfl

theorem perm_fresh {A B : List Nat} {lu : Name → Nat} (t T : Name)
    (h : (A ++ B).Perm (List.range' 1 (lu T))) :
    (A ++ (ent (.alloc (lu t + 1)) t T ++ B)).Perm
      (List.range' 1 (upd lu t (lu t + 1) T)) := by
  unfold ent
  by_cases htT : t = T
  · subst htT
    simp only [if_true, upd_same]
    rw [List.range'_1_concat, Nat.add_comm 1]
    refine List.Perm.trans ?_ (List.Perm.append_right _ h)
    simp only [List.append_assoc]
    exact List.Perm.append_left _ List.perm_append_comm
  · have : T ≠ t := fun e => htT e.symm
    simp only [htT, if_false, List.nil_append, upd_ne _ _ this]
    exact h

theorem goodC_consume {ns slot cr lu} {n table : Name} {i : Nat}
    (hnd : (ns.map Prod.fst).Nodup) (h : GoodC ns slot cr lu) (hm : (n, table) ∈ ns)
    (hs : slot n = .alloc i) :
    GoodC ns (upd slot n (.consumed i)) (cr ++ [⟨table, i⟩]) lu := by
  intro T
  rw [createdL_snoc, List.append_assoc]
  have := allocL_upd_perm ns slot n table (.consumed i) T hnd hm
  rw [hs] at this
  have e : ent (.consumed i) table T = [] := by unfold ent; simp
  rw [e, List.nil_append] at this
  exact (List.Perm.append_left _ this).trans (h T)

theorem goodC_fresh_create {ns slot cr lu} (table : Name) (h : GoodC ns slot cr lu) :
    GoodC ns slot (cr ++ [⟨table, lu table + 1⟩]) (upd lu table (lu table + 1)) := by
  intro T
  rw [createdL_snoc, List.append_assoc]
  exact perm_fresh table T (h T)

theorem goodC_fresh_slot {ns slot cr lu} {n t : Name}
    (hnd : (ns.map Prod.fst).Nodup) (h : GoodC ns slot cr lu) (hm : (n, t) ∈ ns)
    (hs : slot n = .unused) :
    GoodC ns (upd slot n (.alloc (lu t + 1))) cr (upd lu t (lu t + 1)) := by
  intro T
  have := allocL_upd_perm ns slot n t (.alloc (lu t + 1)) T hnd hm
  rw [hs] at this
  have e : ent .unused t T = [] := by unfold ent; simp
  rw [e, List.nil_append] at this
  exact (List.Perm.append_left _ this).trans (perm_fresh t T (h T))

theorem goodP_create (s : St) (table : Name) (nick : Option Name) (j : Bool)
    (hw : (s.names.map Prod.fst).Nodup) (h : GoodP s) :
    GoodP (createSt s table nick j) ∧ (createSt s table nick j).names = s.names := by
  rw [goodP_iff, createSt_names, createSt_slot, createSt_created, createSt_lastUsed]
  rw [goodP_iff] at h
  rcases hg : generateId s table nick with ⟨s1, i⟩
  rcases generateId_cases hg with ⟨n, _, ht, hsl, rfl⟩ | ⟨rfl, rfl⟩
  · exact ⟨goodC_consume hw h (tableOf_mem ht) hsl, rfl⟩
  · exact ⟨goodC_fresh_create table h, rfl⟩


/-! ### `lookup` -/

theorem lookup_cases (s : St) (name : Name) :
    (∃ r, (s.lastSeen name = some r ∨ s.nickObjs name = some r ∨ s.pTable name = some r ∨
            s.pNick name = some r) ∧
        lookup s name = ({ s with handedOut := r :: s.handedOut }, .row r))
    ∨ (lookup s name = (s, .notFound))
    ∨ (∃ t, tableOf s name = some t ∧ s.slot name = .unused ∧
        lookup s name =
          ({ s with lastUsed := upd s.lastUsed t (s.lastUsed t + 1),
                    slot := upd s.slot name (.alloc (s.lastUsed t + 1)),
                    handedOut := ⟨t, s.lastUsed t + 1⟩ :: s.handedOut },
            .slot ⟨t, s.lastUsed t + 1⟩))
    ∨ (∃ t i, tableOf s name = some t ∧ (s.slot name = .alloc i ∨ s.slot name = .consumed i) ∧
        lookup s name = ({ s with handedOut := ⟨t, i⟩ :: s.handedOut }, .slot ⟨t, i⟩)) := by
  unfold lookup
  cases h1 : s.lastSeen name with
  | some r => exact Or.inl ⟨r, Or.inl rfl, rfl⟩
  | none =>
  cases h2 : s.nickObjs name with
  | some r => exact Or.inl ⟨r, Or.inr (Or.inl rfl), rfl⟩
  | none =>
  cases h3 : s.pTable name with
  | some r => exact Or.inl ⟨r, Or.inr (Or.inr (Or.inl rfl)), rfl⟩
  | none =>
  cases h4 : s.pNick name with
  | some r => exact Or.inl ⟨r, Or.inr (Or.inr (Or.inr rfl)), rfl⟩
  | none =>
  cases h5 : tableOf s name with
  | none => exact Or.inr (Or.inl rfl)
  | some t =>
  cases h6 : s.slot name with
  | unused => exact Or.inr (Or.inr (Or.inl ⟨t, rfl, rfl, rfl⟩))
  | alloc i => exact Or.inr (Or.inr (Or.inr ⟨t, i, rfl, Or.inl rfl, rfl⟩))
  | consumed i => exact Or.inr (Or.inr (Or.inr ⟨t, i, rfl, Or.inr rfl, rfl⟩))

theorem goodP_lookup (s : St) (name : Name) (hw : (s.names.map Prod.fst).Nodup) (h : GoodP s) :
    GoodP (lookup s name).1 ∧ (lookup s name).1.names = s.names := by
  rcases lookup_cases s name with ⟨r, _, e⟩ | e | ⟨t, ht, hsl, e⟩ | ⟨t, i, _, _, e⟩
  · rw [e]; exact ⟨h, rfl⟩
  · rw [e]; exact ⟨h, rfl⟩
  · rw [e]; exact ⟨goodC_fresh_slot hw h (tableOf_mem ht) hsl, rfl⟩
  · rw [e]; exact ⟨h, rfl⟩

theorem goodP_reset (s : St) (h : GoodP s) (hn : notFilled s = []) (f : Name → Option Nat) :
    GoodP (resetSlots s) ∧ GoodP { resetSlots s with startIds := f } := by
  have : GoodC s.names (fun _ => .unused) s.created s.lastUsed := by
    intro T
    have h1 := h T
    rw [allocIds_eq, allocL_nil_of_notFilled hn] at h1
    rw [allocL_unused]
    exact h1
  exact ⟨this, this⟩

theorem step_goodP (s s' : St) (op : Op) (o : Obs) (hw : (s.names.map Prod.fst).Nodup)
    (h : GoodP s) (hs : step s op = .ok (s', o)) : GoodP s' ∧ s'.names = s.names := by
  cases op with
  | create table nick j =>
    rw [step_create] at hs
    cases hs
    exact goodP_create s table nick j hw h
  | lookup name =>
    simp only [step, Except.ok.injEq] at hs
    have := goodP_lookup s name hw h
    rw [hs] at this
    exact this
  | endIteration =>
    simp only [step] at hs
    split at hs
    · rename_i hn
      cases hs
      exact ⟨(goodP_reset s h hn s.startIds).1, rfl⟩
    · cases hs
  | saveLoad =>
    simp only [step] at hs
    split at hs
    · cases hs
    · rename_i hn
      cases hs
      exact ⟨(goodP_reset s h hn _).2, rfl⟩

/-! ### `run` -/

theorem run_cons_ok {s s2 : St} {op : Op} {ops : List Op} {obs : List Obs}
    (h : run s (op :: ops) = .ok (s2, obs)) :
    ∃ s1 o os, step s op = .ok (s1, o) ∧ run s1 ops = .ok (s2, os) ∧ obs = o :: os := by
  simp only [run] at h
  split at h
  · cases h
  · rename_i s1 o hst
    split at h
    · cases h
    · rename_i s2' os hr
      cases h
      exact ⟨s1, o, os, hst, hr, rfl⟩

/-- generic invariant induction over `run` -/
theorem run_invariant (P : St → Prop)
    (hstep : ∀ s s' op o, P s → step s op = .ok (s', o) → P s')
    (s s' : St) (ops : List Op) (obs : List Obs) (h : P s) (hr : run s ops = .ok (s', obs)) :
    P s' := by
  induction ops generalizing s obs with
  | nil => simp only [run, Except.ok.injEq, Prod.mk.injEq] at hr; exact hr.1 ▸ h
  | cons op ops ih =>
    obtain ⟨s1, o, os, hst, hr', _⟩ := run_cons_ok hr
    exact ih s1 os (hstep s s1 op o h hst) hr'

theorem run_append_ok {s s2 : St} {ops1 ops2 : List Op} {obs : List Obs}
    (h : run s (ops1 ++ ops2) = .ok (s2, obs)) :
    ∃ s1 os1 os2, run s ops1 = .ok (s1, os1) ∧ run s1 ops2 = .ok (s2, os2) := by
  induction ops1 generalizing s obs with
  | nil => exact ⟨s, [], obs, rfl, h⟩
  | cons op ops ih =>
    obtain ⟨sa, o, os, hst, hr', _⟩ := run_cons_ok h
    obtain ⟨s1, os1, os2, h1, h2⟩ := ih hr'
    refine ⟨s1, o :: os1, os2, ?_, h2⟩
    simp only [run, hst, h1]

theorem run_single_ok {s s2 : St} {op : Op} {obs : List Obs}
    (h : run s [op] = .ok (s2, obs)) : ∃ o, step s op = .ok (s2, o) := by
  obtain ⟨s1, o, os, hst, hr', _⟩ := run_cons_ok h
  simp only [run, Except.ok.injEq, Prod.mk.injEq] at hr'
  exact ⟨o, hr'.1 ▸ hst⟩

theorem init_goodP (names : List (Name × Name)) : GoodP (init names) := by
  intro T
  show (createdL [] T ++ allocL names (fun _ => .unused) T).Perm (List.range' 1 0)
  rw [allocL_unused]
  simp [createdL]

theorem run_goodP (names : List (Name × Name)) (hw : (names.map Prod.fst).Nodup) (ops : List Op)
    (s : St) (obs : List Obs) (hr : run (init names) ops = .ok (s, obs)) :
    GoodP s ∧ s.names = names := by
  refine run_invariant (fun s => GoodP s ∧ s.names = names) ?_ (init names) s ops obs
    ⟨init_goodP names, rfl⟩ hr
  intro s s' op o ⟨hg, hn⟩ hst
  have := step_goodP s s' op o (hn ▸ hw) hg hst
  exact ⟨this.1, this.2.trans hn⟩

/-! ### the reference / registry invariant (C02, C06) -/

def InReg (s : St) (r : Row) : Prop :=
  ∃ n, s.pNick n = some r ∨ s.pTable n = some r ∨ s.nickObjs n = some r ∨ s.lastSeen n = some r

theorem inReg_register {s : St} {r r' : Row} {nick : Option Name} {j : Bool}
    (h : InReg (register s r nick j) r') : r' = r ∨ InReg s r' := by
  obtain ⟨n, h⟩ := h
  cases nick <;> cases j <;> simp only [register] at h <;> grind [InReg, upd]

/-- the reference invariant -/
def RefP (s : St) : Prop :=
  (∀ r ∈ s.handedOut, r ∈ s.created ∨ ∃ n, tableOf s n = some r.table ∧ s.slot n = .alloc r.id) ∧
  (∀ n t i, tableOf s n = some t → s.slot n = .consumed i → (⟨t, i⟩ : Row) ∈ s.created) ∧
  (∀ r, InReg s r → r ∈ s.created)

theorem tableOf_createSt (s t nick j) (n : Name) :
    tableOf (createSt s t nick j) n = tableOf (generateId s t nick).1 n := by
  unfold tableOf; rw [createSt_names]

theorem refP_create (s : St) (table : Name) (nick : Option Name) (j : Bool) (h : RefP s) :
    RefP (createSt s table nick j) := by
  obtain ⟨h1, h2, h3⟩ := h
  have hreg : ∀ r, InReg (createSt s table nick j) r →
      r = ⟨table, (generateId s table nick).2⟩ ∨ InReg (generateId s table nick).1 r :=
    fun r hr => inReg_register hr
  unfold RefP
  simp only [createSt_handedOut, createSt_created, createSt_slot, tableOf_createSt]
  rcases hg : generateId s table nick with ⟨s1, i⟩
  rw [hg] at hreg
  rcases generateId_cases hg with ⟨n, _, ht, hsl, rfl⟩ | ⟨rfl, rfl⟩
  · refine ⟨?_, ?_, ?_⟩
    · intro r hr
      rcases h1 r hr with hc | ⟨n', ht', hs'⟩
      · left; exact List.mem_append_left _ hc
      · by_cases hnn : n' = n
        · subst hnn
          left
          rw [ht] at ht'; rw [hsl] at hs'
          cases ht'; cases hs'
          simp
        · right; exact ⟨n', ht', by simp only [upd_ne _ _ hnn]; exact hs'⟩
    · intro n' t i' ht' hs'
      by_cases hnn : n' = n
      · subst hnn
        simp only [upd_same] at hs'
        have ht'' : tableOf s n' = some t := ht'
        rw [ht] at ht''
        cases ht''; cases hs'
        simp
      · simp only [upd_ne _ _ hnn] at hs'
        exact List.mem_append_left _ (h2 n' t i' ht' hs')
    · intro r hr
      rcases hreg r hr with rfl | hr'
      · simp
      · exact List.mem_append_left _ (h3 r hr')
  · refine ⟨?_, ?_, ?_⟩
    · intro r hr
      rcases h1 r hr with hc | ⟨n', ht', hs'⟩
      · left; exact List.mem_append_left _ hc
      · right; exact ⟨n', ht', hs'⟩
    · intro n' t i' ht' hs'
      exact List.mem_append_left _ (h2 n' t i' ht' hs')
    · intro r hr
      rcases hreg r hr with rfl | hr'
      · simp
      · exact List.mem_append_left _ (h3 r hr')


theorem refP_lookup (s : St) (name : Name) (h : RefP s) : RefP (lookup s name).1 := by
  obtain ⟨h1, h2, h3⟩ := h
  rcases lookup_cases s name with ⟨r, hr, e⟩ | e | ⟨t, ht, hsl, e⟩ | ⟨t, i, ht, hsl, e⟩
  · rw [e]
    refine ⟨?_, h2, h3⟩
    intro r' hr'
    rcases List.mem_cons.1 hr' with rfl | hr'
    · left
      apply h3
      rcases hr with hr | hr | hr | hr
      · exact ⟨name, Or.inr (Or.inr (Or.inr hr))⟩
      · exact ⟨name, Or.inr (Or.inr (Or.inl hr))⟩
      · exact ⟨name, Or.inr (Or.inl hr)⟩
      · exact ⟨name, Or.inl hr⟩
    · exact h1 r' hr'
  · rw [e]; exact ⟨h1, h2, h3⟩
  · rw [e]
    refine ⟨?_, ?_, h3⟩
    · intro r' hr'
      rcases List.mem_cons.1 hr' with rfl | hr'
      · right; exact ⟨name, ht, upd_same _ _ _⟩
      · rcases h1 r' hr' with hc | ⟨n', ht', hs'⟩
        · exact Or.inl hc
        · right
          refine ⟨n', ht', ?_⟩
          have hnn : n' ≠ name := by
            rintro rfl
            rw [hsl] at hs'; cases hs'
          show upd s.slot name _ n' = _
          rw [upd_ne _ _ hnn]; exact hs'
    · intro n' t' i' ht' hs'
      have hs'' : upd s.slot name (.alloc (s.lastUsed t + 1)) n' = .consumed i' := hs'
      by_cases hnn : n' = name
      · subst hnn
        rw [upd_same] at hs''; cases hs''
      · rw [upd_ne _ _ hnn] at hs''
        exact h2 n' t' i' ht' hs''
  · rw [e]
    refine ⟨?_, h2, h3⟩
    intro r' hr'
    rcases List.mem_cons.1 hr' with rfl | hr'
    · rcases hsl with hsl | hsl
      · right; exact ⟨name, ht, hsl⟩
      · left; exact h2 name t i ht hsl
    · exact h1 r' hr'

theorem refP_reset (s : St) (h : RefP s) (f : Name → Option Nat) :
    RefP (resetSlots s) ∧ RefP { resetSlots s with startIds := f } := by
  obtain ⟨h1, h2, h3⟩ := h
  have key : ∀ r, (∃ n : Name, s.pNick n = some r ∨ s.pTable n = some r ∨
      (none : Option Row) = some r ∨ (none : Option Row) = some r) → r ∈ s.created := by
    rintro r ⟨n, hn | hn | hn | hn⟩
    · exact h3 r ⟨n, Or.inl hn⟩
    · exact h3 r ⟨n, Or.inr (Or.inl hn)⟩
    · cases hn
    · cases hn
  constructor
  · refine ⟨?_, ?_, key⟩
    · intro r hr; cases hr
    · intro n t i _ hs; cases hs
  · refine ⟨?_, ?_, key⟩
    · intro r hr; cases hr
    · intro n t i _ hs; cases hs

theorem step_refP (s s' : St) (op : Op) (o : Obs) (h : RefP s) (hs : step s op = .ok (s', o)) :
    RefP s' := by
  cases op with
  | create table nick j =>
    rw [step_create] at hs
    cases hs
    exact refP_create s table nick j h
  | lookup name =>
    simp only [step, Except.ok.injEq] at hs
    have := refP_lookup s name h
    rw [hs] at this
    exact this
  | endIteration =>
    simp only [step] at hs
    split at hs
    · cases hs
      exact (refP_reset s h s.startIds).1
    · cases hs
  | saveLoad =>
    simp only [step] at hs
    split at hs
    · cases hs
    · cases hs
      exact (refP_reset s h _).2

theorem init_refP (names : List (Name × Name)) : RefP (init names) := by
  refine ⟨?_, ?_, ?_⟩
  · intro r hr; cases hr
  · intro n t i _ hs; cases hs
  · rintro r ⟨n, hn | hn | hn | hn⟩ <;> cases hn

theorem run_refP (names : List (Name × Name)) (ops : List Op) (s : St) (obs : List Obs)
    (hr : run (init names) ops = .ok (s, obs)) : RefP s :=
  run_invariant RefP step_refP (init names) s ops obs (init_refP names) hr


/-! ### monotonicity of `created`, persistence of an ALLOCATED slot -/

theorem generateId_created (s : St) (t : Name) (nick : Option Name) :
    (generateId s t nick).1.created = s.created := by
  rcases hg : generateId s t nick with ⟨s1, i⟩
  rcases generateId_cases hg with ⟨n, _, _, _, rfl⟩ | ⟨rfl, _⟩ <;> rfl

theorem lookup_created (s : St) (name : Name) : (lookup s name).1.created = s.created := by
  rcases lookup_cases s name with ⟨r, _, e⟩ | e | ⟨t, _, _, e⟩ | ⟨t, i, _, _, e⟩ <;> rw [e]

theorem step_created_mono (s s' : St) (op : Op) (o : Obs) (hs : step s op = .ok (s', o)) :
    ∀ r ∈ s.created, r ∈ s'.created := by
  intro r hr
  cases op with
  | create table nick j =>
    rw [step_create] at hs
    cases hs
    rw [createSt_created, generateId_created]
    exact List.mem_append_left _ hr
  | lookup name =>
    simp only [step, Except.ok.injEq] at hs
    have := lookup_created s name
    rw [hs] at this
    exact this ▸ hr
  | endIteration =>
    simp only [step] at hs
    split at hs
    · cases hs; exact hr
    · cases hs
  | saveLoad =>
    simp only [step] at hs
    split at hs
    · cases hs
    · cases hs; exact hr

/-- slot `name` (bound to table `t`) holds a reserved id -/
def Held (name t : Name) (s : St) : Prop := tableOf s name = some t ∧ ∃ i, s.slot name = .alloc i

theorem step_held {name t : Name} {s s' : St} {op : Op} {o : Obs} (h : Held name t s)
    (hs : step s op = .ok (s', o))
    (hno : (∀ t' nk j, op = .create t' nk j → ¬ (t' = t ∧ (nk = some name ∨ t' = name)))
      ∧ op ≠ .endIteration ∧ op ≠ .saveLoad) : Held name t s' := by
  obtain ⟨ht, i, hi⟩ := h
  cases op with
  | create table nick j =>
    rw [step_create] at hs
    cases hs
    unfold Held
    rw [tableOf_createSt, createSt_slot]
    rcases hg : generateId s table nick with ⟨s1, i'⟩
    rcases generateId_cases hg with ⟨n, hn, ht', hsl, rfl⟩ | ⟨rfl, _⟩
    · refine ⟨ht, i, ?_⟩
      have hnn : name ≠ n := by
        rintro rfl
        rw [ht] at ht'
        cases ht'
        apply hno.1 t nick j rfl
        refine ⟨rfl, ?_⟩
        rcases hn with hn | hn
        · exact Or.inl hn
        · exact Or.inr hn.symm
      show upd s.slot n _ name = _
      rw [upd_ne _ _ hnn]; exact hi
    · exact ⟨ht, i, hi⟩
  | lookup nm =>
    simp only [step, Except.ok.injEq] at hs
    rcases lookup_cases s nm with ⟨r, _, e⟩ | e | ⟨t', _, hsl, e⟩ | ⟨t', i', _, _, e⟩
    · rw [e] at hs; cases hs; exact ⟨ht, i, hi⟩
    · rw [e] at hs; cases hs; exact ⟨ht, i, hi⟩
    · rw [e] at hs; cases hs
      refine ⟨ht, i, ?_⟩
      have hnn : name ≠ nm := by
        rintro rfl
        rw [hsl] at hi; cases hi
      show upd s.slot nm _ name = _
      rw [upd_ne _ _ hnn]; exact hi
    · rw [e] at hs; cases hs; exact ⟨ht, i, hi⟩
  | endIteration => exact absurd rfl hno.2.1
  | saveLoad => exact absurd rfl hno.2.2

theorem run_held {name t : Name} {s s' : St} {ops : List Op} {obs : List Obs} (h : Held name t s)
    (hr : run s ops = .ok (s', obs))
    (hno : ∀ op ∈ ops,
      (∀ t' nk j, op = .create t' nk j → ¬ (t' = t ∧ (nk = some name ∨ t' = name)))
      ∧ op ≠ .endIteration ∧ op ≠ .saveLoad) : Held name t s' := by
  induction ops generalizing s obs with
  | nil => simp only [run, Except.ok.injEq, Prod.mk.injEq] at hr; exact hr.1 ▸ h
  | cons op ops ih =>
    obtain ⟨s1, o, os, hst, hr', _⟩ := run_cons_ok hr
    exact ih (step_held h hst (hno op (List.mem_cons_self ..))) hr'
      (fun op' hop' => hno op' (List.mem_cons_of_mem _ hop'))

/-! ### the persistent registry (C06) -/

theorem generateId_pNick (s : St) (t : Name) (nick : Option Name) :
    (generateId s t nick).1.pNick = s.pNick := by
  rcases hg : generateId s t nick with ⟨s1, i⟩
  rcases generateId_cases hg with ⟨n, _, _, _, rfl⟩ | ⟨rfl, _⟩ <;> rfl

theorem generateId_pTable (s : St) (t : Name) (nick : Option Name) :
    (generateId s t nick).1.pTable = s.pTable := by
  rcases hg : generateId s t nick with ⟨s1, i⟩
  rcases generateId_cases hg with ⟨n, _, _, _, rfl⟩ | ⟨rfl, _⟩ <;> rfl

theorem lookup_pNick (s : St) (name : Name) : (lookup s name).1.pNick = s.pNick := by
  rcases lookup_cases s name with ⟨r, _, e⟩ | e | ⟨t, _, _, e⟩ | ⟨t, i, _, _, e⟩ <;> rw [e]

theorem lookup_pTable (s : St) (name : Name) : (lookup s name).1.pTable = s.pTable := by
  rcases lookup_cases s name with ⟨r, _, e⟩ | e | ⟨t, _, _, e⟩ | ⟨t, i, _, _, e⟩ <;> rw [e]

theorem createSt_pNick (s : St) (t : Name) (nick : Option Name) (j : Bool) :
    (createSt s t nick j).pNick =
      match nick, j with
      | some n, true => upd s.pNick n (some ⟨t, (generateId s t nick).2⟩)
      | _, _ => s.pNick := by
  unfold createSt
  cases nick <;> cases j <;> simp [register, generateId_pNick]

theorem createSt_pTable (s : St) (t : Name) (nick : Option Name) (j : Bool) :
    (createSt s t nick j).pTable =
      if j then upd s.pTable t (some ⟨t, (generateId s t nick).2⟩) else s.pTable := by
  unfold createSt
  cases nick <;> cases j <;> simp [register, generateId_pTable]

/-- what a non-`create` step does to the persistent registry: nothing -/
theorem step_persist_other (s s' : St) (op : Op) (o : Obs) (hs : step s op = .ok (s', o))
    (hop : ∀ t nk j, op ≠ .create t nk j) : s'.pNick = s.pNick ∧ s'.pTable = s.pTable := by
  cases op with
  | create table nick j => exact absurd rfl (hop table nick j)
  | lookup name =>
    simp only [step, Except.ok.injEq] at hs
    have h1 := lookup_pNick s name
    have h2 := lookup_pTable s name
    rw [hs] at h1 h2
    exact ⟨h1, h2⟩
  | endIteration =>
    simp only [step] at hs
    split at hs
    · cases hs; exact ⟨rfl, rfl⟩
    · cases hs
  | saveLoad =>
    simp only [step] at hs
    split at hs
    · cases hs
    · cases hs; exact ⟨rfl, rfl⟩


theorem lookup_unshadowed (s : St) (n : Name) (r : Row)
    (hls : s.lastSeen n = none) (hno : s.nickObjs n = none)
    (h : s.pTable n = some r ∨ (s.pTable n = none ∧ s.pNick n = some r)) :
    (lookup s n).2 = .row r := by
  rcases h with h | ⟨h1, h2⟩
  · simp [lookup, hls, hno, h]
  · simp [lookup, hls, hno, h1, h2]

end SnowModel.IdMachine
