/-
Helper lemmas for C15: the proleptic Gregorian calendar of `SnowModel.Civil`.
-/
import SnowModel.Core.Civil
import Mathlib.Tactic.IntervalCases

namespace SnowModel.Proofs.C15Civil
open SnowModel.Civil

theorem yearLen_pos (y : Nat) : 365 ≤ yearLen y ∧ yearLen y ≤ 366 := by
  unfold yearLen; split <;> omega

theorem isLeap_iff (y : Nat) : isLeap y = true ↔ (y % 4 = 0 ∧ (y % 100 ≠ 0 ∨ y % 400 = 0)) := by
  simp [isLeap]

theorem dby_eq (p : Nat) : daysBeforeYear (p + 1) = p * 365 + p / 4 - p / 100 + p / 400 := rfl

theorem dby_succ (y : Nat) (h : 1 ≤ y) : daysBeforeYear (y + 1) = daysBeforeYear y + yearLen y := by
  obtain ⟨p, rfl⟩ : ∃ p, y = p + 1 := ⟨y - 1, by omega⟩
  rw [dby_eq, dby_eq]
  unfold yearLen
  have hle : p / 100 ≤ p / 4 := by omega
  by_cases h4 : (p + 1) % 4 = 0
  · have e4 : (p + 1) / 4 = p / 4 + 1 := by omega
    by_cases h100 : (p + 1) % 100 = 0
    · have e100 : (p + 1) / 100 = p / 100 + 1 := by omega
      by_cases h400 : (p + 1) % 400 = 0
      · have e400 : (p + 1) / 400 = p / 400 + 1 := by omega
        have hl : isLeap (p + 1) = true := (isLeap_iff _).2 ⟨h4, Or.inr h400⟩
        rw [if_pos hl, e4, e100, e400]; omega
      · have e400 : (p + 1) / 400 = p / 400 := by omega
        have hl : ¬ isLeap (p + 1) = true := by
          rw [isLeap_iff]; intro hh; rcases hh.2 with h | h <;> omega
        rw [if_neg hl, e4, e100, e400]; omega
    · have e100 : (p + 1) / 100 = p / 100 := by omega
      have e400 : (p + 1) / 400 = p / 400 := by omega
      have hl : isLeap (p + 1) = true := (isLeap_iff _).2 ⟨h4, Or.inl h100⟩
      rw [if_pos hl, e4, e100, e400]; omega
  · have e4 : (p + 1) / 4 = p / 4 := by omega
    have e100 : (p + 1) / 100 = p / 100 := by omega
    have e400 : (p + 1) / 400 = p / 400 := by omega
    have hl : ¬ isLeap (p + 1) = true := by
      rw [isLeap_iff]; intro hh; exact h4 hh.1
    rw [if_neg hl, e4, e100, e400]; omega

theorem dby_lt_succ (y : Nat) (h : 1 ≤ y) : daysBeforeYear y < daysBeforeYear (y + 1) := by
  rw [dby_succ y h]; have := yearLen_pos y; omega

theorem dby_mono {y z : Nat} (hy : 1 ≤ y) (h : y ≤ z) : daysBeforeYear y ≤ daysBeforeYear z := by
  induction z with
  | zero => omega
  | succ k ih =>
    by_cases hk : y = k + 1
    · subst hk; exact Nat.le_refl _
    · have h1 : y ≤ k := by omega
      have := ih h1
      have := dby_lt_succ k (by omega)
      omega

/-- closed form on the 400/100/4/1 decomposition -/
theorem dby_formula (a b c e : Nat) (hb : b ≤ 3) (hc : c ≤ 24) (he : e ≤ 3) :
    daysBeforeYear (400 * a + 100 * b + 4 * c + e + 1) = 146097 * a + 36524 * b + 1461 * c + 365 * e := by
  simp only [daysBeforeYear, Nat.add_sub_cancel]
  have h4 : (400 * a + 100 * b + 4 * c + e) / 4 = 100 * a + 25 * b + c := by omega
  have h100 : (400 * a + 100 * b + 4 * c + e) / 100 = 4 * a + b := by omega
  have h400 : (400 * a + 100 * b + 4 * c + e) / 400 = a := by omega
  rw [h4, h100, h400]
  omega

theorem yearOfOrd_spec (n : Nat) (h : 1 ≤ n) :
    1 ≤ yearOfOrd n ∧ daysBeforeYear (yearOfOrd n) < n ∧
      n ≤ daysBeforeYear (yearOfOrd n) + yearLen (yearOfOrd n) := by
  obtain ⟨n0, rfl⟩ : ∃ n0, n = n0 + 1 := ⟨n - 1, by omega⟩
  simp only [yearOfOrd, Nat.add_sub_cancel]
  have h1 := Nat.div_add_mod n0 146097
  have h1' := Nat.mod_lt n0 (by decide : 146097 > 0)
  generalize n0 / 146097 = a at *
  generalize n0 % 146097 = r1 at *
  have h2 := Nat.div_add_mod r1 36524
  have h2' := Nat.mod_lt r1 (by decide : 36524 > 0)
  generalize r1 / 36524 = b at *
  generalize r1 % 36524 = r2 at *
  have h3 := Nat.div_add_mod r2 1461
  have h3' := Nat.mod_lt r2 (by decide : 1461 > 0)
  generalize r2 / 1461 = c at *
  generalize r2 % 1461 = r3 at *
  have h4 := Nat.div_add_mod r3 365
  have h4' := Nat.mod_lt r3 (by decide : 365 > 0)
  generalize r3 / 365 = e at *
  generalize r3 % 365 = r4 at *
  have hb : b ≤ 4 := by omega
  have he : e ≤ 4 := by omega
  have hc : c ≤ 24 := by omega
  by_cases hb4 : b = 4
  · -- last day of a 400-year cycle
    subst hb4
    have hc0 : c = 0 := by omega
    have he0 : e = 0 := by omega
    subst hc0; subst he0
    have hy : a * 400 + 4 * 100 + 0 * 4 + 0 = 400 * a + 100 * 3 + 4 * 24 + 3 + 1 := by omega
    simp only [or_true, if_true]
    rw [hy]
    have hf := dby_formula a 3 24 3 (by omega) (by omega) (by omega)
    have hl : isLeap (400 * a + 100 * 3 + 4 * 24 + 3 + 1) = true := by
      rw [isLeap_iff]; omega
    rw [hf, yearLen, if_pos hl]
    omega
  · by_cases he4 : e = 4
    · subst he4
      have hc' : c ≤ 23 ∨ b = 3 := by omega
      have hy : a * 400 + b * 100 + c * 4 + 4 = 400 * a + 100 * b + 4 * c + 3 + 1 := by omega
      simp only [true_or, if_true]
      rw [hy]
      have hf := dby_formula a b c 3 (by omega) (by omega) (by omega)
      have hl : isLeap (400 * a + 100 * b + 4 * c + 3 + 1) = true := by
        rw [isLeap_iff]; omega
      rw [hf, yearLen, if_pos hl]
      omega
    · have hne : ¬ (e = 4 ∨ b = 4) := by omega
      have hy : a * 400 + b * 100 + c * 4 + e + 1 = 400 * a + 100 * b + 4 * c + e + 1 := by omega
      simp only [hne, if_false]
      rw [hy]
      have hf := dby_formula a b c e (by omega) (by omega) (by omega)
      have := yearLen_pos (400 * a + 100 * b + 4 * c + e + 1)
      rw [hf]
      omega

theorem year_unique (n y : Nat) (hy : 1 ≤ y) (h1 : daysBeforeYear y < n)
    (h2 : n ≤ daysBeforeYear y + yearLen y) : yearOfOrd n = y := by
  have hn : 1 ≤ n := by omega
  obtain ⟨g1, g2, g3⟩ := yearOfOrd_spec n hn
  rw [← dby_succ _ g1] at g3
  rw [← dby_succ _ hy] at h2
  by_cases hlt : yearOfOrd n < y
  · have := dby_mono (y := yearOfOrd n + 1) (z := y) (by omega) (by omega)
    omega
  · by_cases hgt : y < yearOfOrd n
    · have := dby_mono (y := y + 1) (z := yearOfOrd n) (by omega) (by omega)
      omega
    · omega

/-! ### months -/

theorem dbm_succ (y m : Nat) (hm : 1 ≤ m) :
    daysBeforeMonth y (m + 1) = daysBeforeMonth y m + daysInMonth y m := by
  rw [daysBeforeMonth]; rw [if_neg (by omega)]

theorem dbm_one (y : Nat) : daysBeforeMonth y 1 = 0 := by simp [daysBeforeMonth]

theorem dim_lit (y : Nat) :
    daysInMonth y 1 = 31 ∧ daysInMonth y 2 = (if isLeap y then 29 else 28) ∧ daysInMonth y 3 = 31 ∧
    daysInMonth y 4 = 30 ∧ daysInMonth y 5 = 31 ∧ daysInMonth y 6 = 30 ∧ daysInMonth y 7 = 31 ∧
    daysInMonth y 8 = 31 ∧ daysInMonth y 9 = 30 ∧ daysInMonth y 10 = 31 ∧ daysInMonth y 11 = 30 ∧
    daysInMonth y 12 = 31 := by
  refine ⟨?_, ?_, ?_, ?_, ?_, ?_, ?_, ?_, ?_, ?_, ?_, ?_⟩ <;> simp [daysInMonth]

theorem dbm_thirteen (y : Nat) : daysBeforeMonth y 13 = yearLen y := by
  obtain ⟨e1, e2, e3, e4, e5, e6, e7, e8, e9, e10, e11, e12⟩ := dim_lit y
  have s1 := dbm_succ y 1 (by omega)
  have s2 := dbm_succ y 2 (by omega)
  have s3 := dbm_succ y 3 (by omega)
  have s4 := dbm_succ y 4 (by omega)
  have s5 := dbm_succ y 5 (by omega)
  have s6 := dbm_succ y 6 (by omega)
  have s7 := dbm_succ y 7 (by omega)
  have s8 := dbm_succ y 8 (by omega)
  have s9 := dbm_succ y 9 (by omega)
  have s10 := dbm_succ y 10 (by omega)
  have s11 := dbm_succ y 11 (by omega)
  have s12 := dbm_succ y 12 (by omega)
  have s0 := dbm_one y
  simp only [Nat.reduceAdd] at s1 s2 s3 s4 s5 s6 s7 s8 s9 s10 s11 s12
  unfold yearLen
  by_cases hl : isLeap y = true
  · rw [if_pos hl] at e2 ⊢; omega
  · rw [if_neg hl] at e2 ⊢; omega

theorem dim_pos (y m : Nat) (h1 : 1 ≤ m) (h2 : m ≤ 12) : 28 ≤ daysInMonth y m ∧ daysInMonth y m ≤ 31 := by
  unfold daysInMonth
  interval_cases m <;> simp <;> split <;> omega

theorem dbm_mono (y : Nat) {m k : Nat} (hm : 1 ≤ m) (h : m ≤ k) :
    daysBeforeMonth y m ≤ daysBeforeMonth y k := by
  induction k with
  | zero => omega
  | succ j ih =>
    by_cases hj : m = j + 1
    · subst hj; exact Nat.le_refl _
    · have := ih (by omega)
      rw [dbm_succ y j (by omega)]
      omega

theorem monthLoop_spec (y : Nat) (fuel m0 m d : Nat) (h0 : 1 ≤ m0) (hm : m0 ≤ m) (hf : m ≤ m0 + fuel)
    (hd1 : 1 ≤ d) (hd2 : d ≤ daysInMonth y m) :
    monthLoop y fuel m0 (daysBeforeMonth y m - daysBeforeMonth y m0 + d) = (m, d) := by
  induction fuel generalizing m0 with
  | zero =>
    have : m = m0 := by omega
    subst this
    simp [monthLoop]
  | succ f ih =>
    by_cases hmm : m = m0
    · subst hmm
      simp only [monthLoop, Nat.sub_self, Nat.zero_add]
      rw [if_pos hd2]
    · have hlt : m0 + 1 ≤ m := by omega
      have hs := dbm_succ y m0 h0
      have hmono := dbm_mono y (m := m0 + 1) (k := m) (by omega) hlt
      rw [monthLoop, if_neg (by omega)]
      have := ih (m0 + 1) (by omega) hlt (by omega)
      rw [← this]
      congr 1
      omega

/-! ### round trips -/

theorem yearday_le (y m d : Nat) (hm1 : 1 ≤ m) (hm : m ≤ 12) (hd : d ≤ daysInMonth y m) :
    daysBeforeMonth y m + d ≤ yearLen y := by
  have h1 := dbm_succ y m hm1
  have h2 := dbm_mono y (m := m + 1) (k := 13) (by omega) (by omega)
  rw [dbm_thirteen] at h2
  omega

theorem ofOrd_toOrd (y m d : Nat) (h : Valid y m d) : ofOrd (toOrd y m d) = ⟨y, m, d⟩ := by
  obtain ⟨hy, hm1, hm12, hd1, hd2⟩ := h
  have hyd := yearday_le y m d hm1 hm12 hd2
  have hyear : yearOfOrd (toOrd y m d) = y := by
    apply year_unique _ _ hy <;> unfold toOrd <;> omega
  simp only [ofOrd, hyear]
  have hr : toOrd y m d - daysBeforeYear y = daysBeforeMonth y m - daysBeforeMonth y 1 + d := by
    rw [dbm_one]; unfold toOrd; omega
  rw [hr, monthLoop_spec y 11 1 m d (by omega) hm1 (by omega) hd1 hd2]

/-- the month walk always lands on a valid month/day and inverts `daysBeforeMonth` -/
theorem monthLoop_inv (y : Nat) (fuel m0 r : Nat) (h0 : 1 ≤ m0) (hf : m0 + fuel = 12) (hr1 : 1 ≤ r)
    (hr2 : daysBeforeMonth y m0 + r ≤ yearLen y) :
    m0 ≤ (monthLoop y fuel m0 r).1 ∧ (monthLoop y fuel m0 r).1 ≤ 12 ∧ 1 ≤ (monthLoop y fuel m0 r).2 ∧
      (monthLoop y fuel m0 r).2 ≤ daysInMonth y (monthLoop y fuel m0 r).1 ∧
      daysBeforeMonth y (monthLoop y fuel m0 r).1 + (monthLoop y fuel m0 r).2 = daysBeforeMonth y m0 + r := by
  induction fuel generalizing m0 r with
  | zero =>
    have hm : m0 = 12 := by omega
    subst hm
    have h13 := dbm_succ y 12 (by omega)
    rw [dbm_thirteen] at h13
    rw [show monthLoop y 0 12 r = (12, r) from rfl]
    refine ⟨Nat.le_refl _, Nat.le_refl _, hr1, ?_, rfl⟩
    show r ≤ daysInMonth y 12
    omega
  | succ f ih =>
    simp only [monthLoop]
    by_cases hle : r ≤ daysInMonth y m0
    · rw [if_pos hle]
      exact ⟨Nat.le_refl _, by omega, hr1, hle, rfl⟩
    · rw [if_neg hle]
      have hs := dbm_succ y m0 h0
      have := ih (m0 + 1) (r - daysInMonth y m0) (by omega) (by omega) (by omega) (by omega)
      obtain ⟨a1, a2, a3, a4, a5⟩ := this
      exact ⟨by omega, a2, a3, a4, by omega⟩

theorem ofOrd_valid (n : Nat) (h : 1 ≤ n) : Valid (ofOrd n).y (ofOrd n).m (ofOrd n).d ∧
    toOrd (ofOrd n).y (ofOrd n).m (ofOrd n).d = n := by
  obtain ⟨g1, g2, g3⟩ := yearOfOrd_spec n h
  have := monthLoop_inv (yearOfOrd n) 11 1 (n - daysBeforeYear (yearOfOrd n)) (by omega) (by omega)
    (by omega) (by rw [dbm_one]; omega)
  simp only [dbm_one] at this
  obtain ⟨a1, a2, a3, a4, a5⟩ := this
  refine ⟨⟨g1, a1, a2, a3, a4⟩, ?_⟩
  simp only [ofOrd, toOrd]
  omega

theorem weekday_lt (n : Nat) : weekday n < 7 := by unfold weekday; omega
theorem weekday_succ (n : Nat) : weekday (n + 1) = (weekday n + 1) % 7 := by unfold weekday; omega
theorem weekday_add_seven (n : Nat) : weekday (n + 7) = weekday n := by unfold weekday; omega

end SnowModel.Proofs.C15Civil
