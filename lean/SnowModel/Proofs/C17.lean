/-
C17 — helper lemmas about the iterator protocol model `SnowModel.DsIter`.
-/
import SnowModel.Core.DsIter

namespace SnowModel.Proofs.C17
open SnowModel.DsIter

variable {α : Type}

/-! ### `nextResult`, `next` -/

theorem nextResult_eq (it : Iter α) :
    nextResult it = (Out.ofOption it.pending.head?, { it with pending := it.pending.tail }) := by
  cases it with
  | mk rep p c => cases p <;> rfl

theorem next_cons (src : Src α) (rep : Bool) (x : α) (xs : List α) (c : Nat) :
    next src ⟨rep, x :: xs, c⟩ = (.value x, ⟨rep, xs, c⟩) := rfl

theorem next_nil_norepeat (src : Src α) (c : Nat) :
    next src ⟨false, [], c⟩ = (.stop, ⟨false, [], c⟩) := rfl

theorem next_nil_repeat (src : Src α) (c : Nat) :
    next src ⟨true, [], c⟩ = nextResult ⟨true, src c, c + 1⟩ := rfl

/-! ### `runN` -/

theorem runN_add (src : Src α) (it : Iter α) (a b : Nat) :
    runN src it (a + b) =
      ((runN src it a).1 ++ (runN src (runN src it a).2 b).1, (runN src (runN src it a).2 b).2) := by
  induction a generalizing it with
  | zero => simp [runN]
  | succ a ih =>
    have e : a + 1 + b = (a + b) + 1 := by omega
    rw [e]
    simp only [runN, ih, List.cons_append]

theorem nth_add (src : Src α) (it : Iter α) (a b : Nat) :
    nth src it (a + b) = nth src (runN src it a).2 b := by
  simp only [nth, runN_add]

theorem runN_length (src : Src α) (it : Iter α) (m : Nat) : (runN src it m).1.length = m := by
  induction m generalizing it with
  | zero => rfl
  | succ m ih => simp [runN, ih]

theorem runN_succ_last (src : Src α) (it : Iter α) (m : Nat) :
    runN src it (m + 1) =
      ((runN src it m).1 ++ [nth src it m], (next src (runN src it m).2).2) := by
  rw [runN_add]
  simp [runN, nth]

/-- the outcome list of `m` calls is the list of the individual outcomes -/
theorem runN_eq_map_nth (src : Src α) (it : Iter α) (m : Nat) :
    (runN src it m).1 = (List.range m).map (nth src it) := by
  induction m with
  | zero => rfl
  | succ m ih => rw [runN_succ_last, List.range_succ, List.map_append, ih]; rfl

/-- as long as the current pass has records, `next` hands them out in order -/
theorem runN_pending (src : Src α) (rep : Bool) (p : List α) (c j : Nat) (hj : j ≤ p.length) :
    runN src ⟨rep, p, c⟩ j = ((p.take j).map .value, ⟨rep, p.drop j, c⟩) := by
  induction j generalizing p with
  | zero => simp [runN]
  | succ j ih =>
    cases p with
    | nil => simp at hj
    | cons x xs =>
      simp only [List.length_cons, Nat.add_le_add_iff_right] at hj
      simp only [runN, next_cons, ih xs hj, List.take_succ_cons, List.map_cons, List.drop_succ_cons]

/-- a drained repeating iterator whose passes all have `n ≥ 1` records: the next `n` calls
    hand out exactly pass `c` and leave the iterator drained again -/
theorem runN_drained (src : Src α) (n : Nat) (hn : 0 < n) (hlen : ∀ j, (src j).length = n) (c : Nat) :
    runN src ⟨true, [], c⟩ n = ((src c).map .value, ⟨true, [], c + 1⟩) := by
  obtain ⟨n', rfl⟩ : ∃ n', n = n' + 1 := ⟨n - 1, by omega⟩
  have hl := hlen c
  cases hs : src c with
  | nil => rw [hs] at hl; simp at hl
  | cons x xs =>
    rw [hs] at hl
    simp only [List.length_cons, Nat.add_right_cancel_iff] at hl
    simp only [runN, next_nil_repeat, hs, nextResult]
    rw [runN_pending src true xs (c + 1) n' (by omega)]
    simp [← hl]

theorem nth_drained_first (src : Src α) (n : Nat) (hlen : ∀ j, (src j).length = n) (c r : Nat)
    (hr : r < n) : nth src ⟨true, [], c⟩ r = Out.ofOption (src c)[r]? := by
  have hl := hlen c
  cases r with
  | zero =>
    simp only [nth, runN, next_nil_repeat, nextResult_eq]
    cases src c <;> rfl
  | succ r =>
    cases hs : src c with
    | nil => rw [hs] at hl; simp at hl; omega
    | cons x xs =>
      rw [hs] at hl
      simp only [List.length_cons] at hl
      have h1 : runN src ⟨true, [], c⟩ 1 = ([.value x], ⟨true, xs, c + 1⟩) := by
        simp [runN, next_nil_repeat, hs, nextResult]
      have e : r + 1 = 1 + r := by omega
      rw [e, nth_add, h1]
      simp only [nth]
      rw [runN_pending src true xs (c + 1) r (by omega)]
      have hne : r < xs.length := by omega
      have : xs.drop r = xs[r] :: xs.drop (r + 1) := by
        simp
      simp only [this, next_cons]
      have : (x :: xs)[1 + r]? = some xs[r] := by
        rw [Nat.add_comm]; simp [hne]
      rw [this]; rfl

/-- **block structure**: from a drained repeating iterator at pass `c`, call number
    `q * n + r` (0-based, `r < n`) returns record `r` of pass `c + q` -/
theorem nth_drained (src : Src α) (n : Nat) (hn : 0 < n) (hlen : ∀ j, (src j).length = n)
    (q r c : Nat) (hr : r < n) :
    nth src ⟨true, [], c⟩ (q * n + r) = Out.ofOption (src (c + q))[r]? := by
  induction q generalizing c with
  | zero => simpa using nth_drained_first src n hlen c r hr
  | succ q ih =>
    have e : (q + 1) * n + r = n + (q * n + r) := by rw [Nat.succ_mul]; omega
    rw [e, nth_add, runN_drained src n hn hlen c]
    simp only
    rw [ih (c + 1)]
    have : c + 1 + q = c + (q + 1) := by omega
    rw [this]

/-- a freshly created repeating iterator behaves like a drained one at pass 0 (the constructor
    merely performs the first `start()` eagerly) -/
theorem next_create_eq (src : Src α) (h : src 0 ≠ []) :
    next src (create src true) = next src ⟨true, [], 0⟩ := by
  simp only [create, start, next_nil_repeat]
  cases hs : src 0 with
  | nil => exact absurd hs h
  | cons x xs => rfl

theorem runN_create_eq (src : Src α) (h : src 0 ≠ []) (m : Nat) :
    runN src (create src true) (m + 1) = runN src ⟨true, [], 0⟩ (m + 1) := by
  simp only [runN, next_create_eq src h]

theorem nth_create_eq (src : Src α) (h : src 0 ≠ []) (k : Nat) :
    nth src (create src true) k = nth src ⟨true, [], 0⟩ k := by
  cases k with
  | zero => simp only [nth, runN, next_create_eq src h]
  | succ k => simp only [nth, runN_create_eq src h]

theorem nth_create (src : Src α) (n : Nat) (hn : 0 < n) (hlen : ∀ j, (src j).length = n)
    (q r : Nat) (hr : r < n) :
    nth src (create src true) (q * n + r) = Out.ofOption (src q)[r]? := by
  have h0 : src 0 ≠ [] := by
    intro h; have := hlen 0; rw [h] at this; simp at this; omega
  rw [nth_create_eq src h0, nth_drained src n hn hlen q r 0 hr]
  simp

/-! ### non-repeating -/

theorem runN_stopped (src : Src α) (c m : Nat) :
    runN src ⟨false, [], c⟩ m = (List.replicate m .stop, ⟨false, [], c⟩) := by
  induction m with
  | zero => rfl
  | succ m ih => simp only [runN, next_nil_norepeat, ih, List.replicate_succ]

theorem nth_norepeat_lt (src : Src α) (p : List α) (c k : Nat) (hk : k < p.length) :
    nth src ⟨false, p, c⟩ k = .value p[k] := by
  simp only [nth]
  rw [runN_pending src false p c k (by omega)]
  have : p.drop k = p[k] :: p.drop (k + 1) := by simp
  rw [this, next_cons]

theorem nth_norepeat_ge (src : Src α) (p : List α) (c k : Nat) (hk : p.length ≤ k) :
    nth src ⟨false, p, c⟩ k = .stop := by
  have e : k = p.length + (k - p.length) := by omega
  rw [e, nth_add, runN_pending src false p c p.length (Nat.le_refl _)]
  simp only [List.drop_length, nth, runN_stopped, next_nil_norepeat]

/-! ### empty data -/

theorem next_empty (src : Src α) (hsrc : ∀ j, src j = []) (rep : Bool) (c : Nat) :
    ∃ c', next src ⟨rep, [], c⟩ = (.stop, ⟨rep, [], c'⟩) := by
  cases rep with
  | false => exact ⟨c, rfl⟩
  | true => exact ⟨c + 1, by simp [next_nil_repeat, hsrc, nextResult]⟩

theorem runN_empty (src : Src α) (hsrc : ∀ j, src j = []) (rep : Bool) (c m : Nat) :
    ∃ c', runN src ⟨rep, [], c⟩ m = (List.replicate m .stop, ⟨rep, [], c'⟩) := by
  induction m generalizing c with
  | zero => exact ⟨c, rfl⟩
  | succ m ih =>
    obtain ⟨c1, h1⟩ := next_empty src hsrc rep c
    obtain ⟨c2, h2⟩ := ih c1
    exact ⟨c2, by simp only [runN, h1, h2, List.replicate_succ]⟩

/-! ### consuming rows -/

theorem consume_eq_runN (src : Src α) (it : Iter α) (m : Nat) :
    (consume src it m).1 = valuesPrefix (runN src it m).1 ∧
    (consume src it m).2.1 = (runN src it m).1.any Out.isStop := by
  induction m generalizing it with
  | zero => exact ⟨rfl, rfl⟩
  | succ m ih =>
    simp only [consume, runN]
    cases h : next src it with
    | mk o it1 =>
      cases o with
      | value a =>
        obtain ⟨h1, h2⟩ := ih it1
        simp only [valuesPrefix, List.any_cons, Out.isStop, Bool.false_or]
        exact ⟨by rw [h1], h2⟩
      | stop => simp [valuesPrefix, Out.isStop]

theorem valuesPrefix_map_value (l : List α) : valuesPrefix (l.map Out.value) = l := by
  induction l with
  | nil => rfl
  | cons a l ih => simp [valuesPrefix, ih]

theorem any_isStop_map_value (l : List α) : (l.map Out.value).any Out.isStop = false := by
  induction l with
  | nil => rfl
  | cons a l ih => simp [Out.isStop, ih]

theorem valuesPrefix_append_stop (l : List α) (rest : List (Out α)) :
    valuesPrefix (l.map Out.value ++ Out.stop :: rest) = l := by
  induction l with
  | nil => rfl
  | cons a l ih => simp [valuesPrefix, ih]

/-! ### the `for_each` row loop -/

/-- with repetition off, the row loop emits one row per pending record, numbered from `i`,
    and leaves the iterator drained -/
theorem zipLoop_norepeat (src : Src α) (p : List α) (c i fuel : Nat) (hf : p.length < fuel) :
    zipLoop src fuel ⟨false, p, c⟩ i = some (p.zipIdx i, ⟨false, [], c⟩) := by
  induction p generalizing fuel i with
  | nil =>
    obtain ⟨f, rfl⟩ : ∃ f, fuel = f + 1 := ⟨fuel - 1, by simp at hf; omega⟩
    simp [zipLoop, next_nil_norepeat]
  | cons x xs ih =>
    obtain ⟨f, rfl⟩ : ∃ f, fuel = f + 1 := ⟨fuel - 1, by omega⟩
    simp only [List.length_cons, Nat.add_lt_add_iff_right] at hf
    simp only [zipLoop, next_cons, ih (i + 1) f hf, List.zipIdx_cons]

/-- with repetition on and no empty pass, the row loop never ends -/
theorem zipLoop_repeat_none (src : Src α) (hsrc : ∀ j, src j ≠ []) (fuel : Nat) (p : List α)
    (c i : Nat) : zipLoop src fuel ⟨true, p, c⟩ i = none := by
  induction fuel generalizing p c i with
  | zero => rfl
  | succ f ih =>
    cases p with
    | cons x xs => simp only [zipLoop, next_cons, ih]
    | nil =>
      cases hs : src c with
      | nil => exact absurd hs (hsrc c)
      | cons y ys => simp only [zipLoop, next_nil_repeat, hs, nextResult, ih]

/-! ### Fisher–Yates -/

theorem swap_perm (l : List α) (i j : Nat) : (swap l i j).Perm l := by
  unfold swap
  split
  · next h => exact List.set_set_perm h.1 h.2
  · exact List.Perm.refl _

theorem fy_perm (i : Nat) (ds : List Nat) (l : List α) : (fy i ds l).Perm l := by
  induction i generalizing ds l with
  | zero => exact List.Perm.refl _
  | succ i ih => exact (ih _ _).trans (swap_perm _ _ _)

theorem swap_length (l : List α) (i j : Nat) : (swap l i j).length = l.length := by
  unfold swap; split <;> simp

end SnowModel.Proofs.C17
