/-
C07 — the parser's table registration (`StopTables.parse*`) registers exactly the tables of the
templates reachable from what it parses (`ReachT` / `ReachM`).  Core Lean only.
-/
import SnowModel.Core.StopTables

namespace SnowModel.Proofs.C07Tables
open SnowModel.StopTables

theorem mem_register (acc : List String) (t x : String) :
    x ∈ register acc t ↔ x ∈ acc ∨ x = t := by
  unfold register
  by_cases h : acc.contains t = true
  · simp only [h, if_true]
    constructor
    · intro hx; exact Or.inl hx
    · intro hx
      rcases hx with hx | hx
      · exact hx
      · subst hx; simpa using h
  · simp only [h]
    simp

/-- some template of the list has table `x` in reach -/
def ReachL (ms : List Macro) (ks : List Tmpl) (x : String) : Prop := ∃ k, k ∈ ks ∧ ReachT ms k x
/-- some macro of the list brings table `x` -/
def ReachIncs (ms : List Macro) (ns : List String) (x : String) : Prop := ∃ n, n ∈ ns ∧ ReachM ms n x

theorem reachL_nil (ms : List Macro) (x : String) : ¬ ReachL ms [] x := by
  intro ⟨k, hk, _⟩; simp at hk

theorem reachL_cons (ms : List Macro) (k : Tmpl) (ks : List Tmpl) (x : String) :
    ReachL ms (k :: ks) x ↔ ReachT ms k x ∨ ReachL ms ks x := by
  constructor
  · intro ⟨k', hk', h⟩
    rcases List.mem_cons.mp hk' with rfl | hk'
    · exact Or.inl h
    · exact Or.inr ⟨k', hk', h⟩
  · intro h
    rcases h with h | ⟨k', hk', h⟩
    · exact ⟨k, List.mem_cons_self, h⟩
    · exact ⟨k', List.mem_cons_of_mem _ hk', h⟩

theorem reachIncs_nil (ms : List Macro) (x : String) : ¬ ReachIncs ms [] x := by
  intro ⟨k, hk, _⟩; simp at hk

theorem reachIncs_cons (ms : List Macro) (n : String) (ns : List String) (x : String) :
    ReachIncs ms (n :: ns) x ↔ ReachM ms n x ∨ ReachIncs ms ns x := by
  constructor
  · intro ⟨k', hk', h⟩
    rcases List.mem_cons.mp hk' with rfl | hk'
    · exact Or.inl h
    · exact Or.inr ⟨k', hk', h⟩
  · intro h
    rcases h with h | ⟨k', hk', h⟩
    · exact ⟨n, List.mem_cons_self, h⟩
    · exact ⟨k', List.mem_cons_of_mem _ hk', h⟩

theorem reachT_iff (ms : List Macro) (t : String) (incs : List String) (kids : List Tmpl) (x : String) :
    ReachT ms (.mk t incs kids) x ↔ x = t ∨ ReachL ms kids x ∨ ReachIncs ms incs x := by
  constructor
  · intro h
    cases h with
    | self => exact Or.inl rfl
    | kid _ _ _ k _ hk h => exact Or.inr (Or.inl ⟨k, hk, h⟩)
    | inc _ _ _ n _ hn h => exact Or.inr (Or.inr ⟨n, hn, h⟩)
  · intro h
    rcases h with rfl | ⟨k, hk, h⟩ | ⟨n, hn, h⟩
    · exact ReachT.self _ _ _
    · exact ReachT.kid _ _ _ k _ hk h
    · exact ReachT.inc _ _ _ n _ hn h

theorem reachM_iff (ms : List Macro) (n x : String) :
    ReachM ms n x ↔ ∃ m, lookup ms n = some m ∧ (ReachL ms m.kids x ∨ ReachIncs ms m.includes x) := by
  constructor
  · intro h
    cases h with
    | kid _ m k _ hl hk h => exact ⟨m, hl, Or.inl ⟨k, hk, h⟩⟩
    | inc _ m n' _ hl hn h => exact ⟨m, hl, Or.inr ⟨n', hn, h⟩⟩
  · intro ⟨m, hl, h⟩
    rcases h with ⟨k, hk, h⟩ | ⟨n', hn, h⟩
    · exact ReachM.kid n m k x hl hk h
    · exact ReachM.inc n m n' x hl hn h

/-- **What a successful parse registers**: exactly what was registered before plus the tables in
    reach of the parsed item — for templates, statement lists, inclusion lists and macros alike,
    for every fuel, macro table, expansion stack and prior state. -/
theorem parse_spec (ms : List Macro) : ∀ fuel : Nat,
    (∀ st acc T acc', parseT fuel ms st acc T = .ok acc' →
        ∀ x, x ∈ acc' ↔ x ∈ acc ∨ ReachT ms T x) ∧
    (∀ st acc ks acc', parseL fuel ms st acc ks = .ok acc' →
        ∀ x, x ∈ acc' ↔ x ∈ acc ∨ ReachL ms ks x) ∧
    (∀ st acc ns acc', parseIncs fuel ms st acc ns = .ok acc' →
        ∀ x, x ∈ acc' ↔ x ∈ acc ∨ ReachIncs ms ns x) ∧
    (∀ st acc n acc', parseM fuel ms st acc n = .ok acc' →
        ∀ x, x ∈ acc' ↔ x ∈ acc ∨ ReachM ms n x) := by
  intro fuel
  induction fuel with
  | zero =>
    refine ⟨?_, ?_, ?_, ?_⟩ <;> intro st acc a acc' h <;> simp [parseT, parseL, parseIncs, parseM] at h
  | succ f ih =>
    obtain ⟨ihT, ihL, ihI, ihM⟩ := ih
    refine ⟨?_, ?_, ?_, ?_⟩
    · intro st acc T acc' h x
      cases T with
      | mk t incs kids =>
        simp only [parseT] at h
        cases h1 : parseIncs f ms st acc incs with
        | error e => simp [h1] at h
        | ok acc1 =>
          simp only [h1] at h
          cases h2 : parseL f ms st acc1 kids with
          | error e => simp [h2] at h
          | ok acc2 =>
            simp only [h2] at h
            injection h with h
            subst h
            rw [mem_register, ihL st acc1 kids acc2 h2 x, ihI st acc incs acc1 h1 x, reachT_iff]
            constructor
            · intro hx
              rcases hx with ((hx | hx) | hx) | hx
              · exact Or.inl hx
              · exact Or.inr (Or.inr (Or.inr hx))
              · exact Or.inr (Or.inr (Or.inl hx))
              · exact Or.inr (Or.inl hx)
            · intro hx
              rcases hx with hx | hx | hx | hx
              · exact Or.inl (Or.inl (Or.inl hx))
              · exact Or.inr hx
              · exact Or.inl (Or.inr hx)
              · exact Or.inl (Or.inl (Or.inr hx))
    · intro st acc ks acc' h x
      cases ks with
      | nil =>
        simp only [parseL] at h
        injection h with h
        subst h
        constructor
        · intro hx; exact Or.inl hx
        · intro hx
          rcases hx with hx | hx
          · exact hx
          · exact absurd hx (reachL_nil ms x)
      | cons k ks =>
        simp only [parseL] at h
        cases h1 : parseT f ms st acc k with
        | error e => simp [h1] at h
        | ok acc1 =>
          simp only [h1] at h
          rw [ihL st acc1 ks acc' h x, ihT st acc k acc1 h1 x, reachL_cons]
          constructor
          · intro hx
            rcases hx with (hx | hx) | hx
            · exact Or.inl hx
            · exact Or.inr (Or.inl hx)
            · exact Or.inr (Or.inr hx)
          · intro hx
            rcases hx with hx | hx | hx
            · exact Or.inl (Or.inl hx)
            · exact Or.inl (Or.inr hx)
            · exact Or.inr hx
    · intro st acc ns acc' h x
      cases ns with
      | nil =>
        simp only [parseIncs] at h
        injection h with h
        subst h
        constructor
        · intro hx; exact Or.inl hx
        · intro hx
          rcases hx with hx | hx
          · exact hx
          · exact absurd hx (reachIncs_nil ms x)
      | cons n ns =>
        simp only [parseIncs] at h
        cases h1 : parseM f ms st acc n with
        | error e => simp [h1] at h
        | ok acc1 =>
          simp only [h1] at h
          rw [ihI st acc1 ns acc' h x, ihM st acc n acc1 h1 x, reachIncs_cons]
          constructor
          · intro hx
            rcases hx with (hx | hx) | hx
            · exact Or.inl hx
            · exact Or.inr (Or.inl hx)
            · exact Or.inr (Or.inr hx)
          · intro hx
            rcases hx with hx | hx | hx
            · exact Or.inl (Or.inl hx)
            · exact Or.inl (Or.inr hx)
            · exact Or.inr hx
    · intro st acc n acc' h x
      simp only [parseM] at h
      cases hl : lookup ms n with
      | none => simp [hl] at h
      | some m =>
        simp only [hl] at h
        split at h
        · simp at h
        ·
          cases h1 : parseIncs f ms (n :: st) acc m.includes with
          | error e => simp [h1] at h
          | ok acc1 =>
            simp only [h1] at h
            rw [ihL (n :: st) acc1 m.kids acc' (by simpa using h) x,
              ihI (n :: st) acc m.includes acc1 h1 x, reachM_iff]
            constructor
            · intro hx
              rcases hx with (hx | hx) | hx
              · exact Or.inl hx
              · exact Or.inr ⟨m, hl, Or.inr hx⟩
              · exact Or.inr ⟨m, hl, Or.inl hx⟩
            · intro hx
              rcases hx with hx | ⟨m', hl', hx⟩
              · exact Or.inl (Or.inl hx)
              · rw [hl] at hl'
                injection hl' with hl'
                subst hl'
                rcases hx with hx | hx
                · exact Or.inr hx
                · exact Or.inl (Or.inr hx)

end SnowModel.Proofs.C07Tables
