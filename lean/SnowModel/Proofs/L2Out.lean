/-
Helper lemmas for C03 / C09 over the L2 interpreter: the non-recursive helpers never touch the
output (nor the number of rows); one simultaneous induction on fuel shows that the six mutually
recursive functions only ever *append* rows, and that what they append is free of `__` names.
-/
import SnowModel.Core.L2

namespace SnowModel.L2

/-! ### relations between states -/

/-- same output, same number of rows -/
def Same (s s' : St) : Prop := s'.out = s.out ∧ s'.rows.length = s.rows.length

theorem Same.refl (s : St) : Same s s := ⟨rfl, rfl⟩

theorem Same.trans {a b c : St} (h1 : Same a b) (h2 : Same b c) : Same a c :=
  ⟨h2.1.trans h1.1, h2.2.trans h1.2⟩

/-- no hidden table and no hidden field -/
def CleanRows (out : List OutRow) : Prop :=
  ∀ r ∈ out, r.table.startsWith "__" = false ∧ ∀ p ∈ r.fields, p.1.startsWith "__" = false

theorem CleanRows.nil : CleanRows [] := by
  intro r hr; cases hr

theorem CleanRows.append {a b : List OutRow} (ha : CleanRows a) (hb : CleanRows b) :
    CleanRows (a ++ b) := by
  intro r hr
  rcases List.mem_append.1 hr with h | h
  · exact ha r h
  · exact hb r h

/-- `s'` extends the output of `s` by clean rows and has at least as many rows -/
def Ext (s s' : St) : Prop :=
  (∃ ext, s'.out = s.out ++ ext ∧ CleanRows ext) ∧ s.rows.length ≤ s'.rows.length

theorem Ext.refl (s : St) : Ext s s := ⟨⟨[], by simp, CleanRows.nil⟩, Nat.le_refl _⟩

theorem Ext.trans {a b c : St} (h1 : Ext a b) (h2 : Ext b c) : Ext a c := by
  obtain ⟨⟨e1, he1, hc1⟩, hl1⟩ := h1
  obtain ⟨⟨e2, he2, hc2⟩, hl2⟩ := h2
  refine ⟨⟨e1 ++ e2, ?_, hc1.append hc2⟩, Nat.le_trans hl1 hl2⟩
  rw [he2, he1, List.append_assoc]

theorem Same.ext {s s' : St} (h : Same s s') : Ext s s' :=
  ⟨⟨[], by simp [h.1], CleanRows.nil⟩, by rw [h.2]; exact Nat.le_refl _⟩

/-! ### the helpers keep `out` and `rows.length` -/

theorem setRowValue_same (s : St) (h : Nat) (k : String) (v : Val) : Same s (setRowValue s h k v) := by
  simp [Same, setRowValue]

theorem freshId_same (s : St) (t : String) : Same s (freshId s t).2 := ⟨rfl, rfl⟩

theorem slotId_same {s s' : St} {n : String} {i : Nat} (h : slotId s n = .ok (i, s')) : Same s s' := by
  unfold slotId at h
  split at h
  · cases h
  · simp only [freshId, Except.ok.injEq, Prod.mk.injEq] at h
    obtain ⟨-, rfl⟩ := h
    exact ⟨rfl, rfl⟩
  · simp only [Except.ok.injEq, Prod.mk.injEq] at h
    obtain ⟨-, rfl⟩ := h
    exact Same.refl _
  · simp only [Except.ok.injEq, Prod.mk.injEq] at h
    obtain ⟨-, rfl⟩ := h
    exact Same.refl _

theorem consume_same {s s' : St} {n t : String} {i : Nat} (h : consume s n t = some (i, s')) :
    Same s s' := by
  unfold consume at h
  split at h
  · split at h
    · simp only [Option.some.injEq, Prod.mk.injEq] at h
      obtain ⟨-, rfl⟩ := h
      exact ⟨rfl, rfl⟩
    · cases h
  · cases h

theorem generateId_same (s : St) (t : String) (nk : Option String) : Same s (generateId s t nk).2 := by
  unfold generateId
  split
  · next r hr =>
    cases nk with
    | none => simp at hr
    | some n =>
      obtain ⟨i, s'⟩ := r
      exact consume_same (by simpa using hr)
  · split
    · next r hr =>
      obtain ⟨i, s'⟩ := r
      exact consume_same hr
    · exact freshId_same _ _

theorem arithVals_eq {op : Nat} {va vb v : Val} {s s' : St} (h : arithVals op va vb s = .ok (v, s')) :
    s' = s := by
  unfold arithVals at h
  split at h <;> (try split at h) <;> simp_all

theorem evalExpr_same (c : Ctx) (e : Expr) : ∀ {s s' : St} {v : Val},
    evalExpr c e s = .ok (v, s') → Same s s' := by
  induction e with
  | int n =>
    intro s s' v h
    simp only [evalExpr, Except.ok.injEq, Prod.mk.injEq] at h
    obtain ⟨-, rfl⟩ := h; exact Same.refl _
  | name n =>
    intro s s' v h
    simp only [evalExpr] at h
    split at h <;> simp_all [Same]
  | attr e f ih =>
    intro s s' v h
    simp only [evalExpr] at h
    split at h
    · cases h
    · cases h
    · next h0 s1 he =>
      split at h
      · cases h
      · simp only [Except.ok.injEq, Prod.mk.injEq] at h
        obtain ⟨-, rfl⟩ := h; exact ih he
    · next n s1 he =>
      split at h
      · split at h
        · cases h
        · next i s2 hs =>
          simp only [Except.ok.injEq, Prod.mk.injEq] at h
          obtain ⟨-, rfl⟩ := h; exact (ih he).trans (slotId_same hs)
      · split at h
        · cases h
        · simp only [Except.ok.injEq, Prod.mk.injEq] at h
          obtain ⟨-, rfl⟩ := h; exact ih he
    · next tb i s1 he =>
      split at h
      · split at h
        · simp only [Except.ok.injEq, Prod.mk.injEq] at h
          obtain ⟨-, rfl⟩ := h; exact ih he
        · cases h
      · split at h
        · cases h
        · simp only [Except.ok.injEq, Prod.mk.injEq] at h
          obtain ⟨-, rfl⟩ := h; exact ih he
    · cases h
    · next v1 s1 _ _ _ _ _ he =>
      simp only [Except.ok.injEq, Prod.mk.injEq] at h
      obtain ⟨-, rfl⟩ := h; exact ih he
  | add a b iha ihb =>
    intro s s' v h
    simp only [evalExpr] at h
    split at h
    · cases h
    · next va s1 ha =>
      split at h
      · cases h
      · next vb s2 hb =>
        have := arithVals_eq h; subst this
        exact (iha ha).trans (ihb hb)
  | sub a b iha ihb =>
    intro s s' v h
    simp only [evalExpr] at h
    split at h
    · cases h
    · next va s1 ha =>
      split at h
      · cases h
      · next vb s2 hb =>
        have := arithVals_eq h; subst this
        exact (iha ha).trans (ihb hb)
  | mul a b iha ihb =>
    intro s s' v h
    simp only [evalExpr] at h
    split at h
    · cases h
    · next va s1 ha =>
      split at h
      · cases h
      · next vb s2 hb =>
        have := arithVals_eq h; subst this
        exact (iha ha).trans (ihb hb)

theorem renderParts_same (c : Ctx) (ps : List Part) : ∀ {s s' : St} {vs : List Val},
    renderParts c ps s = .ok (vs, s') → Same s s' := by
  induction ps with
  | nil =>
    intro s s' vs h
    simp only [renderParts, Except.ok.injEq, Prod.mk.injEq] at h
    obtain ⟨-, rfl⟩ := h; exact Same.refl _
  | cons p ps ih =>
    intro s s' vs h
    cases p with
    | text t =>
      simp only [renderParts] at h
      split at h
      · cases h
      · next vs1 s1 hp =>
        simp only [Except.ok.injEq, Prod.mk.injEq] at h
        obtain ⟨-, rfl⟩ := h; exact ih hp
    | expr e =>
      simp only [renderParts] at h
      split at h
      · cases h
      · next v s1 he =>
        split at h
        · cases h
        · next vs1 s2 hp =>
          simp only [Except.ok.injEq, Prod.mk.injEq] at h
          obtain ⟨-, rfl⟩ := h; exact (evalExpr_same c e he).trans (ih hp)

theorem renderTmpl_same {c : Ctx} {parts : List Part} {s s' : St} {v : Val}
    (h : renderTmpl c parts s = .ok (v, s')) : Same s s' := by
  unfold renderTmpl at h
  simp only at h
  split at h
  · split at h
    · simp only [Except.ok.injEq, Prod.mk.injEq] at h
      obtain ⟨-, rfl⟩ := h; exact Same.refl _
    · split at h
      · simp only [Except.ok.injEq, Prod.mk.injEq] at h
        obtain ⟨-, rfl⟩ := h; exact Same.refl _
      · cases h
  · split at h
    · split at h
      · split at h
        · cases h
        · cases h
        · next raw s1 he =>
          split at h
          · simp only [Except.ok.injEq, Prod.mk.injEq] at h
            obtain ⟨-, rfl⟩ := h; exact evalExpr_same _ _ he
          · cases h
        · next v1 s1 _ _ he =>
          simp only [Except.ok.injEq, Prod.mk.injEq] at h
          obtain ⟨-, rfl⟩ := h; exact evalExpr_same _ _ he
      · split at h
        · cases h
        · next vs s1 hp =>
          split at h
          · cases h
          · split at h
            · cases h
            · split at h
              · simp only [Except.ok.injEq, Prod.mk.injEq] at h
                obtain ⟨-, rfl⟩ := h; exact renderParts_same _ _ hp
              · cases h
    · split at h
      · cases h
      · next vs s1 hp =>
        split at h
        · cases h
        · split at h
          · simp only [Except.ok.injEq, Prod.mk.injEq] at h
            obtain ⟨-, rfl⟩ := h; exact renderParts_same _ _ hp
          · cases h

theorem renderRef_walk_same (ps : List String) : ∀ {t v : Val} {s s' : St},
    renderRef.walk t ps s = .ok (v, s') → Same s s' := by
  induction ps with
  | nil =>
    intro t v s s' h
    simp only [renderRef.walk, Except.ok.injEq, Prod.mk.injEq] at h
    obtain ⟨-, rfl⟩ := h; exact Same.refl _
  | cons p ps ih =>
    intro t v s s' h
    simp only [renderRef.walk] at h
    split at h
    · split at h
      · exact ih h
      · cases h
    · split at h
      · split at h
        · cases h
        · next i s1 hs => exact (slotId_same hs).trans (ih h)
      · split at h <;> cases h
    · split at h
      · split at h
        · exact ih h
        · cases h
      · split at h <;> cases h
    · cases h
    · cases h
    · cases h

theorem renderRef_same {c : Ctx} {path : List String} {s s' : St} {v : Val}
    (h : renderRef c path s = .ok (v, s')) : Same s s' := by
  unfold renderRef at h
  split at h
  · cases h
  · split at h
    · cases h
    · split at h
      · cases h
      · next t s1 hw =>
        have hws := renderRef_walk_same _ hw
        split at h
        · split at h
          · cases h
          · next i s2 hs =>
            simp only [Except.ok.injEq, Prod.mk.injEq] at h
            obtain ⟨-, rfl⟩ := h; exact hws.trans (slotId_same hs)
        · simp only [Except.ok.injEq, Prod.mk.injEq] at h
          obtain ⟨-, rfl⟩ := h; exact hws
        · split at h
          · simp only [Except.ok.injEq, Prod.mk.injEq] at h
            obtain ⟨-, rfl⟩ := h; exact hws
          · cases h
        · cases h
        · cases h
        · split at h <;> cases h
        · split at h <;> cases h
        · split at h <;> cases h

theorem canon_same {s s' : St} {v : Val} {o : OVal} (h : canon s v = .ok (o, s')) : Same s s' := by
  unfold canon at h
  split at h
  · simp only [Except.ok.injEq, Prod.mk.injEq] at h; obtain ⟨-, rfl⟩ := h; exact Same.refl _
  · simp only [Except.ok.injEq, Prod.mk.injEq] at h; obtain ⟨-, rfl⟩ := h; exact Same.refl _
  · simp only [Except.ok.injEq, Prod.mk.injEq] at h; obtain ⟨-, rfl⟩ := h; exact Same.refl _
  · simp only [Except.ok.injEq, Prod.mk.injEq] at h; obtain ⟨-, rfl⟩ := h; exact Same.refl _
  · cases h
  · split at h
    · simp only [Except.ok.injEq, Prod.mk.injEq] at h; obtain ⟨-, rfl⟩ := h; exact Same.refl _
    · cases h
  · split at h
    · cases h
    · next i s1 hs =>
      simp only [Except.ok.injEq, Prod.mk.injEq] at h; obtain ⟨-, rfl⟩ := h; exact slotId_same hs
  · split at h
    · simp only [Except.ok.injEq, Prod.mk.injEq] at h; obtain ⟨-, rfl⟩ := h; exact Same.refl _
    · cases h

theorem canonFields_same (vs : List (String × Val)) : ∀ {s s' : St} {os : List (String × OVal)},
    canonFields vs s = .ok (os, s') → Same s s' := by
  induction vs with
  | nil =>
    intro s s' os h
    simp only [canonFields, Except.ok.injEq, Prod.mk.injEq] at h
    obtain ⟨-, rfl⟩ := h; exact Same.refl _
  | cons p vs ih =>
    intro s s' os h
    obtain ⟨k, v⟩ := p
    simp only [canonFields] at h
    split at h
    · exact ih h
    · split at h
      · cases h
      · next o s1 hc =>
        split at h
        · cases h
        · next os1 s2 hr =>
          simp only [Except.ok.injEq, Prod.mk.injEq] at h
          obtain ⟨-, rfl⟩ := h; exact (canon_same hc).trans (ih hr)

/-- what is written for a row: exactly its non-hidden fields, in order -/
theorem canonFields_keys (vs : List (String × Val)) : ∀ {s s' : St} {os : List (String × OVal)},
    canonFields vs s = .ok (os, s') →
    os.map (·.1) = (vs.filter (fun p => !p.1.startsWith "__")).map (·.1) := by
  induction vs with
  | nil =>
    intro s s' os h
    simp only [canonFields, Except.ok.injEq, Prod.mk.injEq] at h
    obtain ⟨rfl, -⟩ := h; rfl
  | cons p vs ih =>
    intro s s' os h
    obtain ⟨k, v⟩ := p
    simp only [canonFields] at h
    split at h
    · next hk => rw [ih h]; simp [hk]
    · next hk =>
      split at h
      · cases h
      · next o s1 hc =>
        split at h
        · cases h
        · next os1 s2 hr =>
          simp only [Except.ok.injEq, Prod.mk.injEq] at h
          obtain ⟨rfl, -⟩ := h
          simp [hk, ih hr]

theorem canonFields_clean {vs : List (String × Val)} {s s' : St} {os : List (String × OVal)}
    (h : canonFields vs s = .ok (os, s')) : ∀ p ∈ os, p.1.startsWith "__" = false := by
  intro p hp
  have hk := canonFields_keys vs h
  have : p.1 ∈ os.map (·.1) := List.mem_map_of_mem hp
  rw [hk] at this
  obtain ⟨q, hq, hqp⟩ := List.mem_map.1 this
  have := (List.mem_filter.1 hq).2
  rw [← hqp]
  simpa using this

/-! ### one-step unfoldings of the mutual block -/

theorem renderFd_zero (c : Ctx) (fd : FieldDef) (s : St) : renderFd 0 c fd s = .error .fuel := by
  simp only [renderFd]

theorem execTemplate_zero (c : Ctx) (t : Template) (s : St) : execTemplate 0 c t s = .error .fuel := by
  simp only [execTemplate]

theorem execRows_zero (c : Ctx) (t : Template) (i n : Nat) (last : Option Nat) (s : St) :
    execRows 0 c t i n last s = .error .fuel := by
  simp only [execRows]

theorem execRow_zero (c : Ctx) (t : Template) (i : Nat) (s : St) : execRow 0 c t i s = .error .fuel := by
  simp only [execRow]

theorem execFields_zero (c : Ctx) (h : Nat) (fs : List (String × FieldDef)) (s : St) :
    execFields 0 c h fs s = .error .fuel := by
  simp only [execFields]

theorem execStmts_zero (c : Ctx) (sts : List Stmt) (cont : Bool) (s : St) :
    execStmts 0 c sts cont s = .error .fuel := by
  simp only [execStmts]

theorem execTemplate_succ (fuel : Nat) (parent : Ctx) (t : Template) (s : St) :
    execTemplate (fuel + 1) parent t s =
      (match (match t.count with
        | none => (.ok (1, s) : R Nat)
        | some fd =>
          match renderFd fuel { obj := none, vars := parent.vars } fd s with
          | .error e => .error e
          | .ok (v, s1) =>
            match countOf s1 v with
            | .error e => .error e
            | .ok n => .ok (n, s1)) with
      | .error e => .error e
      | .ok (n, s1) => execRows fuel { obj := none, vars := parent.vars } t 0 n none s1) := by
  simp only [execTemplate]
  rfl

theorem execRows_succ (fuel : Nat) (c : Ctx) (t : Template) (i n : Nat) (last : Option Nat) (s : St) :
    execRows (fuel + 1) c t i n last s =
      (if i ≥ n then .ok (last, s) else
      match execRow fuel { c with vars := aset c.vars "child_index" (.int i) } t i s with
      | .error e => .error e
      | .ok ((h, c2), s1) => execRows fuel c2 t (i + 1) n (some h) s1) := by
  simp only [execRows]
  rfl

theorem execFields_nil (fuel : Nat) (c : Ctx) (h : Nat) (s : St) :
    execFields (fuel + 1) c h [] s = .ok ((), s) := by
  simp only [execFields]

theorem execFields_cons (fuel : Nat) (c : Ctx) (h : Nat) (name : String) (fd : FieldDef)
    (rest : List (String × FieldDef)) (s : St) :
    execFields (fuel + 1) c h ((name, fd) :: rest) s =
      (match renderFd fuel c fd s with
       | .error e => .error e
       | .ok (v, s1) => execFields fuel c h rest (setRowValue s1 h name v)) := by
  simp only [execFields]
  rfl

theorem execStmts_nil (fuel : Nat) (c : Ctx) (cont : Bool) (s : St) :
    execStmts (fuel + 1) c [] cont s = .ok (c, s) := by
  simp only [execStmts]

theorem execStmts_var (fuel : Nat) (c : Ctx) (name : String) (fd : FieldDef) (rest : List Stmt)
    (cont : Bool) (s : St) :
    execStmts (fuel + 1) c (.var name fd :: rest) cont s =
      (match renderFd fuel { obj := none, vars := c.vars } fd s with
       | .error e => .error e
       | .ok (v, s1) => execStmts fuel { c with vars := aset c.vars name v } rest cont s1) := by
  simp only [execStmts]
  rfl

theorem execStmts_obj (fuel : Nat) (c : Ctx) (t : Template) (rest : List Stmt)
    (cont : Bool) (s : St) :
    execStmts (fuel + 1) c (.obj t :: rest) cont s =
      (if t.justOnce ∧ cont then execStmts fuel c rest cont s else
       match execTemplate fuel c t s with
       | .error e => .error e
       | .ok (_, s1) => execStmts fuel c rest cont s1) := by
  simp only [execStmts]
  rfl

/-- the state in which the fields of a new row are evaluated: the id is drawn, the row is
    appended and registered -/
def regState (s : St) (t : Template) (i : Nat) : St :=
  let s1 := (generateId s t.table t.nick).2
  let h := s1.rows.length
  let rd : RowData := { table := t.table, idx := i, values := [("id", Val.int (generateId s t.table t.nick).1)] }
  let s2 : St := { s1 with rows := s1.rows ++ [rd] }
  let s3 : St :=
    match t.nick with
    | some nk => if t.justOnce then { s2 with pNick := aset s2.pNick nk h }
                 else { s2 with nick := aset s2.nick nk h }
    | none => s2
  let s4 : St := if t.justOnce then { s3 with pTable := aset s3.pTable t.table h } else s3
  { s4 with seen := aset s4.seen t.table h }

theorem regState_out (s : St) (t : Template) (i : Nat) : (regState s t i).out = s.out := by
  have h := (generateId_same s t.table t.nick).1
  unfold regState
  simp only
  generalize generateId s t.table t.nick = g at h ⊢
  cases t.nick <;> cases t.justOnce <;> simp [h]

theorem regState_rows (s : St) (t : Template) (i : Nat) :
    (regState s t i).rows.length = s.rows.length + 1 := by
  have h := (generateId_same s t.table t.nick).2
  unfold regState
  simp only
  generalize generateId s t.table t.nick = g at h ⊢
  cases t.nick <;> cases t.justOnce <;> simp [h]

/-- the writing step of `execRow` -/
def writeRow (t : Template) (h : Nat) (s6 : St) : R Unit :=
  if t.table.startsWith "__" then .ok ((), s6) else
  match canonFields (rowData s6 h).values s6 with
  | .error e => .error e
  | .ok (fs, s7) => .ok ((), { s7 with out := s7.out ++ [{ table := t.table, fields := fs }] })

theorem execRow_succ (fuel : Nat) (c : Ctx) (t : Template) (i : Nat) (s : St) :
    execRow (fuel + 1) c t i s =
      (match execFields fuel { c with obj := some s.rows.length } s.rows.length t.fields (regState s t i) with
       | .error e => .error e
       | .ok (_, s6) =>
         match writeRow t s.rows.length s6 with
         | .error e => .error e
         | .ok (_, s8) =>
           match execStmts fuel { c with obj := some s.rows.length } t.friends true s8 with
           | .error e => .error e
           | .ok (c2, s9) => .ok ((s.rows.length, c2), s9)) := by
  have h := (generateId_same s t.table t.nick).2
  simp only [execRow, regState, writeRow, h]
  rfl

end SnowModel.L2
