import SnowModel.Core.IdMachine
import SnowModel.Core.L2
import SnowModel.Proofs.L1

/-!
Helper lemmas for Props/C04 (stop-and-continue is invisible).
-/
namespace SnowModel.IdMachine

/-- local restatement of `Props.C04.Same` -/
def SameP (s t : St) : Prop :=
  s.names = t.names ∧ s.lastUsed = t.lastUsed ∧ s.slot = t.slot ∧ s.pNick = t.pNick ∧
  s.pTable = t.pTable ∧ s.nickObjs = t.nickObjs ∧ s.lastSeen = t.lastSeen ∧
  s.created = t.created ∧ s.handedOut = t.handedOut

/-- replace the `startIds` component -/
def setSI (s : St) (f : Name → Option Nat) : St := { s with startIds := f }

theorem sameP_refl (s : St) : SameP s s := ⟨rfl, rfl, rfl, rfl, rfl, rfl, rfl, rfl, rfl⟩

theorem sameP_setSI (s : St) (f : Name → Option Nat) : SameP s (setSI s f) :=
  ⟨rfl, rfl, rfl, rfl, rfl, rfl, rfl, rfl, rfl⟩

theorem sameP_symm {s t : St} (h : SameP s t) : SameP t s := by
  obtain ⟨h1, h2, h3, h4, h5, h6, h7, h8, h9⟩ := h
  exact ⟨h1.symm, h2.symm, h3.symm, h4.symm, h5.symm, h6.symm, h7.symm, h8.symm, h9.symm⟩

theorem sameP_trans {s t u : St} (h : SameP s t) (h' : SameP t u) : SameP s u := by
  obtain ⟨h1, h2, h3, h4, h5, h6, h7, h8, h9⟩ := h
  obtain ⟨g1, g2, g3, g4, g5, g6, g7, g8, g9⟩ := h'
  exact ⟨h1.trans g1, h2.trans g2, h3.trans g3, h4.trans g4, h5.trans g5, h6.trans g6,
    h7.trans g7, h8.trans g8, h9.trans g9⟩

/-- a state is determined by its fields -/
theorem eq_setSI_of_sameP {s t : St} (h : SameP s t) : t = setSI s t.startIds := by
  obtain ⟨h1, h2, h3, h4, h5, h6, h7, h8, h9⟩ := h
  cases s; cases t
  simp only [setSI] at *
  subst h1 h2 h3 h4 h5 h6 h7 h8 h9
  rfl

/-! ### every operation commutes with replacing `startIds` -/

theorem tableOf_setSI (s : St) (f) (n : Name) : tableOf (setSI s f) n = tableOf s n := rfl

theorem consume_setSI (s : St) (f) (n table : Name) :
    consume (setSI s f) n table = (consume s n table).map (fun p => (setSI p.1 f, p.2)) := by
  unfold consume
  rw [tableOf_setSI]
  show (match tableOf s n, s.slot n with
    | some t, .alloc i =>
      if t = table then some ({ setSI s f with slot := upd s.slot n (.consumed i) }, i) else none
    | _, _ => none) = _
  cases tableOf s n with
  | none => rfl
  | some t =>
    cases s.slot n with
    | unused => rfl
    | consumed i => rfl
    | alloc i =>
      by_cases h : t = table
      · simp only [h, if_true, Option.map_some]; rfl
      · simp only [h, if_false, Option.map_none]

theorem fresh_setSI (s : St) (f) (table : Name) :
    fresh (setSI s f) table = (setSI (fresh s table).1 f, (fresh s table).2) := rfl

theorem generateId_setSI (s : St) (f) (table : Name) (nick : Option Name) :
    generateId (setSI s f) table nick
      = (setSI (generateId s table nick).1 f, (generateId s table nick).2) := by
  unfold generateId
  have h1 : (nick.bind fun n => consume (setSI s f) n table)
      = (nick.bind fun n => consume s n table).map (fun p => (setSI p.1 f, p.2)) := by
    cases nick with
    | none => rfl
    | some n => simp only [Option.bind_some]; exact consume_setSI s f n table
  rw [h1, consume_setSI]
  cases nick.bind fun n => consume s n table with
  | some r => rfl
  | none =>
    simp only [Option.map_none]
    cases consume s table table with
    | some r => rfl
    | none => rfl

theorem register_setSI (s : St) (f) (r : Row) (nick : Option Name) (j : Bool) :
    register (setSI s f) r nick j = setSI (register s r nick j) f := by
  cases nick <;> cases j <;> rfl

theorem createSt_setSI (s : St) (f) (table : Name) (nick : Option Name) (j : Bool) :
    createSt (setSI s f) table nick j = setSI (createSt s table nick j) f := by
  unfold createSt
  simp only [generateId_setSI, register_setSI]
  rfl

theorem lookup_setSI (s : St) (f) (name : Name) :
    lookup (setSI s f) name = (setSI (lookup s name).1 f, (lookup s name).2) := by
  unfold lookup
  simp only [setSI, tableOf, fresh]
  cases s.lastSeen name with
  | some r => rfl
  | none =>
  cases s.nickObjs name with
  | some r => rfl
  | none =>
  cases s.pTable name with
  | some r => rfl
  | none =>
  cases s.pNick name with
  | some r => rfl
  | none =>
  cases s.names.lookup name with
  | none => rfl
  | some t =>
  cases s.slot name with
  | unused => rfl
  | alloc i => rfl
  | consumed i => rfl

theorem notFilled_setSI (s : St) (f) : notFilled (setSI s f) = notFilled s := rfl

theorem resetSlots_setSI (s : St) (f) : resetSlots (setSI s f) = setSI (resetSlots s) f := rfl

/-! ### `step` and `run` do not see `startIds` -/

theorem step_setSI (s : St) (f) (op : Op) :
    (∀ s1 o, step s op = .ok (s1, o) → ∃ g, step (setSI s f) op = .ok (setSI s1 g, o))
    ∧ (∀ e, step s op = .error e → step (setSI s f) op = .error e) := by
  cases op with
  | create table nick j =>
    simp only [step_create, createSt_setSI, generateId_setSI]
    constructor
    · intro s1 o h
      cases h
      exact ⟨f, rfl⟩
    · intro e h; cases h
  | lookup name =>
    simp only [step, lookup_setSI]
    constructor
    · intro s1 o h
      have h' := Except.ok.inj h
      rw [h']
      exact ⟨f, rfl⟩
    · intro e h; cases h
  | endIteration =>
    simp only [step, notFilled_setSI, resetSlots_setSI]
    cases notFilled s with
    | nil =>
      constructor
      · intro s1 o h
        cases h
        exact ⟨f, rfl⟩
      · intro e h; cases h
    | cons a l =>
      constructor
      · intro s1 o h; cases h
      · intro e h; exact h
  | saveLoad =>
    simp only [step, notFilled_setSI]
    cases notFilled s with
    | nil =>
      constructor
      · intro s1 o h
        cases h
        exact ⟨fun t => some (s.lastUsed t + 1), rfl⟩
      · intro e h; cases h
    | cons a l =>
      constructor
      · intro s1 o h; cases h
      · intro e h; exact h

theorem step_sameP (s t : St) (op : Op) (h : SameP s t) :
    (∀ s1 o, step s op = .ok (s1, o) → ∃ t1, step t op = .ok (t1, o) ∧ SameP s1 t1)
    ∧ (∀ e, step s op = .error e → step t op = .error e) := by
  rw [eq_setSI_of_sameP h]
  obtain ⟨h1, h2⟩ := step_setSI s t.startIds op
  constructor
  · intro s1 o hs
    obtain ⟨g, hg⟩ := h1 s1 o hs
    exact ⟨setSI s1 g, hg, sameP_setSI s1 g⟩
  · exact h2

theorem run_nil (s : St) : run s [] = .ok (s, []) := rfl

theorem run_cons_of_ok {s s1 : St} {op : Op} {o : Obs} (ops : List Op)
    (h : step s op = .ok (s1, o)) :
    run s (op :: ops) = (match run s1 ops with
      | .error e => .error e
      | .ok (s2, os) => .ok (s2, o :: os)) := by
  simp only [run, h]
  rfl

theorem run_cons_of_error {s : St} {op : Op} {e : Err} (ops : List Op)
    (h : step s op = .error e) : run s (op :: ops) = .error e := by
  simp only [run, h]

theorem run_sameP (s t : St) (ops : List Op) (h : SameP s t) :
    (∀ s1 os, run s ops = .ok (s1, os) → ∃ t1, run t ops = .ok (t1, os) ∧ SameP s1 t1)
    ∧ (∀ e, run s ops = .error e → run t ops = .error e) := by
  induction ops generalizing s t with
  | nil =>
    constructor
    · intro s1 os hr
      simp only [run, Except.ok.injEq, Prod.mk.injEq] at hr
      obtain ⟨rfl, rfl⟩ := hr
      exact ⟨t, rfl, h⟩
    · intro e hr; cases hr
  | cons op ops ih =>
    obtain ⟨hs1, hs2⟩ := step_sameP s t op h
    cases hst : step s op with
    | error e =>
      rw [run_cons_of_error ops hst, run_cons_of_error ops (hs2 e hst)]
      constructor
      · intro s1 os hr; cases hr
      · intro e' hr; exact hr
    | ok p =>
      obtain ⟨sa, o⟩ := p
      obtain ⟨ta, hta, hsame⟩ := hs1 sa o hst
      rw [run_cons_of_ok ops hst, run_cons_of_ok ops hta]
      obtain ⟨ih1, ih2⟩ := ih sa ta hsame
      cases hr : run sa ops with
      | error e =>
        rw [ih2 e hr]
        constructor
        · intro s1 os h'; cases h'
        · intro e' h'; exact h'
      | ok q =>
        obtain ⟨sb, os⟩ := q
        obtain ⟨tb, htb, hsb⟩ := ih1 sb os hr
        rw [htb]
        constructor
        · intro s1 os' h'
          cases h'
          exact ⟨tb, rfl, hsb⟩
        · intro e' h'; cases h'

/-! ### `run` over an append, all directions -/

/-- `run` over an append as a single equation -/
theorem run_append (s : St) (ops1 ops2 : List Op) :
    run s (ops1 ++ ops2) = (match run s ops1 with
      | .error e => .error e
      | .ok (s1, os1) =>
        match run s1 ops2 with
        | .error e => .error e
        | .ok (s2, os2) => .ok (s2, os1 ++ os2)) := by
  induction ops1 generalizing s with
  | nil =>
    simp only [List.nil_append, run]
    cases run s ops2 with
    | error e => rfl
    | ok q => rfl
  | cons op ops ih =>
    rw [List.cons_append]
    cases hst : step s op with
    | error e => rw [run_cons_of_error _ hst, run_cons_of_error _ hst]
    | ok p =>
      obtain ⟨sa, o⟩ := p
      rw [run_cons_of_ok _ hst, run_cons_of_ok _ hst, ih sa]
      cases run sa ops with
      | error e => rfl
      | ok q =>
        obtain ⟨sb, os1⟩ := q
        simp only
        cases run sb ops2 with
        | error e => rfl
        | ok q2 => rfl

theorem run_length {s s1 : St} {ops : List Op} {os : List Obs} (h : run s ops = .ok (s1, os)) :
    os.length = ops.length := by
  induction ops generalizing s os with
  | nil =>
    simp only [run, Except.ok.injEq, Prod.mk.injEq] at h
    obtain ⟨_, rfl⟩ := h
    rfl
  | cons op ops ih =>
    obtain ⟨sa, o, os', _, hr, rfl⟩ := run_cons_ok h
    simp only [List.length_cons, ih hr]

theorem run_single (s : St) (op : Op) :
    run s [op] = (match step s op with
      | .error e => .error e
      | .ok (s1, o) => .ok (s1, [o])) := by
  cases hst : step s op with
  | error e => rw [run_cons_of_error _ hst]
  | ok p =>
    obtain ⟨sa, o⟩ := p
    rw [run_cons_of_ok _ hst]
    rfl

/-! ### save/load at an iteration boundary -/

theorem notFilled_resetSlots (s : St) : notFilled (resetSlots s) = [] := by
  unfold notFilled resetSlots
  simp

theorem resetSlots_idem (s : St) : resetSlots (resetSlots s) = resetSlots s := rfl

theorem saveLoad_at_boundaryP (s s1 : St) (o : Obs) (he : step s .endIteration = .ok (s1, o)) :
    ∃ s2, step s1 .saveLoad = .ok (s2, .ok) ∧ SameP s1 s2 := by
  simp only [step] at he
  split at he
  · cases he
    refine ⟨setSI (resetSlots s) (fun t => some ((resetSlots s).lastUsed t + 1)), ?_,
      sameP_setSI _ _⟩
    simp only [step, notFilled_resetSlots]
    rfl
  · cases he

theorem endIteration_obs {s s1 : St} {o : Obs} (he : step s .endIteration = .ok (s1, o)) :
    o = .ok := by
  simp only [step] at he
  split at he
  · cases he; rfl
  · cases he

theorem split_invisibleP (s0 : St) (ops1 ops2 : List Op) :
    (∀ s os, run s0 (ops1 ++ [.endIteration] ++ ops2) = .ok (s, os) →
        ∃ s' os1 os2, run s0 (ops1 ++ [.endIteration, .saveLoad] ++ ops2) = .ok (s', os1 ++ [.ok] ++ os2)
          ∧ os = os1 ++ os2 ∧ os1.length = ops1.length + 1 ∧ SameP s s')
    ∧ (∀ e, run s0 (ops1 ++ [.endIteration] ++ ops2) = .error e →
        run s0 (ops1 ++ [.endIteration, .saveLoad] ++ ops2) = .error e) := by
  have hl : ops1 ++ [Op.endIteration, Op.saveLoad] ++ ops2
      = (ops1 ++ [Op.endIteration]) ++ (Op.saveLoad :: ops2) := by simp
  rw [hl, run_append s0 (ops1 ++ [Op.endIteration]) ops2,
    run_append s0 (ops1 ++ [Op.endIteration]) (Op.saveLoad :: ops2)]
  cases hA : run s0 (ops1 ++ [Op.endIteration]) with
  | error e =>
    constructor
    · intro s os h; cases h
    · intro e' h; exact h
  | ok p =>
    obtain ⟨sa, os1⟩ := p
    have hlen : os1.length = ops1.length + 1 := by
      rw [run_length hA]; simp
    obtain ⟨sm, _, _, _, hm⟩ := run_append_ok hA
    obtain ⟨o, hst⟩ := run_single_ok hm
    obtain ⟨s2, hsl, hsame⟩ := saveLoad_at_boundaryP sm sa o hst
    simp only
    rw [run_cons_of_ok ops2 hsl]
    obtain ⟨r1, r2⟩ := run_sameP sa s2 ops2 hsame
    cases hB : run sa ops2 with
    | error e =>
      rw [r2 e hB]
      constructor
      · intro s os h; cases h
      · intro e' h; exact h
    | ok q =>
      obtain ⟨sb, os2⟩ := q
      obtain ⟨tb, htb, hsb⟩ := r1 sb os2 hB
      rw [htb]
      constructor
      · intro s os h
        cases h
        exact ⟨tb, os1, os2, by simp, rfl, hlen, hsb⟩
      · intro e' h; cases h

end SnowModel.IdMachine

namespace SnowModel.L2

theorem iterations_zero (fuel : Nat) (r : Recipe) (c : Ctx) (cont : Bool) (s : St) :
    iterations fuel r 0 c cont s = .ok (c, s) := by
  simp only [iterations]

theorem iterations_succ (fuel : Nat) (r : Recipe) (k : Nat) (c : Ctx) (cont : Bool) (s : St) :
    iterations fuel r (k + 1) c cont s =
      (match execStmts fuel c r.statements cont s with
       | .error e => .error e
       | .ok (c1, s1) =>
         match notFilled s1 with
         | _ :: _ => .error (.recipe "reference not fulfilled")
         | [] =>
           iterations fuel r k { c1 with vars := c1.vars.map (fun p => (p.1, freezeVal s1 p.2)) } true
             (resetSlots s1)) := by
  simp only [iterations]
  rfl

theorem iterations_add_succ (fuel : Nat) (r : Recipe) (k b : Nat)
    (c : Ctx) (cont : Bool) (s : St) :
    iterations fuel r (k + 1 + b) c cont s =
      (match iterations fuel r (k + 1) c cont s with
       | .error e => .error e
       | .ok (c1, s1) => iterations fuel r b c1 true s1) := by
  induction k generalizing c cont s with
  | zero =>
    rw [Nat.zero_add, Nat.add_comm 1 b, iterations_succ, iterations_succ]
    cases execStmts fuel c r.statements cont s with
    | error e => rfl
    | ok p =>
      obtain ⟨c1, s1⟩ := p
      simp only
      cases notFilled s1 with
      | cons a l => rfl
      | nil => simp only [iterations_zero]
  | succ k ih =>
    rw [Nat.succ_add, iterations_succ, iterations_succ fuel r (k + 1)]
    cases execStmts fuel c r.statements cont s with
    | error e => rfl
    | ok p =>
      obtain ⟨c1, s1⟩ := p
      simp only
      cases notFilled s1 with
      | cons a l => rfl
      | nil => exact ih _ true (resetSlots s1)

end SnowModel.L2
