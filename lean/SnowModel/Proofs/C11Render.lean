/-
C11 helper lemmas: an integer rendered to its decimal text and passed through the v2 dialect's
`look_for_number` (`L2.lookForNumber`) — used for formula-valued arguments and for the re-rendered
result of an inline `${{random_number(…)}}`.
-/
import SnowModel.Core.Bounded
import Std.Data.String.ToNat
import Std.Data.String.ToInt

namespace SnowModel.Proofs.C11Render
open SnowModel.L2 SnowModel.Bounded

theorem head_toDigits_ne_zero (n : Nat) (hn : 0 < n) :
    ∃ c rest, Nat.toDigits 10 n = c :: rest ∧ c ≠ '0' := by
  induction n using Nat.strongRecOn with
  | _ n ih =>
    rw [Nat.toDigits_eq_if (by decide)]
    by_cases h : n < 10
    · rw [if_pos h]
      refine ⟨_, [], rfl, ?_⟩
      simp; omega
    · rw [if_neg h]
      obtain ⟨c, rest, hc, hne⟩ := ih (n / 10) (by omega) (by omega)
      exact ⟨c, rest ++ [(n % 10).digitChar], by rw [hc]; rfl, hne⟩

theorem toNat!_repr (n : Nat) : (Nat.repr n).toNat! = n := by
  have h1 := Nat.toNat?_repr n
  have h2 := Nat.isNat_repr n
  unfold String.toNat! String.Slice.toNat!
  unfold String.toNat? String.Slice.toNat? at h1
  rw [← String.isNat_toSlice] at h2
  rw [if_pos h2] at h1 ⊢
  injection h1

theorem isDigit_of_charIsDigit (c : Char) (h : c.isDigit = true) : isDigit c = true := by
  simp only [Char.isDigit, Bool.and_eq_true, decide_eq_true_eq] at h
  simp only [isDigit, decide_eq_true_eq]
  constructor
  · exact Char.le_def.2 (by simpa using h.1)
  · exact Char.le_def.2 (by simpa using h.2)

theorem dot_not_digit (c : Char) (h : c.isDigit = true) : c ≠ '.' := by
  intro e; subst e; simp [Char.isDigit] at h

theorem lookForNumber_repr_pos (n : Nat) (hn : 0 < n) :
    lookForNumber (Nat.repr n) = .ok (.int n) := by
  obtain ⟨c, rest, hc, hne⟩ := head_toDigits_ne_zero n hn
  have hall : ∀ d ∈ Nat.toDigits 10 n, d.isDigit = true :=
    fun d hd => Nat.isDigit_of_mem_toDigits (by decide) (by decide) hd
  unfold lookForNumber
  simp only [Nat.toList_repr, hc]
  have h0 : ¬ (c = '0' ∧ rest.head? ≠ some '.') := fun h => hne h.1
  rw [if_neg h0]
  have hall' : (c :: rest).all (fun c => isDigit c ∨ c = '.') = true := by
    rw [List.all_eq_true]
    intro d hd
    have := isDigit_of_charIsDigit d (hall d (hc ▸ hd))
    simp [this]
  rw [if_pos hall']
  have hdots : ((c :: rest).filter (· = '.')).length = 0 := by
    rw [List.length_eq_zero_iff, List.filter_eq_nil_iff]
    intro d hd
    simpa using dot_not_digit d (hall d (hc ▸ hd))
  simp only [hdots, if_true]
  rw [toNat!_repr]

theorem intToStr_ofNat (n : Nat) : intToStr (n : Int) = Nat.repr n := rfl
theorem intToStr_negSucc (m : Nat) : intToStr (Int.negSucc m) = "-" ++ Nat.repr (m + 1) := rfl

theorem lookForNumber_neg (m : Nat) :
    lookForNumber (intToStr (Int.negSucc m)) = .ok (.str (intToStr (Int.negSucc m))) := by
  rw [intToStr_negSucc]
  unfold lookForNumber
  have : ("-" ++ Nat.repr (m + 1)).toList = '-' :: Nat.toDigits 10 (m + 1) := by
    simp [String.toList_append, Nat.toList_repr]
  simp only [this]
  rw [if_neg (by simp)]
  have hnot : ¬ (('-' :: Nat.toDigits 10 (m + 1)).all (fun c => isDigit c ∨ c = '.') = true) := by
    simp [isDigit]
  rw [if_neg hnot]

theorem lookForNumber_zero : lookForNumber (intToStr 0) = .ok (.str "0") := by
  have : intToStr 0 = "0" := rfl
  rw [this]; unfold lookForNumber; simp

/-- Complete description of `renderV2`. -/
theorem renderV2_cases (x : Int) :
    (0 < x ∧ renderV2 x = .ok (.int x)) ∨ (x ≤ 0 ∧ renderV2 x = .ok (.str (intToStr x))) := by
  unfold renderV2
  cases x with
  | ofNat n =>
    cases n with
    | zero => right; exact ⟨by decide, lookForNumber_zero⟩
    | succ m =>
      left
      refine ⟨Int.natCast_pos.2 (by omega), ?_⟩
      show lookForNumber (intToStr ((m + 1 : Nat) : Int)) = .ok (.int ((m + 1 : Nat) : Int))
      rw [intToStr_ofNat]
      exact lookForNumber_repr_pos (m + 1) (by omega)
  | negSucc m => right; exact ⟨Int.le_of_lt (Int.negSucc_lt_zero m), lookForNumber_neg m⟩

theorem valAsInt_str_intToStr (x : Int) : valAsInt (.str (intToStr x)) = some x := by
  simp only [valAsInt, intToStr]
  exact Int.toInt?_repr x

end SnowModel.Proofs.C11Render
