/-
"Hidden is a projection", part 1: the renaming of recipes, values and states, the hypotheses on a
renaming, and how association lists and the primitive id operations commute with an injective
renaming of the keys.
-/
import SnowModel.Proofs.L2Ids1

namespace SnowModel.L2

/-! ### renaming the syntax -/

def renExpr (ρ : String → String) : Expr → Expr
  | .int n => .int n
  | .name s => .name (ρ s)
  | .attr e f => .attr (renExpr ρ e) (ρ f)
  | .add a b => .add (renExpr ρ a) (renExpr ρ b)
  | .sub a b => .sub (renExpr ρ a) (renExpr ρ b)
  | .mul a b => .mul (renExpr ρ a) (renExpr ρ b)

def renPart (ρ : String → String) : Part → Part
  | .text s => .text s
  | .expr e => .expr (renExpr ρ e)

mutual
  def renFd (ρ : String → String) : FieldDef → FieldDef
    | .lit v => .lit v
    | .tmpl ps => .tmpl (ps.map (renPart ρ))
    | .ref p => .ref (p.map ρ)
    | .nested t => .nested (renT ρ t)
  def renT (ρ : String → String) : Template → Template
    | .mk tb nk jo cnt fs fr => .mk (ρ tb) (nk.map ρ) jo (renOFd ρ cnt) (renFields ρ fs) (renStmts ρ fr)
  def renOFd (ρ : String → String) : Option FieldDef → Option FieldDef
    | none => none
    | some fd => some (renFd ρ fd)
  def renFields (ρ : String → String) : List (String × FieldDef) → List (String × FieldDef)
    | [] => []
    | (k, fd) :: r => (ρ k, renFd ρ fd) :: renFields ρ r
  def renStmts (ρ : String → String) : List Stmt → List Stmt
    | [] => []
    | st :: r => renStmt ρ st :: renStmts ρ r
  def renStmt (ρ : String → String) : Stmt → Stmt
    | .var n fd => .var (ρ n) (renFd ρ fd)
    | .obj t => .obj (renT ρ t)
end

def renRecipe (ρ : String → String) (r : Recipe) : Recipe :=
  { v3 := r.v3, options := r.options.map (fun p => (ρ p.1, p.2)), statements := renStmts ρ r.statements }

/-! ### renaming values and states -/

def renVal (ρ : String → String) : Val → Val
  | .slot n => .slot (ρ n)
  | .deadSlot t i => .deadSlot (ρ t) i
  | v => v

def renA {α β : Type} (ρ : String → String) (f : α → β) (l : AList α) : AList β :=
  l.map (fun p => (ρ p.1, f p.2))

def renRow (ρ : String → String) (r : RowData) : RowData :=
  { table := ρ r.table, idx := r.idx, values := renA ρ (renVal ρ) r.values }

/-- the renamed state, with a given output list -/
def renSt (ρ : String → String) (o : List OutRow) (s : St) : St :=
  { v3 := s.v3, names := renA ρ ρ s.names, options := renA ρ (renVal ρ) s.options,
    lastUsed := renA ρ id s.lastUsed, slots := renA ρ id s.slots, pNick := renA ρ id s.pNick,
    pTable := renA ρ id s.pTable, nick := renA ρ id s.nick, seen := renA ρ id s.seen,
    rows := s.rows.map (renRow ρ), out := o }

def renCtx (ρ : String → String) (c : Ctx) : Ctx := { obj := c.obj, vars := renA ρ (renVal ρ) c.vars }

def renOVal (ρ : String → String) : OVal → OVal
  | .ref t i => .ref (ρ t) i
  | v => v

/-! ### the hypotheses on a renaming -/

/-- every name the interpreter compares against or uses as a default -/
def specialNames : List String :=
  reservedNames ++ slotAttrs ++ rowPrivateAttrs ++ ["id", "count", "child_index", "this", ""]

/-- `σ` undoes `ρ` (so `ρ` is injective) and `ρ` fixes the interpreter's own names -/
structure Ren (ρ σ : String → String) : Prop where
  inv : ∀ n, σ (ρ n) = n
  fix : ∀ n ∈ specialNames, ρ n = n

/-- a table or field name: `ρ` does not hide what was visible -/
def VisOK (ρ : String → String) (n : String) : Prop :=
  (ρ n).startsWith "__" = true → n.startsWith "__" = true

/-- an attribute name (in `e.f` or in the tail of a reference path): `ρ` does not turn it into a
    dunder name, an underscore name or a `yaml…` name -/
structure AttrOK (ρ : String → String) (f : String) : Prop where
  dun : ((ρ f).startsWith "__" = true ∧ (ρ f).endsWith "__" = true) →
          (f.startsWith "__" = true ∧ f.endsWith "__" = true)
  us : (ρ f).startsWith "_" = true → f.startsWith "_" = true
  yaml : (ρ f).startsWith "yaml" = true → f.startsWith "yaml" = true

namespace Ren
variable {ρ σ : String → String}

theorem inj (h : Ren ρ σ) {a b : String} (hab : ρ a = ρ b) : a = b := by
  have := congrArg σ hab
  rwa [h.inv, h.inv] at this

theorem eq_iff (h : Ren ρ σ) {a b : String} : ρ a = ρ b ↔ a = b :=
  ⟨h.inj, fun e => by rw [e]⟩

theorem beq (h : Ren ρ σ) (a b : String) : (ρ a == ρ b) = (a == b) := by
  by_cases hab : a = b
  · subst hab; simp
  · have : ρ a ≠ ρ b := fun e => hab (h.inj e)
    simp [hab, this]

theorem eq_special (h : Ren ρ σ) {n m : String} (hm : m ∈ specialNames) : ρ n = m ↔ n = m := by
  have := h.fix m hm
  constructor
  · intro e; rw [← this] at e; exact h.inj e
  · intro e; rw [e, this]

theorem contains_special (h : Ren ρ σ) {l : List String} (hl : ∀ m ∈ l, m ∈ specialNames) (n : String) :
    l.contains (ρ n) = l.contains n := by
  induction l with
  | nil => rfl
  | cons m l ih =>
    have hm := hl m (List.mem_cons_self)
    have ih' := ih (fun x hx => hl x (List.mem_cons_of_mem _ hx))
    simp only [List.contains_cons, ih']
    congr 1
    have := h.eq_special (n := n) hm
    by_cases hn : n = m
    · simp [hn, h.fix m hm]
    · have h2 : ρ n ≠ m := fun e => hn (this.1 e)
      simp [hn, h2]

theorem fix_id (h : Ren ρ σ) : ρ "id" = "id" := h.fix _ (by simp [specialNames])
theorem fix_count (h : Ren ρ σ) : ρ "count" = "count" := h.fix _ (by simp [specialNames])
theorem fix_ci (h : Ren ρ σ) : ρ "child_index" = "child_index" := h.fix _ (by simp [specialNames])
theorem fix_this (h : Ren ρ σ) : ρ "this" = "this" := h.fix _ (by simp [specialNames])
theorem fix_empty (h : Ren ρ σ) : ρ "" = "" := h.fix _ (by simp [specialNames])

theorem reserved (h : Ren ρ σ) (n : String) : reservedNames.contains (ρ n) = reservedNames.contains n :=
  h.contains_special (fun m hm => by simp [specialNames, hm]) n

theorem slotAttr (h : Ren ρ σ) (n : String) : slotAttrs.contains (ρ n) = slotAttrs.contains n :=
  h.contains_special (fun m hm => by simp [specialNames, hm]) n

theorem rowPrivate (h : Ren ρ σ) (n : String) : rowPrivateAttrs.contains (ρ n) = rowPrivateAttrs.contains n :=
  h.contains_special (fun m hm => by simp [specialNames, hm]) n

end Ren

/-! ### association lists under an injective renaming of the keys -/
section AListRen
variable {α β : Type} {ρ σ : String → String}

theorem renA_nil (f : α → β) : renA ρ f ([] : AList α) = [] := rfl

theorem renA_cons (f : α → β) (a : String) (b : α) (l : AList α) :
    renA ρ f ((a, b) :: l) = (ρ a, f b) :: renA ρ f l := rfl

theorem renA_append (f : α → β) (l1 l2 : AList α) :
    renA ρ f (l1 ++ l2) = renA ρ f l1 ++ renA ρ f l2 := by
  simp [renA]

theorem aget_renA (h : Ren ρ σ) (f : α → β) (l : AList α) (k : String) :
    aget (renA ρ f l) (ρ k) = (aget l k).map f := by
  induction l with
  | nil => rfl
  | cons p l ih =>
    obtain ⟨a, b⟩ := p
    rw [renA_cons, aget_cons, aget_cons, ih]
    by_cases hk : k = a
    · subst hk; simp
    · have : ρ k ≠ ρ a := fun e => hk (h.inj e)
      simp [hk, this]

theorem lookup_renA (h : Ren ρ σ) (f : α → β) (l : AList α) (k : String) :
    (renA ρ f l).lookup (ρ k) = (l.lookup k).map f := aget_renA h f l k

theorem any_renA (h : Ren ρ σ) (f : α → β) (l : AList α) (k : String) :
    (renA ρ f l).any (fun p => p.1 == ρ k) = l.any (fun p => p.1 == k) := by
  induction l with
  | nil => rfl
  | cons p l ih =>
    obtain ⟨a, b⟩ := p
    rw [renA_cons, List.any_cons, List.any_cons, ih]
    simp only [h.beq]

theorem aset_renA (h : Ren ρ σ) (f : α → β) (l : AList α) (k : String) (v : α) :
    aset (renA ρ f l) (ρ k) (f v) = renA ρ f (aset l k v) := by
  unfold aset
  rw [any_renA h]
  split
  · simp only [renA, List.map_map]
    apply List.map_congr_left
    intro p _
    simp only [Function.comp, h.beq]
    split <;> rfl
  · rw [renA_append]; rfl

end AListRen


/-! ### the renamed state, field by field -/
section StRen
variable {α β : Type} {ρ σ : String → String}

theorem aset_renA_id (h : Ren ρ σ) (l : AList α) (k : String) (v : α) :
    aset (renA ρ id l) (ρ k) v = renA ρ id (aset l k v) := aset_renA h id l k v

theorem aget_renA_id (h : Ren ρ σ) (l : AList α) (k : String) :
    aget (renA ρ id l) (ρ k) = aget l k := by
  rw [aget_renA h]; simp

@[simp] theorem renSt_v3 (o : List OutRow) (s : St) : (renSt ρ o s).v3 = s.v3 := rfl
@[simp] theorem renSt_names (o : List OutRow) (s : St) : (renSt ρ o s).names = renA ρ ρ s.names := rfl
@[simp] theorem renSt_options (o : List OutRow) (s : St) :
    (renSt ρ o s).options = renA ρ (renVal ρ) s.options := rfl
@[simp] theorem renSt_lastUsed (o : List OutRow) (s : St) : (renSt ρ o s).lastUsed = renA ρ id s.lastUsed := rfl
@[simp] theorem renSt_slots (o : List OutRow) (s : St) : (renSt ρ o s).slots = renA ρ id s.slots := rfl
@[simp] theorem renSt_pNick (o : List OutRow) (s : St) : (renSt ρ o s).pNick = renA ρ id s.pNick := rfl
@[simp] theorem renSt_pTable (o : List OutRow) (s : St) : (renSt ρ o s).pTable = renA ρ id s.pTable := rfl
@[simp] theorem renSt_nick (o : List OutRow) (s : St) : (renSt ρ o s).nick = renA ρ id s.nick := rfl
@[simp] theorem renSt_seen (o : List OutRow) (s : St) : (renSt ρ o s).seen = renA ρ id s.seen := rfl
@[simp] theorem renSt_rows (o : List OutRow) (s : St) : (renSt ρ o s).rows = s.rows.map (renRow ρ) := rfl
@[simp] theorem renSt_out (o : List OutRow) (s : St) : (renSt ρ o s).out = o := rfl

theorem renRow_default (h : Ren ρ σ) : renRow ρ (default : RowData) = default := by
  show ({ table := ρ "", idx := 0, values := [] } : RowData) = { table := "", idx := 0, values := [] }
  rw [h.fix_empty]

theorem rowData_ren (h : Ren ρ σ) (o : List OutRow) (s : St) (hd : Nat) :
    rowData (renSt ρ o s) hd = renRow ρ (rowData s hd) := by
  unfold rowData
  simp only [renSt_rows, List.getD_eq_getElem?_getD, List.getElem?_map]
  cases s.rows[hd]? with
  | none => simp [renRow_default h]
  | some r => simp

@[simp] theorem renRow_values (r : RowData) : (renRow ρ r).values = renA ρ (renVal ρ) r.values := rfl
@[simp] theorem renRow_table (r : RowData) : (renRow ρ r).table = ρ r.table := rfl
@[simp] theorem renRow_idx (r : RowData) : (renRow ρ r).idx = r.idx := rfl

theorem rowId_ren (h : Ren ρ σ) (o : List OutRow) (s : St) (hd : Nat) :
    rowId (renSt ρ o s) hd = renVal ρ (rowId s hd) := by
  unfold rowId
  rw [rowData_ren h, renRow_values]
  have := lookup_renA h (renVal ρ) (rowData s hd).values "id"
  rw [h.fix_id] at this
  rw [this]
  cases List.lookup "id" (rowData s hd).values <;> rfl

/-- results: the value is mapped by `f`, the state is renamed (with output `o`) -/
def mapR (ρ : String → String) (o : List OutRow) (f : α → β) : R α → R β
  | .error e => .error e
  | .ok (a, s1) => .ok (f a, renSt ρ o s1)

@[simp] theorem mapR_error (o : List OutRow) (f : α → β) (e : Err) :
    mapR ρ o f (.error e) = .error e := rfl
@[simp] theorem mapR_ok (o : List OutRow) (f : α → β) (a : α) (s1 : St) :
    mapR ρ o f (.ok (a, s1)) = .ok (f a, renSt ρ o s1) := rfl

theorem freshId_ren (h : Ren ρ σ) (o : List OutRow) (s : St) (t : String) :
    freshId (renSt ρ o s) (ρ t) = ((freshId s t).1, renSt ρ o (freshId s t).2) := by
  simp only [freshId, renSt_lastUsed, aget_renA_id h, aset_renA_id h]
  rfl

theorem slotId_ren (h : Ren ρ σ) (o : List OutRow) (s : St) (n : String) :
    slotId (renSt ρ o s) (ρ n) = mapR ρ o id (slotId s n) := by
  unfold slotId
  rw [renSt_names, renSt_slots, aget_renA h, aget_renA_id h]
  cases hn : aget s.names n with
  | none => rfl
  | some t =>
    cases hs : (aget s.slots n).getD SlotSt.unused with
    | unused =>
      simp only [Option.map_some, freshId_ren h, mapR_ok, id]
      simp only [freshId, renSt, aset_renA_id h]
    | alloc i => rfl
    | consumed i => rfl

end StRen

end SnowModel.L2
