/-
C18 — helper lemmas (characters, sanitiser, format rendering, digits, address domain).
-/
import SnowModel.Core.FakeContact
import Mathlib.Tactic.IntervalCases

namespace SnowModel.Proofs.C18
open SnowModel.FakeContact

/-! ### characters -/

theorem lowerC_idem (c : Char) : lowerC (lowerC c) = lowerC c := by
  unfold lowerC
  by_cases h : 65 ≤ c.toNat ∧ c.toNat ≤ 90
  · have hc : c = Char.ofNat c.toNat := (Char.ofNat_toNat c).symm
    obtain ⟨h1, h2⟩ := h
    generalize c.toNat = n at *
    subst hc
    interval_cases n <;> decide
  · simp [h]

theorem lowerC_ne_underscore (c : Char) : (lowerC c != '_') = (c != '_') := by
  unfold lowerC
  by_cases h : 65 ≤ c.toNat ∧ c.toNat ≤ 90
  · have hc : c = Char.ofNat c.toNat := (Char.ofNat_toNat c).symm
    obtain ⟨h1, h2⟩ := h
    generalize c.toNat = n at *
    subst hc
    interval_cases n <;> decide
  · simp [h]

theorem lower_lower (s : Str) : lower (lower s) = lower s := by
  simp [lower, List.map_map, Function.comp_def, lowerC_idem]

theorem noUnderscore_lower (s : Str) : noUnderscore (lower s) = lower (noUnderscore s) := by
  induction s with
  | nil => rfl
  | cons c r ih =>
    simp only [lower, noUnderscore, List.map_cons, List.filter_cons] at *
    rw [lowerC_ne_underscore]
    split <;> simp [ih]

theorem noUnderscore_idem (s : Str) : noUnderscore (noUnderscore s) = noUnderscore s := by
  simp [noUnderscore, List.filter_filter]

theorem canon_lower (s : Str) : canon (lower s) = canon s := by
  simp [canon, lower_lower]

theorem canon_canon (s : Str) : canon (canon s) = canon s := by
  unfold canon
  rw [noUnderscore_lower (noUnderscore (lower s)), noUnderscore_idem, ← noUnderscore_lower, lower_lower]

theorem alnum_ne_at {c : Char} (h : isAlnumC c = true) : c ≠ '@' := by
  intro e
  subst e
  revert h
  decide

theorem alnum_ascii {c : Char} (h : isAlnumC c = true) : isAsciiC c = true := by
  simp only [isAlnumC, isAsciiC, Bool.or_eq_true, Bool.and_eq_true, decide_eq_true_eq] at *
  omega

/-! ### sanitiser -/

theorem sanitise_none_iff (s : Str) : sanitise s = none ↔ ∃ c ∈ s, isAsciiC c = false := by
  unfold sanitise
  by_cases h : s.all isAsciiC = true
  · simp only [h, if_true, reduceCtorEq, false_iff]
    rintro ⟨c, hc, hn⟩
    rw [List.all_eq_true] at h
    rw [h c hc] at hn
    exact Bool.noConfusion hn
  · have h' : s.all isAsciiC = false := by simpa using h
    simp only [h', Bool.false_eq_true, if_false, true_iff]
    simp only [List.all_eq_true, not_forall] at h
    obtain ⟨c, hc, hn⟩ := h
    exact ⟨c, hc, by simpa using hn⟩

theorem sanitise_some {s r : Str} (h : sanitise s = some r) :
    r = s.filter isAlnumC ∧ (∀ c ∈ s, isAsciiC c = true) := by
  unfold sanitise at h
  by_cases ha : s.all isAsciiC = true
  · simp only [ha, if_true, Option.some.injEq] at h
    exact ⟨h.symm, List.all_eq_true.1 ha⟩
  · simp [ha] at h

theorem sanitise_alnum {s r : Str} (h : sanitise s = some r) : ∀ c ∈ r, isAlnumC c = true := by
  intro c hc
  rw [(sanitise_some h).1] at hc
  exact (List.mem_filter.1 hc).2

theorem sanitise_of_alnum {r : Str} (h : ∀ c ∈ r, isAlnumC c = true) : sanitise r = some r := by
  unfold sanitise
  have ha : r.all isAsciiC = true := List.all_eq_true.2 (fun c hc => alnum_ascii (h c hc))
  simp only [ha, if_true, Option.some.injEq]
  exact List.filter_eq_self.2 h

theorem noAt_of_alnum {r : Str} (h : ∀ c ∈ r, isAlnumC c = true) : '@' ∉ r := by
  intro hm
  exact alnum_ne_at (h _ hm) rfl

/-! ### rendering -/

theorem render_append (fs : Fields) (a b : List Seg) :
    render fs (a ++ b) =
      match render fs a, render fs b with
      | some x, some y => some (x ++ y)
      | _, _ => none := by
  induction a with
  | nil => simp only [List.nil_append, render]; cases render fs b <;> simp
  | cons s r ih =>
    simp only [List.cons_append, render, ih]
    cases renderSeg fs s <;> cases render fs r <;> cases render fs b <;> simp

theorem render_append_some {fs : Fields} {a b : List Seg} {x y : Str}
    (ha : render fs a = some x) (hb : render fs b = some y) : render fs (a ++ b) = some (x ++ y) := by
  rw [render_append, ha, hb]

theorem render_lits (fs : Fields) (sep : Str) : render fs (sep.map Seg.lit) = some sep := by
  induction sep with
  | nil => rfl
  | cons c r ih => simp [render, renderSeg, ih]

/-! ### `str(int)` -/

def isDigitC (c : Char) : Prop := 48 ≤ c.toNat ∧ c.toNat ≤ 57
instance (c : Char) : Decidable (isDigitC c) := by unfold isDigitC; infer_instance

theorem digitChar_isDigit (d : Nat) : isDigitC (digitChar d) := by
  unfold digitChar isDigitC
  have h : d % 10 < 10 := Nat.mod_lt _ (by decide)
  generalize d % 10 = k at h
  interval_cases k <;> decide

theorem digitsAux_digits (fuel n : Nat) (acc : Str) (h : ∀ c ∈ acc, isDigitC c) :
    ∀ c ∈ digitsAux fuel n acc, isDigitC c := by
  induction fuel generalizing n acc with
  | zero => simpa [digitsAux] using h
  | succ k ih =>
    unfold digitsAux
    split
    · intro c hc
      rcases List.mem_cons.1 hc with rfl | hc
      · exact digitChar_isDigit _
      · exact h c hc
    · apply ih
      intro c hc
      rcases List.mem_cons.1 hc with rfl | hc
      · exact digitChar_isDigit _
      · exact h c hc

theorem pyStrNat_digits (n : Nat) : ∀ c ∈ pyStrNat n, isDigitC c :=
  digitsAux_digits _ _ _ (by simp)

theorem digitsAux_length_ge (fuel n : Nat) (acc : Str) : acc.length ≤ (digitsAux fuel n acc).length := by
  induction fuel generalizing n acc with
  | zero => simp [digitsAux]
  | succ k ih =>
    unfold digitsAux
    split
    · simp
    · exact Nat.le_trans (by simp) (ih _ _)

theorem digitsAux_step (fuel n : Nat) (acc : Str) (h : 10 ≤ n) :
    digitsAux (fuel + 1) n acc = digitsAux fuel (n / 10) (digitChar (n % 10) :: acc) := by
  rw [digitsAux]
  simp [Nat.not_lt.2 h]

theorem digitsAux_pos_length (fuel n : Nat) (acc : Str) (hf : 0 < fuel) :
    acc.length + 1 ≤ (digitsAux fuel n acc).length := by
  obtain ⟨k, rfl⟩ : ∃ k, fuel = k + 1 := ⟨fuel - 1, by omega⟩
  unfold digitsAux
  split
  · simp
  · exact Nat.le_trans (by simp) (digitsAux_length_ge _ _ _)

theorem pyStrNat_length (n : Nat) (h : 1000 ≤ n) : 4 ≤ (pyStrNat n).length := by
  unfold pyStrNat
  obtain ⟨k, hk⟩ : ∃ k, n + 1 = k + 4 := ⟨n - 3, by omega⟩
  rw [hk, show k + 4 = (k + 3) + 1 from rfl, digitsAux_step _ _ _ (by omega),
    show k + 3 = (k + 2) + 1 from rfl, digitsAux_step _ _ _ (by omega),
    show k + 2 = (k + 1) + 1 from rfl, digitsAux_step _ _ _ (by omega)]
  have := digitsAux_pos_length (k + 1) (n / 10 / 10 / 10)
    [digitChar (n / 10 / 10 % 10), digitChar (n / 10 % 10), digitChar (n % 10)] (by omega)
  simpa using this

theorem digit_ne_at {c : Char} (h : isDigitC c) : c ≠ '@' := by
  intro e
  subst e
  revert h
  decide

theorem pyStrNat_noAt (n : Nat) : '@' ∉ pyStrNat n := by
  intro hm
  exact digit_ne_at (pyStrNat_digits n _ hm) rfl

/-! ### the domain of an address -/

theorem takeWhile_append_stop {α} (p : α → Bool) (a b : List α) (x : α)
    (ha : ∀ y ∈ a, p y = true) (hx : p x = false) : (a ++ x :: b).takeWhile p = a := by
  induction a with
  | nil => simp [hx]
  | cons y r ih =>
    have hy : p y = true := ha y (by simp)
    simp only [List.cons_append, List.takeWhile_cons, hy, if_true]
    rw [ih (fun z hz => ha z (by simp [hz]))]

theorem addrDomain_append (l d : Str) (hd : '@' ∉ d) : addrDomain (l ++ '@' :: d) = d := by
  unfold addrDomain
  have : (l ++ '@' :: d).reverse = d.reverse ++ '@' :: l.reverse := by simp
  rw [this, takeWhile_append_stop _ _ _ _ _ (by simp), List.reverse_reverse]
  intro y hy
  have hy' : y ∈ d := List.mem_reverse.1 hy
  have : y ≠ '@' := fun e => hd (e ▸ hy')
  simpa using this

theorem reservedAddr_append (l d : Str) (hd : d ∈ reservedDomains) : ReservedAddr (l ++ '@' :: d) := by
  have hno : '@' ∉ d := by
    simp only [reservedDomains, List.mem_cons, List.not_mem_nil, or_false] at hd
    rcases hd with rfl | rfl | rfl <;> decide
  exact ⟨by simp, by rw [addrDomain_append _ _ hno]; exact hd⟩

/-- splitting at the last `@` is injective -/
theorem append_at_inj {a b d e : Str} (hd : '@' ∉ d) (he : '@' ∉ e)
    (h : a ++ '@' :: d = b ++ '@' :: e) : a = b ∧ d = e := by
  have h1 := congrArg addrDomain h
  rw [addrDomain_append _ _ hd, addrDomain_append _ _ he] at h1
  subst h1
  exact ⟨List.append_cancel_right h, rfl⟩

end SnowModel.Proofs.C18
