/-
The simultaneous induction on fuel: every function of the mutual block only appends clean rows.
-/
import SnowModel.Proofs.L2Out

namespace SnowModel.L2

theorem writeRow_ext {t : Template} {h : Nat} {s6 s8 : St} {u : Unit}
    (hw : writeRow t h s6 = .ok (u, s8)) : Ext s6 s8 := by
  unfold writeRow at hw
  split at hw
  · simp only [Except.ok.injEq, Prod.mk.injEq] at hw
    obtain ⟨-, rfl⟩ := hw; exact Ext.refl _
  · next hvis =>
    split at hw
    · cases hw
    · next fs s7 hc =>
      simp only [Except.ok.injEq, Prod.mk.injEq] at hw
      obtain ⟨-, rfl⟩ := hw
      have hs := canonFields_same _ hc
      refine ⟨⟨[{ table := t.table, fields := fs }], by simp [hs.1], ?_⟩, by simp [hs.2]⟩
      intro r hr
      simp only [List.mem_singleton] at hr
      subst hr
      exact ⟨by simpa using hvis, canonFields_clean hc⟩

/-- all six statements for one amount of fuel -/
def ExtAll (fuel : Nat) : Prop :=
  (∀ c fd s v s', renderFd fuel c fd s = .ok (v, s') → Ext s s') ∧
  (∀ c t s r s', execTemplate fuel c t s = .ok (r, s') → Ext s s') ∧
  (∀ c t i n last s r s', execRows fuel c t i n last s = .ok (r, s') → Ext s s') ∧
  (∀ c t i s r s', execRow fuel c t i s = .ok (r, s') → Ext s s') ∧
  (∀ c h fs s u s', execFields fuel c h fs s = .ok (u, s') → Ext s s') ∧
  (∀ c sts cont s c' s', execStmts fuel c sts cont s = .ok (c', s') → Ext s s')

theorem regState_ext (s : St) (t : Template) (i : Nat) : Ext s (regState s t i) :=
  ⟨⟨[], by simp [regState_out], CleanRows.nil⟩, by rw [regState_rows]; exact Nat.le_succ _⟩

theorem extAll (fuel : Nat) : ExtAll fuel := by
  induction fuel with
  | zero =>
    refine ⟨?_, ?_, ?_, ?_, ?_, ?_⟩
    · intro c fd s v s' h; rw [renderFd_zero] at h; cases h
    · intro c t s r s' h; rw [execTemplate_zero] at h; cases h
    · intro c t i n last s r s' h; rw [execRows_zero] at h; cases h
    · intro c t i s r s' h; rw [execRow_zero] at h; cases h
    · intro c hd fs s u s' h; rw [execFields_zero] at h; cases h
    · intro c sts cont s c' s' h; rw [execStmts_zero] at h; cases h
  | succ fuel ih =>
    obtain ⟨ihFd, ihT, ihRows, ihRow, ihF, ihS⟩ := ih
    refine ⟨?_, ?_, ?_, ?_, ?_, ?_⟩
    · intro c fd s v s' h
      cases fd with
      | lit l =>
        cases l with
        | str x =>
          simp only [renderFd] at h
          split at h
          · simp only [Except.ok.injEq, Prod.mk.injEq] at h
            obtain ⟨-, rfl⟩ := h; exact Ext.refl _
          · split at h
            · simp only [Except.ok.injEq, Prod.mk.injEq] at h
              obtain ⟨-, rfl⟩ := h; exact Ext.refl _
            · cases h
        | int n =>
          simp only [renderFd, Except.ok.injEq, Prod.mk.injEq] at h
          obtain ⟨-, rfl⟩ := h; exact Ext.refl _
        | bool b =>
          simp only [renderFd, Except.ok.injEq, Prod.mk.injEq] at h
          obtain ⟨-, rfl⟩ := h; exact Ext.refl _
        | null =>
          simp only [renderFd, Except.ok.injEq, Prod.mk.injEq] at h
          obtain ⟨-, rfl⟩ := h; exact Ext.refl _
      | tmpl parts =>
        simp only [renderFd] at h
        exact (renderTmpl_same h).ext
      | ref path =>
        simp only [renderFd] at h
        exact (renderRef_same h).ext
      | nested t =>
        simp only [renderFd] at h
        split at h
        · cases h
        · next s1 ht =>
          simp only [Except.ok.injEq, Prod.mk.injEq] at h
          obtain ⟨-, rfl⟩ := h; exact ihT _ _ _ _ _ ht
        · next hh s1 ht =>
          simp only [Except.ok.injEq, Prod.mk.injEq] at h
          obtain ⟨-, rfl⟩ := h; exact ihT _ _ _ _ _ ht
    · intro c t s r s' h
      rw [execTemplate_succ] at h
      split at h
      · cases h
      · next n s1 hcnt =>
        have h1 : Ext s s1 := by
          split at hcnt
          · simp only [Except.ok.injEq, Prod.mk.injEq] at hcnt
            obtain ⟨-, rfl⟩ := hcnt; exact Ext.refl _
          · split at hcnt
            · cases hcnt
            · next v s2 hfd =>
              split at hcnt
              · cases hcnt
              · simp only [Except.ok.injEq, Prod.mk.injEq] at hcnt
                obtain ⟨-, rfl⟩ := hcnt; exact ihFd _ _ _ _ _ hfd
        exact h1.trans (ihRows _ _ _ _ _ _ _ _ h)
    · intro c t i n last s r s' h
      rw [execRows_succ] at h
      split at h
      · simp only [Except.ok.injEq, Prod.mk.injEq] at h
        obtain ⟨-, rfl⟩ := h; exact Ext.refl _
      · split at h
        · cases h
        · next hh c2 s1 hrow =>
          exact (ihRow _ _ _ _ _ _ hrow).trans (ihRows _ _ _ _ _ _ _ _ h)
    · intro c t i s r s' h
      rw [execRow_succ] at h
      split at h
      · cases h
      · next u6 s6 hf =>
        split at h
        · cases h
        · next u8 s8 hw =>
          split at h
          · cases h
          · next c2 s9 hs =>
            simp only [Except.ok.injEq, Prod.mk.injEq] at h
            obtain ⟨-, rfl⟩ := h
            exact (regState_ext s t i).trans ((ihF _ _ _ _ _ _ hf).trans
              ((writeRow_ext hw).trans (ihS _ _ _ _ _ _ hs)))
    · intro c hd fs s u s' h
      cases fs with
      | nil =>
        rw [execFields_nil] at h
        simp only [Except.ok.injEq, Prod.mk.injEq] at h
        obtain ⟨-, rfl⟩ := h; exact Ext.refl _
      | cons p rest =>
        obtain ⟨name, fd⟩ := p
        rw [execFields_cons] at h
        split at h
        · cases h
        · next v s1 hfd =>
          exact (ihFd _ _ _ _ _ hfd).trans
            ((setRowValue_same s1 hd name v).ext.trans (ihF _ _ _ _ _ _ h))
    · intro c sts cont s c' s' h
      cases sts with
      | nil =>
        rw [execStmts_nil] at h
        simp only [Except.ok.injEq, Prod.mk.injEq] at h
        obtain ⟨-, rfl⟩ := h; exact Ext.refl _
      | cons st rest =>
        cases st with
        | var name fd =>
          rw [execStmts_var] at h
          split at h
          · cases h
          · next v s1 hfd => exact (ihFd _ _ _ _ _ hfd).trans (ihS _ _ _ _ _ _ h)
        | obj t =>
          rw [execStmts_obj] at h
          split at h
          · exact ihS _ _ _ _ _ _ h
          · split at h
            · cases h
            · next r s1 ht => exact (ihT _ _ _ _ _ ht).trans (ihS _ _ _ _ _ _ h)

theorem Ext.clean {s s' : St} (h : Ext s s') (hc : CleanRows s.out) : CleanRows s'.out := by
  obtain ⟨⟨ext, he, hce⟩, -⟩ := h
  rw [he]; exact hc.append hce

theorem freezeRows_length (s : St) : (freezeRows s).length = s.rows.length := by
  simp [freezeRows]

theorem resetSlots_same (s : St) : Same s (resetSlots s) := ⟨rfl, freezeRows_length s⟩

theorem saveLoad_same (s : St) : Same s (saveLoad s) := by
  simp [Same, saveLoad, freezeRows_length, List.length_mapIdx]

theorem iterations_ext (fuel : Nat) (r : Recipe) (k : Nat) : ∀ (c : Ctx) (cont : Bool) (s : St) (c' : Ctx) (s' : St),
    iterations fuel r k c cont s = .ok (c', s') → Ext s s' := by
  induction k with
  | zero =>
    intro c cont s c' s' h
    simp only [iterations, Except.ok.injEq, Prod.mk.injEq] at h
    obtain ⟨-, rfl⟩ := h; exact Ext.refl _
  | succ k ih =>
    intro c cont s c' s' h
    simp only [iterations] at h
    split at h
    · cases h
    · next c1 s1 hs =>
      split at h
      · cases h
      · exact ((extAll fuel).2.2.2.2.2 _ _ _ _ _ _ hs).trans
          ((resetSlots_same s1).ext.trans (ih _ _ _ _ _ h))

theorem chain_ext (fuel : Nat) (r : Recipe) (fs : Bool) (parts : List Nat) : ∀ (cont : Bool) (s s' : St),
    chain fuel r fs parts cont s = .ok s' → Ext s s' := by
  induction parts with
  | nil =>
    intro cont s s' h
    simp only [chain, Except.ok.injEq] at h
    subst h; exact Ext.refl _
  | cons k ks ih =>
    intro cont s s' h
    simp only [chain] at h
    split at h
    · cases h
    · next c1 s1 hi =>
      split at h
      · cases h
      · exact (iterations_ext fuel r k _ _ _ _ _ hi).trans
          ((saveLoad_same s1).ext.trans (ih _ _ _ h))

theorem runChain_clean (fuel : Nat) (r : Recipe) (parts : List Nat) (fs : Bool) :
    CleanRows (runChain fuel r parts fs).out := by
  unfold runChain
  split
  · next s hs =>
    exact (chain_ext fuel r fs parts _ _ _ hs).clean CleanRows.nil
  · exact CleanRows.nil
  · exact CleanRows.nil
  · exact CleanRows.nil

end SnowModel.L2
