/-
"Hidden is a projection", part 3: templates, references, counts and the output encoding of a value
commute with a renaming.
-/
import SnowModel.Proofs.L2Ren2

namespace SnowModel.L2
variable {α β γ : Type} {ρ σ : String → String}

theorem toStr_ren (h : Ren ρ σ) (o : List OutRow) (s : St) (v : Val) :
    toStr (renSt ρ o s) (renVal ρ v) = toStr s v := by
  cases v with
  | row hd =>
    simp only [renVal, toStr, rowId_ren h]
    cases rowId s hd <;> rfl
  | _ => rfl

theorem concatStrs_ren (h : Ren ρ σ) (o : List OutRow) (s : St) (vs : List Val) :
    concatStrs (renSt ρ o s) (vs.map (renVal ρ)) = concatStrs s vs := by
  induction vs with
  | nil => rfl
  | cons v vs ih => simp only [List.map_cons, concatStrs, toStr_ren h, ih]

def OkPart (ρ : String → String) : Part → Prop
  | .text _ => True
  | .expr e => OkExpr ρ e

theorem renderParts_ren (h : Ren ρ σ) (o : List OutRow) (c : Ctx) (ps : List Part)
    (hp : ∀ p ∈ ps, OkPart ρ p) :
    ∀ s, RRs ρ o (List.map (renVal ρ)) (renderParts c ps s)
      (renderParts (renCtx ρ c) (ps.map (renPart ρ)) (renSt ρ o s)) := by
  induction ps with
  | nil => intro s; right; rfl
  | cons p ps ih =>
    intro s
    have ih' := ih (fun q hq => hp q (List.mem_cons_of_mem _ hq))
    cases p with
    | text t =>
      simp only [List.map_cons, renPart, renderParts]
      rcases ih' s with ⟨m, hm⟩ | hy
      · left; rw [hm]; exact ⟨m, rfl⟩
      · right; rw [hy]
        cases renderParts c ps s with
        | error e => rfl
        | ok q => rfl
    | expr e =>
      simp only [List.map_cons, renPart, renderParts]
      have he : OkExpr ρ e := hp (.expr e) List.mem_cons_self
      rcases evalExpr_ren h o c e he s with ⟨m, hm⟩ | hy
      · left; rw [hm]; exact ⟨m, rfl⟩
      · rw [hy]
        cases evalExpr c e s with
        | error err => right; rfl
        | ok q =>
          obtain ⟨v, s1⟩ := q
          simp only [mapR_ok]
          rcases ih' s1 with ⟨m, hm⟩ | hy2
          · left; rw [hm]; exact ⟨m, rfl⟩
          · right; rw [hy2]
            cases renderParts c ps s1 with
            | error e => rfl
            | ok q => rfl

theorem any_renPart (g : Part → Bool) (hg : ∀ e, g (.expr (renExpr ρ e)) = g (.expr e)) (ps : List Part) :
    (ps.map (renPart ρ)).any g = ps.any g := by
  induction ps with
  | nil => rfl
  | cons p ps ih =>
    cases p with
    | text t => simp only [List.map_cons, List.any_cons, renPart, ih]
    | expr e => simp only [List.map_cons, List.any_cons, renPart, ih, hg]

theorem map_renPart (g : Part → γ) (hg : ∀ e, g (.expr (renExpr ρ e)) = g (.expr e)) (ps : List Part) :
    (ps.map (renPart ρ)).map g = ps.map g := by
  induction ps with
  | nil => rfl
  | cons p ps ih =>
    cases p with
    | text t => simp only [List.map_cons, renPart, ih]
    | expr e => simp only [List.map_cons, renPart, ih, hg]

theorem any_undef_ren (vs : List Val) :
    (vs.map (renVal ρ)).any (· == .undef) = vs.any (· == .undef) := by
  induction vs with
  | nil => rfl
  | cons v vs ih =>
    simp only [List.map_cons, List.any_cons, ih]
    cases v <;> rfl

/-- neither a slot nor a detached slot: renaming does not touch it -/
def NotSlotV (v : Val) : Prop := (∀ n, v ≠ .slot n) ∧ (∀ t i, v ≠ .deadSlot t i)

macro "nstriv" : tactic => `(tactic| exact ⟨(by intro _ hh; cases hh), (by intro _ _ hh; cases hh)⟩)

theorem renVal_notSlot {v : Val} (hv : NotSlotV v) : renVal ρ v = v := by
  cases v with
  | slot n => exact absurd rfl (hv.1 n)
  | deadSlot t i => exact absurd rfl (hv.2 t i)
  | _ => rfl

theorem lookForNumber_notSlot {a : String} {v : Val} (h : lookForNumber a = .ok v) : NotSlotV v := by
  unfold lookForNumber at h
  simp only at h
  repeat' split at h
  all_goals (cases h <;> nstriv)

theorem nativeLiteral_notSlot {a : String} {v : Val} (h : nativeLiteral a = .ok v) : NotSlotV v := by
  unfold nativeLiteral at h
  simp only at h
  repeat' split at h
  all_goals (cases h <;> nstriv)

theorem arithVals_notSlot {op : Nat} {va vb v : Val} {s s' : St} (h : arithVals op va vb s = .ok (v, s')) :
    NotSlotV v := by
  unfold arithVals at h
  split at h <;> (try split at h) <;> (cases h <;> nstriv)

theorem renderTmpl_ren (h : Ren ρ σ) (o : List OutRow) (c : Ctx) (parts : List Part)
    (hp : ∀ p ∈ parts, OkPart ρ p) (s : St) :
    RRs ρ o (renVal ρ) (renderTmpl c parts s)
      (renderTmpl (renCtx ρ c) (parts.map (renPart ρ)) (renSt ρ o s)) := by
  unfold renderTmpl
  dsimp only
  rw [any_renPart _ (fun e => rfl), map_renPart _ (fun e => rfl)]
  have tailV3 : ∀ (vs : List Val) (s1 : St),
      (if ((vs.map (renVal ρ)).any fun x => x == Val.undef) = true then
          (Except.error (Err.outside "undefined in concatenation (v3)") : R Val)
        else
          match concatStrs (renSt ρ o s1) (vs.map (renVal ρ)) with
          | Except.error e => Except.error e
          | Except.ok raw =>
            match nativeLiteral raw with
            | Except.ok v => Except.ok (v, renSt ρ o s1)
            | Except.error e => Except.error e) =
      mapR ρ o (renVal ρ)
        (if (vs.any fun x => x == Val.undef) = true then
          (Except.error (Err.outside "undefined in concatenation (v3)") : R Val)
        else
          match concatStrs s1 vs with
          | Except.error e => Except.error e
          | Except.ok raw =>
            match nativeLiteral raw with
            | Except.ok v => Except.ok (v, s1)
            | Except.error e => Except.error e) := by
    intro vs s1
    rw [any_undef_ren, concatStrs_ren h]
    split
    · rfl
    · cases concatStrs s1 vs with
      | error e => rfl
      | ok raw =>
        dsimp only
        cases hl : nativeLiteral raw with
        | error e => rfl
        | ok v => simp only [mapR_ok, renVal_notSlot (nativeLiteral_notSlot hl)]
  have tailV2 : ∀ (vs : List Val) (s1 : St),
      (match concatStrs (renSt ρ o s1) (vs.map (renVal ρ)) with
          | Except.error e => (Except.error e : R Val)
          | Except.ok raw =>
            match lookForNumber raw with
            | Except.ok v => Except.ok (v, renSt ρ o s1)
            | Except.error e => Except.error e) =
      mapR ρ o (renVal ρ)
        (match concatStrs s1 vs with
          | Except.error e => (Except.error e : R Val)
          | Except.ok raw =>
            match lookForNumber raw with
            | Except.ok v => Except.ok (v, s1)
            | Except.error e => Except.error e) := by
    intro vs s1
    rw [concatStrs_ren h]
    cases concatStrs s1 vs with
    | error e => rfl
    | ok raw =>
      dsimp only
      cases hl : lookForNumber raw with
      | error e => rfl
      | ok v => simp only [mapR_ok, renVal_notSlot (lookForNumber_notSlot hl)]
  by_cases hv : s.v3 = true
  · have hv' : (renSt ρ o s).v3 = true := hv
    simp only [if_pos hv, if_pos hv']
    split
    · right; rfl
    · next hE =>
      rcases parts with _ | ⟨p, _ | ⟨q, rest⟩⟩
      · exact absurd rfl hE
      · cases p with
        | text t => exact absurd rfl hE
        | expr e =>
          simp only [List.map_cons, List.map_nil, renPart]
          have he : OkExpr ρ e := hp (.expr e) List.mem_cons_self
          rcases evalExpr_ren h o c e he s with ⟨m, hm⟩ | hy
          · left; rw [hm]; exact ⟨m, rfl⟩
          · right; rw [hy]
            cases evalExpr c e s with
            | error err => rfl
            | ok q =>
              obtain ⟨v, s1⟩ := q
              cases v with
              | str raw =>
                simp only [mapR_ok, renVal]
                cases hl : nativeLiteral raw with
                | error e => rfl
                | ok v => simp only [mapR_ok, renVal_notSlot (nativeLiteral_notSlot hl)]
              | _ => rfl
      · rcases renderParts_ren h o c _ hp s with ⟨m, hm⟩ | hy
        · left; rw [hm]; cases p <;> exact ⟨m, rfl⟩
        · right
          simp only [List.map_cons] at hy ⊢
          rw [hy]
          cases renderParts c (p :: q :: rest) s with
          | error e => cases p <;> rfl
          | ok r =>
            obtain ⟨vs, s1⟩ := r
            have := tailV3 vs s1
            cases p <;> exact this
  · have hv' : ¬ (renSt ρ o s).v3 = true := hv
    simp only [if_neg hv, if_neg hv']
    split
    · right
      generalize hl : lookForNumber _ = x
      cases x with
      | error e => rfl
      | ok v => simp only [mapR_ok, renVal_notSlot (lookForNumber_notSlot hl)]
    · rcases renderParts_ren h o c _ hp s with ⟨m, hm⟩ | hy
      · left; rw [hm]; exact ⟨m, rfl⟩
      · right; rw [hy]
        cases renderParts c parts s with
        | error e => rfl
        | ok r =>
          obtain ⟨vs, s1⟩ := r
          simp only [mapR_ok]
          exact tailV2 vs s1

/-! ### references -/

theorem walk_ren (h : Ren ρ σ) (o : List OutRow) (ps : List String) (hp : ∀ p ∈ ps, AttrOK ρ p) :
    ∀ (t : Val) (s : St), RRs ρ o (renVal ρ) (renderRef.walk t ps s)
      (renderRef.walk (renVal ρ t) (ps.map ρ) (renSt ρ o s)) := by
  induction ps with
  | nil => intro t s; right; rfl
  | cons p ps ih =>
    intro t s
    have ih' := ih (fun q hq => hp q (List.mem_cons_of_mem _ hq))
    have hf : AttrOK ρ p := hp p List.mem_cons_self
    cases t with
    | undef => right; rfl
    | null => right; rfl
    | bool b => left; exact ⟨_, rfl⟩
    | int i => left; exact ⟨_, rfl⟩
    | str x => left; exact ⟨_, rfl⟩
    | row hd =>
      simp only [List.map_cons, renVal, renderRef.walk, rowData_ren h, renRow_values, aget_renA h]
      cases aget (rowData s hd).values p with
      | none => right; rfl
      | some v => exact ih' v s
    | slot n =>
      simp only [List.map_cons, renVal, renderRef.walk,
        h.eq_special (n := p) (m := "id") (by simp [specialNames])]
      by_cases hid : p = "id"
      · rw [if_pos hid, if_pos hid, slotId_ren h]
        cases slotId s n with
        | error err => right; rfl
        | ok q =>
          obtain ⟨i, s1⟩ := q
          exact ih' (.int i) s1
      · rw [if_neg hid, if_neg hid]
        by_cases hc : slotAttrs.contains p = true ∨ p.startsWith "_" = true ∨ p.startsWith "yaml" = true
        · left; rw [if_pos hc]; exact ⟨_, rfl⟩
        · right; rw [if_neg hc, if_neg (slotTest_ren h hf hc)]; rfl
    | deadSlot tb i =>
      simp only [List.map_cons, renVal, renderRef.walk,
        h.eq_special (n := p) (m := "id") (by simp [specialNames])]
      by_cases hid : p = "id"
      · rw [if_pos hid, if_pos hid]
        cases i with
        | none => left; exact ⟨_, rfl⟩
        | some k => exact ih' (.int k) s
      · rw [if_neg hid, if_neg hid]
        by_cases hc : slotAttrs.contains p = true ∨ p.startsWith "_" = true ∨ p.startsWith "yaml" = true
        · left; rw [if_pos hc]; exact ⟨_, rfl⟩
        · right; rw [if_neg hc, if_neg (slotTest_ren h hf hc)]; rfl

theorem renderRef_ren (h : Ren ρ σ) (o : List OutRow) (c : Ctx) (path : List String)
    (hp : ∀ p ∈ path.tail, AttrOK ρ p) (s : St) :
    RRs ρ o (renVal ρ) (renderRef c path s) (renderRef (renCtx ρ c) (path.map ρ) (renSt ρ o s)) := by
  cases path with
  | nil => left; exact ⟨_, rfl⟩
  | cons p0 rest =>
    simp only [List.map_cons, renderRef]
    rcases lookupName_ren h o s c p0 with ⟨m, hm⟩ | ⟨v0, hv, hv'⟩
    · left; rw [hm]; exact ⟨m, rfl⟩
    · rw [hv, hv']
      dsimp only
      have e0 : (v0.map (renVal ρ)).getD .null = renVal ρ (v0.getD .null) := by cases v0 <;> rfl
      rw [e0]
      rcases walk_ren h o rest hp (v0.getD .null) s with ⟨m, hm⟩ | hy
      · left; rw [hm]; exact ⟨m, rfl⟩
      · rw [hy]
        cases renderRef.walk (v0.getD .null) rest s with
        | error err => right; rfl
        | ok q =>
          obtain ⟨t, s1⟩ := q
          cases t with
          | slot n =>
            right
            simp only [mapR_ok, renVal, slotId_ren h]
            cases slotId s1 n with
            | error err => rfl
            | ok q2 => rfl
          | deadSlot tb i =>
            cases i with
            | none => left; exact ⟨_, rfl⟩
            | some k => right; rfl
          | undef => right; rfl
          | null => right; rfl
          | row hd => right; rfl
          | bool b => right; cases b <;> rfl
          | int i =>
            right
            simp only [mapR_ok, renVal]
            split <;> rfl
          | str x =>
            right
            simp only [mapR_ok, renVal]
            split <;> rfl

theorem countOf_ren (o : List OutRow) (s : St) (v : Val) :
    countOf (renSt ρ o s) (renVal ρ v) = countOf s v := by
  cases v <;> rfl

/-! ### output encoding -/

theorem canon_ren (h : Ren ρ σ) (o : List OutRow) (s : St) (v : Val) :
    canon (renSt ρ o s) (renVal ρ v) = mapR ρ o (renOVal ρ) (canon s v) := by
  cases v with
  | row hd =>
    simp only [renVal, canon, rowId_ren h, rowData_ren h, renRow_table]
    cases rowId s hd <;> rfl
  | slot n =>
    simp only [renVal, canon, slotId_ren h]
    cases slotId s n with
    | error err => rfl
    | ok q =>
      obtain ⟨i, s1⟩ := q
      simp only [mapR_ok, id, renSt_names, aget_renA h, renOVal]
      cases aget s1.names n with
      | none => simp only [Option.map_none, Option.getD_none, h.fix_empty]
      | some t => rfl
  | deadSlot t i => cases i <;> rfl
  | _ => rfl

end SnowModel.L2
