/-
Helper lemmas for Props/C06L2: a `just_once` template runs exactly once per dataset.

* `dropOnce` / `dropOnceR`: the statements / the recipe without the top-level `just_once` templates;
* `execStmts_continuing_dropOnce`: with `continuing = true` a statement list behaves like its
  `dropOnce` image (each skipped statement costs one unit of fuel, so the statement is about runs
  that do not run out of fuel and uses fuel monotonicity, `Proofs/L2Fuel.lean`);
* lifted to `iterations`, `chain`, and to `chainFrom` (a chain whose first run starts in a given
  top-level context: the rest of a dataset after its first iteration);
* friends are executed with `continuing = true`, so a `just_once` friend never runs
  (`execRow_dropOnceFriends`, …).
-/
import SnowModel.Proofs.L2Ext
import SnowModel.Proofs.L2Fuel
import SnowModel.Proofs.C04

namespace SnowModel.L2

/-! ### removing the top-level `just_once` templates -/

/-- statements that survive `dropOnce`: variables and templates not marked `just_once` -/
def keepStmt : Stmt → Bool
  | .obj t => !t.justOnce
  | .var _ _ => true

/-- the statement list without its top-level `just_once` templates -/
def dropOnce (sts : List Stmt) : List Stmt := sts.filter keepStmt

/-- the recipe without its top-level `just_once` templates -/
def dropOnceR (r : Recipe) : Recipe := { r with statements := dropOnce r.statements }

theorem dropOnce_nil : dropOnce [] = [] := rfl

theorem dropOnce_var (name : String) (fd : FieldDef) (rest : List Stmt) :
    dropOnce (.var name fd :: rest) = .var name fd :: dropOnce rest := by
  simp [dropOnce, List.filter_cons, keepStmt]

theorem dropOnce_obj_once {t : Template} (h : t.justOnce = true) (rest : List Stmt) :
    dropOnce (.obj t :: rest) = dropOnce rest := by
  simp [dropOnce, keepStmt, h]

theorem dropOnce_obj_keep {t : Template} (h : t.justOnce = false) (rest : List Stmt) :
    dropOnce (.obj t :: rest) = .obj t :: dropOnce rest := by
  simp [dropOnce, keepStmt, h]

theorem dropOnce_idem (sts : List Stmt) : dropOnce (dropOnce sts) = dropOnce sts := by
  simp [dropOnce]

theorem dropOnceR_statements (r : Recipe) : (dropOnceR r).statements = dropOnce r.statements := rfl

theorem dropOnceR_idem (r : Recipe) : dropOnceR (dropOnceR r) = dropOnceR r := by
  simp [dropOnceR, dropOnce_idem]

/-- no top-level `just_once` template is left -/
theorem dropOnce_no_once (sts : List Stmt) (t : Template) (h : Stmt.obj t ∈ dropOnce sts) :
    t.justOnce = false := by
  have := (List.mem_filter.1 h).2
  simpa [keepStmt] using this

/-! ### (a) one pass over the statements -/

/-- **with `continuing = true` the `just_once` templates might as well not be there**: if the pass
    over `sts` does not run out of fuel, the pass over `dropOnce sts` has the same result -/
theorem execStmts_continuing_dropOnce (fuel : Nat) : ∀ (c : Ctx) (sts : List Stmt) (s : St),
    execStmts fuel c sts true s ≠ .error .fuel →
    execStmts fuel c (dropOnce sts) true s = execStmts fuel c sts true s := by
  induction fuel with
  | zero => intro c sts s h; exact absurd (execStmts_zero c sts true s) h
  | succ fuel ih =>
    intro c sts s h
    cases sts with
    | nil => rfl
    | cons st rest =>
      cases st with
      | var name fd =>
        rw [dropOnce_var, execStmts_var, execStmts_var]
        rw [execStmts_var] at h
        generalize renderFd fuel { obj := none, vars := c.vars } fd s = x at h ⊢
        cases x with
        | error e => rfl
        | ok p =>
          obtain ⟨v, s1⟩ := p
          exact ih _ _ _ h
      | obj t =>
        rw [execStmts_obj] at h ⊢
        cases hj : t.justOnce with
        | true =>
          simp only [hj, and_self, if_true] at h ⊢
          rw [dropOnce_obj_once hj]
          have h1 := ih c rest s h
          rw [← h1] at h
          rw [execStmts_fuel_succ h, h1]
        | false =>
          simp only [hj, Bool.false_eq_true, false_and, if_false] at h ⊢
          rw [dropOnce_obj_keep hj, execStmts_obj]
          simp only [hj, Bool.false_eq_true, false_and, if_false]
          generalize execTemplate fuel c t s = x at h ⊢
          cases x with
          | error e => rfl
          | ok p =>
            obtain ⟨o, s1⟩ := p
            exact ih _ _ _ h

/-- without top-level `just_once` templates the `continuing` flag is never looked at -/
theorem execStmts_flag_of_no_once (fuel : Nat) : ∀ (c : Ctx) (sts : List Stmt) (cont : Bool) (s : St),
    (∀ t, Stmt.obj t ∈ sts → t.justOnce = false) →
    execStmts fuel c sts cont s = execStmts fuel c sts true s := by
  induction fuel with
  | zero => intro c sts cont s _; rw [execStmts_zero, execStmts_zero]
  | succ fuel ih =>
    intro c sts cont s hno
    cases sts with
    | nil => rw [execStmts_nil, execStmts_nil]
    | cons st rest =>
      have hrest : ∀ t, Stmt.obj t ∈ rest → t.justOnce = false :=
        fun t ht => hno t (List.mem_cons_of_mem _ ht)
      cases st with
      | var name fd =>
        rw [execStmts_var, execStmts_var]
        generalize renderFd fuel { obj := none, vars := c.vars } fd s = x
        cases x with
        | error e => rfl
        | ok p =>
          obtain ⟨v, s1⟩ := p
          exact ih _ _ _ _ hrest
      | obj t =>
        have hj : t.justOnce = false := hno t List.mem_cons_self
        rw [execStmts_obj, execStmts_obj]
        simp only [hj, Bool.false_eq_true, false_and, if_false]
        generalize execTemplate fuel c t s = x
        cases x with
        | error e => rfl
        | ok p =>
          obtain ⟨o, s1⟩ := p
          exact ih _ _ _ _ hrest

theorem execStmts_dropOnce_flag (fuel : Nat) (c : Ctx) (sts : List Stmt) (cont : Bool) (s : St) :
    execStmts fuel c (dropOnce sts) cont s = execStmts fuel c (dropOnce sts) true s :=
  execStmts_flag_of_no_once fuel c _ cont s (dropOnce_no_once sts)

/-! ### (b) runs and chains -/

theorem iterations_continuing_dropOnce (fuel : Nat) (r : Recipe) (k : Nat) : ∀ (c : Ctx) (s : St),
    iterations fuel r k c true s ≠ .error .fuel →
    iterations fuel (dropOnceR r) k c true s = iterations fuel r k c true s := by
  induction k with
  | zero => intro c s _; rw [iterations_zero, iterations_zero]
  | succ k ih =>
    intro c s h
    rw [iterations_succ] at h
    rw [iterations_succ fuel (dropOnceR r), iterations_succ fuel r]
    have h1 : execStmts fuel c r.statements true s ≠ .error .fuel := by
      intro e; rw [e] at h; exact h rfl
    rw [dropOnceR_statements, execStmts_continuing_dropOnce fuel c r.statements s h1]
    generalize execStmts fuel c r.statements true s = x at h ⊢
    cases x with
    | error e => rfl
    | ok p =>
      obtain ⟨c1, s1⟩ := p
      simp only at h ⊢
      cases hn : notFilled s1 with
      | cons a l => rfl
      | nil =>
        simp only [hn] at h ⊢
        exact ih _ _ h

theorem iterations_dropOnce_flag (fuel : Nat) (r : Recipe) (k : Nat) (c : Ctx) (cont : Bool) (s : St) :
    iterations fuel (dropOnceR r) k c cont s = iterations fuel (dropOnceR r) k c true s := by
  cases k with
  | zero => rw [iterations_zero, iterations_zero]
  | succ k =>
    rw [iterations_succ, iterations_succ, dropOnceR_statements, execStmts_dropOnce_flag]

/-- a chain whose first run starts in the top-level context `c` (`chain` starts every run in the
    empty context): what remains of a dataset when its first run is interrupted between iterations -/
def chainFrom (fuel : Nat) (r : Recipe) (finalSave : Bool) (c : Ctx) :
    List Nat → Bool → St → Except Err St
  | [], _, s => .ok s
  | k :: ks, continued, s =>
    match iterations fuel r k c continued s with
    | .error e => .error e
    | .ok (_, s1) =>
      if (finalSave || !ks.isEmpty) && saveFails s1 then
        .error (.recipe "cannot represent a slot in the continuation file")
      else chain fuel r finalSave ks true (saveLoad s1)

theorem chainFrom_empty (fuel : Nat) (r : Recipe) (fs : Bool) (parts : List Nat) (cont : Bool) (s : St) :
    chainFrom fuel r fs { obj := none, vars := [] } parts cont s = chain fuel r fs parts cont s := by
  cases parts with
  | nil => simp only [chainFrom, chain]
  | cons k ks => simp only [chainFrom, chain]; rfl

theorem chain_continued_dropOnce (fuel : Nat) (r : Recipe) (fs : Bool) (parts : List Nat) : ∀ (s : St),
    chain fuel r fs parts true s ≠ .error .fuel →
    chain fuel (dropOnceR r) fs parts true s = chain fuel r fs parts true s := by
  induction parts with
  | nil => intro s _; simp only [chain]
  | cons k ks ih =>
    intro s h
    simp only [chain] at h ⊢
    have h1 : iterations fuel r k { obj := none, vars := [] } true s ≠ .error .fuel := by
      intro e; rw [e] at h; exact h rfl
    rw [iterations_continuing_dropOnce fuel r k _ _ h1]
    generalize iterations fuel r k { obj := none, vars := [] } true s = x at h ⊢
    cases x with
    | error e => rfl
    | ok p =>
      obtain ⟨c1, s1⟩ := p
      simp only at h ⊢
      split
      · rfl
      · next hsf =>
        simp only [hsf] at h
        exact ih _ h

theorem chain_dropOnce_flag (fuel : Nat) (r : Recipe) (fs : Bool) (parts : List Nat) (cont : Bool) (s : St) :
    chain fuel (dropOnceR r) fs parts cont s = chain fuel (dropOnceR r) fs parts true s := by
  cases parts with
  | nil => simp only [chain]
  | cons k ks => simp only [chain]; rw [iterations_dropOnce_flag]

theorem chainFrom_continued_dropOnce (fuel : Nat) (r : Recipe) (fs : Bool) (c : Ctx) (parts : List Nat)
    (s : St) (h : chainFrom fuel r fs c parts true s ≠ .error .fuel) :
    chainFrom fuel (dropOnceR r) fs c parts true s = chainFrom fuel r fs c parts true s := by
  cases parts with
  | nil => simp only [chainFrom]
  | cons k ks =>
    simp only [chainFrom] at h ⊢
    have h1 : iterations fuel r k c true s ≠ .error .fuel := by
      intro e; rw [e] at h; exact h rfl
    rw [iterations_continuing_dropOnce fuel r k _ _ h1]
    generalize iterations fuel r k c true s = x at h ⊢
    cases x with
    | error e => rfl
    | ok p =>
      obtain ⟨c1, s1⟩ := p
      simp only at h ⊢
      split
      · rfl
      · next hsf =>
        simp only [hsf] at h
        exact chain_continued_dropOnce fuel r fs ks _ h

/-- a run of `k + 1` iterations = its first iteration, then `k` continuing iterations -/
theorem iterations_first (fuel : Nat) (r : Recipe) (k : Nat) (c : Ctx) (cont : Bool) (s : St) :
    iterations fuel r (k + 1) c cont s =
      (match iterations fuel r 1 c cont s with
       | .error e => .error e
       | .ok (c1, s1) => iterations fuel r k c1 true s1) := by
  have h := iterations_add_succ fuel r 0 k c cont s
  rw [Nat.zero_add, Nat.add_comm 1 k] at h
  exact h

/-- a chain whose first part has `k + 1` iterations = the first iteration, then the chain of the rest
    started in the context and the state the first iteration leaves -/
theorem chainFrom_first (fuel : Nat) (r : Recipe) (fs : Bool) (c : Ctx) (k : Nat) (ks : List Nat)
    (cont : Bool) (s : St) :
    chainFrom fuel r fs c ((k + 1) :: ks) cont s =
      (match iterations fuel r 1 c cont s with
       | .error e => .error e
       | .ok (c1, s1) => chainFrom fuel r fs c1 (k :: ks) true s1) := by
  simp only [chainFrom]
  rw [iterations_first]
  generalize iterations fuel r 1 c cont s = x
  cases x with
  | error e => rfl
  | ok p => obtain ⟨c1, s1⟩ := p; rfl

theorem chain_first (fuel : Nat) (r : Recipe) (fs : Bool) (k : Nat) (ks : List Nat) (cont : Bool) (s : St) :
    chain fuel r fs ((k + 1) :: ks) cont s =
      (match iterations fuel r 1 { obj := none, vars := [] } cont s with
       | .error e => .error e
       | .ok (c1, s1) => chainFrom fuel r fs c1 (k :: ks) true s1) := by
  rw [← chainFrom_empty, chainFrom_first]

/-- the output of a `chainFrom` extends the output it starts from -/
theorem chainFrom_ext (fuel : Nat) (r : Recipe) (fs : Bool) (c : Ctx) (parts : List Nat) (cont : Bool)
    (s s' : St) (h : chainFrom fuel r fs c parts cont s = .ok s') : Ext s s' := by
  cases parts with
  | nil =>
    simp only [chainFrom, Except.ok.injEq] at h
    subst h; exact Ext.refl _
  | cons k ks =>
    simp only [chainFrom] at h
    split at h
    · cases h
    · next c1 s1 hi =>
      split at h
      · cases h
      · exact (iterations_ext fuel r k _ _ _ _ _ hi).trans
          ((saveLoad_same s1).ext.trans (chain_ext fuel r fs ks _ _ _ h))

/-! ### friends run with `continuing = true`: a `just_once` friend never runs -/

/-- the template without its `just_once` friends -/
def dropOnceFriends : Template → Template
  | .mk tb nk j cnt fs fr => .mk tb nk j cnt fs (dropOnce fr)

theorem dropOnceFriends_table (t : Template) : (dropOnceFriends t).table = t.table := by cases t; rfl
theorem dropOnceFriends_nick (t : Template) : (dropOnceFriends t).nick = t.nick := by cases t; rfl
theorem dropOnceFriends_justOnce (t : Template) : (dropOnceFriends t).justOnce = t.justOnce := by
  cases t; rfl
theorem dropOnceFriends_count (t : Template) : (dropOnceFriends t).count = t.count := by cases t; rfl
theorem dropOnceFriends_fields (t : Template) : (dropOnceFriends t).fields = t.fields := by cases t; rfl
theorem dropOnceFriends_friends (t : Template) : (dropOnceFriends t).friends = dropOnce t.friends := by
  cases t; rfl

theorem regState_dropOnceFriends (s : St) (t : Template) (i : Nat) :
    regState s (dropOnceFriends t) i = regState s t i := by cases t; rfl

theorem writeRow_dropOnceFriends (t : Template) (h : Nat) (s : St) :
    writeRow (dropOnceFriends t) h s = writeRow t h s := by cases t; rfl

theorem execRow_dropOnceFriends (fuel : Nat) (c : Ctx) (t : Template) (i : Nat) (s : St)
    (h : execRow fuel c t i s ≠ .error .fuel) :
    execRow fuel c (dropOnceFriends t) i s = execRow fuel c t i s := by
  cases fuel with
  | zero => exact absurd (execRow_zero c t i s) h
  | succ fuel =>
    rw [execRow_succ] at h
    rw [execRow_succ fuel c (dropOnceFriends t), execRow_succ fuel c t]
    rw [regState_dropOnceFriends, dropOnceFriends_fields, dropOnceFriends_friends]
    generalize execFields fuel { c with obj := some s.rows.length } s.rows.length t.fields
        (regState s t i) = x at h ⊢
    cases x with
    | error e => rfl
    | ok p =>
      obtain ⟨u6, s6⟩ := p
      simp only [writeRow_dropOnceFriends] at h ⊢
      generalize writeRow t s.rows.length s6 = y at h ⊢
      cases y with
      | error e => rfl
      | ok q =>
        obtain ⟨u8, s8⟩ := q
        simp only at h ⊢
        have h2 : execStmts fuel { c with obj := some s.rows.length } t.friends true s8
            ≠ .error .fuel := by
          intro e; rw [e] at h; exact h rfl
        rw [execStmts_continuing_dropOnce fuel _ _ _ h2]

theorem execRows_dropOnceFriends (fuel : Nat) (t : Template) : ∀ (c : Ctx) (i n : Nat) (last : Option Nat)
    (s : St), execRows fuel c t i n last s ≠ .error .fuel →
    execRows fuel c (dropOnceFriends t) i n last s = execRows fuel c t i n last s := by
  induction fuel with
  | zero => intro c i n last s h; exact absurd (execRows_zero c t i n last s) h
  | succ fuel ih =>
    intro c i n last s h
    rw [execRows_succ] at h
    rw [execRows_succ fuel c (dropOnceFriends t), execRows_succ fuel c t]
    by_cases hin : i ≥ n
    · simp only [hin, if_true]
    · simp only [hin, if_false] at h ⊢
      have h1 : execRow fuel { c with vars := aset c.vars "child_index" (.int i) } t i s
          ≠ .error .fuel := by
        intro e; rw [e] at h; exact h rfl
      rw [execRow_dropOnceFriends fuel _ t i s h1]
      generalize execRow fuel { c with vars := aset c.vars "child_index" (.int i) } t i s = x at h ⊢
      cases x with
      | error e => rfl
      | ok p =>
        obtain ⟨⟨hh, c2⟩, s1⟩ := p
        exact ih _ _ _ _ _ h

/-- the count of a template execution -/
def countRes (fuel : Nat) (c : Ctx) (t : Template) (s : St) : R Nat :=
  match t.count with
  | none => .ok (1, s)
  | some fd =>
    match renderFd fuel { obj := none, vars := c.vars } fd s with
    | .error e => .error e
    | .ok (v, s1) =>
      match countOf s1 v with
      | .error e => .error e
      | .ok n => .ok (n, s1)

theorem execTemplate_succ' (fuel : Nat) (c : Ctx) (t : Template) (s : St) :
    execTemplate (fuel + 1) c t s =
      (match countRes fuel c t s with
       | .error e => .error e
       | .ok (n, s1) => execRows fuel { obj := none, vars := c.vars } t 0 n none s1) :=
  execTemplate_succ fuel c t s

theorem countRes_dropOnceFriends (fuel : Nat) (c : Ctx) (t : Template) (s : St) :
    countRes fuel c (dropOnceFriends t) s = countRes fuel c t s := by
  unfold countRes; rw [dropOnceFriends_count]

theorem execTemplate_dropOnceFriends (fuel : Nat) (c : Ctx) (t : Template) (s : St)
    (h : execTemplate fuel c t s ≠ .error .fuel) :
    execTemplate fuel c (dropOnceFriends t) s = execTemplate fuel c t s := by
  cases fuel with
  | zero => exact absurd (execTemplate_zero c t s) h
  | succ fuel =>
    rw [execTemplate_succ'] at h
    rw [execTemplate_succ' fuel c (dropOnceFriends t), execTemplate_succ' fuel c t,
      countRes_dropOnceFriends]
    generalize countRes fuel c t s = x at h ⊢
    cases x with
    | error e => rfl
    | ok p =>
      obtain ⟨n, s1⟩ := p
      exact execRows_dropOnceFriends fuel t _ _ _ _ _ h

end SnowModel.L2
