/-
C13 — helper lemmas, part 2: the octal-with-9-separator tuple coding is injective.
-/
import SnowModel.Proofs.C13

namespace SnowModel.Proofs.C13
open SnowModel.Uid

theorem octDigits_lt (p : Nat) : ∀ d ∈ octDigits p, d < 8 := baseDigits_lt 8 (by omega) p

theorem octDigits_ne_nil (p : Nat) : octDigits p ≠ [] := baseDigits_ne_nil 8 p (by omega)

theorem sep_not_mem_oct (p : Nat) : sep ∉ octDigits p := by
  intro h
  have := octDigits_lt p sep h
  simp [sep] at this

theorem octDigits_injective (p q : Nat) (h : octDigits p = octDigits q) : p = q :=
  baseDigits_injective 8 (by omega) p q h

theorem octDigits_zero : octDigits 0 = [0] := by simp [octDigits, baseDigits]

theorem tupleDigits_single (p : Nat) : tupleDigits [p] = octDigits p := rfl

theorem tupleDigits_cons_cons (p q : Nat) (r : List Nat) :
    tupleDigits (p :: q :: r) = octDigits p ++ sep :: tupleDigits (q :: r) := rfl

/-- splitting at the first separator is unambiguous -/
theorem append_sep_inj {s : Nat} : ∀ (a b x y : List Nat), s ∉ a → s ∉ b →
    a ++ s :: x = b ++ s :: y → a = b ∧ x = y
  | [], [], x, y, _, _, h => by simpa using h
  | [], d :: b, x, y, _, hb, h => by
    simp at h
    exact absurd h.1 (by intro e; apply hb; simp [e])
  | d :: a, [], x, y, ha, _, h => by
    simp at h
    exact absurd h.1 (by intro e; apply ha; simp [e])
  | d :: a, e :: b, x, y, ha, hb, h => by
    simp at h
    have := append_sep_inj a b x y (by intro m; apply ha; simp [m]) (by intro m; apply hb; simp [m]) h.2
    exact ⟨by rw [h.1, this.1], this.2⟩

theorem tupleDigits_injective : ∀ (ps qs : List Nat), ps ≠ [] → qs ≠ [] →
    tupleDigits ps = tupleDigits qs → ps = qs
  | [], _, h, _, _ => absurd rfl h
  | _, [], _, h, _ => absurd rfl h
  | [p], [q], _, _, h => by
    rw [tupleDigits_single, tupleDigits_single] at h
    rw [octDigits_injective p q h]
  | [p], q :: q' :: s, _, _, h => by
    rw [tupleDigits_single, tupleDigits_cons_cons] at h
    exact absurd (h ▸ (by simp : sep ∈ octDigits q ++ sep :: tupleDigits (q' :: s))) (sep_not_mem_oct p)
  | p :: p' :: r, [q], _, _, h => by
    rw [tupleDigits_single, tupleDigits_cons_cons] at h
    exact absurd (h ▸ (by simp : sep ∈ octDigits p ++ sep :: tupleDigits (p' :: r))) (sep_not_mem_oct q)
  | p :: p' :: r, q :: q' :: s, _, _, h => by
    rw [tupleDigits_cons_cons, tupleDigits_cons_cons] at h
    have := append_sep_inj _ _ _ _ (sep_not_mem_oct p) (sep_not_mem_oct q) h
    rw [octDigits_injective p q this.1,
        tupleDigits_injective (p' :: r) (q' :: s) (by simp) (by simp) this.2]

theorem tupleDigits_lt : ∀ (ps : List Nat), ∀ d ∈ tupleDigits ps, d < 10
  | [], d, h => by simp [tupleDigits, join9] at h
  | [p], d, h => by
    rw [tupleDigits_single] at h
    have := octDigits_lt p d h; omega
  | p :: q :: r, d, h => by
    rw [tupleDigits_cons_cons] at h
    simp only [List.mem_append, List.mem_cons] at h
    rcases h with h | h | h
    · have := octDigits_lt p d h; omega
    · subst h; simp [sep]
    · exact tupleDigits_lt (q :: r) d h

/-- shape of the digit string of a non-empty tuple: the digits of the first component, then
    either nothing or a separator followed by the rest -/
theorem tupleDigits_cons (p : Nat) (r : List Nat) :
    ∃ tail, tupleDigits (p :: r) = octDigits p ++ tail ∧ (tail = [] ∨ ∃ t, tail = sep :: t) := by
  cases r with
  | nil => exact ⟨[], by simp [tupleDigits_single], Or.inl rfl⟩
  | cons q r => exact ⟨sep :: tupleDigits (q :: r), tupleDigits_cons_cons p q r, Or.inr ⟨_, rfl⟩⟩

/-- The string handed to `int()` after removing the (at most one) leading zero. -/
def stripLeadingZero : List Nat → List Nat
  | 0 :: t => t
  | l => l

theorem decVal_strip (l : List Nat) : decVal (stripLeadingZero l) = decVal l := by
  unfold stripLeadingZero
  split
  · rw [decVal_eq, ofBE_zero_cons]
  · rfl

theorem strip_tuple_canon (p : Nat) (r : List Nat) :
    (stripLeadingZero (tupleDigits (p :: r))).head? ≠ some 0 := by
  obtain ⟨tail, e, ht⟩ := tupleDigits_cons p r
  rw [e]
  by_cases hp : p = 0
  · subst hp
    rw [octDigits_zero]
    simp only [List.cons_append, List.nil_append, stripLeadingZero]
    rcases ht with rfl | ⟨t, rfl⟩ <;> simp [sep]
  · obtain ⟨h, t, e2, h0, _, _⟩ := baseDigits_pos 8 (by omega) p hp
    have e3 : octDigits p = h :: t := e2
    rw [e3]
    cases h with
    | zero => exact absurd rfl h0
    | succ h => simp [stripLeadingZero]

theorem strip_tuple_inj (p : Nat) (r : List Nat) (q : Nat) (s : List Nat)
    (h : stripLeadingZero (tupleDigits (p :: r)) = stripLeadingZero (tupleDigits (q :: s))) :
    tupleDigits (p :: r) = tupleDigits (q :: s) := by
  obtain ⟨tp, ep, htp⟩ := tupleDigits_cons p r
  obtain ⟨tq, eq, htq⟩ := tupleDigits_cons q s
  rw [ep, eq] at h ⊢
  -- shape facts for a non-zero first component
  have nz : ∀ x : Nat, x ≠ 0 → ∀ tl : List Nat, ∃ hd t, octDigits x ++ tl = hd :: t ∧ hd ≠ 0 ∧ hd < 8 ∧
      stripLeadingZero (octDigits x ++ tl) = hd :: t := by
    intro x hx tl
    obtain ⟨hd, t, e2, h0, h8, _⟩ := baseDigits_pos 8 (by omega) x hx
    have e3 : octDigits x = hd :: t := e2
    refine ⟨hd, t ++ tl, by simp [e3], h0, h8, ?_⟩
    rw [e3]
    cases hd with
    | zero => exact absurd rfl h0
    | succ k => simp [stripLeadingZero]
  by_cases hp : p = 0 <;> by_cases hq : q = 0
  · subst hp; subst hq
    rw [octDigits_zero] at h ⊢
    simp only [List.cons_append, List.nil_append, stripLeadingZero] at h
    rw [h]
  · subst hp
    obtain ⟨hd, t, _, h0, h8, es⟩ := nz q hq tq
    rw [es, octDigits_zero] at h
    simp only [List.cons_append, List.nil_append, stripLeadingZero] at h
    rcases htp with rfl | ⟨t', rfl⟩
    · simp at h
    · simp [sep] at h; omega
  · subst hq
    obtain ⟨hd, t, _, h0, h8, es⟩ := nz p hp tp
    rw [es, octDigits_zero] at h
    simp only [List.cons_append, List.nil_append, stripLeadingZero] at h
    rcases htq with rfl | ⟨t', rfl⟩
    · simp at h
    · simp [sep] at h; omega
  · obtain ⟨_, _, _, _, _, es1⟩ := nz p hp tp
    obtain ⟨_, _, _, _, _, es2⟩ := nz q hq tq
    obtain ⟨hd1, t1, e1, _, _, s1⟩ := nz p hp tp
    obtain ⟨hd2, t2, e2, _, _, s2⟩ := nz q hq tq
    rw [s1, s2] at h
    rw [e1, e2, h]

theorem strip_lt (l : List Nat) (h : ∀ d ∈ l, d < 10) : ∀ d ∈ stripLeadingZero l, d < 10 := by
  unfold stripLeadingZero
  split
  · intro d hd; exact h d (by simp [hd])
  · exact h

/-- **oct9**: `int("9".join(oct(p)[2:] …))` is injective on non-empty tuples. -/
theorem encodeTuple_injective (ps qs : List Nat) (hp : ps ≠ []) (hq : qs ≠ [])
    (h : encodeTuple ps = encodeTuple qs) : ps = qs := by
  cases ps with
  | nil => exact absurd rfl hp
  | cons p r =>
    cases qs with
    | nil => exact absurd rfl hq
    | cons q s =>
      apply tupleDigits_injective _ _ hp hq
      apply strip_tuple_inj
      unfold encodeTuple at h
      rw [← decVal_strip (tupleDigits (p :: r)), ← decVal_strip (tupleDigits (q :: s))] at h
      exact canon_inj _ _ (strip_lt _ (tupleDigits_lt _)) (strip_lt _ (tupleDigits_lt _))
        (strip_tuple_canon p r) (strip_tuple_canon q s) h

end SnowModel.Proofs.C13
