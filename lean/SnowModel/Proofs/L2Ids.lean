/-
Helper lemmas for `Props/C01L2` (the id-allocation invariant through the L2 interpreter):
* `L2Ids1` — association lists with unique keys, the id view of a state, the primitive id operations;
* `L2Ids2` — the non-recursive evaluators, `regState`, `writeRow`, output ids against row ids;
* `L2Ids3` — the simultaneous induction on fuel, whole runs, the initial state.
-/
import SnowModel.Core.L2
import SnowModel.Proofs.L2Ids1
import SnowModel.Proofs.L2Ids2
import SnowModel.Proofs.L2Ids3
