/-
Helper lemmas for C02L2, part 2: the state steps of `execRow` / `execFields` keep `J`, the
simultaneous induction on fuel (`jAll`), whole runs (`resetSlots`, `saveLoad`, `iterations`, `chain`,
`initSt`) and the conclusion for a completed chain.
-/
import SnowModel.Proofs.L2Refs1

namespace SnowModel.L2

/-! ### drawing an id and registering the new row -/

theorem regState_options (s : St) (t : Template) (i : Nat) :
    (regState s t i).options = (generateId s t.table t.nick).2.options := by
  unfold regState
  simp only
  generalize generateId s t.table t.nick = g
  cases t.nick <;> cases t.justOnce <;> simp

theorem generateId_names_out_options (s : St) (table : String) (nick : Option String) :
    (generateId s table nick).2.names = s.names ∧ (generateId s table nick).2.out = s.out ∧
      (generateId s table nick).2.options = s.options := by
  rcases generateId_cases s table nick with ⟨n, i, -, -, e⟩ | e
  · rw [e]; exact ⟨rfl, rfl, rfl⟩
  · rw [e]; exact ⟨rfl, rfl, rfl⟩

/-- explicit description of `regState`: either a reserved id is consumed or a fresh one is drawn -/
theorem regState_cases (s : St) (t : Template) (i : Nat) :
    (regState s t i).names = s.names ∧ (regState s t i).out = s.out ∧
    (regState s t i).options = s.options ∧
    ((∃ n k, aget s.names n = some t.table ∧ aget s.slots n = some (.alloc k) ∧
        (regState s t i).slots = aset s.slots n (.consumed k) ∧
        (regState s t i).lastUsed = s.lastUsed ∧
        (regState s t i).rows = s.rows ++ [{ table := t.table, idx := i, values := [("id", Val.int k)] }]) ∨
     ((regState s t i).slots = s.slots ∧
        (regState s t i).lastUsed = aset s.lastUsed t.table (lastOfL s.lastUsed t.table + 1) ∧
        (regState s t i).rows = s.rows ++
          [{ table := t.table, idx := i, values := [("id", Val.int (lastOfL s.lastUsed t.table + 1 : Nat))] }])) := by
  obtain ⟨e1, e2, e3, e4⟩ := regState_fields s t i
  obtain ⟨g1, g2, g3⟩ := generateId_names_out_options s t.table t.nick
  refine ⟨e1.trans g1, (regState_out s t i), (regState_options s t i).trans g3, ?_⟩
  rcases generateId_cases s t.table t.nick with ⟨n, k, hn, hs, e⟩ | e
  · left
    rw [e] at e2 e3 e4
    exact ⟨n, k, hn, hs, e2, e3, e4⟩
  · right
    rw [e] at e2 e3 e4
    exact ⟨e2, e3, e4⟩

theorem regState_J {s : St} (t : Template) (i : Nat) (hj : J s) :
    J (regState s t i) ∧ Mono s (regState s t i) := by
  obtain ⟨hn, ho, hopt, hc⟩ := regState_cases s t i
  have hg := regState_good t i hj.good
  rcases hc with ⟨n, k, hnn, hsn, hsl, hlu, hrows⟩ | ⟨hsl, hlu, hrows⟩
  · have hm : Mono s (regState s t i) := Mono.of_eq hlu
    refine ⟨⟨hg, ?_, ?_, ?_, ?_⟩, hm⟩
    · intro m j t' h1 h2
      rw [hsl] at h1
      rw [hn] at h2
      by_cases hmn : m = n
      · subst hmn
        rw [aget_aset_self] at h1
        simp only [Option.some.injEq, SlotSt.consumed.injEq] at h1
        subst h1
        rw [hnn] at h2
        simp only [Option.some.injEq] at h2
        subst h2
        exact (inR_of_alloc hj.good hsn hnn).mono hm
      · rw [aget_aset_ne s.slots hmn] at h1
        exact (hj.slots m j t' h1 h2).mono hm
    · intro r hr p hp
      rw [hrows] at hr
      rcases List.mem_append.1 hr with hr | hr
      · exact (hj.rows r hr p hp).mono hm
      · simp only [List.mem_singleton] at hr
        subst hr
        simp only [List.mem_singleton] at hp
        subst hp
        vtriv
    · intro o ho' p hp
      rw [ho] at ho'
      exact (hj.out o ho' p hp).mono hm
    · intro p hp
      rw [hopt] at hp
      exact (hj.opts p hp).mono hm
  · have hm : Mono s (regState s t i) := by
      intro T; rw [hlu]; exact mono_fresh s.lastUsed t.table T
    refine ⟨⟨hg, ?_, ?_, ?_, ?_⟩, hm⟩
    · intro m j t' h1 h2
      rw [hsl] at h1
      rw [hn] at h2
      exact (hj.slots m j t' h1 h2).mono hm
    · intro r hr p hp
      rw [hrows] at hr
      rcases List.mem_append.1 hr with hr | hr
      · exact (hj.rows r hr p hp).mono hm
      · simp only [List.mem_singleton] at hr
        subst hr
        simp only [List.mem_singleton] at hp
        subst hp
        vtriv
    · intro o ho' p hp
      rw [ho] at ho'
      exact (hj.out o ho' p hp).mono hm
    · intro p hp
      rw [hopt] at hp
      exact (hj.opts p hp).mono hm

/-! ### storing a field value, writing a row -/

theorem setRowValue_J {s : St} (h : Nat) {k : String} (hk : k ≠ "id") {v : Val} (hj : J s)
    (hv : ValOK s v) : J (setRowValue s h k v) := by
  refine ⟨setRowValue_good h hk v hj.good, hj.slots, ?_, hj.out, hj.opts⟩
  intro r hr p hp
  unfold setRowValue at hr
  simp only [List.mem_mapIdx] at hr
  obtain ⟨idx, hlt, rfl⟩ := hr
  have hmem : s.rows[idx] ∈ s.rows := List.getElem_mem hlt
  split at hp
  · rcases mem_aset hp with hp | rfl
    · exact hj.rows _ hmem p hp
    · exact hv
  · exact hj.rows _ hmem p hp

theorem writeRow_J {t : Template} {h : Nat} {s6 s8 : St} {u : Unit} (hj : J s6)
    (hw : writeRow t h s6 = .ok (u, s8)) : J s8 ∧ Mono s6 s8 := by
  unfold writeRow at hw
  split at hw
  · simp only [Except.ok.injEq, Prod.mk.injEq] at hw
    obtain ⟨-, rfl⟩ := hw
    exact ⟨hj, Mono.refl _⟩
  · split at hw
    · cases hw
    · next fs s7 hc =>
      simp only [Except.ok.injEq, Prod.mk.injEq] at hw
      obtain ⟨-, rfl⟩ := hw
      obtain ⟨g, hfs⟩ := canonFields_ok _ hj (rowData_vals hj h) hc
      have hj7 := g.j hj
      refine ⟨⟨hj7.good, hj7.slots, hj7.rows, ?_, hj7.opts⟩, g.mono⟩
      intro o ho p hp
      rcases List.mem_append.1 ho with ho | ho
      · exact hj7.out o ho p hp
      · simp only [List.mem_singleton] at ho
        subst ho
        exact hfs p hp

theorem litVal_ok (s : St) (l : Lit) : ValOK s (litVal l) := by
  cases l <;> vtriv

theorem ctx_aset {s : St} {c : Ctx} (hc : CtxOK s c) (k : String) {v : Val} (hv : ValOK s v) :
    CtxOK s { c with vars := aset c.vars k v } := by
  intro p hp
  rcases mem_aset hp with hp | rfl
  · exact hc p hp
  · exact hv

/-! ### the simultaneous induction on fuel -/

def JAll (P : NoIdP) (fuel : Nat) : Prop :=
  (∀ c fd s v s', P.fd fd → J s → CtxOK s c → renderFd fuel c fd s = .ok (v, s') →
      J s' ∧ Mono s s' ∧ ValOK s' v) ∧
  (∀ c t s r s', P.t t → J s → CtxOK s c → execTemplate fuel c t s = .ok (r, s') → J s' ∧ Mono s s') ∧
  (∀ c t i n last s r s', P.t t → J s → CtxOK s c → execRows fuel c t i n last s = .ok (r, s') →
      J s' ∧ Mono s s') ∧
  (∀ c t i s r s', P.t t → J s → CtxOK s c → execRow fuel c t i s = .ok (r, s') →
      J s' ∧ Mono s s' ∧ CtxOK s' r.2) ∧
  (∀ c h fs s u s', P.fs fs → J s → CtxOK s c → execFields fuel c h fs s = .ok (u, s') →
      J s' ∧ Mono s s') ∧
  (∀ c sts cont s c' s', P.st sts → J s → CtxOK s c → execStmts fuel c sts cont s = .ok (c', s') →
      J s' ∧ Mono s s' ∧ CtxOK s' c')

theorem jAll (P : NoIdP) (fuel : Nat) : JAll P fuel := by
  induction fuel with
  | zero =>
    refine ⟨?_, ?_, ?_, ?_, ?_, ?_⟩
    · intro c fd s v s' _ _ _ h; rw [renderFd_zero] at h; cases h
    · intro c t s r s' _ _ _ h; rw [execTemplate_zero] at h; cases h
    · intro c t i n last s r s' _ _ _ h; rw [execRows_zero] at h; cases h
    · intro c t i s r s' _ _ _ h; rw [execRow_zero] at h; cases h
    · intro c hd fs s u s' _ _ _ h; rw [execFields_zero] at h; cases h
    · intro c sts cont s c' s' _ _ _ h; rw [execStmts_zero] at h; cases h
  | succ fuel ih =>
    obtain ⟨ihFd, ihT, ihRows, ihRow, ihF, ihS⟩ := ih
    refine ⟨?_, ?_, ?_, ?_, ?_, ?_⟩
    · intro c fd s v s' hP hj hc h
      cases fd with
      | lit l =>
        cases l with
        | str x =>
          simp only [renderFd] at h
          split at h
          · simp only [Except.ok.injEq, Prod.mk.injEq] at h
            obtain ⟨rfl, rfl⟩ := h; exact ⟨hj, Mono.refl _, by vtriv⟩
          · split at h
            · next v0 hl =>
              simp only [Except.ok.injEq, Prod.mk.injEq] at h
              obtain ⟨rfl, rfl⟩ := h; exact ⟨hj, Mono.refl _, lookForNumber_val hl _⟩
            · cases h
        | int n =>
          simp only [renderFd, Except.ok.injEq, Prod.mk.injEq] at h
          obtain ⟨rfl, rfl⟩ := h; exact ⟨hj, Mono.refl _, litVal_ok _ _⟩
        | bool b =>
          simp only [renderFd, Except.ok.injEq, Prod.mk.injEq] at h
          obtain ⟨rfl, rfl⟩ := h; exact ⟨hj, Mono.refl _, litVal_ok _ _⟩
        | null =>
          simp only [renderFd, Except.ok.injEq, Prod.mk.injEq] at h
          obtain ⟨rfl, rfl⟩ := h; exact ⟨hj, Mono.refl _, litVal_ok _ _⟩
      | tmpl parts =>
        simp only [renderFd] at h
        obtain ⟨g, hv⟩ := renderTmpl_ok hj hc h
        exact ⟨g.j hj, g.mono, hv⟩
      | ref path =>
        simp only [renderFd] at h
        obtain ⟨g, hv⟩ := renderRef_ok hj hc h
        exact ⟨g.j hj, g.mono, hv⟩
      | nested t =>
        have hPt := P.fd_nested hP
        simp only [renderFd] at h
        split at h
        · cases h
        · next s1 ht =>
          simp only [Except.ok.injEq, Prod.mk.injEq] at h
          obtain ⟨rfl, rfl⟩ := h
          obtain ⟨a, b⟩ := ihT _ _ _ _ _ hPt hj hc ht
          exact ⟨a, b, by vtriv⟩
        · next hh s1 ht =>
          simp only [Except.ok.injEq, Prod.mk.injEq] at h
          obtain ⟨rfl, rfl⟩ := h
          obtain ⟨a, b⟩ := ihT _ _ _ _ _ hPt hj hc ht
          exact ⟨a, b, by vtriv⟩
    · intro c t s r s' hP hj hc h
      rw [execTemplate_succ] at h
      split at h
      · cases h
      · next n s1 hcnt =>
        have h1 : J s1 ∧ Mono s s1 := by
          split at hcnt
          · simp only [Except.ok.injEq, Prod.mk.injEq] at hcnt
            obtain ⟨-, rfl⟩ := hcnt; exact ⟨hj, Mono.refl _⟩
          · next fd0 hc0 =>
            split at hcnt
            · cases hcnt
            · next v s2 hfd =>
              split at hcnt
              · cases hcnt
              · simp only [Except.ok.injEq, Prod.mk.injEq] at hcnt
                obtain ⟨-, rfl⟩ := hcnt
                obtain ⟨a, b, -⟩ := ihFd ({ obj := none, vars := c.vars }) _ _ _ _ (P.t_count hP hc0) hj hc hfd
                exact ⟨a, b⟩
        obtain ⟨a, b⟩ := ihRows ({ obj := none, vars := c.vars }) _ _ _ _ _ _ _ hP h1.1 (hc.mono h1.2) h
        exact ⟨a, h1.2.trans b⟩
    · intro c t i n last s r s' hP hj hc h
      rw [execRows_succ] at h
      split at h
      · simp only [Except.ok.injEq, Prod.mk.injEq] at h
        obtain ⟨-, rfl⟩ := h; exact ⟨hj, Mono.refl _⟩
      · split at h
        · cases h
        · next hh c2 s1 hrow =>
          obtain ⟨a1, b1, c1⟩ := ihRow ({ c with vars := aset c.vars "child_index" (.int i) }) _ _ _ _ _ hP hj
            (ctx_aset hc _ (ValOK.int s i)) hrow
          obtain ⟨a2, b2⟩ := ihRows _ _ _ _ _ _ _ _ hP a1 c1 h
          exact ⟨a2, b1.trans b2⟩
    · intro c t i s r s' hP hj hc h
      rw [execRow_succ] at h
      split at h
      · cases h
      · next u6 s6 hf =>
        split at h
        · cases h
        · next u8 s8 hw =>
          split at h
          · cases h
          · next c2 s9 hs =>
            simp only [Except.ok.injEq, Prod.mk.injEq] at h
            obtain ⟨rfl, rfl⟩ := h
            obtain ⟨jA, mA⟩ := regState_J t i hj
            obtain ⟨j6, m6⟩ := ihF ({ c with obj := some s.rows.length }) _ _ _ _ _ (P.t_fields hP) jA (hc.mono mA) hf
            obtain ⟨j8, m8⟩ := writeRow_J j6 hw
            obtain ⟨j9, m9, c9⟩ := ihS ({ c with obj := some s.rows.length }) _ _ _ _ _ (P.t_friends hP) j8 (hc.mono (mA.trans (m6.trans m8))) hs
            exact ⟨j9, mA.trans (m6.trans (m8.trans m9)), c9⟩
    · intro c hd fs s u s' hP hj hc h
      cases fs with
      | nil =>
        rw [execFields_nil] at h
        simp only [Except.ok.injEq, Prod.mk.injEq] at h
        obtain ⟨-, rfl⟩ := h; exact ⟨hj, Mono.refl _⟩
      | cons p rest =>
        obtain ⟨name, fd⟩ := p
        obtain ⟨hne, hPfd, hPrest⟩ := P.fs_cons hP
        rw [execFields_cons] at h
        split at h
        · cases h
        · next v s1 hfd =>
          obtain ⟨j1, m1, v1⟩ := ihFd _ _ _ _ _ hPfd hj hc hfd
          have j2 := setRowValue_J hd hne j1 v1
          have m2 : Mono s1 (setRowValue s1 hd name v) := Mono.of_eq rfl
          obtain ⟨j3, m3⟩ := ihF _ _ _ _ _ _ hPrest j2 (hc.mono (m1.trans m2)) h
          exact ⟨j3, m1.trans (m2.trans m3)⟩
    · intro c sts cont s c' s' hP hj hc h
      cases sts with
      | nil =>
        rw [execStmts_nil] at h
        simp only [Except.ok.injEq, Prod.mk.injEq] at h
        obtain ⟨rfl, rfl⟩ := h; exact ⟨hj, Mono.refl _, hc⟩
      | cons st rest =>
        cases st with
        | var name fd =>
          obtain ⟨hPfd, hPrest⟩ := P.st_var hP
          rw [execStmts_var] at h
          split at h
          · cases h
          · next v s1 hfd =>
            obtain ⟨j1, m1, v1⟩ := ihFd ({ obj := none, vars := c.vars }) _ _ _ _ hPfd hj hc hfd
            obtain ⟨j2, m2, c2⟩ := ihS _ _ _ _ _ _ hPrest j1 (ctx_aset (hc.mono m1) name v1) h
            exact ⟨j2, m1.trans m2, c2⟩
        | obj t =>
          obtain ⟨hPt, hPrest⟩ := P.st_obj hP
          rw [execStmts_obj] at h
          split at h
          · exact ihS _ _ _ _ _ _ hPrest hj hc h
          · split at h
            · cases h
            · next r s1 ht =>
              obtain ⟨j1, m1⟩ := ihT _ _ _ _ _ hPt hj hc ht
              obtain ⟨j2, m2, c2⟩ := ihS _ _ _ _ _ _ hPrest j1 (hc.mono m1) h
              exact ⟨j2, m1.trans m2, c2⟩

/-! ### end of an iteration, continuation -/

theorem aget_map_const {α β : Type} (b : β) (l : AList α) (k : String) {v : β}
    (h : aget (l.map (fun p => (p.1, b))) k = some v) : v = b := by
  have e := aget_map_val (fun _ : α => b) l k
  rw [e] at h
  cases hl : aget l k with
  | none => rw [hl] at h; cases h
  | some w => rw [hl] at h; simp only [Option.map_some, Option.some.injEq] at h; exact h.symm

/-- a slot value frozen at the end of an iteration carries an issued id -/
theorem freezeVal_ok {s : St} (hj : J s) {v : Val} (hv : ValOK s v) : ValOK s (freezeVal s v) := by
  cases v with
  | slot n =>
    intro t k e
    simp only [freezeVal, Val.deadSlot.injEq] at e
    obtain ⟨e1, e2⟩ := e
    cases hsl : aget s.slots n with
    | none => rw [hsl] at e2; cases e2
    | some st =>
      rw [hsl] at e2
      have hmem : n ∈ s.names.map Prod.fst := by
        rw [← hj.good.2.1]; exact aget_mem_keys hsl
      obtain ⟨t0, ht0⟩ := aget_of_mem_keys hmem
      rw [ht0] at e1
      simp only [Option.getD_some] at e1
      subst e1
      cases st with
      | unused => cases e2
      | alloc i =>
        simp only [Option.some.injEq] at e2
        subst e2
        exact inR_of_alloc hj.good hsl ht0
      | consumed i =>
        simp only [Option.some.injEq] at e2
        subst e2
        exact hj.slots n _ _ hsl ht0
  | _ => exact hv

theorem freezeRows_ok {s : St} (hj : J s) : ∀ r ∈ freezeRows s, ∀ p ∈ r.values, ValOK s p.2 := by
  intro r hr p hp
  unfold freezeRows at hr
  obtain ⟨r0, hr0, rfl⟩ := List.mem_map.1 hr
  obtain ⟨q, hq, rfl⟩ := List.mem_map.1 hp
  exact freezeVal_ok hj (hj.rows r0 hr0 q hq)

theorem resetSlots_J {s : St} (hj : J s) (hz : NoAlloc s) : J (resetSlots s) := by
  refine ⟨(resetSlots_good hj.good hz).1, ?_, freezeRows_ok hj, hj.out, hj.opts⟩
  intro n i t h1 _
  have := aget_map_const SlotSt.unused s.names n h1
  cases this

theorem saveLoad_J {s : St} (hj : J s) (hz : NoAlloc s) : J (saveLoad s) := by
  refine ⟨(saveLoad_good hj.good hz).1, ?_, ?_, hj.out, hj.opts⟩
  · intro n i t h1 _
    have := aget_map_const SlotSt.unused s.names n h1
    cases this
  · intro r hr p hp
    unfold saveLoad at hr
    obtain ⟨i, hi, rfl⟩ := List.mem_mapIdx.1 hr
    have hr0 : (freezeRows s)[i] ∈ freezeRows s := List.getElem_mem _
    split at hp
    · exact freezeRows_ok hj _ hr0 p (List.mem_filter.1 hp).1
    · exact freezeRows_ok hj _ hr0 p hp

theorem iterations_J (P : NoIdP) (fuel : Nat) (r : Recipe) (hP : P.st r.statements) (k : Nat) :
    ∀ (c : Ctx) (cont : Bool) (s : St) (c' : Ctx) (s' : St),
      iterations fuel r k c cont s = .ok (c', s') → J s → NoAlloc s → CtxOK s c →
      J s' ∧ NoAlloc s' := by
  induction k with
  | zero =>
    intro c cont s c' s' h hj hz hc
    simp only [iterations, Except.ok.injEq, Prod.mk.injEq] at h
    obtain ⟨-, rfl⟩ := h; exact ⟨hj, hz⟩
  | succ k ih =>
    intro c cont s c' s' h hj hz hc
    simp only [iterations] at h
    split at h
    · cases h
    · next c1 s1 hs =>
      split at h
      · cases h
      · next hnf =>
        obtain ⟨j1, -, hc1⟩ := (jAll P fuel).2.2.2.2.2 _ _ _ _ _ _ hP hj hc hs
        have hz1 := notFilled_noAlloc hnf
        have j2 := resetSlots_J j1 hz1
        have hz2 := (resetSlots_good j1.good hz1).2
        refine ih _ _ _ _ _ h j2 hz2 ?_
        intro p hp
        obtain ⟨q, hq, rfl⟩ := List.mem_map.1 hp
        exact freezeVal_ok j1 (hc1 q hq)

theorem chain_J (P : NoIdP) (fuel : Nat) (r : Recipe) (hP : P.st r.statements) (fs : Bool)
    (parts : List Nat) : ∀ (cont : Bool) (s s' : St),
      chain fuel r fs parts cont s = .ok s' → J s → NoAlloc s → J s' ∧ NoAlloc s' := by
  induction parts with
  | nil =>
    intro cont s s' h hj hz
    simp only [chain, Except.ok.injEq] at h
    subst h; exact ⟨hj, hz⟩
  | cons k ks ih =>
    intro cont s s' h hj hz
    simp only [chain] at h
    split at h
    · cases h
    · next c1 s1 hi =>
      split at h
      · cases h
      · obtain ⟨j1, hz1⟩ := iterations_J P fuel r hP k _ _ _ _ _ hi hj hz
          (fun p hp => by cases hp)
        exact ih _ _ _ h (saveLoad_J j1 hz1) (saveLoad_good j1.good hz1).2.1

theorem initSt_J (r : Recipe) : J (initSt r) := by
  refine ⟨(initSt_good r).1, ?_, ?_, ?_, ?_⟩
  · intro n i t h1 _
    have := aget_map_const SlotSt.unused (topNames r.statements) n h1
    cases this
  · intro r' hr; cases hr
  · intro o ho; cases ho
  · intro p hp
    unfold initSt at hp
    obtain ⟨q, -, rfl⟩ := List.mem_map.1 hp
    exact litVal_ok _ _

/-! ### conclusions for a completed chain -/

theorem mem_rIds_of_inR {s : St} (hg : Good s) (hz : NoAlloc s) {t : String} {i : Nat}
    (h : InR s t i) : i ∈ rIdsOf s.rows t := by
  have hp := hg.2.2.2 t
  rw [hz t, List.append_nil] at hp
  rw [hp.mem_iff, List.mem_range'_1]
  unfold InR at h
  omega

theorem chain_refs (P : NoIdP) (fuel : Nat) (r : Recipe) (hP : P.st r.statements) (fs : Bool)
    (parts : List Nat) (s : St) (h : chain fuel r fs parts false (initSt r) = .ok s) :
    ∀ o ∈ s.out, ∀ p ∈ o.fields, ∀ t i, p.2 = .ref t i →
      i ∈ rIdsOf s.rows t ∧ 1 ≤ i ∧ i ≤ lastOfL s.lastUsed t := by
  obtain ⟨hj, hz⟩ := chain_J P fuel r hP fs parts _ _ _ h (initSt_J r) (initSt_good r).2
  intro o ho p hp t i e
  have hr := hj.out o ho p hp t i e
  exact ⟨mem_rIds_of_inR hj.good hz hr, hr.1, hr.2⟩

end SnowModel.L2
