import SnowModel.Core.L2
