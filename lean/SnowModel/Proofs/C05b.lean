/-
C05 — helper lemmas, part 2: dump ∘ parse ∘ setstate, element by element.
-/
import SnowModel.Proofs.C05

namespace SnowModel.Persist

/-! ### values of one row -/

def Val.isSc : Val → Bool
  | .sc _ => true
  | _ => false

/-- the token written for a representable value -/
def tok {τ : Type} (Y : Yaml τ) : Val → τ
  | .sc s => Y.dump s
  | _ => Y.dump .null

theorem dumpValues_ok_iff {τ : Type} (Y : Yaml τ) (d : Dict Val) :
    (∃ d', dumpValues Y d = .ok d') ↔ ∀ kv ∈ d, kv.2.isSc = true := by
  induction d with
  | nil => simp [dumpValues]
  | cons hd t ih =>
    obtain ⟨k, v⟩ := hd
    cases v with
    | sc s =>
      simp only [dumpValues, represent]
      constructor
      · rintro ⟨d', h⟩ kv hkv
        rcases List.mem_cons.mp hkv with rfl | hkv
        · rfl
        · cases h2 : dumpValues Y t with
          | error e => rw [h2] at h; cases h
          | ok t' => exact ih.mp ⟨t', h2⟩ kv hkv
      · intro h
        obtain ⟨t', ht⟩ := ih.mpr (fun kv hkv => h kv (List.mem_cons_of_mem _ hkv))
        rw [ht]; exact ⟨_, rfl⟩
    | row a b => simp [dumpValues, represent, Val.isSc]
    | slot a => simp [dumpValues, represent, Val.isSc]
    | other a => simp [dumpValues, represent, Val.isSc]

theorem dumpValues_eq {τ : Type} (Y : Yaml τ) (d : Dict Val) (d' : Dict τ) (h : dumpValues Y d = .ok d') :
    d' = mapD (tok Y) d := by
  induction d generalizing d' with
  | nil => simp [dumpValues] at h; subst h; rfl
  | cons hd t ih =>
    obtain ⟨k, v⟩ := hd
    cases v with
    | sc s =>
      simp only [dumpValues, represent] at h
      cases h2 : dumpValues Y t with
      | error e => rw [h2] at h; cases h
      | ok t' =>
        rw [h2] at h
        cases h
        rw [ih t' h2]; rfl
    | row a b => simp [dumpValues, represent] at h
    | slot a => simp [dumpValues, represent] at h
    | other a => simp [dumpValues, represent] at h

/-- under the scalar contract the values written are the values read, with their types -/
theorem values_roundtrip {τ : Type} (Y : Yaml τ) (hY : Lawful Y) (d : Dict Val)
    (h : ∀ kv ∈ d, kv.2.isSc = true) : mapD Val.sc (mapD Y.load (mapD (tok Y) d)) = d := by
  induction d with
  | nil => rfl
  | cons hd t ih =>
    obtain ⟨k, v⟩ := hd
    have hv := h (k, v) (List.mem_cons_self ..)
    have ht := ih (fun kv hkv => h kv (List.mem_cons_of_mem _ hkv))
    cases v with
    | sc s =>
      simp only [mapD, List.map_cons, tok, hY s] at ht ⊢
      rw [ht]
    | row a b => simp [Val.isSc] at hv
    | slot a => simp [Val.isSc] at hv
    | other a => simp [Val.isSc] at hv

theorem keptValues_noRow (d : Dict Val) : ∀ kv ∈ keptValues d, kv.2.isRow = false := by
  intro kv h
  simpa [keptValues] using (List.mem_filter.mp h).2

theorem keptValues_of_noRow (d : Dict Val) (h : ∀ kv ∈ d, kv.2.isRow = false) : keptValues d = d := by
  unfold keptValues
  apply List.filter_eq_self.mpr
  intro kv hkv
  simp [h kv hkv]

theorem keptValues_sortD_kept (d : Dict Val) :
    keptValues (sortD (keptValues d)) = sortD (keptValues d) :=
  keptValues_of_noRow _ (fun kv h => keptValues_noRow d kv ((mem_sortD _ kv).mp h))

/-! ### one row -/

theorem sortD_rowGetstate (r : Row) : sortD (rowGetstate r) = rowGetstate r := by
  have : kRowTable ≤ kRowValues := by decide
  simp [rowGetstate, sortD, insertD, this]

theorem dumpRowEntries_rowGetstate {τ : Type} (Y : Yaml τ) (r : Row) :
    dumpRowEntries Y (rowGetstate r) =
      match dumpValues Y (sortD (keptValues r.values)) with
      | .error e => .error e
      | .ok d' => .ok [(kRowTable, .name r.table), (kRowValues, .values d')] := by
  simp only [rowGetstate, dumpRowEntries]
  cases dumpValues Y (sortD (keptValues r.values)) <;> rfl

theorem rowSetstate_parsed {τ : Type} (Y : Yaml τ) (t : String) (d' : Dict τ) :
    rowSetstate (mapD (parseRowEntry Y) [(kRowTable, .name t), (kRowValues, .values d')]) =
      .ok ⟨t, mapD Val.sc (mapD Y.load d')⟩ := by
  have h1 : (kRowValues = kRowTable) = False := by decide
  simp [rowSetstate, mapD, parseRowEntry, lookupD, h1]

/-! ### a dict of rows -/

theorem dumpRows_roundtrip {τ : Type} (Y : Yaml τ) (hY : Lawful Y) (l : Dict Row)
    (rn : Dict (Dict (RowEntry τ)))
    (h : dumpRows Y (mapD rowGetstate l) = .ok rn) :
    rowsSetstate (mapD (mapD (parseRowEntry Y)) rn)
      = .ok (mapD (fun r => canonRow (stripRow r)) l) := by
  induction l generalizing rn with
  | nil =>
    simp [mapD, dumpRows] at h; subst h; rfl
  | cons hd t ih =>
    obtain ⟨k, r⟩ := hd
    simp only [mapD, List.map_cons, dumpRows] at h
    rw [sortD_rowGetstate, dumpRowEntries_rowGetstate] at h
    cases hv : dumpValues Y (sortD (keptValues r.values)) with
    | error e => rw [hv] at h; cases h
    | ok d' =>
      rw [hv] at h
      simp only at h
      cases ht : dumpRows Y (List.map (fun kv => (kv.1, rowGetstate kv.2)) t) with
      | error e => rw [ht] at h; cases h
      | ok t' =>
        rw [ht] at h
        cases h
        have iht := ih t' ht
        have hsc : ∀ kv ∈ sortD (keptValues r.values), kv.2.isSc = true :=
          (dumpValues_ok_iff Y _).mp ⟨d', hv⟩
        have hd' := dumpValues_eq Y _ d' hv
        subst hd'
        have hrow := rowSetstate_parsed Y r.table (mapD (tok Y) (sortD (keptValues r.values)))
        rw [values_roundtrip Y hY _ hsc] at hrow
        simp only [mapD, List.map_cons, rowsSetstate] at iht hrow ⊢
        rw [hrow, iht]
        rfl

/-- the dump of a dict of rows does not see the difference between the rows and their stripped,
    key-sorted form -/
theorem dumpRows_canon {τ : Type} (Y : Yaml τ) (l : Dict Row) :
    dumpRows Y (mapD rowGetstate (mapD (fun r => canonRow (stripRow r)) l))
      = dumpRows Y (mapD rowGetstate l) := by
  induction l with
  | nil => rfl
  | cons hd t ih =>
    obtain ⟨k, r⟩ := hd
    simp only [mapD, List.map_cons, dumpRows] at ih ⊢
    rw [sortD_rowGetstate, sortD_rowGetstate, dumpRowEntries_rowGetstate, dumpRowEntries_rowGetstate, ih]
    simp only [canonRow, stripRow]
    rw [keptValues_sortD_kept, sortD_idem]

/-- `dumpRows` succeeds exactly when every remaining value of every row is a scalar -/
theorem dumpRows_ok_iff {τ : Type} (Y : Yaml τ) (l : Dict Row) :
    (∃ rn, dumpRows Y (mapD rowGetstate l) = .ok rn) ↔
      ∀ kr ∈ l, ∀ kv ∈ keptValues kr.2.values, kv.2.isSc = true := by
  induction l with
  | nil => simp [mapD, dumpRows]
  | cons hd t ih =>
    obtain ⟨k, r⟩ := hd
    simp only [mapD, List.map_cons, dumpRows, List.mem_cons, forall_eq_or_imp] at ih ⊢
    rw [sortD_rowGetstate, dumpRowEntries_rowGetstate, ← ih]
    have hiff := dumpValues_ok_iff Y (sortD (keptValues r.values))
    constructor
    · rintro ⟨rn, h⟩
      cases hv : dumpValues Y (sortD (keptValues r.values)) with
      | error e => rw [hv] at h; cases h
      | ok d' =>
        rw [hv] at h
        simp only at h
        refine ⟨fun kv hkv => hiff.mp ⟨d', hv⟩ kv ((mem_sortD _ kv).mpr hkv), ?_⟩
        cases ht : dumpRows Y (List.map (fun kv => (kv.1, rowGetstate kv.2)) t) with
        | error e => rw [ht] at h; cases h
        | ok t' => exact ⟨t', rfl⟩
    · rintro ⟨h1, t', ht⟩
      obtain ⟨d', hv⟩ := hiff.mpr (fun kv hkv => h1 kv ((mem_sortD _ kv).mp hkv))
      rw [hv, ht]
      exact ⟨_, rfl⟩

theorem kept_isSc_iff_storable (r : Row) :
    (∀ kv ∈ keptValues r.values, kv.2.isSc = true) ↔ r.storable = true := by
  simp only [Row.storable, List.all_eq_true, keptValues, List.mem_filter]
  constructor
  · intro h kv hkv
    cases hv : kv.2 with
    | sc s => rfl
    | row a b => rfl
    | slot s => have := h kv ⟨hkv, by simp [hv, Val.isRow]⟩; simp [hv, Val.isSc] at this
    | other s => have := h kv ⟨hkv, by simp [hv, Val.isRow]⟩; simp [hv, Val.isSc] at this
  · rintro h kv ⟨hkv, hnr⟩
    have := h kv hkv
    cases hv : kv.2 with
    | sc s => rfl
    | row a b => simp [hv, Val.isRow] at hnr
    | slot s => simp [hv, Val.storable] at this
    | other s => simp [hv, Val.storable] at this

/-! ### dependencies -/

theorem depSetstate_getstate (d : Dep) : depSetstate (sortD (depGetstate d)) = .ok d := by
  have h1 : (kDepFrom ≤ kDepTo) = True := by decide
  have h2 : (kDepFrom ≤ kDepField) = False := by decide
  have h3 : (kDepTo ≤ kDepField) = False := by decide
  have e1 : (kDepFrom = kDepField) = False := by decide
  have e2 : (kDepTo = kDepField) = False := by decide
  have e3 : (kDepTo = kDepFrom) = False := by decide
  simp [depGetstate, sortD, insertD, depSetstate, lookupD, h1, h2, h3, e1, e2, e3]

theorem depsSetstate_nodup (acc l : List Dep) (h : (acc ++ l).Nodup) :
    depsSetstate acc (l.map (fun d => sortD (depGetstate d))) = .ok (acc ++ l) := by
  induction l generalizing acc with
  | nil => simp [depsSetstate]
  | cons d t ih =>
    simp only [List.map_cons, depsSetstate, depSetstate_getstate]
    have hd : d ∉ acc := by
      intro hm
      have := List.nodup_append.mp h
      exact this.2.2 d hm d (List.mem_cons_self ..) rfl
    have : addDep acc d = acc ++ [d] := by simp [addDep, hd]
    rw [this, ih (acc ++ [d]) (by simpa using h)]
    simp

end SnowModel.Persist
